(** C12 -- shape calculus: element counts, (nested) shapes, broadcasting, the collapse /
    blocking rules of scico/operator/_stack.py, and the dtype lattice with result_type. *)
From Coq Require Import List Bool ZArith Lia.
Import ListNotations.
Open Scope Z_scope.

(* ------------------------------------------------------------------ *)
(** * dtypes: the four floating dtypes scico operators are declared with *)

Inductive dt := F32 | F64 | C64 | C128.

Definition is_cplx (d : dt) : bool := match d with C64 | C128 => true | _ => false end.
Definition is_64 (d : dt) : bool := match d with F64 | C128 => true | _ => false end.
Definition mkdt (c w : bool) : dt :=
  if c then (if w then C128 else C64) else (if w then F64 else F32).

(** jax.dtypes.result_type / jnp promotion restricted to these four dtypes *)
Definition join (a b : dt) : dt := mkdt (is_cplx a || is_cplx b) (is_64 a || is_64 b).

Definition dt_eqb (a b : dt) : bool :=
  match a, b with F32, F32 | F64, F64 | C64, C64 | C128, C128 => true | _, _ => false end.

Lemma dt_eqb_eq a b : dt_eqb a b = true <-> a = b.
Proof. destruct a, b; simpl; split; intro H; try reflexivity; try discriminate. Qed.
Lemma dt_eqb_refl a : dt_eqb a a = true.
Proof. destruct a; reflexivity. Qed.

(** scalars: Python float / complex are weakly typed, NumPy scalars carry a dtype *)
Inductive scal := SWeakR | SWeakC | STyped (d : dt).
Definition rt_scal (d : dt) (s : scal) : dt :=
  match s with
  | SWeakR => d
  | SWeakC => mkdt true (is_64 d)
  | STyped d' => join d d'
  end.
Definition real_of (d : dt) : dt := mkdt false (is_64 d).

Lemma join_comm a b : join a b = join b a.
Proof. destruct a, b; reflexivity. Qed.
Lemma join_assoc a b c : join a (join b c) = join (join a b) c.
Proof. destruct a, b, c; reflexivity. Qed.
Lemma join_idem a : join a a = a.
Proof. destruct a; reflexivity. Qed.
Lemma join_F32_l a : join F32 a = a.
Proof. destruct a; reflexivity. Qed.
Lemma join_F32_r a : join a F32 = a.
Proof. destruct a; reflexivity. Qed.
Lemma join_absorb a b : join (join a b) b = join a b.
Proof. destruct a, b; reflexivity. Qed.
Lemma join_ub_l a b : join a (join a b) = join a b.
Proof. destruct a, b; reflexivity. Qed.
Lemma rt_scal_idem d s : rt_scal (rt_scal d s) s = rt_scal d s.
Proof. destruct d, s as [| |[]]; reflexivity. Qed.

(* ------------------------------------------------------------------ *)
(** * shapes *)

Definition shape := list Z.
Inductive nshape := Plain (s : shape) | Block (ss : list shape).

Definition prodZ (s : shape) : Z := fold_right Z.mul 1 s.
Definition sumZ (l : list Z) : Z := fold_right Z.add 0 l.

(** scico.numpy.util.shape_to_size *)
Definition size (n : nshape) : Z :=
  match n with
  | Plain s => prodZ s
  | Block ss => sumZ (map prodZ ss)
  end.

Definition is_nested (n : nshape) : bool := match n with Plain _ => false | Block _ => true end.

Fixpoint shape_eqb (a b : shape) : bool :=
  match a, b with
  | [], [] => true
  | x :: a', y :: b' => (x =? y) && shape_eqb a' b'
  | _, _ => false
  end.
Fixpoint shapes_eqb (a b : list shape) : bool :=
  match a, b with
  | [], [] => true
  | x :: a', y :: b' => shape_eqb x y && shapes_eqb a' b'
  | _, _ => false
  end.
Definition nshape_eqb (a b : nshape) : bool :=
  match a, b with
  | Plain x, Plain y => shape_eqb x y
  | Block x, Block y => shapes_eqb x y
  | _, _ => false
  end.

Lemma shape_eqb_eq a : forall b, shape_eqb a b = true <-> a = b.
Proof.
  induction a as [|x a IH]; destruct b as [|y b]; simpl; split; intro H;
    try reflexivity; try discriminate.
  - apply andb_true_iff in H as [H1 H2]. apply Z.eqb_eq in H1. apply IH in H2. congruence.
  - injection H as -> ->. rewrite Z.eqb_refl. simpl. apply IH. reflexivity.
Qed.
Lemma shapes_eqb_eq a : forall b, shapes_eqb a b = true <-> a = b.
Proof.
  induction a as [|x a IH]; destruct b as [|y b]; simpl; split; intro H;
    try reflexivity; try discriminate.
  - apply andb_true_iff in H as [H1 H2]. apply shape_eqb_eq in H1. apply IH in H2. congruence.
  - injection H as -> ->. apply andb_true_iff. split. apply shape_eqb_eq; reflexivity.
    apply IH; reflexivity.
Qed.
Lemma nshape_eqb_eq a b : nshape_eqb a b = true <-> a = b.
Proof.
  destruct a, b; simpl; split; intro H; try discriminate.
  - apply shape_eqb_eq in H; congruence.
  - injection H as ->. apply shape_eqb_eq; reflexivity.
  - apply shapes_eqb_eq in H; congruence.
  - injection H as ->. apply shapes_eqb_eq; reflexivity.
Qed.
Lemma nshape_eqb_refl a : nshape_eqb a a = true.
Proof. apply nshape_eqb_eq; reflexivity. Qed.
Lemma shape_eqb_refl a : shape_eqb a a = true.
Proof. apply shape_eqb_eq; reflexivity. Qed.

(* ------------------------------------------------------------------ *)
(** * broadcasting (numpy.broadcast_shapes for two shapes) *)

Fixpoint bc_rev (a b : shape) : option shape :=
  match a, b with
  | [], _ => Some b
  | _, [] => Some a
  | x :: a', y :: b' =>
      match bc_rev a' b' with
      | None => None
      | Some r =>
          if x =? y then Some (x :: r)
          else if x =? 1 then Some (y :: r)
          else if y =? 1 then Some (x :: r)
          else None
      end
  end.

Definition broadcast (a b : shape) : option shape :=
  option_map (@rev Z) (bc_rev (rev a) (rev b)).

Fixpoint map2o {A B C} (f : A -> B -> option C) (l : list A) (m : list B) : option (list C) :=
  match l, m with
  | [], _ => Some []
  | _, [] => Some []
  | x :: l', y :: m' =>
      match f x y, map2o f l' m' with
      | Some z, Some r => Some (z :: r)
      | _, _ => None
      end
  end.

Fixpoint mapo {A B} (f : A -> option B) (l : list A) : option (list B) :=
  match l with
  | [] => Some []
  | x :: t => match f x, mapo f t with Some y, Some r => Some (y :: r) | _, _ => None end
  end.

(** scico.numpy.util.broadcast_nested_shapes *)
Definition broadcast_nested (a b : nshape) : option nshape :=
  match a, b with
  | Plain x, Plain y => option_map Plain (broadcast x y)
  | Block xs, Plain y => option_map Block (mapo (fun x => broadcast x y) xs)
  | Plain x, Block ys => option_map Block (mapo (fun y => broadcast x y) ys)
  | Block xs, Block ys => option_map Block (map2o broadcast xs ys)
  end.

Lemma bc_rev_comm a : forall b, bc_rev a b = bc_rev b a.
Proof.
  induction a as [|x a IH]; destruct b as [|y b]; simpl; try reflexivity.
  rewrite IH. destruct (bc_rev b a); [|reflexivity].
  destruct (x =? y) eqn:E1.
  - apply Z.eqb_eq in E1. subst. rewrite Z.eqb_refl. reflexivity.
  - rewrite Z.eqb_sym in E1. rewrite E1.
    destruct (x =? 1) eqn:E2, (y =? 1) eqn:E3; try reflexivity.
    apply Z.eqb_eq in E2, E3. subst. rewrite Z.eqb_refl in E1. discriminate.
Qed.
Lemma broadcast_comm a b : broadcast a b = broadcast b a.
Proof. unfold broadcast. rewrite bc_rev_comm. reflexivity. Qed.

Lemma bc_rev_idem a : bc_rev a a = Some a.
Proof. induction a as [|x a IH]; simpl; [reflexivity|]. rewrite IH, Z.eqb_refl. reflexivity. Qed.
Lemma broadcast_idem a : broadcast a a = Some a.
Proof. unfold broadcast. rewrite bc_rev_idem. simpl. rewrite rev_involutive. reflexivity. Qed.

Lemma bc_rev_nil_r a : bc_rev a [] = Some a.
Proof. destruct a; reflexivity. Qed.
(** a 0-dimensional array (the ScaledIdentity diagonal) broadcasts to anything *)
Lemma broadcast_scalar a : broadcast a [] = Some a.
Proof. unfold broadcast. simpl. rewrite bc_rev_nil_r. simpl. rewrite rev_involutive. reflexivity. Qed.

(** the broadcast result absorbs both operands: (a * x) has the shape an operator with
    output shape [broadcast a b] declares, and broadcasting it again changes nothing *)
Lemma bc_rev_absorb a : forall b c, bc_rev a b = Some c -> bc_rev c a = Some c /\ bc_rev c b = Some c.
Proof.
  induction a as [|x a IH]; intros b c H.
  - simpl in H. injection H as ->. split; [apply bc_rev_nil_r | apply bc_rev_idem].
  - destruct b as [|y b].
    + simpl in H. injection H as <-. split; [apply bc_rev_idem | apply bc_rev_nil_r].
    + simpl in H. destruct (bc_rev a b) as [r|] eqn:E; [|discriminate].
      destruct (IH _ _ E) as [I1 I2].
      destruct (x =? y) eqn:E1.
      * apply Z.eqb_eq in E1. subst. injection H as <-. simpl. rewrite I1, I2, Z.eqb_refl. auto.
      * destruct (x =? 1) eqn:E2.
        -- injection H as <-. simpl. rewrite I1, I2, Z.eqb_refl.
           rewrite Z.eqb_sym in E1. rewrite E1.
           apply Z.eqb_eq in E2. subst.
           destruct (y =? 1) eqn:E3; [apply Z.eqb_eq in E3; subst; discriminate|].
           rewrite Z.eqb_refl. auto.
        -- destruct (y =? 1) eqn:E3; [|discriminate].
           injection H as <-. simpl. rewrite I1, I2, Z.eqb_refl, E1, E2, E3. auto.
Qed.

(* ------------------------------------------------------------------ *)
(** * collapse / blocking rules (scico/operator/_stack.py) *)

(** [all(s == shapes[0] for s in shapes)]  (IndexError on the empty list is not modelled:
    it is [true] there, as [all] of an empty generator never evaluates shapes[0]) *)
Definition is_collapsible (l : list nshape) : bool :=
  match l with
  | [] => true
  | s0 :: _ => forallb (nshape_eqb s0) l
  end.

Definition is_blockable (l : list nshape) : bool := negb (existsb is_nested l).

Definition plain_of (n : nshape) : option shape := match n with Plain s => Some s | _ => None end.

(** [(len(shapes), *shapes[0])]: for a nested shapes[0] this is a tuple mixing an int and
    tuples, for which shape_to_size raises TypeError in Operator.__init__: modelled as [None] *)
Definition collapsed (l : list nshape) : option nshape :=
  match l with
  | Plain s :: _ => Some (Plain (Z.of_nat (length l) :: s))
  | _ => None
  end.

(** result: [None] = exception; [Some (shape, was_collapsed)] *)
Definition collapse_shapes (l : list nshape) (allow : bool) : option (nshape * bool) :=
  if is_collapsible l && allow then option_map (fun s => (s, true)) (collapsed l)
  else if is_blockable l then option_map (fun ss => (Block ss, false)) (mapo plain_of l)
  else None.

(** ** the documented rule *)

Lemma is_collapsible_spec l : is_collapsible l = true <-> forall s, In s l -> Some s = hd_error l.
Proof.
  destruct l as [|s0 l]; simpl.
  - split; [intros _ s []|reflexivity].
  - split.
    + intros H s Hin. apply andb_true_iff in H as [_ H].
      destruct Hin as [<-|Hin]; [reflexivity|].
      rewrite forallb_forall in H. apply H in Hin. apply nshape_eqb_eq in Hin. congruence.
    + intros H. apply andb_true_iff. split; [apply nshape_eqb_refl|].
      apply forallb_forall. intros s Hin. apply nshape_eqb_eq.
      specialize (H s (or_intror Hin)). congruence.
Qed.

Lemma is_blockable_spec l : is_blockable l = true <-> forall s, In s l -> exists p, s = Plain p.
Proof.
  unfold is_blockable. rewrite negb_true_iff. split.
  - intros H s Hin. destruct s as [p|ss]; [eauto|].
    assert (existsb is_nested l = true) by (apply existsb_exists; exists (Block ss); auto).
    congruence.
  - intros H. destruct (existsb is_nested l) eqn:E; [|reflexivity].
    apply existsb_exists in E as [s [Hin Hn]]. destruct (H s Hin) as [p ->]. discriminate.
Qed.

Lemma mapo_plain_of l : (forall s, In s l -> exists p, s = Plain p) ->
  exists ps, mapo plain_of l = Some ps /\ l = map Plain ps.
Proof.
  induction l as [|s l IH]; intros H.
  - exists []. auto.
  - destruct (H s (or_introl eq_refl)) as [p ->].
    destruct IH as [ps [E1 E2]]; [intros; apply H; right; assumption|].
    exists (p :: ps). simpl. rewrite E1. subst. auto.
Qed.

(** plain (un-nested) operand shapes: collapse iff all equal and allowed, else a block shape;
    in both cases the element count is the sum of the operand counts *)
Theorem collapse_shapes_plain : forall (ps : list shape) (allow : bool),
  ps <> [] ->
  let l := map Plain ps in
  (is_collapsible l && allow = true ->
     collapse_shapes l allow = Some (Plain (Z.of_nat (length ps) :: hd [] ps), true)) /\
  (is_collapsible l && allow = false -> collapse_shapes l allow = Some (Block ps, false)).
Proof.
  intros ps allow Hne l. subst l. unfold collapse_shapes. split; intros H; rewrite H.
  - destruct ps as [|p ps]; [congruence|]. simpl. rewrite map_length. reflexivity.
  - assert (Hb : is_blockable (map Plain ps) = true).
    { apply is_blockable_spec. intros s Hin. apply in_map_iff in Hin as [p [<- _]]. eauto. }
    rewrite Hb. clear. induction ps as [|p ps IH]; [reflexivity|].
    simpl in *. destruct (mapo plain_of (map Plain ps)); simpl in *; [|discriminate].
    injection IH as ->. reflexivity.
Qed.

Theorem collapse_shapes_nested_rejected : forall l allow,
  is_collapsible l && allow = false -> is_blockable l = false -> collapse_shapes l allow = None.
Proof. intros l allow H1 H2. unfold collapse_shapes. rewrite H1, H2. reflexivity. Qed.

Lemma sumZ_repeat (x : Z) n : sumZ (repeat x n) = Z.of_nat n * x.
Proof. induction n as [|n IH]; [reflexivity|]. cbn [repeat sumZ fold_right] in *. unfold sumZ in IH. rewrite IH. lia. Qed.

Lemma map_repeat' {A B} (f : A -> B) x n : map f (repeat x n) = repeat (f x) n.
Proof. induction n as [|n IH]; simpl; [reflexivity|]. rewrite IH. reflexivity. Qed.

Lemma all_eq_repeat (s0 : nshape) l : forallb (nshape_eqb s0) l = true -> l = repeat s0 (length l).
Proof.
  induction l as [|s l IH]; simpl; [reflexivity|]. intros H. apply andb_true_iff in H as [H1 H2].
  apply nshape_eqb_eq in H1. subst. f_equal. apply IH. assumption.
Qed.

(** element count of the stacked shape = sum of the element counts of the components *)
Theorem collapse_shapes_size : forall l allow s b,
  collapse_shapes l allow = Some (s, b) -> size s = sumZ (map size l).
Proof.
  intros l allow s b. unfold collapse_shapes.
  destruct (is_collapsible l && allow) eqn:E.
  - apply andb_true_iff in E as [E _].
    destruct l as [|[p|ss] l]; simpl; try discriminate.
    intros H. injection H as <- <-. simpl in E. apply andb_true_iff in E as [_ E].
    apply all_eq_repeat in E. rewrite E at 2. rewrite map_repeat'.
    change (size (Plain p)) with (prodZ p).
    cbn [size prodZ fold_right]. fold (prodZ p).
    pose proof (sumZ_repeat (prodZ p) (length l)) as R. unfold sumZ in *. rewrite R.
    rewrite Zpos_P_of_succ_nat. lia.
  - destruct (is_blockable l) eqn:B; [|discriminate].
    pose proof (proj1 (is_blockable_spec l) B) as B'.
    apply mapo_plain_of in B' as [ps [E1 E2]]. rewrite E1. simpl.
    intros H. injection H as <- <-. subst l. simpl. rewrite map_map. reflexivity.
Qed.

(** [size] of a plain shape with a leading axis (stack of [n] arrays of shape [s]) *)
Lemma size_cons n s : size (Plain (n :: s)) = n * size (Plain s).
Proof. reflexivity. Qed.

Lemma prodZ_app a b : prodZ (a ++ b) = prodZ a * prodZ b.
Proof. induction a as [|x a IH]; simpl; [destruct (prodZ b); reflexivity|]. rewrite IH. lia. Qed.

(** inserting a replication axis (DiagonalReplicated) multiplies the element count *)
Definition insert_at (k : nat) (r : Z) (s : shape) : shape := firstn k s ++ r :: skipn k s.
Definition remove_at (k : nat) (s : shape) : shape := firstn k s ++ skipn (S k) s.

Theorem size_insert_at k r s : prodZ (insert_at k r s) = r * prodZ s.
Proof.
  unfold insert_at. rewrite prodZ_app. cbn [prodZ fold_right]. fold (prodZ (skipn k s)).
  rewrite <- (firstn_skipn k s) at 3. rewrite prodZ_app. lia.
Qed.

Lemma remove_insert_aux (a : shape) r b :
  firstn (length a) (a ++ r :: b) ++ skipn (S (length a)) (a ++ r :: b) = a ++ b.
Proof. induction a as [|x a IH]; simpl; [reflexivity|]. simpl in IH. rewrite IH. reflexivity. Qed.

Lemma remove_insert_at k r s : (k <= length s)%nat -> remove_at k (insert_at k r s) = s.
Proof.
  intros H. unfold remove_at, insert_at.
  pose proof (remove_insert_aux (firstn k s) r (skipn k s)) as A.
  rewrite firstn_length_le in A by assumption. rewrite A. apply firstn_skipn.
Qed.

(** matrix_shape = (output_size, input_size) *)
Definition matrix_shape (o i : nshape) : Z * Z := (size o, size i).
