(** C12 -- Python slice semantics, scico.numpy.util.slice_length / indexed_shape.

    Models (all executable, over [Z]):
    - [slice_indices]   : CPython [slice.indices(n)] (sliceobject.c, _PySlice_GetLongIndices)
    - [range_len]       : CPython [len(range(start, stop, step))] (compute_range_length)
    - [py_range]        : the *enumerated* range (the elements a Python loop / NumPy slicing visits)
    - [slice_length]    : scico.numpy.util.slice_length, transcribed line by line
                          (current tree: len(range(..indices(length))))
    - [indexed_shape]   : scico.numpy.util.indexed_shape, transcribed with Python list
                          semantics (negative indices wrap, [insert] clamps)
    - [np_index_shape]  : shape of NumPy basic indexing (specification side)

    Theorems are at the end of the file; they are re-stated in Properties/C12.v. *)
From Coq Require Import List Bool ZArith Lia.
Import ListNotations.
Open Scope Z_scope.

(* ------------------------------------------------------------------ *)
(** * Python slice objects and [slice.indices] *)

Record pslice := mkslice { sl_start : option Z; sl_stop : option Z; sl_step : option Z }.

Definition adj_idx (n lower upper : Z) (o : option Z) (dflt : Z) : Z :=
  match o with
  | None => dflt
  | Some v => if v <? 0 then Z.max (v + n) lower else Z.min v upper
  end.

(** [None] = ValueError (slice step cannot be zero) *)
Definition slice_indices (n : Z) (s : pslice) : option (Z * Z * Z) :=
  let step := match sl_step s with None => 1 | Some k => k end in
  if step =? 0 then None else
  let neg := step <? 0 in
  let lower := if neg then -1 else 0 in
  let upper := if neg then n - 1 else n in
  let start := adj_idx n lower upper (sl_start s) (if neg then upper else lower) in
  let stop := adj_idx n lower upper (sl_stop s) (if neg then lower else upper) in
  Some (start, stop, step).

(* ------------------------------------------------------------------ *)
(** * Ranges *)

(** CPython compute_range_length *)
Definition range_len (start stop step : Z) : Z :=
  if 0 <? step then (if start <? stop then (stop - start - 1) / step + 1 else 0)
  else if step <? 0 then (if stop <? start then (start - stop - 1) / (- step) + 1 else 0)
  else 0.

Definition in_range (i stop step : Z) : bool :=
  if 0 <? step then i <? stop else if step <? 0 then stop <? i else false.

(** the elements visited: i, i+step, i+2 step, ... while on the near side of [stop] *)
Fixpoint range_enum (fuel : nat) (i stop step : Z) : list Z :=
  match fuel with
  | O => []
  | S f => if in_range i stop step then i :: range_enum f (i + step) stop step else []
  end.

Definition py_range (start stop step : Z) : list Z :=
  range_enum (Z.to_nat (Z.abs (stop - start))) start stop step.

(** the indices selected by [x[s]] on an axis of length [n] *)
Definition slice_elems (n : Z) (s : pslice) : option (list Z) :=
  match slice_indices n s with
  | None => None
  | Some (a, b, k) => Some (py_range a b k)
  end.

(** the *correct* length of a sliced axis *)
Definition slice_len_spec (n : Z) (s : pslice) : option Z :=
  match slice_indices n s with
  | None => None
  | Some (a, b, k) => Some (range_len a b k)
  end.

(* ------------------------------------------------------------------ *)
(** * scico.numpy.util.slice_length *)

Inductive aidx :=
| IEll                      (* Ellipsis *)
| INew                      (* None / np.newaxis *)
| IInt (k : Z)
| ISlice (s : pslice).

Inductive slres :=
| SLErr                     (* ValueError *)
| SLNone                    (* valid integer index: axis disappears *)
| SLLen (l : Z).

Definition slice_length (n : Z) (i : aidx) : slres :=
  match i with
  | IEll => SLLen n
  | IInt k => if (k <? - n) || (n - 1 <? k) then SLErr else SLNone
  | INew => SLErr
  | ISlice s =>
      match slice_indices n s with
      | None => SLErr
      | Some (start, stop, stride) =>
          (* after fix 86d8fbf: len(range(..indices(length))) *)
          SLLen (range_len start stop stride)
      end
  end.

(* ------------------------------------------------------------------ *)
(** * Python list operations used by indexed_shape *)

Section PyList.
  Context {A : Type}.

  (** [l[i]] with negative indices counting from the end; [None] = IndexError *)
  Definition py_nth (l : list A) (i : Z) : option A :=
    let n := Z.of_nat (length l) in
    let j := if i <? 0 then i + n else i in
    if (j <? 0) || (n <=? j) then None else nth_error l (Z.to_nat j).

  Fixpoint set_nth (l : list A) (k : nat) (v : A) : list A :=
    match l, k with
    | [], _ => []
    | _ :: t, O => v :: t
    | h :: t, S k' => h :: set_nth t k' v
    end.

  (** [l[i] = v]; [None] = IndexError *)
  Definition py_set (l : list A) (i : Z) (v : A) : option (list A) :=
    let n := Z.of_nat (length l) in
    let j := if i <? 0 then i + n else i in
    if (j <? 0) || (n <=? j) then None else Some (set_nth l (Z.to_nat j) v).

  (** [l.insert(k, v)] for k >= 0 (clamped to the end) *)
  Definition py_insert (l : list A) (k : nat) (v : A) : list A :=
    firstn k l ++ v :: skipn k l.
End PyList.

(* ------------------------------------------------------------------ *)
(** * scico.numpy.util.indexed_shape *)

(** loop state: (idx_shape, offset, newaxis); [None] = exception *)
Definition ishape_step (shape : list Z) (nidx : Z)
           (st : list (option Z) * Z * Z) (axis : Z) (ai : aidx)
  : option (list (option Z) * Z * Z) :=
  let '(acc, offset, newaxis) := st in
  match ai with
  | INew => Some (py_insert acc (Z.to_nat axis) (Some 1), offset, newaxis + 1)
  | IEll => Some (acc, Z.of_nat (length shape) - nidx, newaxis)
  | _ =>
      match py_nth shape (axis + offset) with
      | None => None
      | Some d =>
          match slice_length d ai with
          | SLErr => None
          | SLNone => option_map (fun a => (a, offset, newaxis)) (py_set acc (axis + offset + newaxis) None)
          | SLLen l => option_map (fun a => (a, offset, newaxis)) (py_set acc (axis + offset + newaxis) (Some l))
          end
      end
  end.

Fixpoint ishape_loop (shape : list Z) (nidx : Z) (st : list (option Z) * Z * Z)
         (axis : Z) (idx : list aidx) : option (list (option Z) * Z * Z) :=
  match idx with
  | [] => Some st
  | ai :: rest =>
      match ishape_step shape nidx st axis ai with
      | None => None
      | Some st' => ishape_loop shape nidx st' (axis + 1) rest
      end
  end.

Fixpoint filter_some {A} (l : list (option A)) : list A :=
  match l with
  | [] => []
  | Some x :: t => x :: filter_some t
  | None :: t => filter_some t
  end.

Definition indexed_shape (shape : list Z) (idx : list aidx) : option (list Z) :=
  match ishape_loop shape (Z.of_nat (length idx)) (map Some shape, 0, 0) 0 idx with
  | None => None
  | Some (acc, _, _) => Some (filter_some acc)
  end.

(* ------------------------------------------------------------------ *)
(** * NumPy basic indexing: shape of [x[idx]] (specification) *)

Definition consumes (ai : aidx) : bool :=
  match ai with IInt _ | ISlice _ => true | _ => false end.
Definition is_ell (ai : aidx) : bool := match ai with IEll => true | _ => false end.

Definition full_slice := ISlice (mkslice None None None).

(** replace the (single) Ellipsis by [k] full slices *)
Fixpoint expand_ell (idx : list aidx) (k : nat) : list aidx :=
  match idx with
  | [] => []
  | IEll :: t => repeat full_slice k ++ t
  | a :: t => a :: expand_ell t k
  end.

Fixpoint np_walk (shape : list Z) (idx : list aidx) : option (list Z) :=
  match idx with
  | [] => Some shape
  | INew :: t => option_map (cons 1) (np_walk shape t)
  | IEll :: t => None
  | IInt k :: t =>
      match shape with
      | [] => None
      | d :: ds => if (k <? - d) || (d - 1 <? k) then None else np_walk ds t
      end
  | ISlice s :: t =>
      match shape with
      | [] => None
      | d :: ds =>
          match slice_len_spec d s, np_walk ds t with
          | Some l, Some r => Some (l :: r)
          | _, _ => None
          end
      end
  end.

Definition np_index_shape (shape : list Z) (idx : list aidx) : option (list Z) :=
  let ncons := length (filter consumes idx) in
  let nell := length (filter is_ell idx) in
  if (1 <? Z.of_nat nell) || (Z.of_nat (length shape) <? Z.of_nat ncons) then None
  else np_walk shape (expand_ell idx (length shape - ncons)).
