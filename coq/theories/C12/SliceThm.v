From Coq Require Import List Bool ZArith Lia.
From SV Require Import C12.Slice.
Import ListNotations.
Open Scope Z_scope.

(** Theorems about the C12 slice model ([SV.C12.Slice]). *)

(* ------------------------------------------------------------------ *)
(** * [range_len] recurrences *)

Lemma range_len_pos_stop : forall a b k, 0 < k -> b <= a -> range_len a b k = 0.
Proof.
  intros a b k Hk Hab. unfold range_len.
  destruct (0 <? k) eqn:E; [| apply Z.ltb_ge in E; lia].
  destruct (a <? b) eqn:E2; [apply Z.ltb_lt in E2; lia | reflexivity].
Qed.

Lemma range_len_pos_step : forall a b k, 0 < k -> a < b ->
  range_len a b k = 1 + range_len (a + k) b k.
Proof.
  intros a b k Hk Hab. unfold range_len.
  destruct (0 <? k) eqn:E; [| apply Z.ltb_ge in E; lia].
  destruct (a <? b) eqn:E2; [| apply Z.ltb_ge in E2; lia].
  destruct (a + k <? b) eqn:E3; [apply Z.ltb_lt in E3 | apply Z.ltb_ge in E3].
  - replace (b - a - 1) with ((b - (a + k) - 1) + 1 * k) by lia.
    rewrite Z.div_add by lia. lia.
  - rewrite Z.div_small by lia. lia.
Qed.

Lemma range_len_neg_stop : forall a b k, k < 0 -> a <= b -> range_len a b k = 0.
Proof.
  intros a b k Hk Hab. unfold range_len.
  destruct (0 <? k) eqn:E; [apply Z.ltb_lt in E; lia |].
  destruct (k <? 0) eqn:E1; [| apply Z.ltb_ge in E1; lia].
  destruct (b <? a) eqn:E2; [apply Z.ltb_lt in E2; lia | reflexivity].
Qed.

Lemma range_len_neg_step : forall a b k, k < 0 -> b < a ->
  range_len a b k = 1 + range_len (a + k) b k.
Proof.
  intros a b k Hk Hab. unfold range_len.
  destruct (0 <? k) eqn:E; [apply Z.ltb_lt in E; lia |].
  destruct (k <? 0) eqn:E1; [| apply Z.ltb_ge in E1; lia].
  destruct (b <? a) eqn:E2; [| apply Z.ltb_ge in E2; lia].
  destruct (b <? a + k) eqn:E3; [apply Z.ltb_lt in E3 | apply Z.ltb_ge in E3].
  - replace (a - b - 1) with ((a + k - b - 1) + 1 * (- k)) by lia.
    rewrite Z.div_add by lia. lia.
  - rewrite Z.div_small by lia. lia.
Qed.

Lemma in_range_pos : forall i b k, 0 < k -> in_range i b k = (i <? b).
Proof.
  intros i b k Hk. unfold in_range.
  destruct (0 <? k) eqn:E; [reflexivity | apply Z.ltb_ge in E; lia].
Qed.

Lemma in_range_neg : forall i b k, k < 0 -> in_range i b k = (b <? i).
Proof.
  intros i b k Hk. unfold in_range.
  destruct (0 <? k) eqn:E; [apply Z.ltb_lt in E; lia |].
  destruct (k <? 0) eqn:E1; [reflexivity | apply Z.ltb_ge in E1; lia].
Qed.

(* ------------------------------------------------------------------ *)
(** * Length of the enumerated range *)

Lemma range_enum_length_pos : forall (fuel : nat) (a b k : Z),
  0 < k -> b - a <= Z.of_nat fuel ->
  Z.of_nat (length (range_enum fuel a b k)) = range_len a b k.
Proof.
  induction fuel as [| f IH]; intros a b k Hk Hf.
  - simpl. rewrite range_len_pos_stop; lia.
  - cbn [range_enum]. rewrite in_range_pos by assumption.
    destruct (a <? b) eqn:E; [apply Z.ltb_lt in E | apply Z.ltb_ge in E].
    + rewrite range_len_pos_step by assumption.
      cbn [length]. rewrite Nat2Z.inj_succ, IH; lia.
    + simpl. rewrite range_len_pos_stop; lia.
Qed.

Lemma range_enum_length_neg : forall (fuel : nat) (a b k : Z),
  k < 0 -> a - b <= Z.of_nat fuel ->
  Z.of_nat (length (range_enum fuel a b k)) = range_len a b k.
Proof.
  induction fuel as [| f IH]; intros a b k Hk Hf.
  - simpl. rewrite range_len_neg_stop; lia.
  - cbn [range_enum]. rewrite in_range_neg by assumption.
    destruct (b <? a) eqn:E; [apply Z.ltb_lt in E | apply Z.ltb_ge in E].
    + rewrite range_len_neg_step by assumption.
      cbn [length]. rewrite Nat2Z.inj_succ, IH; lia.
    + simpl. rewrite range_len_neg_stop; lia.
Qed.

Theorem range_enum_length : forall (fuel : nat) (a b k : Z),
  k <> 0 -> Z.abs (b - a) <= Z.of_nat fuel ->
  Z.of_nat (length (range_enum fuel a b k)) = range_len a b k.
Proof.
  intros fuel a b k Hk Hf.
  destruct (Z_lt_le_dec 0 k) as [Hp | Hn].
  - apply range_enum_length_pos; lia.
  - apply range_enum_length_neg; lia.
Qed.

Theorem py_range_length : forall a b k : Z, k <> 0 ->
  Z.of_nat (length (py_range a b k)) = range_len a b k.
Proof.
  intros a b k Hk. unfold py_range.
  apply range_enum_length; [assumption |].
  rewrite Z2Nat.id; lia.
Qed.

(* ------------------------------------------------------------------ *)
(** * Elements of the enumerated range *)

Lemma range_enum_nth : forall (fuel : nat) (a b k : Z) (i : nat),
  (i < length (range_enum fuel a b k))%nat ->
  nth_error (range_enum fuel a b k) i = Some (a + Z.of_nat i * k).
Proof.
  induction fuel as [| f IH]; intros a b k i Hi.
  - simpl in Hi. lia.
  - cbn [range_enum] in *.
    destruct (in_range a b k).
    + destruct i as [| i'].
      * simpl. f_equal. lia.
      * cbn [nth_error]. cbn [length] in Hi.
        rewrite IH by lia. f_equal. lia.
    + simpl in Hi. lia.
Qed.

Theorem py_range_nth : forall (a b k : Z) (i : nat), k <> 0 ->
  (i < length (py_range a b k))%nat -> nth_error (py_range a b k) i = Some (a + Z.of_nat i * k).
Proof.
  intros a b k i _ Hi. unfold py_range in *. apply range_enum_nth; assumption.
Qed.

Lemma range_enum_pos_bounds : forall (fuel : nat) (a b k : Z), 0 < k ->
  Forall (fun x => a <= x < b) (range_enum fuel a b k).
Proof.
  induction fuel as [| f IH]; intros a b k Hk.
  - constructor.
  - cbn [range_enum]. rewrite in_range_pos by assumption.
    destruct (a <? b) eqn:E; [apply Z.ltb_lt in E | constructor].
    constructor; [lia |].
    eapply Forall_impl; [| apply (IH (a + k) b k Hk)].
    intros x Hx. simpl in Hx. lia.
Qed.

Lemma range_enum_neg_bounds : forall (fuel : nat) (a b k : Z), k < 0 ->
  Forall (fun x => b < x <= a) (range_enum fuel a b k).
Proof.
  induction fuel as [| f IH]; intros a b k Hk.
  - constructor.
  - cbn [range_enum]. rewrite in_range_neg by assumption.
    destruct (b <? a) eqn:E; [apply Z.ltb_lt in E | constructor].
    constructor; [lia |].
    eapply Forall_impl; [| apply (IH (a + k) b k Hk)].
    intros x Hx. simpl in Hx. lia.
Qed.

(* ------------------------------------------------------------------ *)
(** * [slice.indices] *)

Lemma slice_indices_step_nz : forall n s a b k,
  slice_indices n s = Some (a, b, k) -> k <> 0.
Proof.
  intros n s a b k H. unfold slice_indices in H.
  destruct (match sl_step s with Some k0 => k0 | None => 1 end =? 0) eqn:E;
    [discriminate |].
  apply Z.eqb_neq in E. injection H as _ _ Hk. lia.
Qed.

Lemma adj_idx_bounds : forall n lower upper o dflt,
  lower <= upper -> lower <= 0 -> lower <= dflt <= upper ->
  (forall v, v < 0 -> v + n <= upper) ->
  lower <= adj_idx n lower upper o dflt <= upper.
Proof.
  intros n lower upper o dflt Hlu Hl0 Hd Hn. unfold adj_idx.
  destruct o as [v |]; [| assumption].
  destruct (v <? 0) eqn:E; [apply Z.ltb_lt in E | apply Z.ltb_ge in E].
  - specialize (Hn v E). lia.
  - lia.
Qed.

Lemma slice_indices_bounds : forall n s a b k, 0 <= n ->
  slice_indices n s = Some (a, b, k) ->
  (0 < k /\ 0 <= a <= n /\ 0 <= b <= n) \/
  (k < 0 /\ -1 <= a <= n - 1 /\ -1 <= b <= n - 1).
Proof.
  intros n s a b k Hn H. unfold slice_indices in H.
  remember (match sl_step s with Some k0 => k0 | None => 1 end) as step.
  destruct (step =? 0) eqn:E; [discriminate |]. apply Z.eqb_neq in E.
  destruct (step <? 0) eqn:E1; [apply Z.ltb_lt in E1 | apply Z.ltb_ge in E1];
    injection H as Ha Hb Hk; subst a b k.
  - right. split; [assumption |].
    split; apply adj_idx_bounds; intros; lia.
  - left. split; [lia |].
    split; apply adj_idx_bounds; intros; lia.
Qed.

Theorem slice_elems_in_bounds : forall (n : Z) (s : pslice) (l : list Z),
  0 <= n -> slice_elems n s = Some l -> Forall (fun i => 0 <= i < n) l.
Proof.
  intros n s l Hn H. unfold slice_elems in H.
  destruct (slice_indices n s) as [[[a b] k] |] eqn:E; [| discriminate].
  injection H as <-.
  destruct (slice_indices_bounds _ _ _ _ _ Hn E) as [[Hk [Ha Hb]] | [Hk [Ha Hb]]];
    unfold py_range.
  - eapply Forall_impl; [| apply range_enum_pos_bounds; assumption].
    intros x Hx. simpl in Hx. lia.
  - eapply Forall_impl; [| apply range_enum_neg_bounds; assumption].
    intros x Hx. simpl in Hx. lia.
Qed.

Theorem slice_len_spec_counts : forall (n : Z) (s : pslice) (len : Z),
  slice_len_spec n s = Some len ->
  exists l, slice_elems n s = Some l /\ Z.of_nat (length l) = len.
Proof.
  intros n s len H. unfold slice_len_spec in H. unfold slice_elems.
  destruct (slice_indices n s) as [[[a b] k] |] eqn:E; [| discriminate].
  injection H as <-.
  exists (py_range a b k). split; [reflexivity |].
  apply py_range_length. eapply slice_indices_step_nz; eassumption.
Qed.

Lemma range_len_pos_bounds : forall a b k, 0 < k -> a <= b ->
  0 <= range_len a b k <= b - a.
Proof.
  intros a b k Hk Hab. unfold range_len.
  destruct (0 <? k) eqn:E; [| apply Z.ltb_ge in E; lia].
  destruct (a <? b) eqn:E2; [apply Z.ltb_lt in E2 | lia].
  assert (0 <= (b - a - 1) / k) by (apply Z.div_pos; lia).
  assert ((b - a - 1) / k <= b - a - 1) by (apply Z.div_le_upper_bound; nia).
  lia.
Qed.

Lemma range_len_neg_bounds : forall a b k, k < 0 -> b <= a ->
  0 <= range_len a b k <= a - b.
Proof.
  intros a b k Hk Hab. unfold range_len.
  destruct (0 <? k) eqn:E; [apply Z.ltb_lt in E; lia |].
  destruct (k <? 0) eqn:E1; [| apply Z.ltb_ge in E1; lia].
  destruct (b <? a) eqn:E2; [apply Z.ltb_lt in E2 | lia].
  assert (0 <= (a - b - 1) / (- k)) by (apply Z.div_pos; lia).
  assert ((a - b - 1) / (- k) <= a - b - 1) by (apply Z.div_le_upper_bound; nia).
  lia.
Qed.

Theorem slice_len_spec_bounds : forall (n : Z) (s : pslice) (len : Z),
  0 <= n -> slice_len_spec n s = Some len -> 0 <= len <= n.
Proof.
  intros n s len Hn H. unfold slice_len_spec in H.
  destruct (slice_indices n s) as [[[a b] k] |] eqn:E; [| discriminate].
  injection H as <-.
  destruct (slice_indices_bounds _ _ _ _ _ Hn E) as [[Hk [Ha Hb]] | [Hk [Ha Hb]]].
  - destruct (Z_le_gt_dec a b) as [Hab | Hab].
    + pose proof (range_len_pos_bounds a b k Hk Hab). lia.
    + rewrite range_len_pos_stop by lia. lia.
  - destruct (Z_le_gt_dec b a) as [Hab | Hab].
    + pose proof (range_len_neg_bounds a b k Hk Hab). lia.
    + rewrite range_len_neg_stop by lia. lia.
Qed.

(* ------------------------------------------------------------------ *)
(** * scico's [slice_length] *)

Lemma slice_length_all_steps : forall (n : Z) (s : pslice) (a b k : Z),
  slice_indices n s = Some (a, b, k) ->
  slice_length n (ISlice s) = SLLen (range_len a b k).
Proof. intros n s a b k E. unfold slice_length. rewrite E. reflexivity. Qed.

Lemma slice_length_pos_step_gen : forall (n : Z) (s : pslice) (a b k : Z),
  slice_indices n s = Some (a, b, k) -> 0 < k ->
  slice_length n (ISlice s) = SLLen (range_len a b k).
Proof. intros n s a b k E _. apply slice_length_all_steps; assumption. Qed.

Theorem slice_length_pos_step : forall (n : Z) (s : pslice) (a b k : Z),
  0 <= n -> slice_indices n s = Some (a, b, k) -> 0 < k ->
  slice_length n (ISlice s) = SLLen (range_len a b k).
Proof.
  intros n s a b k _. apply slice_length_pos_step_gen.
Qed.

(** the sliced length scico computes is the number of selected indices, for every step *)
Theorem slice_length_counts : forall (n : Z) (s : pslice),
  slice_length n (ISlice s) = match slice_len_spec n s with Some l => SLLen l | None => SLErr end.
Proof.
  intros n s. unfold slice_length, slice_len_spec.
  destruct (slice_indices n s) as [[[a b] k]|]; reflexivity.
Qed.

(* ------------------------------------------------------------------ *)
(** * [indexed_shape] against NumPy basic indexing *)

Definition plain_idx (ai : aidx) : Prop :=
  match ai with
  | IInt _ => True
  | ISlice s => match sl_step s with None => True | Some k => 0 < k end
  | _ => False
  end.

Lemma filter_some_app : forall {A} (l1 l2 : list (option A)),
  filter_some (l1 ++ l2) = filter_some l1 ++ filter_some l2.
Proof.
  induction l1 as [| [x |] t IH]; intros l2; simpl; [reflexivity | |];
    rewrite IH; reflexivity.
Qed.

Lemma filter_some_map_Some : forall {A} (l : list A), filter_some (map Some l) = l.
Proof.
  induction l as [| x t IH]; simpl; [reflexivity | rewrite IH; reflexivity].
Qed.

Lemma py_nth_app : forall {A} (pre : list A) (d : A) (ds : list A) (n : nat),
  length pre = n -> py_nth (pre ++ d :: ds) (Z.of_nat n + 0) = Some d.
Proof.
  intros A pre d ds n Hn. unfold py_nth.
  rewrite Z.add_0_r.
  destruct (Z.of_nat n <? 0) eqn:E; [apply Z.ltb_lt in E; lia |].
  rewrite app_length. cbn [length].
  destruct (Z.of_nat n <? 0) eqn:E1; [discriminate |].
  destruct (Z.of_nat (length pre + S (length ds)) <=? Z.of_nat n) eqn:E2;
    [apply Z.leb_le in E2; lia |].
  cbn [orb]. rewrite Nat2Z.id.
  rewrite nth_error_app2 by lia.
  rewrite Hn, Nat.sub_diag. reflexivity.
Qed.

Lemma set_nth_app : forall {A} (done : list A) (x v : A) (tl : list A),
  set_nth (done ++ x :: tl) (length done) v = done ++ v :: tl.
Proof.
  induction done as [| h t IH]; intros x v tl; simpl; [reflexivity |].
  rewrite IH. reflexivity.
Qed.

Lemma py_set_app : forall {A} (done : list A) (x v : A) (tl : list A),
  py_set (done ++ x :: tl) (Z.of_nat (length done) + 0 + 0) v = Some (done ++ v :: tl).
Proof.
  intros A done x v tl. unfold py_set.
  rewrite !Z.add_0_r.
  destruct (Z.of_nat (length done) <? 0) eqn:E; [apply Z.ltb_lt in E; lia |].
  rewrite E. rewrite app_length. cbn [length].
  destruct (Z.of_nat (length done + S (length tl)) <=? Z.of_nat (length done)) eqn:E2;
    [apply Z.leb_le in E2; lia |].
  cbn [orb]. rewrite Nat2Z.id, set_nth_app. reflexivity.
Qed.

Lemma plain_slice_indices : forall d s,
  match sl_step s with None => True | Some k => 0 < k end ->
  exists a b k, slice_indices d s = Some (a, b, k) /\ 0 < k.
Proof.
  intros d s H. unfold slice_indices.
  destruct (sl_step s) as [k |].
  - destruct (k =? 0) eqn:E; [apply Z.eqb_eq in E; lia |].
    do 3 eexists. split; [reflexivity | assumption].
  - cbn [Z.eqb]. do 3 eexists. split; [reflexivity | lia].
Qed.

Definition st_shape (st : list (option Z) * Z * Z) : list Z :=
  filter_some (fst (fst st)).

Lemma ishape_loop_plain : forall (idx : list aidx) (pre : list Z)
    (done : list (option Z)) (sh : list Z) (nidx : Z),
  Forall plain_idx idx -> (length idx <= length sh)%nat ->
  length pre = length done ->
  option_map st_shape
    (ishape_loop (pre ++ sh) nidx (done ++ map Some sh, 0, 0)
                 (Z.of_nat (length done)) idx)
  = option_map (app (filter_some done)) (np_walk sh idx).
Proof.
  induction idx as [| ai rest IH]; intros pre done sh nidx Hpl Hlen Hpre.
  - cbn [ishape_loop np_walk option_map]. unfold st_shape. cbn [fst].
    rewrite filter_some_app, filter_some_map_Some. reflexivity.
  - destruct sh as [| d ds]; [simpl in Hlen; lia |].
    inversion Hpl as [| ? ? Hai Hrest]; subst.
    cbn [length] in Hlen. cbn [ishape_loop map].
    destruct ai as [| | k | s]; cbn [plain_idx] in Hai; try contradiction.
    + (* integer index *)
      unfold ishape_step.
      rewrite py_nth_app by assumption.
      cbn [slice_length np_walk].
      destruct ((k <? - d) || (d - 1 <? k)); [reflexivity |].
      rewrite py_set_app. cbn [option_map].
      replace (pre ++ d :: ds) with ((pre ++ [d]) ++ ds)
        by (rewrite <- app_assoc; reflexivity).
      replace (done ++ None :: map Some ds) with ((done ++ [None]) ++ map Some ds)
        by (rewrite <- app_assoc; reflexivity).
      replace (Z.of_nat (length done) + 1) with (Z.of_nat (length (done ++ [None])))
        by (rewrite app_length; cbn [length]; lia).
      rewrite IH; [| assumption | lia | rewrite !app_length; cbn [length]; lia].
      rewrite filter_some_app. cbn [filter_some]. rewrite app_nil_r. reflexivity.
    + (* positive-step slice *)
      destruct (plain_slice_indices d s Hai) as (a & b & k & E & Hk).
      unfold ishape_step.
      rewrite py_nth_app by assumption.
      rewrite (slice_length_pos_step_gen d s a b k E Hk).
      cbn [np_walk]. unfold slice_len_spec. rewrite E.
      rewrite py_set_app. cbn [option_map].
      replace (pre ++ d :: ds) with ((pre ++ [d]) ++ ds)
        by (rewrite <- app_assoc; reflexivity).
      replace (done ++ Some (range_len a b k) :: map Some ds)
        with ((done ++ [Some (range_len a b k)]) ++ map Some ds)
        by (rewrite <- app_assoc; reflexivity).
      replace (Z.of_nat (length done) + 1)
        with (Z.of_nat (length (done ++ [Some (range_len a b k)])))
        by (rewrite app_length; cbn [length]; lia).
      rewrite IH; [| assumption | lia | rewrite !app_length; cbn [length]; lia].
      destruct (np_walk ds rest) as [r |]; cbn [option_map]; [| reflexivity].
      rewrite filter_some_app. cbn [filter_some]. rewrite <- app_assoc. reflexivity.
Qed.

Lemma plain_filter_consumes : forall idx, Forall plain_idx idx -> filter consumes idx = idx.
Proof.
  induction 1 as [| ai t Hai _ IH]; [reflexivity |].
  destruct ai; cbn [plain_idx] in Hai; try contradiction; cbn [filter consumes];
    rewrite IH; reflexivity.
Qed.

Lemma plain_filter_ell : forall idx, Forall plain_idx idx -> filter is_ell idx = [].
Proof.
  induction 1 as [| ai t Hai _ IH]; [reflexivity |].
  destruct ai; cbn [plain_idx] in Hai; try contradiction; cbn [filter is_ell];
    exact IH.
Qed.

Lemma plain_expand_ell : forall idx k, Forall plain_idx idx -> expand_ell idx k = idx.
Proof.
  intros idx k. induction 1 as [| ai t Hai _ IH]; [reflexivity |].
  destruct ai; cbn [plain_idx] in Hai; try contradiction; cbn [expand_ell];
    rewrite IH; reflexivity.
Qed.

Theorem indexed_shape_plain : forall (shape : list Z) (idx : list aidx),
  Forall (fun d => 0 <= d) shape -> Forall plain_idx idx ->
  (length idx <= length shape)%nat ->
  indexed_shape shape idx = np_index_shape shape idx.
Proof.
  intros shape idx _ Hpl Hlen.
  unfold indexed_shape, np_index_shape.
  rewrite (plain_filter_consumes idx Hpl), (plain_filter_ell idx Hpl),
    (plain_expand_ell idx _ Hpl).
  cbn [length].
  destruct (1 <? Z.of_nat 0) eqn:E0; [apply Z.ltb_lt in E0; lia |].
  destruct (Z.of_nat (length shape) <? Z.of_nat (length idx)) eqn:E1;
    [apply Z.ltb_lt in E1; lia |].
  cbn [orb].
  pose proof (ishape_loop_plain idx [] [] shape (Z.of_nat (length idx))
                Hpl Hlen eq_refl) as H.
  cbn [app length filter_some] in H. change (Z.of_nat 0) with 0 in H.
  destruct (ishape_loop shape (Z.of_nat (length idx)) (map Some shape, 0, 0) 0 idx)
    as [[[acc o] nw] |];
    destruct (np_walk shape idx) as [r |]; cbn [option_map] in H;
    try discriminate; [| reflexivity].
  unfold st_shape in H. cbn [fst] in H. exact H.
Qed.
