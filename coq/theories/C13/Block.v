(** C13 -- the BlockArray class of scico/numpy/_blockarray.py.

    An array is a shape, a dtype tag and its entries in row-major order (entries of an
    abstract type [K]); a block array is the Python list [self.arrays].  Modelled: the
    constructor (conversion of non-arrays, dtype check), iteration through [__getitem__],
    the unary / binary operator wrappers with [NotImplemented] handling and Python's
    forward/reflected dispatch, property and method wrappers, [__setitem__], and the pytree
    registration. *)
From Coq Require Import List Bool Arith ZArith Lia.
From SV Require Import C13.Wrap.
Import ListNotations.

Section Arrays.
  Variable K : Type.                       (* scalars *)

  Record arr := mkarr { a_shape : list nat; a_dtype : Z; a_data : list K }.

  Definition ravel (a : arr) : arr := mkarr [length (a_data a)] (a_dtype a) (a_data a).

  (** [jnp.concatenate] of 1-d arrays of one dtype *)
  Definition concatenate (l : list arr) : arr :=
    mkarr [length (flat_map a_data l)] (match l with a :: _ => a_dtype a | [] => 0%Z end)
          (flat_map a_data l).

  Lemma flat_map_ravel l : flat_map a_data (map ravel l) = flat_map a_data l.
  Proof. induction l as [|a r IH]; [reflexivity|]. cbn [map flat_map]. now rewrite IH. Qed.

  (** the full ravel of a block array is the concatenation of the entries of all blocks, in
      block order, each in row-major order *)
  Theorem full_ravel_data bs : a_data (concatenate (map ravel bs)) = flat_map a_data bs.
  Proof. unfold concatenate. cbn [a_data]. apply flat_map_ravel. Qed.

  Theorem full_ravel_shape bs :
    a_shape (concatenate (map ravel bs)) = [fold_right (fun a n => length (a_data a) + n) 0 bs].
  Proof.
    unfold concatenate. cbn [a_shape]. rewrite flat_map_ravel. f_equal.
    induction bs as [|a r IH]; [reflexivity|]. cbn [flat_map fold_right]. now rewrite app_length, IH.
  Qed.

  (* ---------------------------------------------------------------- *)
  (** * Constructor *)

  Variable O : Type.                        (* Python objects that are not jax arrays *)
  Variable jnp_array : O -> res arr.        (* [jnp.array(x)]; may raise *)

  Inductive obj := IsArr (a : arr) | NotArr (o : O).

  Definition to_arr (x : obj) : res arr :=
    match x with IsArr a => Ok a | NotArr o => jnp_array o end.

  (** [all(a.dtype == self.arrays[0].dtype for a in self.arrays)] *)
  Definition homog (b : list arr) : bool :=
    match b with [] => true | a :: _ => forallb (fun x => Z.eqb (a_dtype x) (a_dtype a)) b end.

  (** [BlockArray(inputs)] *)
  Definition BlockArray (inputs : list obj) : res (list arr) :=
    match mapM to_arr inputs with
    | Raise e => Raise e
    | Ok l => if homog l then Ok l else Raise ValueError
    end.

  Definition valid (b : list arr) : Prop := b <> [] /\ homog b = true.

  Lemma mapM_IsArr l : mapM to_arr (map IsArr l) = Ok l.
  Proof. induction l as [|a r IH]; [reflexivity|]. cbn [map mapM to_arr]. now rewrite IH. Qed.

  (** whatever the constructor returns carries one dtype *)
  Theorem constructor_homogeneous inputs b : BlockArray inputs = Ok b -> homog b = true.
  Proof.
    unfold BlockArray. destruct (mapM to_arr inputs) as [l|e]; [|discriminate].
    destruct (homog l) eqn:E; [|discriminate]. intros H. now injection H as <-.
  Qed.

  Theorem constructor_arrays b : homog b = true -> BlockArray (map IsArr b) = Ok b.
  Proof. intros H. unfold BlockArray. now rewrite mapM_IsArr, H. Qed.

  Theorem constructor_rejects_mixed b : homog b = false -> BlockArray (map IsArr b) = Raise ValueError.
  Proof. intros H. unfold BlockArray. now rewrite mapM_IsArr, H. Qed.

  Lemma homog_dtype b x y : homog b = true -> In x b -> In y b -> a_dtype x = a_dtype y.
  Proof.
    destruct b as [|a r]; [intros _ []|]. unfold homog. rewrite forallb_forall. intros H Hx Hy.
    pose proof (H x Hx) as E1. pose proof (H y Hy) as E2. apply Z.eqb_eq in E1, E2. congruence.
  Qed.

  Lemma homog_intro b : (forall x y, In x b -> In y b -> a_dtype x = a_dtype y) -> homog b = true.
  Proof.
    destruct b as [|a r]; [reflexivity|]. intros H. unfold homog. rewrite forallb_forall.
    intros x Hx. apply Z.eqb_eq. apply H; [exact Hx|now left].
  Qed.

  (** the guard is a statement about ALL blocks, whatever their order: arrays are accepted
      exactly when every two of them have the same dtype (in particular, not merely when block 0
      already carries the promoted dtype of the list) *)
  Theorem constructor_guard_all_blocks b :
    BlockArray (map IsArr b) = Ok b <-> (forall x y, In x b -> In y b -> a_dtype x = a_dtype y).
  Proof.
    split.
    - intros H x y Hx Hy. apply (homog_dtype b); try assumption. eapply constructor_homogeneous. exact H.
    - intros H. apply constructor_arrays. now apply homog_intro.
  Qed.

  (** the guard does not depend on the order of the blocks *)
  Theorem constructor_guard_order_independent b b' :
    (forall x, In x b <-> In x b') ->
    (exists r, BlockArray (map IsArr b) = Ok r) <-> (exists r, BlockArray (map IsArr b') = Ok r).
  Proof.
    intros Hp.
    assert (G : forall c c', (forall x, In x c -> In x c') ->
                (exists r, BlockArray (map IsArr c') = Ok r) -> exists r, BlockArray (map IsArr c) = Ok r).
    { intros c c' Hs [r Hr]. exists c. apply constructor_guard_all_blocks. intros x y Hx Hy.
      unfold BlockArray in Hr. rewrite mapM_IsArr in Hr. destruct (homog c') eqn:E; [|discriminate].
      apply (homog_dtype c'); auto. }
    split; apply G; intros x; apply Hp.
  Qed.

  (** a per-block operation whose result dtype is a function of the operand dtype keeps a block
      array homogeneous *)
  Lemma homog_map (f : arr -> arr) b :
    (forall x y, a_dtype x = a_dtype y -> a_dtype (f x) = a_dtype (f y)) ->
    homog b = true -> homog (map f b) = true.
  Proof.
    intros Hf Hb. apply homog_intro. intros x y Hx Hy. rewrite in_map_iff in Hx, Hy.
    destruct Hx as [x0 [<- Hx]]. destruct Hy as [y0 [<- Hy]]. apply Hf. eapply homog_dtype; eassumption.
  Qed.

  Lemma homog_map2 (f : arr -> arr -> arr) xs ys :
    (forall x y x' y', a_dtype x = a_dtype x' -> a_dtype y = a_dtype y' -> a_dtype (f x y) = a_dtype (f x' y')) ->
    homog xs = true -> homog ys = true ->
    homog (map (fun xy => f (fst xy) (snd xy)) (combine xs ys)) = true.
  Proof.
    intros Hf Hx Hy. apply homog_intro. intros u v Hu Hv. rewrite in_map_iff in Hu, Hv.
    destruct Hu as [[x y] [<- Hu]]. destruct Hv as [[x' y'] [<- Hv]]. cbn [fst snd].
    apply Hf.
    - apply (homog_dtype xs); [exact Hx|eapply in_combine_l; exact Hu|eapply in_combine_l; exact Hv].
    - apply (homog_dtype ys); [exact Hy|eapply in_combine_r; exact Hu|eapply in_combine_r; exact Hv].
  Qed.

  (* ---------------------------------------------------------------- *)
  (** * Iteration: the class defines [__getitem__] and [__len__] but no [__iter__], so
        [for x in self] calls [self[0], self[1], ...] until IndexError *)

  Definition getitem (b : list arr) (k : nat) : res arr :=
    match nth_error b k with Some a => Ok a | None => Raise IndexError end.

  Fixpoint iter_from (fuel k : nat) (b : list arr) : list arr :=
    match fuel with
    | 0 => []
    | S f => match getitem b k with Ok a => a :: iter_from f (S k) b | Raise _ => [] end
    end.

  Definition py_iter (b : list arr) : list arr := iter_from (S (length b)) 0 b.

  Lemma iter_from_suffix p r : iter_from (S (length r)) (length p) (p ++ r) = r.
  Proof.
    revert p; induction r as [|a r IH]; intros p.
    - cbn [iter_from length]. unfold getitem. rewrite app_nil_r.
      destruct (nth_error p (length p)) eqn:E; [|reflexivity].
      assert (nth_error p (length p) <> None) by congruence. apply nth_error_Some in H. lia.
    - cbn [length]. cbn [iter_from]. unfold getitem at 1. rewrite nth_error_app2 by lia.
      rewrite Nat.sub_diag. cbn [nth_error]. f_equal.
      specialize (IH (p ++ [a])). rewrite <- app_assoc, app_length in IH. cbn [length app] in IH.
      rewrite Nat.add_1_r in IH. exact IH.
  Qed.

  Theorem py_iter_id b : py_iter b = b.
  Proof. exact (iter_from_suffix [] b). Qed.

  (* ---------------------------------------------------------------- *)
  (** * Unary operators: [BlockArray(op(x) for x in self)] *)

  Definition unary_op_wrapper (op : arr -> arr) (self : list arr) : res (list arr) :=
    BlockArray (map (fun x => IsArr (op x)) (py_iter self)).

  Theorem unary_lifted op b :
    (forall x y, a_dtype x = a_dtype y -> a_dtype (op x) = a_dtype (op y)) ->
    homog b = true -> unary_op_wrapper op b = Ok (map op b).
  Proof.
    intros Hop Hb. unfold unary_op_wrapper. rewrite py_iter_id, <- map_map.
    apply constructor_arrays. now apply homog_map.
  Qed.

  (* ---------------------------------------------------------------- *)
  (** * Binary operators *)

  (** the per-block jax operator: [None] is [NotImplemented] *)
  Definition opfun := arr -> obj -> option arr.

  Inductive operand := OBlk (b : list arr) | OOth (x : obj).

  Fixpoint all_some {X} (l : list (option X)) : option (list X) :=
    match l with
    | [] => Some []
    | None :: _ => None
    | Some x :: r => match all_some r with Some xs => Some (x :: xs) | None => None end
    end.

  Lemma all_some_map {X Y} (f : X -> option Y) (g : X -> Y) l :
    (forall x, In x l -> f x = Some (g x)) -> all_some (map f l) = Some (map g l).
  Proof.
    induction l as [|x r IH]; intros H; [reflexivity|]. cbn [map all_some].
    rewrite (H x (or_introl eq_refl)), IH; [reflexivity|]. intros y Hy. apply H. now right.
  Qed.

  (** [op_ba(self, other)]: [Ok None] is a returned [NotImplemented] *)
  Definition binary_op_wrapper (op : opfun) (self : list arr) (other : operand) : res (option (list arr)) :=
    match other with
    | OBlk o =>
        match all_some (map (fun xy => op (fst xy) (IsArr (snd xy))) (combine (py_iter self) (py_iter o))) with
        | Some l => match BlockArray (map IsArr l) with Ok b => Ok (Some b) | Raise e => Raise e end
        | None => Raise TypeError             (* jnp.array(NotImplemented) *)
        end
    | OOth x =>
        match all_some (map (fun a => op a x) (py_iter self)) with
        | None => Ok None                      (* NotImplemented in result *)
        | Some l => match BlockArray (map IsArr l) with Ok b => Ok (Some b) | Raise e => Raise e end
        end
    end.

  (** what the class defines for one Python operator: [__op__] and possibly [__rop__] *)
  Record binop := mkbinop { b_fwd : opfun; b_rfl : option opfun }.

  (** Python's evaluation of [lhs OP rhs] when one side is a block array.  The other side's own
      method is assumed to defer ([NotImplemented]) for a BlockArray operand, which is what int,
      float, jax arrays and (through [__array_priority__]) numpy arrays and scalars do. *)
  Definition py_binop (o : binop) (lhs rhs : operand) : res (list arr) :=
    match lhs, rhs with
    | OBlk a, _ =>
        match binary_op_wrapper (b_fwd o) a rhs with
        | Ok (Some r) => Ok r | Ok None => Raise TypeError | Raise e => Raise e end
    | OOth _, OBlk b =>
        match b_rfl o with
        | None => Raise TypeError
        | Some r => match binary_op_wrapper r b lhs with
                    | Ok (Some r) => Ok r | Ok None => Raise TypeError | Raise e => Raise e end
        end
    | OOth _, OOth _ => Raise TypeError        (* not a block array operation *)
    end.

  Theorem binop_block_block o (f : arr -> arr -> arr) xs ys :
    (forall x y, In (x, y) (combine xs ys) -> b_fwd o x (IsArr y) = Some (f x y)) ->
    (forall x y x' y', a_dtype x = a_dtype x' -> a_dtype y = a_dtype y' -> a_dtype (f x y) = a_dtype (f x' y')) ->
    homog xs = true -> homog ys = true ->
    py_binop o (OBlk xs) (OBlk ys) = Ok (map (fun xy => f (fst xy) (snd xy)) (combine xs ys)).
  Proof.
    intros Hop Hf Hx Hy. unfold py_binop, binary_op_wrapper. rewrite !py_iter_id.
    rewrite (all_some_map _ (fun xy => f (fst xy) (snd xy))).
    - rewrite constructor_arrays; [reflexivity|]. now apply homog_map2.
    - intros [x y] Hin. cbn [fst snd]. now apply Hop.
  Qed.

  (** a non-block operand (plain array or scalar) is combined with every block *)
  Theorem binop_block_other o (f : arr -> arr) xs c :
    (forall x, In x xs -> b_fwd o x c = Some (f x)) ->
    (forall x y, a_dtype x = a_dtype y -> a_dtype (f x) = a_dtype (f y)) ->
    homog xs = true ->
    py_binop o (OBlk xs) (OOth c) = Ok (map f xs).
  Proof.
    intros Hop Hf Hx. unfold py_binop, binary_op_wrapper. rewrite py_iter_id.
    rewrite (all_some_map _ f) by exact Hop.
    rewrite constructor_arrays; [reflexivity|]. now apply homog_map.
  Qed.

  (** reflected: [c OP block] applies the reflected per-block operator to every block *)
  Theorem binop_other_block o r (g : arr -> arr) xs c :
    b_rfl o = Some r ->
    (forall x, In x xs -> r x c = Some (g x)) ->
    (forall x y, a_dtype x = a_dtype y -> a_dtype (g x) = a_dtype (g y)) ->
    homog xs = true ->
    py_binop o (OOth c) (OBlk xs) = Ok (map g xs).
  Proof.
    intros Hr Hop Hg Hx. unfold py_binop. rewrite Hr. unfold binary_op_wrapper. rewrite py_iter_id.
    rewrite (all_some_map _ g) by exact Hop.
    rewrite constructor_arrays; [reflexivity|]. now apply homog_map.
  Qed.

  (** an operator for which the class defines no reflected method fails with the block on
      the right, whatever the per-block operator would give *)
  Theorem binop_no_reflected o xs c :
    b_rfl o = None -> py_binop o (OOth c) (OBlk xs) = Raise TypeError.
  Proof. intros H. unfold py_binop. now rewrite H. Qed.

  (** an operand the per-block operator does not implement: TypeError, not a block array of
      NotImplemented *)
  Theorem binop_not_implemented o x xs c :
    b_fwd o x c = None -> py_binop o (OBlk (x :: xs)) (OOth c) = Raise TypeError.
  Proof.
    intros H. unfold py_binop, binary_op_wrapper. rewrite py_iter_id. cbn [map all_some]. now rewrite H.
  Qed.

  (* ---------------------------------------------------------------- *)
  (** * Properties and methods ([get x] is [getattr(x, name)], resp.
        [getattr(x, name)(args, kwargs)] with the same arguments for every block) *)

  Definition attr_wrapper (get : arr -> obj) (self : list arr) : res (list arr + list obj) :=
    let result := map get (py_iter self) in
    match result with
    | [] => Raise IndexError                               (* result[0] *)
    | IsArr _ :: _ => match BlockArray result with Ok b => Ok (inl b) | Raise e => Raise e end
    | NotArr _ :: _ => Ok (inr result)
    end.

  Theorem attr_array_valued get (f : arr -> arr) b :
    (forall x, get x = IsArr (f x)) ->
    (forall x y, a_dtype x = a_dtype y -> a_dtype (f x) = a_dtype (f y)) ->
    valid b -> attr_wrapper get b = Ok (inl (map f b)).
  Proof.
    intros Hg Hf [Hne Hb]. unfold attr_wrapper. rewrite py_iter_id.
    rewrite (map_ext get (fun x => IsArr (f x)) Hg).
    destruct b as [|a r]; [contradiction|]. cbn [map].
    change (IsArr (f a) :: map (fun x => IsArr (f x)) r) with (map (fun x => IsArr (f x)) (a :: r)).
    rewrite <- (map_map f IsArr).
    rewrite constructor_arrays; [reflexivity|]. now apply homog_map.
  Qed.

  Theorem attr_other_valued get (h : arr -> O) b :
    (forall x, get x = NotArr (h x)) -> b <> [] ->
    attr_wrapper get b = Ok (inr (map get b)).
  Proof.
    intros Hg Hne. unfold attr_wrapper. rewrite py_iter_id.
    destruct b as [|a r]; [contradiction|]. cbn [map]. now rewrite Hg.
  Qed.

  (** Execution mode.  While a function is traced (jit, grad, vmap, a jitted Operator) the blocks
      and the per-block attribute values are tracers: arrays all the same ([jnp.ndarray]), but not
      instances of the concrete array class.  [attr_wrapper_cls cls] is the wrapper with the test
      "[result[0]] is an array of class [cls]"; the code's test ([jnp.ndarray]) is the class of all
      arrays, so the result is the same map over the blocks in every mode. *)
  Definition attr_wrapper_cls (cls : arr -> bool) (get : arr -> obj) (self : list arr) : res (list arr + list obj) :=
    let result := map get (py_iter self) in
    match result with
    | [] => Raise IndexError
    | IsArr a :: _ => if cls a then match BlockArray result with Ok b => Ok (inl b) | Raise e => Raise e end
                      else Ok (inr result)
    | NotArr _ :: _ => Ok (inr result)
    end.

  Theorem attr_wrapper_all_arrays get b : attr_wrapper_cls (fun _ => true) get b = attr_wrapper get b.
  Proof. unfold attr_wrapper_cls, attr_wrapper. destruct (map get (py_iter b)) as [|[a|o] r]; reflexivity. Qed.

  (** traced or not ([traced] arbitrary): array-valued property / method => the block array of the
      per-block values *)
  Theorem attr_mode_independent (traced : arr -> bool) get (f : arr -> arr) b :
    (forall x, get x = IsArr (f x)) ->
    (forall x y, a_dtype x = a_dtype y -> a_dtype (f x) = a_dtype (f y)) ->
    valid b -> attr_wrapper_cls (fun _ => true) get b = Ok (inl (map f b)).
  Proof. intros. rewrite attr_wrapper_all_arrays. now apply attr_array_valued. Qed.

  (* ---------------------------------------------------------------- *)
  (** * [__setitem__]: [self.arrays[key] = value], no conversion and no dtype check *)

  Fixpoint setitem (b : list arr) (k : nat) (v : arr) : list arr :=
    match b, k with
    | [], _ => []
    | _ :: r, 0 => v :: r
    | a :: r, S k' => a :: setitem r k' v
    end.

  Lemma in_setitem b k v x : In x (setitem b k v) -> x = v \/ In x b.
  Proof.
    revert k; induction b as [|a r IH]; intros k; [intros []|]. destruct k as [|k]; cbn [setitem].
    - intros [<-|H]; [now left|right; now right].
    - intros [<-|H]; [right; now left|]. destruct (IH _ H); [now left|right; now right].
  Qed.

  Theorem setitem_same_dtype b k v a :
    homog b = true -> In a b -> a_dtype v = a_dtype a -> homog (setitem b k v) = true.
  Proof.
    intros Hb Ha Hv. apply homog_intro. intros x y Hx Hy.
    apply in_setitem in Hx. apply in_setitem in Hy.
    assert (E : forall z, z = v \/ In z b -> a_dtype z = a_dtype a).
    { intros z [->|Hz]; [exact Hv|]. eapply homog_dtype; eassumption. }
    now rewrite (E x Hx), (E y Hy).
  Qed.

  (* ---------------------------------------------------------------- *)
  (** * pytree registration: flatten = [(xs, None)] (children taken by iterating the block
        array), unflatten = [BlockArray(xs)] *)

  Definition tree_flatten (b : list arr) : list arr * unit := (py_iter b, tt).
  Definition tree_unflatten (aux : unit) (xs : list obj) : res (list arr) := BlockArray xs.

  Theorem unflatten_flatten b :
    homog b = true ->
    tree_unflatten (snd (tree_flatten b)) (map IsArr (fst (tree_flatten b))) = Ok b.
  Proof. intros H. unfold tree_flatten, tree_unflatten. cbn [fst snd]. rewrite py_iter_id. now apply constructor_arrays. Qed.

  Theorem flatten_unflatten aux xs :
    homog xs = true ->
    exists b, tree_unflatten aux (map IsArr xs) = Ok b /\ tree_flatten b = (xs, aux).
  Proof.
    intros H. exists xs. unfold tree_unflatten, tree_flatten. rewrite py_iter_id, constructor_arrays by exact H.
    destruct aux. split; reflexivity.
  Qed.

  Theorem flatten_of_unflatten aux xs b :
    tree_unflatten aux (map IsArr xs) = Ok b -> fst (tree_flatten b) = xs.
  Proof.
    unfold tree_unflatten, BlockArray, tree_flatten. rewrite mapM_IsArr. cbn [fst]. rewrite py_iter_id.
    destruct (homog xs); [|discriminate]. intros H. now injection H as <-.
  Qed.

  (** leaves that are not arrays (the placeholders jax transformations put into a tree) are
      converted or rejected by the constructor: unflatten is not a plain container rebuild *)
  Theorem unflatten_placeholder aux o e xs :
    jnp_array o = Raise e -> tree_unflatten aux (NotArr o :: xs) = Raise e.
  Proof. intros H. unfold tree_unflatten, BlockArray. cbn [mapM to_arr]. now rewrite H. Qed.

  (* ---------------------------------------------------------------- *)
  (** * The wrappers of Wrap.v return [BlockArray(results)]: with this constructor every block
        array they return is homogeneous *)

  Theorem wrapper_result_homogeneous (rs : list obj) b :
    as_block (BlockArray rs) = Ok (RBlock b) -> homog b = true.
  Proof.
    unfold as_block. destruct (BlockArray rs) as [l|e] eqn:E; [|discriminate].
    intros H. injection H as <-. eapply constructor_homogeneous. exact E.
  Qed.
End Arrays.
