(** C13 -- executable instances of the models of Wrap.v / Block.v used by the correspondence
    harness.  Arguments are uninterpreted tags; the library function is the "free" one that
    returns the record of its own call, so the model predicts exactly which per-block calls
    are made, with which arguments, in which order, and how the results are assembled. *)
From Coq Require Import List Bool Arith ZArith.
From SV Require Import C13.Wrap C13.Block.
Import ListNotations.
Open Scope Z_scope.

(** values: an object identified by a tag, the ravel of a value, the concatenation of values,
    a nested shape *)
Inductive val := VObj (id : Z) | VRavel (v : val) | VConcat (l : list val) | VTuple (l : list val).

Fixpoint val_eqb (a b : val) : bool :=
  let fix go (l m : list val) : bool :=
    match l, m with
    | [], [] => true
    | x :: l', y :: m' => val_eqb x y && go l' m'
    | _, _ => false
    end in
  match a, b with
  | VObj i, VObj j => Z.eqb i j
  | VRavel x, VRavel y => val_eqb x y
  | VConcat l, VConcat m => go l m
  | VTuple l, VTuple m => go l m
  | _, _ => false
  end.

Fixpoint list_eqb {X} (e : X -> X -> bool) (l m : list X) : bool :=
  match l, m with
  | [], [] => true
  | x :: l', y :: m' => e x y && list_eqb e l' m'
  | _, _ => false
  end.

Definition xarg := arg val.

Definition arg_eqb (a b : xarg) : bool :=
  match a, b with
  | Blk l, Blk m => list_eqb val_eqb l m
  | Pln x, Pln y => val_eqb x y
  | _, _ => false
  end.

Definition kv_eqb {X} (e : X -> X -> bool) (a b : key * X) : bool := Z.eqb (fst a) (fst b) && e (snd a) (snd b).

(** one call of the library function: positional and keyword arguments as received *)
Definition call := (list xarg * list (key * xarg))%type.
Definition call_eqb (a b : call) : bool :=
  list_eqb arg_eqb (fst a) (fst b) && list_eqb (kv_eqb arg_eqb) (snd a) (snd b).

Definition Frec : list xarg -> list (key * xarg) -> call := fun a k => (a, k).
Definition mkB_id {R} (rs : list R) : res (list R) := Ok rs.

Definition exc_code (e : exc) : Z := match e with TypeError => 1 | ValueError => 2 | IndexError => 3 end.

(** observation: (0 = plain result, 1 = block array, 2 = exception; exception code; the calls
    whose results make up the result, in order) *)
Definition obs (C : Type) := (Z * Z * list C)%type.

Definition obs_of {C} (r : res (result C)) : obs C :=
  match r with
  | Ok (RPlain c) => (0, 0, [c])
  | Ok (RBlock cs) => (1, 0, cs)
  | Raise e => (2, exc_code e, [])
  end.

Definition obs_eqb {C} (e : C -> C -> bool) (a b : obs C) : bool :=
  let '(k1, e1, c1) := a in let '(k2, e2, c2) := b in
  Z.eqb k1 k2 && Z.eqb e1 e2 && list_eqb e c1 c2.

Definition mksg (s : list key * list key * list key) : sig :=
  let '(p, ko, rq) := s in mksig p ko rq.

(** wrapper kinds: 0 = map_func_over_blocks, 1 = add_full_reduction(map_func_over_blocks) *)
Definition ravel_v (v : val) : val := VRavel v.
Definition concat_v (l : list val) : val := VConcat l.

Definition run_blocks (kind : Z) (s : list key * list key * list key) (axis : key)
           (args : list xarg) (kw : list (key * xarg)) : obs call :=
  if Z.eqb kind 0 then obs_of (map_func_over_blocks val call Frec mkB_id args kw)
  else obs_of (full_reduction val call Frec mkB_id (mksg s) ravel_v concat_v axis args kw).

Definition blocks_case := (Z * (list key * list key * list key) * key * list xarg * list (key * xarg) * obs call)%type.

Definition blocks_case_ok (c : blocks_case) : bool :=
  let '(kind, s, axis, args, kw, o) := c in
  obs_eqb call_eqb (run_blocks kind s axis args kw) o.

(** creation routines (kind 2): arguments are plain values; a nested shape is a [VTuple] *)
Definition vcall := (list val * list (key * val))%type.
Definition vcall_eqb (a b : vcall) : bool :=
  list_eqb val_eqb (fst a) (fst b) && list_eqb (kv_eqb val_eqb) (snd a) (snd b).
Definition Fvrec : list val -> list (key * val) -> vcall := fun a k => (a, k).
Definition nested_v (v : val) : option (list val) := match v with VTuple l => Some l | _ => None end.

Definition creation_case := ((list key * list key * list key) * key * list val * list (key * val) * obs vcall)%type.

Definition creation_case_ok (c : creation_case) : bool :=
  let '(s, shape, args, kw, o) := c in
  obs_eqb vcall_eqb (obs_of (tuple_of_tuples val vcall Fvrec mkB_id nested_v (mksg s) shape args kw)) o.

(** random wrappers: [_add_seed(map_func_over_tuple_of_tuples(f))]; the key actually used and
    the returned key are compared as tags: PRNGKey(seed) = VTuple [VObj 700; seed-or-701],
    split(k)[0] = VRavel k *)
Definition prng_v (s : option val) : val := VTuple [VObj 700; match s with Some v => v | None => VObj 701 end].
Definition split_v (k : val) : val := VRavel k.

Definition random_case := ((list key * list key * list key) * key * list val * option val * option val
                           * list (key * val) * (obs vcall * val))%type.

Definition random_case_ok (c : random_case) : bool :=
  let '(s, shape, args, k, sd, kw, (o, knew)) := c in
  match add_seed val vcall Fvrec mkB_id nested_v (mksg s) prng_v split_v
                 (length (s_pos (mksg s))) shape args k sd kw with
  | Ok (r, k') => obs_eqb vcall_eqb (obs_of (Ok r)) o && val_eqb k' knew
  | Raise e => obs_eqb vcall_eqb (2, exc_code e, []) o
  end.

(* ------------------------------------------------------------------ *)
(** operators of the BlockArray class: blocks are arrays whose single entry is their tag; the
    free per-block operator returns the record [opid; block tag; other tag] *)

Inductive xoperand := XB (l : list Z) | XA (id : Z) | XO (id : Z).

Definition tagarr (id : Z) : arr Z := mkarr Z [] 0 [id].
Definition xobj := obj Z Z.

Definition to_operand (x : xoperand) : operand Z Z :=
  match x with
  | XB l => OBlk Z Z (map tagarr l)
  | XA i => OOth Z Z (IsArr Z Z (tagarr i))
  | XO i => OOth Z Z (NotArr Z Z i)
  end.

Definition other_tag (y : xobj) : Z :=
  match y with IsArr _ _ a => hd (-1) (a_data Z a) | NotArr _ _ i => i end.

(** [unimpl]: tags of operands for which the jax operator returns NotImplemented *)
Definition free_op (unimpl : list Z) (opid : Z) : opfun Z Z :=
  fun x y => if existsb (Z.eqb (other_tag y)) unimpl then None
             else Some (mkarr Z [] 0 [opid; hd (-1) (a_data Z x); other_tag y]).

Definition no_array (o : Z) : res (arr Z) := Raise TypeError.

Definition op_case := (Z * option Z * xoperand * xoperand * list Z * (Z * Z * list (list Z)))%type.

Definition op_case_ok (c : op_case) : bool :=
  let '(f, r, lhs, rhs, unimpl, o) := c in
  let bo := mkbinop Z Z (free_op unimpl f) (option_map (free_op unimpl) r) in
  let m := match py_binop Z Z no_array bo (to_operand lhs) (to_operand rhs) with
           | Ok b => (1, 0, map (a_data Z) b)
           | Raise e => (2, exc_code e, [])
           end in
  obs_eqb (list_eqb Z.eqb) m o.

(** unary operators: free operator returns [opid; tag] *)
Definition unary_case := (Z * list Z * (Z * Z * list (list Z)))%type.
Definition unary_case_ok (c : unary_case) : bool :=
  let '(f, l, o) := c in
  let m := match unary_op_wrapper Z Z no_array (fun x => mkarr Z [] 0 [f; hd (-1) (a_data Z x)]) (map tagarr l) with
           | Ok b => (1, 0, map (a_data Z) b)
           | Raise e => (2, exc_code e, [])
           end in
  obs_eqb (list_eqb Z.eqb) m o.

(** pytree: flatten gives the block tags in order; unflatten of array leaves rebuilds them *)
Definition tree_case := (list Z * list Z)%type.
Definition tree_case_ok (c : tree_case) : bool :=
  let '(l, leaves) := c in
  list_eqb Z.eqb (map (fun a => hd (-1) (a_data Z a)) (fst (tree_flatten Z (map tagarr l)))) leaves
  && match tree_unflatten Z Z no_array tt (map (fun i => IsArr Z Z (tagarr i)) leaves) with
     | Ok b => list_eqb Z.eqb (map (fun a => hd (-1) (a_data Z a)) b) l
     | Raise _ => false
     end.

(** constructor: blocks given by their dtype tags; observed = accepted? *)
Definition ctor_case := (list Z * bool)%type.
Definition ctor_case_ok (c : ctor_case) : bool :=
  let '(dts, accepted) := c in
  let bs := map (fun d => IsArr Z Z (mkarr Z [] d [0])) dts in
  match BlockArray Z Z no_array bs with
  | Ok b => accepted && list_eqb Z.eqb (map (a_dtype Z) b) dts
  | Raise e => negb accepted && Z.eqb (exc_code e) 2
  end.

(** lifted attribute read eagerly or while traced: (traced?, array valued?, block tags,
    observed container (1 = BlockArray, 0 = tuple), observed length) *)
Definition attr_case := (bool * bool * list Z * (Z * Z))%type.
Definition attr_case_ok (c : attr_case) : bool :=
  let '(traced, arrv, l, (kind, len)) := c in
  let get := fun x : arr Z => if arrv then IsArr Z Z (mkarr Z [] 0 [100 + hd (-1) (a_data Z x)])
                              else NotArr Z Z (100 + hd (-1) (a_data Z x)) in
  (* the class test of the code accepts every array, traced or not *)
  match attr_wrapper_cls Z Z no_array (fun _ => true) get (map tagarr l) with
  | Ok (inl b) => Z.eqb kind 1 && Z.eqb len (Z.of_nat (length b))
                  && list_eqb Z.eqb (map (fun a => hd (-1) (a_data Z a)) b) (map (fun t => 100 + t) l)
  | Ok (inr t) => Z.eqb kind 0 && Z.eqb len (Z.of_nat (length t))
  | Raise _ => false
  end.

(** void (assertion) wrappers: the free library function raises (with the offending tag) iff one
    of the arguments it receives carries a tag of [bad]; observed = (0 returned | 1 raised, tag
    found in the call that raised | 2 other exception, code) *)
Definition arg_tag (a : xarg) : Z := match a with Pln (VObj i) => i | _ => -1 end.
Definition Vrec (bad : list Z) (a : list xarg) (k : list (key * xarg)) : option Z :=
  find (fun t => existsb (Z.eqb t) bad) (map arg_tag a ++ map (fun kv => arg_tag (snd kv)) k).
Definition void_case := (list xarg * list (key * xarg) * list Z * (Z * Z))%type.
Definition void_case_ok (c : void_case) : bool :=
  let '(args, kw, bad, (kind, tag)) := c in
  match map_void_func_over_blocks val Z (Vrec bad) args kw with
  | Ok None => Z.eqb kind 0
  | Ok (Some t) => Z.eqb kind 1 && Z.eqb t tag
  | Raise e => Z.eqb kind 2 && Z.eqb (exc_code e) tag
  end.

Fixpoint bad_idx {X} (f : X -> bool) (l : list X) (i : nat) : list nat :=
  match l with [] => [] | x :: r => if f x then bad_idx f r (S i) else i :: bad_idx f r (S i) end.
