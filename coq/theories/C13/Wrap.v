(** C13 -- the function wrappers of scico/numpy/_wrappers.py.

    [map_func_over_blocks], [_num_blocks_in_args], [_block_args_kwargs], [add_full_reduction],
    [map_func_over_tuple_of_tuples] and the part of [inspect.Signature.bind] /
    [BoundArguments.args/.kwargs] they rely on, transcribed as total functions.  The wrapped
    library function is a Section variable [F] (any function of positional and keyword
    arguments), so every theorem holds for every wrapped name. *)
From Coq Require Import List Bool Arith ZArith Lia.
Import ListNotations.

Inductive exc := TypeError | ValueError | IndexError.
Inductive res (X : Type) := Ok (x : X) | Raise (e : exc).
Arguments Ok {X} x.
Arguments Raise {X} e.

Definition key := Z.

Inductive result (R : Type) := RPlain (r : R) | RBlock (rs : list R).
Arguments RPlain {R} r.
Arguments RBlock {R} rs.

(** [BlockArray(results)] as the last step of a wrapper *)
Definition as_block {R} (r : res (list R)) : res (result R) :=
  match r with Ok rs => Ok (RBlock rs) | Raise e => Raise e end.

Fixpoint mapM {X Y} (f : X -> res Y) (l : list X) : res (list Y) :=
  match l with
  | [] => Ok []
  | x :: r => match f x with
              | Raise e => Raise e
              | Ok y => match mapM f r with Raise e => Raise e | Ok ys => Ok (y :: ys) end
              end
  end.

Lemma mapM_ok {X Y} (f : X -> res Y) (g : X -> Y) l :
  (forall x, In x l -> f x = Ok (g x)) -> mapM f l = Ok (map g l).
Proof.
  induction l as [|x r IH]; intros H; cbn [mapM map]; [reflexivity|].
  rewrite (H x (or_introl eq_refl)), IH; [reflexivity|].
  intros y Hy. apply H. right. exact Hy.
Qed.

Lemma map_seq_S {Y} (f : nat -> Y) n :
  map f (seq 0 (S n)) = f 0 :: map (fun i => f (S i)) (seq 0 n).
Proof. cbn [seq map]. f_equal. rewrite <- seq_shift, map_map. reflexivity. Qed.

(* ------------------------------------------------------------------ *)
(** * Keyword lists and signature binding *)

Definition fmap {X Y} (f : X -> Y) (l : list (key * X)) : list (key * Y) :=
  map (fun kv => (fst kv, f (snd kv))) l.

Fixpoint assoc {X} (k : key) (l : list (key * X)) : option X :=
  match l with
  | [] => None
  | kv :: r => if Z.eqb k (fst kv) then Some (snd kv) else assoc k r
  end.

Definition memk (k : key) (l : list key) : bool := existsb (Z.eqb k) l.

(** a signature: positional-or-keyword parameter names in order, keyword-only names, and the
    names without a default *)
Record sig := mksig { s_pos : list key; s_kwonly : list key; s_req : list key }.

(** positional arguments fill the leading parameters; returns the unfilled ones *)
Fixpoint bind_pos {X} (ps : list key) (args : list X) : option (list (key * X) * list key) :=
  match args, ps with
  | [], _ => Some ([], ps)
  | a :: r, p :: ps' => match bind_pos ps' r with
                        | Some (b, rest) => Some ((p, a) :: b, rest)
                        | None => None
                        end
  | _ :: _, [] => None
  end.

(** keyword arguments in parameter order *)
Definition pick_kw {X} (names : list key) (kw : list (key * X)) : list (key * X) :=
  flat_map (fun p => match assoc p kw with Some v => [(p, v)] | None => [] end) names.

(** [signature.bind(args..., kw...).arguments] (an ordered dict in parameter order);
    [None] = TypeError *)
Definition bind {X} (sg : sig) (args : list X) (kw : list (key * X)) : option (list (key * X)) :=
  match bind_pos (s_pos sg) args with
  | None => None
  | Some (b, rest) =>
      let names := rest ++ s_kwonly sg in
      let bound := b ++ pick_kw names kw in
      if forallb (fun kv => memk (fst kv) names) kw
         && forallb (fun r => memk r (map fst bound)) (s_req sg)
      then Some bound else None
  end.

(** [BoundArguments.args] / [.kwargs] of an [arguments] dict from which entries may have been
    popped: positional = the longest prefix of the positional parameters still present, the
    rest goes by keyword *)
Fixpoint split_args {X} (ps : list key) (rest : list (key * X)) : list X * list (key * X) :=
  match ps, rest with
  | p :: ps', kv :: r' =>
      if Z.eqb p (fst kv) then let '(a, k) := split_args ps' r' in (snd kv :: a, k)
      else ([], rest)
  | _, _ => ([], rest)
  end.

Lemma split_args_values {X} ps (rest : list (key * X)) :
  fst (split_args ps rest) ++ map snd (snd (split_args ps rest)) = map snd rest.
Proof.
  revert rest; induction ps as [|p ps IH]; intros rest; destruct rest as [|kv r]; try reflexivity.
  cbn [split_args]. destruct (Z.eqb p (fst kv)); [|reflexivity].
  specialize (IH r). destruct (split_args ps r) as [a k]. cbn [fst snd app map] in *. now rewrite IH.
Qed.

Lemma assoc_fmap {X Y} (f : X -> Y) k l : assoc k (fmap f l) = option_map f (assoc k l).
Proof.
  induction l as [|kv r IH]; [reflexivity|]. cbn [fmap map assoc fst snd].
  destruct (Z.eqb k (fst kv)); [reflexivity|exact IH].
Qed.

Lemma map_fst_fmap {X Y} (f : X -> Y) l : map fst (fmap f l) = map fst l.
Proof. unfold fmap. rewrite map_map. reflexivity. Qed.

Lemma map_snd_fmap {X Y} (f : X -> Y) l : map snd (fmap f l) = map f (map snd l).
Proof. unfold fmap. rewrite !map_map. reflexivity. Qed.

Lemma fmap_app {X Y} (f : X -> Y) a b : fmap f (a ++ b) = fmap f a ++ fmap f b.
Proof. apply map_app. Qed.

Lemma bind_pos_map {X Y} (f : X -> Y) ps args :
  bind_pos ps (map f args) =
  option_map (fun br => (fmap f (fst br), snd br)) (bind_pos ps args).
Proof.
  revert ps; induction args as [|a r IH]; intros ps; [destruct ps; reflexivity|].
  destruct ps as [|p ps]; [reflexivity|]. cbn [map bind_pos]. rewrite IH.
  destruct (bind_pos ps r) as [[b rest]|]; reflexivity.
Qed.

Lemma pick_kw_fmap {X Y} (f : X -> Y) names kw :
  pick_kw names (fmap f kw) = fmap f (pick_kw names kw).
Proof.
  induction names as [|p r IH]; [reflexivity|]. unfold pick_kw in *. cbn [flat_map].
  rewrite fmap_app, IH, assoc_fmap. destruct (assoc p kw); reflexivity.
Qed.

(** binding is natural in the argument values: it only looks at positions and names *)
Theorem bind_fmap {X Y} (f : X -> Y) sg args kw :
  bind sg (map f args) (fmap f kw) = option_map (fmap f) (bind sg args kw).
Proof.
  unfold bind. rewrite bind_pos_map. destruct (bind_pos (s_pos sg) args) as [[b rest]|]; [|reflexivity].
  cbn [option_map fst snd]. rewrite pick_kw_fmap, <- fmap_app, map_fst_fmap.
  assert (E : forallb (fun kv : key * Y => memk (fst kv) (rest ++ s_kwonly sg)) (fmap f kw)
              = forallb (fun kv : key * X => memk (fst kv) (rest ++ s_kwonly sg)) kw).
  { unfold fmap.
    induction kw as [|kv r IH]; [reflexivity|]. cbn [map forallb fst]. now rewrite IH. }
  rewrite E.
  destruct (_ && _); reflexivity.
Qed.

Lemma bind_pos_values {X} ps (args : list X) b rest :
  bind_pos ps args = Some (b, rest) -> map snd b = args.
Proof.
  revert ps b rest; induction args as [|a r IH]; intros ps b rest H.
  - destruct ps; cbn in H; injection H as <- _; reflexivity.
  - destruct ps as [|p ps]; [discriminate|]. cbn [bind_pos] in H.
    destruct (bind_pos ps r) as [[b' rest']|] eqn:E; [|discriminate].
    injection H as <- _. cbn [map snd]. f_equal. eapply IH. exact E.
Qed.

Lemma assoc_in {X} k (l : list (key * X)) v : assoc k l = Some v -> In (k, v) l.
Proof.
  induction l as [|kv r IH]; [discriminate|]. cbn [assoc].
  destruct (Z.eqb k (fst kv)) eqn:E.
  - intros H. injection H as <-. apply Z.eqb_eq in E. subst k. left. now destruct kv.
  - intros H. right. now apply IH.
Qed.

Lemma in_assoc {X} k (l : list (key * X)) v :
  NoDup (map fst l) -> In (k, v) l -> assoc k l = Some v.
Proof.
  induction l as [|kv r IH]; [intros _ []|]. cbn [map]. intros Hnd Hin. cbn [assoc].
  inversion Hnd as [|? ? Hni Hnd']; subst.
  destruct Hin as [->|Hin].
  - cbn [fst snd]. now rewrite Z.eqb_refl.
  - destruct (Z.eqb k (fst kv)) eqn:E; [|now apply IH].
    apply Z.eqb_eq in E. subst k. exfalso. apply Hni.
    apply (in_map fst) in Hin. exact Hin.
Qed.

Lemma pick_kw_in {X} names (kw : list (key * X)) k v :
  In (k, v) (pick_kw names kw) -> In (k, v) kw.
Proof.
  unfold pick_kw. rewrite in_flat_map. intros [p [_ H]].
  destruct (assoc p kw) as [w|] eqn:E; [|destruct H]. destruct H as [H|[]].
  injection H as <- <-. now apply assoc_in.
Qed.

Lemma in_pick_kw {X} names (kw : list (key * X)) k v :
  NoDup (map fst kw) -> In (k, v) kw -> memk k names = true -> In (k, v) (pick_kw names kw).
Proof.
  intros Hnd Hin Hm. unfold pick_kw. rewrite in_flat_map. unfold memk in Hm.
  rewrite existsb_exists in Hm. destruct Hm as [p [Hp E]]. apply Z.eqb_eq in E. subst p.
  exists k. split; [exact Hp|]. rewrite (in_assoc _ _ _ Hnd Hin). now left.
Qed.

(** the bound arguments are exactly the arguments passed (no value is lost or invented) *)
Lemma bind_values_in {X} sg (args : list X) kw B :
  bind sg args kw = Some B -> forall v, In v (map snd B) -> In v (args ++ map snd kw).
Proof.
  unfold bind. destruct (bind_pos (s_pos sg) args) as [[b rest]|] eqn:E; [|discriminate].
  destruct (_ && _); [|discriminate]. intros H v Hv. injection H as <-.
  rewrite map_app, in_app_iff in Hv. rewrite in_app_iff. destruct Hv as [Hv|Hv].
  - left. now rewrite <- (bind_pos_values _ _ _ _ E).
  - right. rewrite in_map_iff in *. destruct Hv as [[k w] [<- Hin]]. exists (k, w). split; [reflexivity|].
    eapply pick_kw_in. exact Hin.
Qed.

Lemma bind_values_in_rev {X} sg (args : list X) kw B :
  bind sg args kw = Some B -> NoDup (map fst kw) ->
  forall v, In v (args ++ map snd kw) -> In v (map snd B).
Proof.
  unfold bind. destruct (bind_pos (s_pos sg) args) as [[b rest]|] eqn:E; [|discriminate].
  destruct (forallb _ kw) eqn:Hk; cbn [andb]; [|discriminate].
  destruct (forallb _ (s_req sg)); [|discriminate]. intros H Hnd v Hv. injection H as <-.
  rewrite map_app, in_app_iff. rewrite in_app_iff in Hv. destruct Hv as [Hv|Hv].
  - left. now rewrite (bind_pos_values _ _ _ _ E).
  - right. rewrite in_map_iff in *. destruct Hv as [[k w] [<- Hin]]. exists (k, w). split; [reflexivity|].
    apply in_pick_kw; [exact Hnd|exact Hin|].
    rewrite forallb_forall in Hk. exact (Hk _ Hin).
Qed.

(* ------------------------------------------------------------------ *)
(** * Mapping a function over the blocks of its BlockArray arguments *)

Section Blocks.
  Variable A : Type.                 (* Python values other than BlockArray (arrays, scalars, ...) *)
  Inductive arg := Blk (bs : list A) | Pln (a : A).
  Variable R : Type.                 (* what the library function returns *)
  Variable F : list arg -> list (key * arg) -> R.        (* the wrapped library function *)
  Variable mkB : list R -> res (list R).                 (* BlockArray(...) applied to the results *)

  Definition is_blk (a : arg) : bool := match a with Blk _ => true | Pln _ => false end.
  Definition has_blk (l : list arg) : bool := existsb is_blk l.

  Definition first_blk (l : list arg) : option (list A) :=
    match find is_blk l with Some (Blk b) => Some b | _ => None end.

  (** [_num_blocks_in_args]: the first BlockArray among the positional arguments, else the
      first among the keyword arguments (in call order), decides *)
  Definition num_blocks (args : list arg) (kw : list (key * arg)) : nat :=
    match first_blk args with
    | Some b => length b
    | None => match first_blk (map snd kw) with Some b => length b | None => 0 end
    end.

  (** [arg[i] if isinstance(arg, BlockArray) else arg] *)
  Definition sel (i : nat) (a : arg) : res arg :=
    match a with
    | Blk bs => match nth_error bs i with Some x => Ok (Pln x) | None => Raise IndexError end
    | Pln x => Ok (Pln x)
    end.

  Definition sel_kw (i : nat) (kv : key * arg) : res (key * arg) :=
    match sel i (snd kv) with Ok v => Ok (fst kv, v) | Raise e => Raise e end.

  (** [_block_args_kwargs] *)
  Definition block_args_kwargs (n : nat) (args : list arg) (kw : list (key * arg))
    : res (list (list arg * list (key * arg))) :=
    mapM (fun i => match mapM (sel i) args with
                   | Raise e => Raise e
                   | Ok a => match mapM (sel_kw i) kw with Raise e => Raise e | Ok k => Ok (a, k) end
                   end) (seq 0 n).

  (** [map_func_over_blocks(func)(args..., kwargs...)] *)
  Definition map_func_over_blocks (args : list arg) (kw : list (key * arg)) : res (result R) :=
    let n := num_blocks args kw in
    if Nat.eqb n 0 then Ok (RPlain (F args kw))
    else match block_args_kwargs n args kw with
         | Raise e => Raise e
         | Ok l => as_block (mkB (map (fun ak => F (fst ak) (snd ak)) l))
         end.

  (** block [i] of a block argument, any other argument unchanged (total version of [sel]) *)
  Definition pick (i : nat) (a : arg) : arg :=
    match a with
    | Blk bs => match nth_error bs i with Some x => Pln x | None => Blk [] end
    | Pln x => Pln x
    end.

  (** all block arguments have [n] blocks *)
  Definition wf (n : nat) (l : list arg) : Prop :=
    Forall (fun a => match a with Blk bs => length bs = n | Pln _ => True end) l.

  Lemma sel_pick n i a :
    (match a with Blk bs => length bs = n | Pln _ => True end) -> i < n -> sel i a = Ok (pick i a).
  Proof.
    destruct a as [bs|x]; [|reflexivity]. intros <- Hi. cbn [sel pick].
    destruct (nth_error bs i) eqn:E; [reflexivity|]. apply nth_error_None in E. lia.
  Qed.

  Lemma first_blk_wf n l : wf n l -> has_blk l = true -> exists b, first_blk l = Some b /\ length b = n.
  Proof.
    unfold first_blk, has_blk. induction l as [|a r IH]; [discriminate|].
    intros Hwf H. inversion Hwf as [|? ? Ha Hr]; subst. cbn [find existsb] in *.
    destruct a as [bs|x]; cbn [is_blk] in *.
    - exists bs. split; [reflexivity|exact Ha].
    - apply IH; assumption.
  Qed.

  Lemma first_blk_none l : has_blk l = false -> first_blk l = None.
  Proof.
    unfold first_blk, has_blk. induction l as [|a r IH]; [reflexivity|]. cbn [find existsb].
    destruct a as [bs|x]; cbn [is_blk orb]; [discriminate|exact IH].
  Qed.

  Lemma wf_app n a b : wf n (a ++ b) <-> wf n a /\ wf n b.
  Proof. unfold wf. apply Forall_app. Qed.

  Lemma num_blocks_wf n args kw :
    wf n (args ++ map snd kw) -> has_blk (args ++ map snd kw) = true -> num_blocks args kw = n.
  Proof.
    intros Hwf Hb. apply wf_app in Hwf. destruct Hwf as [Wa Wk].
    unfold has_blk in Hb. rewrite existsb_app in Hb. unfold num_blocks.
    destruct (existsb is_blk args) eqn:Ea.
    - destruct (first_blk_wf n args Wa Ea) as [b [-> Hl]]. exact Hl.
    - rewrite (first_blk_none _ Ea). cbn [orb] in Hb.
      destruct (first_blk_wf n _ Wk Hb) as [b [-> Hl]]. exact Hl.
  Qed.

  Lemma num_blocks_none args kw : has_blk (args ++ map snd kw) = false -> num_blocks args kw = 0.
  Proof.
    unfold has_blk. rewrite existsb_app. intros H. apply orb_false_iff in H. destruct H as [Ha Hk].
    unfold num_blocks. now rewrite (first_blk_none _ Ha), (first_blk_none _ Hk).
  Qed.

  Lemma block_args_kwargs_wf n args kw :
    wf n (args ++ map snd kw) ->
    block_args_kwargs n args kw = Ok (map (fun i => (map (pick i) args, fmap (pick i) kw)) (seq 0 n)).
  Proof.
    intros Hwf. apply wf_app in Hwf. destruct Hwf as [Wa Wk]. unfold block_args_kwargs.
    apply mapM_ok. intros i Hi. apply in_seq in Hi.
    rewrite (mapM_ok (sel i) (pick i)).
    2:{ intros a Ha. apply (sel_pick n); [|lia]. unfold wf in Wa. rewrite Forall_forall in Wa. now apply Wa. }
    rewrite (mapM_ok (sel_kw i) (fun kv => (fst kv, pick i (snd kv)))); [reflexivity|].
    intros kv Hkv. unfold sel_kw. rewrite (sel_pick n); [reflexivity| |lia].
    unfold wf in Wk. rewrite Forall_forall in Wk. apply Wk. now apply in_map.
  Qed.

  (** ** the function is applied block by block, non-block arguments passed unchanged *)
  Theorem map_blocks_spec n args kw :
    wf n (args ++ map snd kw) -> 0 < n -> has_blk (args ++ map snd kw) = true ->
    map_func_over_blocks args kw =
    as_block (mkB (map (fun i => F (map (pick i) args) (fmap (pick i) kw)) (seq 0 n))).
  Proof.
    intros Hwf Hn Hb. unfold map_func_over_blocks. rewrite (num_blocks_wf n); try assumption.
    destruct (Nat.eqb_spec n 0) as [->|_]; [lia|].
    rewrite block_args_kwargs_wf by assumption. rewrite map_map. reflexivity.
  Qed.

  Theorem map_blocks_noblock args kw :
    has_blk (args ++ map snd kw) = false -> map_func_over_blocks args kw = Ok (RPlain (F args kw)).
  Proof. intros H. unfold map_func_over_blocks. now rewrite num_blocks_none. Qed.

  Lemma pick_plain i a : is_blk a = false -> pick i a = a.
  Proof. destruct a; [discriminate|reflexivity]. Qed.

  Lemma map_pick_plain i l : has_blk l = false -> map (pick i) l = l.
  Proof.
    unfold has_blk. induction l as [|a r IH]; [reflexivity|]. cbn [existsb map]. intros H.
    apply orb_false_iff in H. destruct H as [Ha Hr]. now rewrite pick_plain, IH.
  Qed.

  Lemma fmap_pick_plain i (l : list (key * arg)) : has_blk (map snd l) = false -> fmap (pick i) l = l.
  Proof.
    unfold has_blk. induction l as [|[k a] r IH]; [reflexivity|]. cbn [existsb map fmap fst snd]. intros H.
    apply orb_false_iff in H. destruct H as [Ha Hr]. rewrite pick_plain by assumption.
    f_equal. now apply IH.
  Qed.

  Lemma map_seq_pick {Y} (h : arg -> Y) bs :
    map (fun i => h (pick i (Blk bs))) (seq 0 (length bs)) = map (fun b => h (Pln b)) bs.
  Proof.
    revert h; induction bs as [|b r IH]; intros h; [reflexivity|].
    cbn [length]. rewrite map_seq_S. cbn [map]. f_equal. exact (IH h).
  Qed.

  Lemma map_seq_pick2 {Y} (h : arg -> arg -> Y) xs ys :
    length xs = length ys ->
    map (fun i => h (pick i (Blk xs)) (pick i (Blk ys))) (seq 0 (length xs))
    = map (fun xy => h (Pln (fst xy)) (Pln (snd xy))) (combine xs ys).
  Proof.
    revert h ys; induction xs as [|x r IH]; intros h ys Hl; destruct ys as [|y s]; try discriminate; [reflexivity|].
    cbn [length]. rewrite map_seq_S. cbn [map combine]. f_equal. apply (IH (fun a b => h a b)). now injection Hl.
  Qed.

  (** ** one block argument: [map] *)
  Corollary map_blocks_unary bs :
    bs <> [] ->
    map_func_over_blocks [Blk bs] [] = as_block (mkB (map (fun b => F [Pln b] []) bs)).
  Proof.
    intros Hne. rewrite (map_blocks_spec (length bs)).
    - cbn [map fmap]. now rewrite (map_seq_pick (fun a => F [a] [])).
    - repeat constructor.
    - destruct bs; [contradiction|cbn; lia].
    - reflexivity.
  Qed.

  (** the same block argument passed by keyword *)
  Corollary map_blocks_unary_kw k bs :
    bs <> [] ->
    map_func_over_blocks [] [(k, Blk bs)] = as_block (mkB (map (fun b => F [] [(k, Pln b)]) bs)).
  Proof.
    intros Hne. rewrite (map_blocks_spec (length bs)).
    - cbn [map fmap fst snd]. now rewrite (map_seq_pick (fun a => F [] [(k, a)])).
    - repeat constructor.
    - destruct bs; [contradiction|cbn; lia].
    - reflexivity.
  Qed.

  (** ** two block arguments: [map2] over corresponding blocks *)
  Corollary map_blocks_zip xs ys :
    xs <> [] -> length xs = length ys ->
    map_func_over_blocks [Blk xs; Blk ys] [] =
    as_block (mkB (map (fun xy => F [Pln (fst xy); Pln (snd xy)] []) (combine xs ys))).
  Proof.
    intros Hne Hl. rewrite (map_blocks_spec (length xs)).
    - cbn [map fmap]. now rewrite (map_seq_pick2 (fun a b => F [a; b] [])).
    - repeat constructor. now symmetry.
    - destruct xs; [contradiction|cbn; lia].
    - reflexivity.
  Qed.

  (** ** block and non-block argument: the non-block one is broadcast to every block,
      on either side *)
  Corollary map_blocks_broadcast_r xs c :
    xs <> [] ->
    map_func_over_blocks [Blk xs; Pln c] [] = as_block (mkB (map (fun x => F [Pln x; Pln c] []) xs)).
  Proof.
    intros Hne. rewrite (map_blocks_spec (length xs)).
    - cbn [map fmap]. change (pick ?i (Pln c)) with (Pln c). now rewrite (map_seq_pick (fun a => F [a; Pln c] [])).
    - repeat constructor.
    - destruct xs; [contradiction|cbn; lia].
    - reflexivity.
  Qed.

  Corollary map_blocks_broadcast_l xs c :
    xs <> [] ->
    map_func_over_blocks [Pln c; Blk xs] [] = as_block (mkB (map (fun x => F [Pln c; Pln x] []) xs)).
  Proof.
    intros Hne. rewrite (map_blocks_spec (length xs)).
    - cbn [map fmap]. change (pick ?i (Pln c)) with (Pln c). now rewrite (map_seq_pick (fun a => F [Pln c; a] [])).
    - repeat constructor.
    - destruct xs; [contradiction|cbn; lia].
    - reflexivity.
  Qed.

  (* ---------------------------------------------------------------- *)
  (** ** [map_void_func_over_blocks]: functions called for their OUTCOME (the numpy.testing
      assertions).  [Vfun a k] is [None] when the library function returns and [Some e] when it
      raises [e]; the wrapper runs it for block 0, 1, ... in a list comprehension, so the first
      exception propagates and otherwise nothing is returned. *)
  Variable Exn : Type.
  Variable Vfun : list arg -> list (key * arg) -> option Exn.

  Fixpoint first_exc (l : list (option Exn)) : option Exn :=
    match l with [] => None | Some e :: _ => Some e | None :: r => first_exc r end.

  Definition map_void_func_over_blocks (args : list arg) (kw : list (key * arg)) : res (option Exn) :=
    let n := num_blocks args kw in
    if Nat.eqb n 0 then Ok (Vfun args kw)
    else match block_args_kwargs n args kw with
         | Raise e => Raise e
         | Ok l => Ok (first_exc (map (fun ak => Vfun (fst ak) (snd ak)) l))
         end.

  Lemma first_exc_none l : first_exc l = None <-> Forall (fun x => x = None) l.
  Proof.
    induction l as [|[e|] r IH]; cbn [first_exc].
    - split; [constructor|reflexivity].
    - split; [discriminate|]. intros H. inversion H; subst. discriminate.
    - rewrite IH. split; [now constructor|]. intros H. now inversion H.
  Qed.

  Lemma first_exc_some l : first_exc l <> None <-> Exists (fun x => x <> None) l.
  Proof.
    rewrite first_exc_none. split.
    - intros H. apply Exists_exists.
      induction l as [|x r IH]; [exfalso; apply H; constructor|].
      destruct x as [e|].
      + exists (Some e). split; [now left|discriminate].
      + destruct IH as [y [Hy Hn]].
        * intros Hr. apply H. now constructor.
        * exists y. split; [now right|exact Hn].
    - intros H Hall. apply Exists_exists in H. destruct H as [y [Hy Hn]].
      rewrite Forall_forall in Hall. now apply Hn, Hall.
  Qed.

  Theorem map_void_spec n args kw :
    wf n (args ++ map snd kw) -> 0 < n -> has_blk (args ++ map snd kw) = true ->
    map_void_func_over_blocks args kw =
    Ok (first_exc (map (fun i => Vfun (map (pick i) args) (fmap (pick i) kw)) (seq 0 n))).
  Proof.
    intros Hwf Hn Hb. unfold map_void_func_over_blocks. rewrite (num_blocks_wf n); try assumption.
    destruct (Nat.eqb_spec n 0) as [->|_]; [lia|].
    rewrite block_args_kwargs_wf by assumption. rewrite map_map. reflexivity.
  Qed.

  (** the call returns exactly when the library function returns for EVERY block, and raises
      exactly when it raises for SOME block (the exception of the first such block) *)
  Theorem map_void_passes_iff n args kw :
    wf n (args ++ map snd kw) -> 0 < n -> has_blk (args ++ map snd kw) = true ->
    (map_void_func_over_blocks args kw = Ok None <->
     forall i, i < n -> Vfun (map (pick i) args) (fmap (pick i) kw) = None).
  Proof.
    intros Hwf Hn Hb. rewrite (map_void_spec n) by assumption. split.
    - intros H i Hi. injection H as H. rewrite first_exc_none, Forall_forall in H.
      apply H. apply in_map_iff. exists i. split; [reflexivity|]. apply in_seq. lia.
    - intros H. f_equal. apply first_exc_none, Forall_forall. intros x Hx.
      apply in_map_iff in Hx. destruct Hx as [i [<- Hi]]. apply H. apply in_seq in Hi. lia.
  Qed.

  Theorem map_void_raises_iff n args kw :
    wf n (args ++ map snd kw) -> 0 < n -> has_blk (args ++ map snd kw) = true ->
    ((exists e, map_void_func_over_blocks args kw = Ok (Some e)) <->
     exists i, i < n /\ Vfun (map (pick i) args) (fmap (pick i) kw) <> None).
  Proof.
    intros Hwf Hn Hb. rewrite (map_void_spec n) by assumption. split.
    - intros [e H]. injection H as H.
      assert (Hs : first_exc (map (fun i => Vfun (map (pick i) args) (fmap (pick i) kw)) (seq 0 n)) <> None) by congruence.
      apply first_exc_some, Exists_exists in Hs. destruct Hs as [x [Hx Hne]].
      apply in_map_iff in Hx. destruct Hx as [i [<- Hi]]. exists i. apply in_seq in Hi. split; [lia|exact Hne].
    - intros [i [Hi Hne]].
      destruct (first_exc (map (fun i => Vfun (map (pick i) args) (fmap (pick i) kw)) (seq 0 n))) as [e|] eqn:Ef.
      + now exists e.
      + exfalso. apply first_exc_none in Ef. rewrite Forall_forall in Ef. apply Hne, Ef.
        apply in_map_iff. exists i. split; [reflexivity|]. apply in_seq. lia.
  Qed.

  (** two block arguments: outcome = conjunction over corresponding blocks, and whether the call
      passes does not depend on the order of the blocks *)
  Corollary map_void_zip_passes xs ys :
    xs <> [] -> length xs = length ys ->
    (map_void_func_over_blocks [Blk xs; Blk ys] [] = Ok None <->
     forall x y, In (x, y) (combine xs ys) -> Vfun [Pln x; Pln y] [] = None).
  Proof.
    intros Hne Hl. rewrite (map_void_spec (length xs)).
    - cbn [map fmap]. rewrite (map_seq_pick2 (fun a b => Vfun [a; b] [])) by exact Hl. split.
      + intros H x y Hin. injection H as H. rewrite first_exc_none, Forall_forall in H.
        apply (H (Vfun [Pln x; Pln y] [])). apply in_map_iff. now exists (x, y).
      + intros H. f_equal. apply first_exc_none, Forall_forall. intros v Hv.
        apply in_map_iff in Hv. destruct Hv as [[x y] [<- Hin]]. now apply H.
    - repeat constructor. now symmetry.
    - destruct xs; [contradiction|cbn; lia].
    - reflexivity.
  Qed.

  Corollary map_void_order_independent xs ys xs' ys' :
    xs <> [] -> xs' <> [] -> length xs = length ys -> length xs' = length ys' ->
    (forall p, In p (combine xs ys) <-> In p (combine xs' ys')) ->
    (map_void_func_over_blocks [Blk xs; Blk ys] [] = Ok None <->
     map_void_func_over_blocks [Blk xs'; Blk ys'] [] = Ok None).
  Proof.
    intros H1 H2 L1 L2 Hp. rewrite !map_void_zip_passes by assumption.
    split; intros H x y Hin; apply H; now apply Hp.
  Qed.

  (* ---------------------------------------------------------------- *)
  (** ** positional or keyword passing does not matter *)

  Section Signature.
    Variable sg : sig.
    (** the library function looks at its arguments through its signature only *)
    Variable G : option (list (key * arg)) -> R.
    Hypothesis F_sig : forall a k, F a k = G (bind sg a k).

    Lemma has_blk_bind args kw B :
      bind sg args kw = Some B -> NoDup (map fst kw) ->
      has_blk (map snd B) = has_blk (args ++ map snd kw).
    Proof.
      intros HB Hnd. unfold has_blk. apply Bool.eq_iff_eq_true. rewrite !existsb_exists.
      split; intros [v [Hv Hi]]; exists v; split; try exact Hi.
      - eapply bind_values_in; eassumption.
      - eapply bind_values_in_rev; eassumption.
    Qed.

    Lemma wf_bind n args kw B :
      bind sg args kw = Some B -> wf n (args ++ map snd kw) -> wf n (map snd B).
    Proof.
      intros HB Hwf. unfold wf in *. rewrite Forall_forall in *. intros v Hv. apply Hwf.
      eapply bind_values_in; eassumption.
    Qed.

    Theorem map_blocks_pos_kw_indep n args kw args' kw' :
      wf n (args ++ map snd kw) -> wf n (args' ++ map snd kw') ->
      NoDup (map fst kw) -> NoDup (map fst kw') ->
      bind sg args kw = bind sg args' kw' -> bind sg args kw <> None ->
      map_func_over_blocks args kw = map_func_over_blocks args' kw'.
    Proof.
      intros W W' Nd Nd' HB Hs.
      destruct (bind sg args kw) as [B|] eqn:E; [|contradiction]. symmetry in HB.
      pose proof (has_blk_bind _ _ _ E Nd) as H1. pose proof (has_blk_bind _ _ _ HB Nd') as H2.
      destruct (has_blk (map snd B)) eqn:Hb.
      - destruct (Nat.eq_dec n 0) as [->|Hn].
        + unfold map_func_over_blocks.
          rewrite (num_blocks_wf 0 args kw), (num_blocks_wf 0 args' kw') by (assumption || now symmetry).
          cbn [Nat.eqb]. now rewrite !F_sig, E, HB.
        + rewrite (map_blocks_spec n args kw), (map_blocks_spec n args' kw') by (assumption || lia || now symmetry).
          f_equal. f_equal. apply map_ext. intros i.
          now rewrite !F_sig, !bind_fmap, E, HB.
      - rewrite !map_blocks_noblock by now symmetry. now rewrite !F_sig, E, HB.
    Qed.

    (* -------------------------------------------------------------- *)
    (** ** [add_full_reduction] (wrapped around [map_func_over_blocks F]) *)

    Variable ravelA : A -> A.               (* [x.ravel()] of one block *)
    Variable concatA : list A -> A.         (* [jnp.concatenate] of a list of 1-d arrays *)

    Definition ravel_concat (a : arg) : arg :=
      match a with Blk bs => Pln (concatA (map ravelA bs)) | Pln x => Pln x end.

    Definition blk_entry (kv : key * arg) : bool := is_blk (snd kv).

    Definition full_reduction (axis : key) (args : list arg) (kw : list (key * arg)) : res (result R) :=
      match bind sg args kw with
      | None => Raise TypeError
      | Some B =>
          let ba := filter blk_entry B in                         (* popped into ba_args *)
          let rest := filter (fun kv => negb (blk_entry kv)) B in
          let '(pa, pk) := split_args (s_pos sg) rest in          (* bound_args.args / .kwargs *)
          if memk axis (map fst rest) then map_func_over_blocks pa (pk ++ ba)
          else if Nat.ltb 1 (length ba) then Raise ValueError
          else map_func_over_blocks pa (pk ++ fmap ravel_concat ba)
      end.

    Lemma rest_no_blk (B : list (key * arg)) :
      has_blk (map snd (filter (fun kv => negb (blk_entry kv)) B)) = false.
    Proof.
      unfold has_blk. induction B as [|kv r IH]; [reflexivity|]. cbn [filter].
      unfold blk_entry at 1. destruct (is_blk (snd kv)) eqn:E; cbn [negb]; [exact IH|].
      cbn [map existsb]. now rewrite E, IH.
    Qed.

    Lemma split_no_blk ps (rest : list (key * arg)) pa pk :
      has_blk (map snd rest) = false -> split_args ps rest = (pa, pk) ->
      has_blk pa = false /\ has_blk (map snd pk) = false.
    Proof.
      intros H E. pose proof (split_args_values ps rest) as V. rewrite E in V. cbn [fst snd] in V.
      rewrite <- V in H. unfold has_blk in *. rewrite existsb_app in H. now apply orb_false_iff in H.
    Qed.

    (** no axis: [F] is applied once, to the concatenation of all ravelled blocks *)
    Theorem full_reduction_no_axis axis args kw B k bs pa pk :
      bind sg args kw = Some B ->
      filter blk_entry B = [(k, Blk bs)] ->
      split_args (s_pos sg) (filter (fun kv => negb (blk_entry kv)) B) = (pa, pk) ->
      memk axis (map fst (filter (fun kv => negb (blk_entry kv)) B)) = false ->
      full_reduction axis args kw =
      Ok (RPlain (F pa (pk ++ [(k, Pln (concatA (map ravelA bs)))]))).
    Proof.
      intros HB Hba Hsp Hax. unfold full_reduction. rewrite HB, Hsp, Hax, Hba. cbn [length Nat.ltb Nat.leb fmap map fst snd ravel_concat].
      destruct (split_no_blk _ _ _ _ (rest_no_blk B) Hsp) as [Ha Hk].
      apply map_blocks_noblock. unfold has_blk in *. rewrite existsb_app, map_app, existsb_app, Ha, Hk. reflexivity.
    Qed.

    (** several block arguments and no axis: ValueError *)
    Theorem full_reduction_two_blocks axis args kw B :
      bind sg args kw = Some B -> 1 < length (filter blk_entry B) ->
      memk axis (map fst (filter (fun kv => negb (blk_entry kv)) B)) = false ->
      full_reduction axis args kw = Raise ValueError.
    Proof.
      intros HB Hl Hax. unfold full_reduction. rewrite HB.
      destruct (split_args _ _) as [pa pk]. rewrite Hax.
      destruct (Nat.ltb_spec 1 (length (filter blk_entry B))); [reflexivity|lia].
    Qed.

    (** an axis argument is present: [F] per block, the other arguments unchanged *)
    Theorem full_reduction_axis axis args kw B k bs pa pk :
      bind sg args kw = Some B ->
      filter blk_entry B = [(k, Blk bs)] -> bs <> [] ->
      split_args (s_pos sg) (filter (fun kv => negb (blk_entry kv)) B) = (pa, pk) ->
      memk axis (map fst (filter (fun kv => negb (blk_entry kv)) B)) = true ->
      full_reduction axis args kw =
      as_block (mkB (map (fun b => F pa (pk ++ [(k, Pln b)])) bs)).
    Proof.
      intros HB Hba Hne Hsp Hax. unfold full_reduction. rewrite HB, Hsp, Hax, Hba.
      destruct (split_no_blk _ _ _ _ (rest_no_blk B) Hsp) as [Ha Hk].
      rewrite (map_blocks_spec (length bs)).
      - rewrite <- (map_seq_pick (fun a => F pa (pk ++ [(k, a)])) bs). f_equal. f_equal.
        apply map_ext. intros i. rewrite map_pick_plain by exact Ha.
        rewrite fmap_app, fmap_pick_plain by exact Hk. reflexivity.
      - apply wf_app. split.
        + unfold wf. rewrite Forall_forall. intros a Hin. destruct a as [b|x]; [|exact I].
          exfalso. unfold has_blk in Ha.
          assert (existsb is_blk pa = true) by (apply existsb_exists; exists (Blk b); split; [exact Hin|reflexivity]).
          congruence.
        + rewrite map_app. apply wf_app. split; [|repeat constructor].
          unfold wf. rewrite Forall_forall. intros a Hin. destruct a as [b|x]; [|exact I].
          exfalso. unfold has_blk in Hk.
          assert (existsb is_blk (map snd pk) = true) by (apply existsb_exists; exists (Blk b); split; [exact Hin|reflexivity]).
          congruence.
      - destruct bs; [contradiction|cbn; lia].
      - unfold has_blk. rewrite map_app, !existsb_app. cbn. now rewrite !orb_true_r.
    Qed.

    (** the result depends on the call only through the bound arguments: positional and
        keyword passing are interchangeable *)
    Theorem full_reduction_pos_kw_indep axis args kw args' kw' :
      bind sg args kw = bind sg args' kw' ->
      full_reduction axis args kw = full_reduction axis args' kw'.
    Proof. intros H. unfold full_reduction. now rewrite H. Qed.
  End Signature.
End Blocks.

Arguments Blk {A} bs.
Arguments Pln {A} a.

(* ------------------------------------------------------------------ *)
(** * Creation routines: [map_func_over_tuple_of_tuples] *)

Section Creation.
  Variable X : Type.                    (* Python values (shapes, dtypes, fill values, keys) *)
  Variable R : Type.
  Variable F : list X -> list (key * X) -> R.
  Variable mkB : list R -> res (list R).
  Variable nested : X -> option (list X).      (* [is_nested(v)] and then the elements of [v] *)
  Variable sg : sig.

  Definition remove_key (k : key) (l : list (key * X)) := filter (fun kv => negb (Z.eqb (fst kv) k)) l.

  Definition tuple_of_tuples (shape : key) (args : list X) (kw : list (key * X)) : res (result R) :=
    match bind sg args kw with
    | None => Raise TypeError
    | Some B =>
        match assoc shape B with
        | None => Ok (RPlain (F args kw))
        | Some v =>
            match nested v with
            | None => Ok (RPlain (F args kw))
            | Some xs =>
                let '(pa, pk) := split_args (s_pos sg) (remove_key shape B) in
                as_block (mkB (map (fun x => F pa (pk ++ [(shape, x)])) xs))
            end
        end
    end.

  (** nested shape: one creation per element, the other arguments unchanged *)
  Theorem creation_nested shape args kw B v xs pa pk :
    bind sg args kw = Some B -> assoc shape B = Some v -> nested v = Some xs ->
    split_args (s_pos sg) (remove_key shape B) = (pa, pk) ->
    tuple_of_tuples shape args kw = as_block (mkB (map (fun x => F pa (pk ++ [(shape, x)])) xs)).
  Proof. intros HB Ha Hn Hs. unfold tuple_of_tuples. now rewrite HB, Ha, Hn, Hs. Qed.

  Theorem creation_plain shape args kw B v :
    bind sg args kw = Some B -> assoc shape B = Some v -> nested v = None ->
    tuple_of_tuples shape args kw = Ok (RPlain (F args kw)).
  Proof. intros HB Ha Hn. unfold tuple_of_tuples. now rewrite HB, Ha, Hn. Qed.

  (** positional / keyword passing of the shape (or anything else) does not matter *)
  Theorem creation_pos_kw_indep (G : option (list (key * X)) -> R) shape args kw args' kw' :
    (forall a k, F a k = G (bind sg a k)) ->
    bind sg args kw = bind sg args' kw' ->
    tuple_of_tuples shape args kw = tuple_of_tuples shape args' kw'.
  Proof.
    intros HF H.
    assert (EF : F args kw = F args' kw') by (rewrite (HF args kw), (HF args' kw'), H; reflexivity).
    unfold tuple_of_tuples. rewrite <- H, <- EF. reflexivity.
  Qed.

  (** [scico.random._add_seed] around a wrapped creation function whose first parameter is the
      key: [fun_alt(args..., key=None, seed=None, kwargs...)] with [np] = number of parameters *)
  Variable prngkey : option X -> X.             (* jax.random.PRNGKey(seed), seed=None means 0 *)
  Variable split0 : X -> X.                     (* jax.random.split(key, 2)[0] *)

  Definition add_seed (np : nat) (shape : key) (args : list X) (key_ seed : option X)
             (kw : list (key * X)) : res (result R * X) :=
    let key1 := if Nat.leb np (length args) then nth_error args (np - 1) else key_ in
    let seed1 := if Nat.ltb np (length args) then nth_error args np else seed in
    match key1, seed1 with
    | Some _, Some _ => Raise ValueError
    | _, _ =>
        let k := match key1 with Some k => k | None => prngkey seed1 end in
        match tuple_of_tuples shape (k :: firstn (np - 1) args) kw with
        | Raise e => Raise e
        | Ok r => Ok (r, split0 k)
        end
    end.

  (** a nested shape passed as the first argument of a random generator whose signature is
      (key, shape, ...): every block is drawn by the library function with the same key *)
  Theorem random_nested np shape kparam v xs rest kopt seed k :
    s_pos sg = kparam :: shape :: rest -> s_kwonly sg = [] -> s_req sg = [kparam] ->
    kparam <> shape ->
    nested v = Some xs -> np = length (s_pos sg) ->
    (k = match kopt with Some k => k | None => prngkey seed end) ->
    (kopt = None \/ seed = None) ->
    add_seed np shape [v] kopt seed [] =
    match as_block (mkB (map (fun x => F [k] [(shape, x)]) xs)) with
    | Ok r => Ok (r, split0 k) | Raise e => Raise e end.
  Proof.
    intros Hp Hk Hr Hne Hn -> -> Hks. unfold add_seed. rewrite Hp. cbn [length Nat.leb Nat.ltb].
    replace (S (S (length rest)) - 1) with (S (length rest)) by lia.
    assert (E : tuple_of_tuples shape
                  ((match kopt with Some k => k | None => prngkey seed end) :: firstn (S (length rest)) [v]) []
                = as_block (mkB (map (fun x => F [match kopt with Some k => k | None => prngkey seed end] [(shape, x)]) xs))).
    { replace (firstn (S (length rest)) [v]) with [v] by (cbn [firstn]; now rewrite firstn_nil).
      unfold tuple_of_tuples, bind. rewrite Hp, Hk, Hr.
      cbn [bind_pos]. replace (@bind_pos X rest []) with (Some (@nil (key * X), rest)) by (destruct rest; reflexivity).
      cbn [firstn bind_pos forallb app pick_kw flat_map map fst memk existsb andb].
      rewrite Z.eqb_refl. cbn [orb andb assoc fst snd].
      destruct (Z.eqb_spec shape kparam) as [->|_]; [contradiction|]. rewrite Z.eqb_refl. rewrite Hn.
      assert (PK : forall names, @pick_kw X names [] = []) by (induction names as [|p r IHn]; [reflexivity|exact IHn]).
      rewrite PK. unfold remove_key. cbn [filter fst].
      destruct (Z.eqb_spec kparam shape) as [->|_]; [contradiction|]. rewrite Z.eqb_refl.
      cbn [negb split_args fst snd]. rewrite Z.eqb_refl. cbn [app]. reflexivity. }
    destruct kopt as [k0|]; destruct seed as [s0|]; try (destruct Hks; discriminate); rewrite E; reflexivity.
  Qed.
End Creation.
