(** C14 -- scico.solver.bisect: element-wise model of the vectorised loop (generic over the
    scalar class [Num K]: runs at Qc, theorems at R) and the vectorised loop with its global
    break test.  Theorems for every iteration count. *)
From Coq Require Import Reals Lra Lia Bool List.
From SV Require Import Base.Num.
Import ListNotations.

Section BisectModel.
  Context {K : Type} `{Num K}.
  Local Open Scope num_scope.

  (** one pass of the loop body for one array element; fa, fb are recomputed from a, b
      (the code does fa = f(a); fb = f(b) after the update) *)
  Definition bis_step (f : K -> K) (ab : K * K) : K * K :=
    let a := fst ab in
    let b := snd ab in
    let c := (a + b) / k2 in
    let fc := f c in
    let fcs := ksign fc in
    (if (ksign (f a) * fcs =? k1) || (fc =? k0) then c else a,
     if (fcs * ksign (f b) =? k1) || (fc =? k0) then c else b).

  Fixpoint bis_iter (f : K -> K) (n : nat) (ab : K * K) : K * K :=
    match n with O => ab | S k => bis_iter f k (bis_step f ab) end.

  (** idx = argmin(stack(|fa|, |fb|)); x = choose(idx, (a, b)): first minimum wins *)
  Definition bis_pick (f : K -> K) (ab : K * K) : K :=
    if kabs (f (fst ab)) <=? kabs (f (snd ab)) then fst ab else snd ab.

  (** range_check *)
  Definition bis_range_ok (f : K -> K) (ab : K * K) : bool :=
    negb (ksign (f (fst ab)) =? ksign (f (snd ab))).

  (** the vectorised loop: element i has its own scalar function f_i and bracket *)
  Definition elem := ((K -> K) * (K * K))%type.
  Definition vstep (st : list elem) : list elem :=
    map (fun e => (fst e, bis_step (fst e) (snd e))) st.
  Definition vxerr (st : list elem) : K :=
    fold_right kmax k0 (map (fun e => kabs (snd (snd e) - fst (snd e))) st).
  (** ferr = max |fc|, fc evaluated at the midpoint of the bracket *before* the update *)
  Definition vferr (st : list elem) : K :=
    fold_right kmax k0 (map (fun e => kabs (fst e ((fst (snd e) + snd (snd e)) / k2))) st).

  (** for numiter in range(maxiter): ...; if xerr <= xtol and ferr <= ftol: break.
      Returns the state and the number of passes performed. *)
  Fixpoint bis_loop (fuel : nat) (xtol ftol : K) (st : list elem) (done : nat) : list elem * nat :=
    match fuel with
    | O => (st, done)
    | S k =>
        let st' := vstep st in
        if (vxerr st' <=? xtol) && (vferr st <=? ftol) then (st', S done)
        else bis_loop k xtol ftol st' (S done)
    end.

  Fixpoint viter (n : nat) (st : list elem) : list elem :=
    match n with O => st | S k => viter k (vstep st) end.

  Definition bisect (maxiter : nat) (xtol ftol : K) (st : list elem) : list K * nat :=
    let r := bis_loop maxiter xtol ftol st 0 in
    (map (fun e => bis_pick (fst e) (snd e)) (fst r), snd r).

  (** the vectorised state after n passes is the element-wise iteration *)
  Lemma viter_elem n : forall st,
    viter n st = map (fun e => (fst e, bis_iter (fst e) n (snd e))) st.
  Proof.
    induction n; intros st; cbn.
    - rewrite <- (map_id st) at 1. apply map_ext. intros [f ab]; reflexivity.
    - rewrite IHn. unfold vstep. rewrite map_map. apply map_ext. intros [f ab]; reflexivity.
  Qed.

  (** the loop performs k passes, 1 <= k <= maxiter (0 if maxiter = 0), the same k for every
      element, and stops early only when the break test held *)
  Lemma bis_loop_spec fuel xtol ftol : forall st done,
    exists k, (k <= fuel)%nat /\ (fuel > 0 -> k > 0)%nat /\
      bis_loop fuel xtol ftol st done = (viter k st, (done + k)%nat) /\
      (k = fuel \/
       exists j, k = S j /\ (vxerr (viter k st) <=? xtol) = true /\ (vferr (viter j st) <=? ftol) = true).
  Proof.
    induction fuel; intros st done.
    - exists 0%nat. cbn. split; [lia|]. split; [lia|]. split; [f_equal; lia | left; reflexivity].
    - cbn [bis_loop].
      destruct ((vxerr (vstep st) <=? xtol) && (vferr st <=? ftol)) eqn:E.
      + exists 1%nat. cbn. split; [lia|]. split; [lia|]. split; [f_equal; lia|].
        apply andb_true_iff in E. destruct E as [E1 E2].
        right. exists 0%nat. cbn. auto.
      + destruct (IHfuel (vstep st) (S done)) as (k & Hk & Hpos & Heq & Hend).
        exists (S k). cbn [viter]. split; [lia|]. split; [lia|].
        split; [rewrite Heq; f_equal; lia|].
        destruct Hend as [Hend|(j & Hj & H1 & H2)]; [left; lia|].
        right. exists (S j). cbn [viter]. subst k. auto.
  Qed.
End BisectModel.

(** ------------------------------------------------------------------ theorems over R *)
Local Open Scope R_scope.

Lemma ksign_mul_pos (x y : R) : R_eqb (ksign x * ksign y)%num 1 = true <-> 0 < x * y.
Proof.
  runfold. unfold ksign. cbn [k0 k1 kadd kmul kopp ksub kinv kdiv kleb keqb Num_R].
  destruct (Rtotal_order x 0) as [Hx|[Hx|Hx]], (Rtotal_order y 0) as [Hy|[Hy|Hy]];
    rcases; split; intros Hh; try apply R_eqb_true in Hh; try apply R_eqb_true; try nra; try lra.
Qed.

Lemma keqb_R_true (x y : R) : (x =? y)%num = true <-> x = y.
Proof. cbn [keqb Num_R]. apply R_eqb_true. Qed.

Section BisectR.
  Variable f : R -> R.

  (** characterisation of one step over R *)
  Lemma bis_step_R a b :
    let c := (a + b) / 2 in
    bis_step f (a, b) =
      (if (if Rlt_dec 0 (f a * f c) then true else false) || (if Req_EM_T (f c) 0 then true else false) then c else a,
       if (if Rlt_dec 0 (f c * f b) then true else false) || (if Req_EM_T (f c) 0 then true else false) then c else b).
  Proof.
    cbv zeta. unfold bis_step. cbn [fst snd].
    replace ((a + b) / k2)%num with ((a + b) / 2) by (unfold k2; cbn; reflexivity).
    set (c := (a + b) / 2).
    assert (E1 : (ksign (f a) * ksign (f c) =? k1)%num = if Rlt_dec 0 (f a * f c) then true else false).
    { destruct (Rlt_dec 0 (f a * f c)) as [Hp|Hn].
      - apply ksign_mul_pos; exact Hp.
      - destruct ((ksign (f a) * ksign (f c) =? k1)%num) eqn:E; auto.
        exfalso. apply Hn. apply ksign_mul_pos. exact E. }
    assert (E2 : (ksign (f c) * ksign (f b) =? k1)%num = if Rlt_dec 0 (f c * f b) then true else false).
    { destruct (Rlt_dec 0 (f c * f b)) as [Hp|Hn].
      - apply ksign_mul_pos; exact Hp.
      - destruct ((ksign (f c) * ksign (f b) =? k1)%num) eqn:E; auto.
        exfalso. apply Hn. apply ksign_mul_pos. exact E. }
    assert (E3 : (f c =? k0)%num = if Req_EM_T (f c) 0 then true else false).
    { cbn [keqb k0 Num_R]. unfold R_eqb. reflexivity. }
    rewrite E1, E2, E3. reflexivity.
  Qed.

  (** nested brackets: one step *)
  Lemma bis_step_nested a b :
    a <= b ->
    a <= fst (bis_step f (a, b)) /\ fst (bis_step f (a, b)) <= snd (bis_step f (a, b)) /\
    snd (bis_step f (a, b)) <= b.
  Proof.
    intros Hab. rewrite bis_step_R. cbn [fst snd].
    destruct (Rlt_dec 0 (f a * f ((a + b) / 2))), (Rlt_dec 0 (f ((a + b) / 2) * f b)),
      (Req_EM_T (f ((a + b) / 2)) 0); cbn [orb]; lra.
  Qed.

  (** the sign condition: strict sign change, or an endpoint is a root *)
  Definition brackets (a b : R) : Prop := f a * f b < 0 \/ f a = 0 \/ f b = 0.

  Lemma bis_step_brackets a b :
    brackets a b -> brackets (fst (bis_step f (a, b))) (snd (bis_step f (a, b))).
  Proof.
    unfold brackets. intros Hb. rewrite bis_step_R. cbn [fst snd].
    set (c := (a + b) / 2).
    destruct (Req_EM_T (f c) 0) as [Hc|Hc].
    - rewrite !orb_true_r. right; left; exact Hc.
    - rewrite !orb_false_r.
      destruct (Rlt_dec 0 (f a * f c)) as [H1|H1], (Rlt_dec 0 (f c * f b)) as [H2|H2].
      + (* both move: only possible if f a * f b > 0 *) destruct Hb as [Hb|[Hb|Hb]]; [|rewrite Hb in H1; lra|rewrite Hb in H2; lra].
        exfalso. assert (0 < (f a * f c) * (f c * f b)) by (apply Rmult_lt_0_compat; auto).
        assert (0 < f c * f c) by nra. nra.
      + destruct Hb as [Hb|[Hb|Hb]]; [|rewrite Hb in H1; lra|right; right; exact Hb].
        left. assert (0 < f c * f c) by nra.
        destruct (Rtotal_order (f c) 0) as [Hs|[Hs|Hs]]; [|lra|]; nra.
      + destruct Hb as [Hb|[Hb|Hb]]; [|right; left; exact Hb|rewrite Hb in H2; lra].
        left. destruct (Rtotal_order (f c) 0) as [Hs|[Hs|Hs]]; [|lra|]; nra.
      + exact Hb.
  Qed.

  (** strict sign change: the bracket is halved exactly, or it collapsed onto an exact root *)
  Definition halved (L : R) (a b : R) : Prop :=
    (b - a = L /\ f a * f b < 0) \/ (a = b /\ f a = 0).

  Lemma bis_step_halved L a b :
    halved L a b -> halved (L / 2) (fst (bis_step f (a, b))) (snd (bis_step f (a, b))).
  Proof.
    unfold halved. intros Hh. rewrite bis_step_R. cbn [fst snd].
    set (c := (a + b) / 2).
    destruct Hh as [[HL Hs]|[Heq Hz]].
    - destruct (Req_EM_T (f c) 0) as [Hc|Hc].
      + rewrite !orb_true_r. right. split; auto.
      + rewrite !orb_false_r.
        assert (Hcc : 0 < f c * f c) by nra.
        destruct (Rlt_dec 0 (f a * f c)) as [H1|H1], (Rlt_dec 0 (f c * f b)) as [H2|H2].
        * exfalso. assert (0 < (f a * f c) * (f c * f b)) by (apply Rmult_lt_0_compat; auto). nra.
        * left. split; [unfold c; lra|].
          destruct (Rtotal_order (f c) 0) as [Hx|[Hx|Hx]]; [|lra|]; nra.
        * left. split; [unfold c; lra|].
          destruct (Rtotal_order (f c) 0) as [Hx|[Hx|Hx]]; [|lra|]; nra.
        * exfalso.
          destruct (Rtotal_order (f c) 0) as [Hx|[Hx|Hx]]; [|lra|];
          destruct (Rtotal_order (f a) 0) as [Hy|[Hy|Hy]]; try nra;
          destruct (Rtotal_order (f b) 0) as [Hw|[Hw|Hw]]; try nra.
    - subst b. assert (Ec : c = a) by (unfold c; lra). rewrite Ec.
      destruct (Req_EM_T (f a) 0) as [Hc|Hc]; [|contradiction].
      rewrite !orb_true_r. right. split; auto.
  Qed.

  (** ---- all iteration counts ---- *)
  Theorem bis_iter_nested n : forall a0 b0,
    a0 <= b0 ->
    a0 <= fst (bis_iter f n (a0, b0)) /\
    fst (bis_iter f n (a0, b0)) <= snd (bis_iter f n (a0, b0)) /\
    snd (bis_iter f n (a0, b0)) <= b0.
  Proof.
    induction n; intros a0 b0 H0; cbn [bis_iter].
    - cbn; lra.
    - destruct (bis_step_nested a0 b0 H0) as (H1 & H2 & H3).
      destruct (bis_step f (a0, b0)) as [a1 b1] eqn:E. cbn [fst snd] in *.
      destruct (IHn a1 b1 H2) as (H4 & H5 & H6). lra.
  Qed.

  Theorem bis_iter_brackets n : forall a0 b0,
    brackets a0 b0 -> brackets (fst (bis_iter f n (a0, b0))) (snd (bis_iter f n (a0, b0))).
  Proof.
    induction n; intros a0 b0 H0; cbn [bis_iter]; auto.
    pose proof (bis_step_brackets a0 b0 H0) as H1.
    destruct (bis_step f (a0, b0)) as [a1 b1]. cbn [fst snd] in *. apply IHn; exact H1.
  Qed.

  Theorem bis_iter_halved n : forall L a0 b0,
    halved L a0 b0 ->
    halved (L / 2 ^ n) (fst (bis_iter f n (a0, b0))) (snd (bis_iter f n (a0, b0))).
  Proof.
    induction n; intros L a0 b0 H0; cbn [bis_iter].
    - cbn [fst snd pow]. replace (L / 1) with L by lra. exact H0.
    - pose proof (bis_step_halved L a0 b0 H0) as H1.
      destruct (bis_step f (a0, b0)) as [a1 b1]. cbn [fst snd] in *.
      replace (L / 2 ^ S n) with (L / 2 / 2 ^ n).
      + apply IHn; exact H1.
      + cbn [pow]. field. apply pow_nonzero. lra.
  Qed.

  (** the returned point is an endpoint of the last bracket, the one with the smaller |f| *)
  Lemma bis_pick_endpoint a b :
    (bis_pick f (a, b) = a \/ bis_pick f (a, b) = b) /\
    Rabs (f (bis_pick f (a, b))) <= Rabs (f a) /\ Rabs (f (bis_pick f (a, b))) <= Rabs (f b).
  Proof.
    unfold bis_pick. cbn [fst snd].
    assert (Eabs : forall x : R, kabs x = Rabs x).
    { intros x. unfold kabs. cbn [kleb k0 kopp Num_R]. unfold Rabs.
      destruct (Rcase_abs x); destruct (R_leb 0 x) eqn:E;
        [apply R_leb_true in E|apply R_leb_false in E|apply R_leb_true in E|apply R_leb_false in E]; lra. }
    rewrite !Eabs. cbn [kleb Num_R].
    destruct (R_leb (Rabs (f a)) (Rabs (f b))) eqn:E;
      [apply R_leb_true in E|apply R_leb_false in E]; split; auto; lra.
  Qed.

  (** Main theorem, element-wise, for every n: a valid strict bracket [a0, b0] of a
      continuous f stays a bracket; its length is (b0 - a0)/2^n (or 0 at an exact root);
      there is a root z in the final bracket, and the returned point x is in the initial
      bracket within (b0 - a0)/2^n of z. *)
  Theorem bisect_elementwise n a0 b0 :
    continuity f -> a0 <= b0 -> f a0 * f b0 < 0 ->
    let ab := bis_iter f n (a0, b0) in
    let x := bis_pick f ab in
    a0 <= fst ab /\ fst ab <= snd ab /\ snd ab <= b0 /\
    snd ab - fst ab <= (b0 - a0) / 2 ^ n /\
    a0 <= x <= b0 /\
    exists z, fst ab <= z <= snd ab /\ f z = 0 /\ Rabs (x - z) <= (b0 - a0) / 2 ^ n.
  Proof.
    intros Hc H0 Hs. cbv zeta.
    destruct (bis_iter_nested n a0 b0 H0) as (N1 & N2 & N3).
    assert (Hh : halved (b0 - a0) a0 b0) by (left; split; [reflexivity|exact Hs]).
    pose proof (bis_iter_halved n (b0 - a0) a0 b0 Hh) as Hn.
    destruct (bis_iter f n (a0, b0)) as [a b] eqn:E. cbn [fst snd] in *.
    assert (Hpow : 0 < 2 ^ n) by (apply pow_lt; lra).
    assert (HL : 0 <= (b0 - a0) / 2 ^ n).
    { apply Rmult_le_pos; [lra|]. left. apply Rinv_0_lt_compat. exact Hpow. }
    destruct (bis_pick_endpoint a b) as (Hx & _).
    assert (Hlen : b - a <= (b0 - a0) / 2 ^ n).
    { destruct Hn as [[Hl _]|[Hl _]]; lra. }
    repeat split; auto; try (destruct Hx as [Hx|Hx]; rewrite Hx; lra).
    destruct Hn as [[Hl Hsg]|[Hl Hz]].
    - assert (Hlt : a < b).
      { destruct N2 as [N2|N2]; auto. subst b. exfalso. nra. }
      assert (Hroot : exists z, a <= z <= b /\ f z = 0).
      { destruct (Rtotal_order (f a) 0) as [Ha|[Ha|Ha]].
        - assert (0 < f b) by nra.
          destruct (IVT f a b Hc Hlt Ha H) as (z & Hz1 & Hz2). exists z; auto.
        - rewrite Ha in Hsg. lra.
        - assert (f b < 0) by nra.
          assert (Hc' : continuity (- f)%F) by (apply continuity_opp; exact Hc).
          assert (H1 : (- f)%F a < 0) by (unfold opp_fct; lra).
          assert (H2 : 0 < (- f)%F b) by (unfold opp_fct; lra).
          destruct (IVT (- f)%F a b Hc' Hlt H1 H2) as (z & Hz1 & Hz2).
          exists z. split; auto. unfold opp_fct in Hz2. lra. }
      destruct Hroot as (z & Hz1 & Hz2). exists z. repeat split; try lra; auto.
      destruct Hx as [Hx|Hx]; rewrite Hx; unfold Rabs; destruct (Rcase_abs _); lra.
    - subst b. exists a. repeat split; try lra; auto.
      destruct Hx as [Hx|Hx]; rewrite Hx; unfold Rabs; destruct (Rcase_abs _); lra.
  Qed.
  (** ---- a root exactly ON an end point of the initial bracket (sign product = 0) ----
      range_check accepts such a bracket (sign 0 <> sign f(b)); the update conditions
      [sign(fa) * sign(fc) == 1 or fc == 0] do NOT move an end point whose f-value is 0
      (unless the midpoint is itself an exact root, in which case both ends collapse on it):
      the root end point stays an end point of every later bracket. *)
  Definition keeps_left (z : R) (a b : R) : Prop := (a = z /\ f z = 0) \/ (a = b /\ f a = 0).
  Definition keeps_right (z : R) (a b : R) : Prop := (b = z /\ f z = 0) \/ (a = b /\ f a = 0).

  Lemma bis_step_keeps_left z a b :
    keeps_left z a b -> keeps_left z (fst (bis_step f (a, b))) (snd (bis_step f (a, b))).
  Proof.
    unfold keeps_left. intros Hk. rewrite bis_step_R. cbn [fst snd].
    set (c := (a + b) / 2).
    destruct Hk as [[Ha Hz]|[Hab Hz]].
    - subst a. destruct (Req_EM_T (f c) 0) as [Hc|Hc].
      + rewrite !orb_true_r. right. split; auto.
      + rewrite !orb_false_r.
        destruct (Rlt_dec 0 (f z * f c)) as [H1|H1]; [rewrite Hz in H1; lra|].
        left. split; auto.
    - subst b. assert (Ec : c = a) by (unfold c; lra). rewrite Ec.
      destruct (Req_EM_T (f a) 0) as [Hc|Hc]; [|contradiction].
      rewrite !orb_true_r. right. split; auto.
  Qed.

  Lemma bis_step_keeps_right z a b :
    keeps_right z a b -> keeps_right z (fst (bis_step f (a, b))) (snd (bis_step f (a, b))).
  Proof.
    unfold keeps_right. intros Hk. rewrite bis_step_R. cbn [fst snd].
    set (c := (a + b) / 2).
    destruct Hk as [[Hb Hz]|[Hab Hz]].
    - subst b. destruct (Req_EM_T (f c) 0) as [Hc|Hc].
      + rewrite !orb_true_r. right. split; auto.
      + rewrite !orb_false_r.
        destruct (Rlt_dec 0 (f c * f z)) as [H1|H1]; [rewrite Hz in H1; lra|].
        left. split; auto.
    - subst b. assert (Ec : c = a) by (unfold c; lra). rewrite Ec.
      destruct (Req_EM_T (f a) 0) as [Hc|Hc]; [|contradiction].
      rewrite !orb_true_r. right. split; auto.
  Qed.

  Theorem bis_iter_keeps_left n : forall z a0 b0,
    keeps_left z a0 b0 ->
    keeps_left z (fst (bis_iter f n (a0, b0))) (snd (bis_iter f n (a0, b0))).
  Proof.
    induction n; intros z a0 b0 H0; cbn [bis_iter]; auto.
    pose proof (bis_step_keeps_left z a0 b0 H0) as H1.
    destruct (bis_step f (a0, b0)) as [a1 b1]. cbn [fst snd] in *. apply IHn; exact H1.
  Qed.

  Theorem bis_iter_keeps_right n : forall z a0 b0,
    keeps_right z a0 b0 ->
    keeps_right z (fst (bis_iter f n (a0, b0))) (snd (bis_iter f n (a0, b0))).
  Proof.
    induction n; intros z a0 b0 H0; cbn [bis_iter]; auto.
    pose proof (bis_step_keeps_right z a0 b0 H0) as H1.
    destruct (bis_step f (a0, b0)) as [a1 b1]. cbn [fst snd] in *. apply IHn; exact H1.
  Qed.

  (** End-point-root theorem, every n, no continuity needed: if f vanishes on an end point of
      the initial bracket, then after n passes that end point is still an end point of the
      bracket (or the bracket collapsed onto another exact root), and the returned point is
      an EXACT root lying in the initial bracket. *)
  Theorem bisect_endpoint_root n a0 b0 :
    a0 <= b0 -> f a0 = 0 \/ f b0 = 0 ->
    let ab := bis_iter f n (a0, b0) in
    let x := bis_pick f ab in
    (f a0 = 0 -> fst ab = a0 \/ (fst ab = snd ab /\ f (fst ab) = 0)) /\
    (f b0 = 0 -> snd ab = b0 \/ (fst ab = snd ab /\ f (fst ab) = 0)) /\
    f x = 0 /\ a0 <= x <= b0.
  Proof.
    intros H0 Hroot. cbv zeta.
    destruct (bis_iter_nested n a0 b0 H0) as (N1 & N2 & N3).
    assert (HL : f a0 = 0 -> keeps_left a0 (fst (bis_iter f n (a0, b0))) (snd (bis_iter f n (a0, b0)))).
    { intros Hz. apply bis_iter_keeps_left. left; split; auto. }
    assert (HR : f b0 = 0 -> keeps_right b0 (fst (bis_iter f n (a0, b0))) (snd (bis_iter f n (a0, b0)))).
    { intros Hz. apply bis_iter_keeps_right. left; split; auto. }
    destruct (bis_iter f n (a0, b0)) as [a b] eqn:E. cbn [fst snd] in *.
    destruct (bis_pick_endpoint a b) as (Hx & Hxa & Hxb).
    split; [|split; [|split]].
    - intros Hz. destruct (HL Hz) as [[Ha _]|[Hab Hfa]]; [left; exact Ha|right; split; auto].
    - intros Hz. destruct (HR Hz) as [[Hb _]|[Hab Hfa]]; [left; exact Hb|right; split; auto].
    - assert (Hend : f a = 0 \/ f b = 0).
      { destruct Hroot as [Hz|Hz].
        - destruct (HL Hz) as [[Ha _]|[_ Hfa]]; [left; subst a; exact Hz|left; exact Hfa].
        - destruct (HR Hz) as [[Hb _]|[_ Hfa]]; [right; subst b; exact Hz|left; exact Hfa]. }
      assert (Hle : Rabs (f (bis_pick f (a, b))) <= 0).
      { destruct Hend as [Hz|Hz]; [rewrite Hz, Rabs_R0 in Hxa; exact Hxa|rewrite Hz, Rabs_R0 in Hxb; exact Hxb]. }
      pose proof (Rabs_pos (f (bis_pick f (a, b)))) as Hp.
      assert (Habs : Rabs (f (bis_pick f (a, b))) = 0) by lra.
      destruct (Req_dec (f (bis_pick f (a, b))) 0) as [Hq|Hq]; auto.
      exfalso. apply (Rabs_no_R0 _ Hq). exact Habs.
    - destruct Hx as [Hx|Hx]; rewrite Hx; lra.
  Qed.
End BisectR.

(** the global break test bounds every element *)
Lemma kmax_R_le (a b t : R) : kmax a b <= t -> a <= t /\ b <= t.
Proof.
  unfold kmax. cbn [kleb Num_R].
  destruct (R_leb a b) eqn:E; [apply R_leb_true in E|apply R_leb_false in E]; intros; lra.
Qed.

Lemma fold_kmax_le (l : list R) (t : R) :
  (fold_right kmax k0 l <=? t)%num = true -> forall x, In x l -> x <= t.
Proof.
  intros Hle. cbn [kleb Num_R] in Hle. apply R_leb_true in Hle. revert Hle.
  induction l as [|y l IH]; cbn [fold_right]; intros Hle x Hin; [contradiction|].
  apply kmax_R_le in Hle. destruct Hle as [H1 H2].
  destruct Hin as [Hin|Hin]; [subst; lra|]. apply IH; auto.
Qed.

(** Vectorised statement: all elements perform the same number k of passes; if the loop
    stopped before maxiter then every element's final bracket is no longer than xtol. *)
Theorem bisect_vector (maxiter : nat) (xtol ftol : R) (st : list (@elem R)) :
  exists k, (k <= maxiter)%nat /\
    bis_loop maxiter xtol ftol st 0 = (map (fun e => (fst e, bis_iter (fst e) k (snd e))) st, k) /\
    (k = maxiter \/
     forall e, In e st ->
       Rabs (snd (bis_iter (fst e) k (snd e)) - fst (bis_iter (fst e) k (snd e))) <= xtol).
Proof.
  destruct (bis_loop_spec maxiter xtol ftol st 0%nat) as (k & Hk & _ & Heq & Hend).
  exists k. split; [exact Hk|]. split; [rewrite Heq, viter_elem; reflexivity|].
  destruct Hend as [Hend|(j & Hj & H1 & _)]; [left; exact Hend|right].
  intros e He. rewrite viter_elem in H1. unfold vxerr in H1. rewrite map_map in H1.
  cbn [fst snd] in H1.
  pose proof (fold_kmax_le _ _ H1) as Hall.
  assert (Eabs : forall x : R, kabs x = Rabs x).
  { intros x. unfold kabs. cbn [kleb k0 kopp Num_R]. unfold Rabs.
    destruct (Rcase_abs x); destruct (R_leb 0 x) eqn:E;
      [apply R_leb_true in E|apply R_leb_false in E|apply R_leb_true in E|apply R_leb_false in E]; lra. }
  rewrite <- Eabs. apply Hall.
  apply in_map_iff. exists e. split; auto.
Qed.
