(** C14 -- conjugate gradient: faithful models of the loops of
      scico.solver.cg                 (while loop, preconditioner, x0, stopping test)
      scico.flax.inverse.cg_solver    (lax.scan of fixed length, no test)
    over an abstract module: scalars [K] (no laws needed), vectors [V] with add/sub/scale,
    [A] linear, [M] arbitrary, [ip u v] = snp.sum(u.conj() * v) arbitrary (so the real, the
    sesquilinear complex and any other case are covered), [test num] = (num > termination_tol_sq).
    Theorems for every iteration count (induction on the fuel = maxiter).  No [Reals] here. *)
From Coq Require Import List Arith Lia Bool.
Import ListNotations.

Section CG.
  Variables K V : Type.
  Variables (vadd vsub : V -> V -> V) (vscale : K -> V -> V).
  Variable kdiv : K -> K -> K.
  Variable ip : V -> V -> K.
  Variable test : K -> bool.            (* num > termination_tol_sq *)
  Variables A M : V -> V.

  Hypothesis A_add : forall u v, A (vadd u v) = vadd (A u) (A v).
  Hypothesis A_scale : forall a v, A (vscale a v) = vscale a (A v).
  Hypothesis sub_add : forall u v w, vsub u (vadd v w) = vsub (vsub u v) w.

  (** loop state of scico.solver.cg: x, r, z, p, num, ii *)
  Record st := mkst { sx : V; sr : V; sz : V; sp : V; snum : K; sii : nat }.

  (** lines "x = x0 ... ii = 0" *)
  Definition cg_init (b x0 : V) : st :=
    let r := vsub b (A x0) in
    let z := M r in
    mkst x0 r z z (ip r z) 0.

  (** loop body *)
  Definition cg_step (s : st) : st :=
    let Ap := A (sp s) in
    let alpha := kdiv (snum s) (ip (sp s) Ap) in
    let x := vadd (sx s) (vscale alpha (sp s)) in
    let r := vsub (sr s) (vscale alpha Ap) in
    let z := M r in
    let num := ip r z in
    let beta := kdiv num (snum s) in
    mkst x r z (vadd z (vscale beta (sp s))) num (S (sii s)).

  (** while (ii < maxiter) and (num > termination_tol_sq): fuel = maxiter - ii *)
  Fixpoint cg_loop (fuel : nat) (s : st) : st :=
    match fuel with
    | O => s
    | S f => if test (snum s) then cg_loop f (cg_step s) else s
    end.

  Definition cg (maxiter : nat) (b x0 : V) : st := cg_loop maxiter (cg_init b x0).

  Fixpoint iter (k : nat) (s : st) : st :=
    match k with O => s | S j => iter j (cg_step s) end.

  (** the invariant *)
  Definition cg_inv (b : V) (s : st) : Prop :=
    sr s = vsub b (A (sx s)) /\ sz s = M (sr s) /\ snum s = ip (sr s) (sz s).

  Lemma cg_init_inv b x0 : cg_inv b (cg_init b x0).
  Proof. unfold cg_inv, cg_init; cbn. auto. Qed.

  Lemma cg_step_inv b s : cg_inv b s -> cg_inv b (cg_step s).
  Proof.
    intros (Hr & Hz & Hn). unfold cg_inv, cg_step; cbn. repeat split.
    rewrite A_add, A_scale, sub_add, <- Hr. reflexivity.
  Qed.

  Lemma iter_inv b k : forall s, cg_inv b s -> cg_inv b (iter k s).
  Proof. induction k; cbn; auto. intros s H. apply IHk, cg_step_inv, H. Qed.

  Lemma iter_ii k : forall s, sii (iter k s) = sii s + k.
  Proof. induction k; cbn; intros s. - lia. - rewrite IHk. cbn. lia. Qed.

  Lemma cg_loop_inv b fuel : forall s, cg_inv b s -> cg_inv b (cg_loop fuel s).
  Proof.
    induction fuel; cbn; auto. intros s H.
    destruct (test (snum s)); auto. apply IHfuel, cg_step_inv, H.
  Qed.

  (** The loop performs exactly k iterations where k is the first index with k = maxiter or
      a failing test: all earlier tests held, and it stopped for one of the two reasons. *)
  Lemma cg_loop_exit fuel : forall s,
    exists k, k <= fuel /\ cg_loop fuel s = iter k s /\
              (forall j, j < k -> test (snum (iter j s)) = true) /\
              (k = fuel \/ test (snum (iter k s)) = false).
  Proof.
    induction fuel; intros s.
    - exists 0. cbn. split; [lia|]. split; [reflexivity|]. split; [intros j Hj; lia | left; reflexivity].
    - cbn. destruct (test (snum s)) eqn:E.
      + destruct (IHfuel (cg_step s)) as (k & Hk & Heq & Hall & Hend).
        exists (S k). cbn. split; [lia|]. split; [exact Heq|]. split.
        * intros j Hj. destruct j; cbn; [exact E | apply Hall; lia].
        * destruct Hend; [left; lia | right; auto].
      + exists 0. cbn. split; [lia|]. split; [reflexivity|]. split; [intros j Hj; lia | right; exact E].
  Qed.

  (** Result of scico.solver.cg: for every maxiter, b, x0: the invariant holds at exit,
      num_iter <= maxiter, and the exit happened iff num_iter = maxiter or the test failed. *)
  Theorem cg_spec maxiter b x0 :
    let s := cg maxiter b x0 in
    sr s = vsub b (A (sx s)) /\ sz s = M (sr s) /\ snum s = ip (sr s) (sz s) /\
    sii s <= maxiter /\
    (sii s = maxiter \/ test (snum s) = false) /\
    s = iter (sii s) (cg_init b x0) /\
    (forall j, j < sii s -> test (snum (iter j (cg_init b x0))) = true).
  Proof.
    cbv zeta. unfold cg.
    destruct (cg_loop_exit maxiter (cg_init b x0)) as (k & Hk & Heq & Hall & Hend).
    pose proof (cg_loop_inv b maxiter _ (cg_init_inv b x0)) as (Hr & Hz & Hn).
    rewrite Heq in *. rewrite iter_ii. cbn [cg_init sii]. cbn [plus].
    repeat split; auto.
  Qed.

  (** maxiter = 0: x0 is returned untouched *)
  Lemma cg_maxiter0 b x0 : sx (cg 0 b x0) = x0 /\ sii (cg 0 b x0) = 0.
  Proof. cbn. auto. Qed.

  (** ------------------------------------------------------------------
      scico.flax.inverse.cg_solver: lax.scan of [maxiter] unconditional steps, no
      preconditioner.  Division is partial here ([None] = a zero denominator: IEEE gives
      nan/inf, which then contaminates every later iterate), because there is no test that
      keeps the loop away from num = 0. *)
  Variable kdivo : K -> K -> option K.
  Variable kzero : K.
  Hypothesis kdivo_zero : forall a, kdivo a kzero = None.

  (** carry (x, r, p, num); p = None once beta was not finite; whole state None once x is *)
  Record st2 := mkst2 { tx : V; tr : V; tp : option V; tnum : K }.

  Definition scan_init (b x0 : V) : st2 :=
    let r := vsub b (A x0) in mkst2 x0 r (Some r) (ip r r).

  Definition scan_step (s : st2) : option st2 :=
    match tp s with
    | None => None
    | Some p =>
        let Ap := A p in
        match kdivo (tnum s) (ip p Ap) with
        | None => None
        | Some alpha =>
            let x := vadd (tx s) (vscale alpha p) in
            let r := vsub (tr s) (vscale alpha Ap) in
            let num := ip r r in
            let p' := match kdivo num (tnum s) with
                      | None => None
                      | Some beta => Some (vadd r (vscale beta p))
                      end in
            Some (mkst2 x r p' num)
        end
    end.

  Fixpoint scan (n : nat) (s : st2) : option st2 :=
    match n with
    | O => Some s
    | S k => match scan_step s with None => None | Some s' => scan k s' end
    end.

  (** cg_solver(A, b, x0, maxiter): None = an array of nan *)
  Definition cg_solver (maxiter : nat) (b x0 : V) : option V :=
    match scan maxiter (scan_init b x0) with None => None | Some s => Some (tx s) end.

  Definition scan_inv (b : V) (s : st2) : Prop :=
    tr s = vsub b (A (tx s)) /\ tnum s = ip (tr s) (tr s).

  Lemma scan_step_inv b s s' : scan_inv b s -> scan_step s = Some s' -> scan_inv b s'.
  Proof.
    intros (Hr & Hn). unfold scan_step.
    destruct (tp s) as [p|]; [|discriminate].
    destruct (kdivo (tnum s) (ip p (A p))) as [alpha|]; [|discriminate].
    intros E. inversion E; subst; clear E. unfold scan_inv; cbn. split; auto.
    rewrite A_add, A_scale, sub_add, <- Hr. reflexivity.
  Qed.

  (** whenever the scan returns finite values, they satisfy r = b - A x, num = <r,r>
      (for every iteration count) *)
  Theorem scan_spec b n : forall s s', scan_inv b s -> scan n s = Some s' -> scan_inv b s'.
  Proof.
    induction n; cbn; intros s s' H E.
    - inversion E; subst; auto.
    - destruct (scan_step s) as [s1|] eqn:E1; [|discriminate].
      eapply IHn; [eapply scan_step_inv; eauto | exact E].
  Qed.

  Theorem cg_solver_spec maxiter b x0 x :
    cg_solver maxiter b x0 = Some x ->
    exists s, scan maxiter (scan_init b x0) = Some s /\ x = tx s /\
              tr s = vsub b (A x) /\ tnum s = ip (tr s) (tr s).
  Proof.
    unfold cg_solver. destruct (scan maxiter (scan_init b x0)) as [s|] eqn:E; [|discriminate].
    intros H; inversion H; subst. exists s. split; auto. split; auto.
    apply (scan_spec b maxiter (scan_init b x0) s); auto.
    unfold scan_inv, scan_init; cbn; auto.
  Qed.

  (** cg_solver is CG: a finite result of the scan is the k-th iterate of the SAME loop body
      [cg_step] that scico.solver.cg runs (no preconditioner: M = identity), i.e. the state
      [iter maxiter (cg_init b x0)] -- in particular num = sum(conj(r) * r) with the
      conjugation, and alpha, beta as in CG.  [kdivo] is [kdiv] where it is defined. *)
  Hypothesis M_id : forall v, M v = v.
  Hypothesis kdivo_some : forall a c q, kdivo a c = Some q -> q = kdiv a c.

  Definition scan_sim (t : st2) (s : st) : Prop :=
    tx t = sx s /\ tr t = sr s /\ tnum t = snum s /\ (forall p, tp t = Some p -> p = sp s).

  Lemma scan_step_sim t t' s : scan_sim t s -> scan_step t = Some t' -> scan_sim t' (cg_step s).
  Proof.
    intros (Hx & Hr & Hn & Hp). unfold scan_step.
    destruct (tp t) as [p|] eqn:Ep; [|discriminate].
    specialize (Hp p eq_refl). subst p.
    destruct (kdivo (tnum t) (ip (sp s) (A (sp s)))) as [alpha|] eqn:Ea; [|discriminate].
    apply kdivo_some in Ea. subst alpha. intros E. inversion E; subst t'; clear E.
    unfold scan_sim, cg_step; cbn. rewrite !M_id, Hx, Hr, Hn in *.
    split; [reflexivity|]. split; [reflexivity|]. split; [reflexivity|].
    intros p' Hp'.
    destruct (kdivo (ip (vsub (sr s) (vscale (kdiv (snum s) (ip (sp s) (A (sp s)))) (A (sp s))))
                        (vsub (sr s) (vscale (kdiv (snum s) (ip (sp s) (A (sp s)))) (A (sp s)))))
                    (snum s)) as [beta|] eqn:Eb; [|discriminate].
    apply kdivo_some in Eb. inversion Hp'; subst. reflexivity.
  Qed.

  Theorem scan_is_cg_iter n : forall t t' s, scan_sim t s -> scan n t = Some t' -> scan_sim t' (iter n s).
  Proof.
    induction n; cbn; intros t t' s H E.
    - inversion E; subst; auto.
    - destruct (scan_step t) as [t1|] eqn:E1; [|discriminate].
      eapply IHn; [eapply scan_step_sim; eauto | exact E].
  Qed.

  Theorem cg_solver_is_cg_iterate maxiter b x0 x :
    cg_solver maxiter b x0 = Some x -> x = sx (iter maxiter (cg_init b x0)).
  Proof.
    unfold cg_solver. destruct (scan maxiter (scan_init b x0)) as [t|] eqn:E; [|discriminate].
    intros H; inversion H; subst.
    assert (Hs : scan_sim (scan_init b x0) (cg_init b x0)).
    { unfold scan_sim, scan_init, cg_init; cbn. rewrite !M_id. repeat split; auto.
      intros p Hp. inversion Hp; reflexivity. }
    destruct (scan_is_cg_iter maxiter _ _ _ Hs E) as (Hx & _). exact Hx.
  Qed.

  (** The defect, for all inputs: once num = <r,r> is exactly zero (the iterate is the
      exact solution) two more scan steps turn everything into nan. *)
  Theorem scan_nan_after_convergence s n : tnum s = kzero -> scan (S (S n)) s = None.
  Proof.
    intros Hz. cbn. unfold scan_step at 1.
    destruct (tp s) as [p|]; auto.
    destruct (kdivo (tnum s) (ip p (A p))) as [alpha|]; auto.
    unfold scan_step; cbn. rewrite Hz, kdivo_zero. reflexivity.
  Qed.

  (** in particular: x0 already solves the system (e.g. b = 0 with the default x0 = 0) *)
  Corollary cg_solver_nan_at_solution b x0 n :
    ip (vsub b (A x0)) (vsub b (A x0)) = kzero -> cg_solver (S (S n)) b x0 = None.
  Proof.
    intros H. unfold cg_solver. rewrite scan_nan_after_convergence; auto.
  Qed.
End CG.
