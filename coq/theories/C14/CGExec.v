(** C14 -- the CG models of CG.v instantiated at n-tuples over a commutative ring with
    involution, A and M given by matrices: the hypotheses of the abstract theorems are
    *proved* for this instance (for every n and every matrix), and the instance is the one the
    correspondence harness runs by [vm_compute] at Qc (real) and Qc x Qc (complex). *)
From Coq Require Import List Arith Bool ZArith QArith Qabs Qcanon Ring.
From SV Require Import C14.Tup C14.CG.
Import ListNotations.
Local Open Scope nat_scope.

Section MatCG.
  Variable K : Type.
  Variables (k0 k1 : K) (kadd kmul ksub : K -> K -> K) (kopp : K -> K).
  Variable conj : K -> K.
  Variable kdiv : K -> K -> K.
  Hypothesis Rth : ring_theory k0 k1 kadd kmul ksub kopp eq.
  Variable test : K -> bool.
  Variable n : nat.
  Variable A : mat K n n.
  Variable Mf : tup K n -> tup K n.      (* preconditioner: any function (None = identity) *)

  Definition Vn := tup K n.
  Definition Af : Vn -> Vn := mv K k0 kadd kmul n n A.
  Definition ipn : Vn -> Vn -> K := dotc K k0 kadd kmul conj n.

  Definition cg_mat (maxiter : nat) (b x0 : Vn) : st K Vn :=
    cg K Vn (tadd K kadd n) (tsub K ksub n) (tscale K kmul n) kdiv ipn test Af Mf maxiter b x0.

  Definition iter_mat (k : nat) (b x0 : Vn) : st K Vn :=
    iter K Vn (tadd K kadd n) (tsub K ksub n) (tscale K kmul n) kdiv ipn Af Mf k
      (cg_init K Vn (tsub K ksub n) ipn Af Mf b x0).

  (** the abstract theorem holds for every matrix instance: no hypothesis left *)
  Theorem cg_mat_spec maxiter b x0 :
    let s := cg_mat maxiter b x0 in
    sr _ _ s = tsub K ksub n b (Af (sx _ _ s)) /\ sz _ _ s = Mf (sr _ _ s) /\
    snum _ _ s = ipn (sr _ _ s) (sz _ _ s) /\
    sii _ _ s <= maxiter /\
    (sii _ _ s = maxiter \/ test (snum _ _ s) = false) /\
    s = iter_mat (sii _ _ s) b x0 /\
    (forall j, j < sii _ _ s -> test (snum _ _ (iter_mat j b x0)) = true).
  Proof.
    apply (cg_spec K Vn (tadd K kadd n) (tsub K ksub n) (tscale K kmul n) kdiv ipn test Af Mf).
    - intros u v. apply (mv_add K k0 k1 kadd kmul ksub kopp Rth).
    - intros a v. apply (mv_scale K k0 k1 kadd kmul ksub kopp Rth).
    - intros u v w. apply (tsub_tadd K k0 k1 kadd kmul ksub kopp Rth).
  Qed.

  (** all iterates in one pass (the harness compares maxiter = 0..kmax against the same run) *)
  Definition step_mat : st K Vn -> st K Vn :=
    cg_step K Vn (tadd K kadd n) (tsub K ksub n) (tscale K kmul n) kdiv ipn Af Mf.
  Fixpoint states_from (k : nat) (s : st K Vn) : list (st K Vn) :=
    match k with O => [s] | S j => s :: states_from j (step_mat s) end.
  Definition states_mat (kmax : nat) (b x0 : Vn) : list (st K Vn) :=
    states_from kmax (cg_init K Vn (tsub K ksub n) ipn Af Mf b x0).
  Fixpoint pick_state (fuel : nat) (l : list (st K Vn)) : option (st K Vn) :=
    match l with
    | [] => None
    | s :: r => match fuel with
                | O => Some s
                | S f => if test (snum _ _ s) then pick_state f r else Some s
                end
    end.

  (** picking from the precomputed iterates is running the loop *)
  Lemma pick_state_loop k : forall kmax s, k <= kmax ->
    pick_state k (states_from kmax s) =
    Some (cg_loop K Vn (tadd K kadd n) (tsub K ksub n) (tscale K kmul n) kdiv ipn test Af Mf k s).
  Proof.
    induction k; intros kmax s Hk.
    - destruct kmax; reflexivity.
    - destruct kmax as [|kmax]; [inversion Hk|].
      cbn [states_from pick_state cg_loop]. destruct (test (snum K Vn s)); [|reflexivity].
      apply IHk. apply le_S_n. exact Hk.
  Qed.

  Lemma pick_state_cg maxiter kmax b x0 : maxiter <= kmax ->
    pick_state maxiter (states_mat kmax b x0) = Some (cg_mat maxiter b x0).
  Proof. intros H. unfold states_mat, cg_mat, cg. apply pick_state_loop. exact H. Qed.

  Variable kdivo : K -> K -> option K.
  Definition cg_solver_mat (maxiter : nat) (b x0 : Vn) : option Vn :=
    cg_solver K Vn (tadd K kadd n) (tsub K ksub n) (tscale K kmul n) ipn Af kdivo maxiter b x0.
End MatCG.

(** ------------------------------------------------------------------ real instance: Qc *)
Definition Qc_leb (a b : Qc) : bool := Qle_bool (this a) (this b).
Definition Qc_eqb (a b : Qc) : bool := Qeq_bool (this a) (this b).
Definition Qc_max (a b : Qc) : Qc := if Qc_leb a b then b else a.
Definition qid (a : Qc) : Qc := a.
Definition Qc_divo (a b : Qc) : option Qc := if Qc_eqb b 0%Qc then None else Some (a / b)%Qc.

Definition rvec n (l : list Q) : tup Qc n := vec_of Qc 0%Qc n (map Q2Qc l).
Definition rmat n (rows : list (list Q)) : mat Qc n n :=
  mat_of Qc 0%Qc n n (map (map Q2Qc) rows).
Definition rprec n (M : option (list (list Q))) : tup Qc n -> tup Qc n :=
  match M with None => fun v => v | Some rows => mv Qc 0%Qc Qcplus Qcmult n n (rmat n rows) end.

(** termination_tol_sq = max(tol * ||b||, atol)^2 = max(tol^2 <b,b>, atol^2) for tol, atol >= 0
    (lemma [tolsq_sq] of CGReal.v) *)
Definition r_tolsq n (tol atol : Q) (b : tup Qc n) : Qc :=
  Qc_max (Q2Qc tol * Q2Qc tol * dotc Qc 0%Qc Qcplus Qcmult qid n b b)%Qc (Q2Qc atol * Q2Qc atol)%Qc.

Definition r_cg n A M b x0 tol atol maxiter :=
  let bv := rvec n b in
  let tsq := r_tolsq n tol atol bv in
  cg_mat Qc 0%Qc Qcplus Qcmult Qcminus qid Qcdiv (fun num => negb (Qc_leb num tsq)) n
         (rmat n A) (rprec n M) maxiter bv (rvec n x0).

Definition r_cg_solver n A b x0 maxiter :=
  cg_solver_mat Qc 0%Qc Qcplus Qcmult Qcminus qid n (rmat n A) Qc_divo maxiter (rvec n b) (rvec n x0).

(** ------------------------------------------------------------------ complex instance *)
Definition C := (Qc * Qc)%type.
Definition Cadd := cadd Qc Qcplus.
Definition Csub := csub Qc Qcminus.
Definition Cmul := cmul Qc Qcplus Qcmult Qcminus.
Definition Cconj := cconj Qc Qcopp.
Definition C0 : C := (0%Qc, 0%Qc).
Definition Cdiv (a b : C) : C :=
  let d := (fst b * fst b + snd b * snd b)%Qc in
  let t := Cmul a (Cconj b) in ((fst t / d)%Qc, (snd t / d)%Qc).
Definition Cdivo (a b : C) : option C :=
  if Qc_eqb (fst b) 0%Qc && Qc_eqb (snd b) 0%Qc then None else Some (Cdiv a b).
(** jax orders complex numbers lexicographically: num > t for real t *)
Definition Cgt (a : C) (t : Qc) : bool :=
  negb (Qc_leb (fst a) t) || (Qc_eqb (fst a) t && negb (Qc_leb (snd a) 0%Qc)).

Definition q2c (z : Q * Q) : C := (Q2Qc (fst z), Q2Qc (snd z)).
Definition cvec n (l : list (Q * Q)) : tup C n := vec_of C C0 n (map q2c l).
Definition cmat n (rows : list (list (Q * Q))) : mat C n n := mat_of C C0 n n (map (map q2c) rows).
Definition cprec n (M : option (list (list (Q * Q)))) : tup C n -> tup C n :=
  match M with None => fun v => v | Some rows => mv C C0 Cadd Cmul n n (cmat n rows) end.

Definition c_tolsq n (tol atol : Q) (b : tup C n) : Qc :=
  Qc_max (Q2Qc tol * Q2Qc tol * fst (dotc C C0 Cadd Cmul Cconj n b b))%Qc (Q2Qc atol * Q2Qc atol)%Qc.

Definition c_cg n A M b x0 tol atol maxiter :=
  let bv := cvec n b in
  let tsq := c_tolsq n tol atol bv in
  cg_mat C C0 Cadd Cmul Csub Cconj Cdiv (fun num => Cgt num tsq) n
         (cmat n A) (cprec n M) maxiter bv (cvec n x0).

Definition c_cg_solver n A b x0 maxiter :=
  cg_solver_mat C C0 Cadd Cmul Csub Cconj n (cmat n A) Cdivo maxiter (cvec n b) (cvec n x0).

(** closed instances of the theorem: what is run is covered *)
Theorem r_cg_spec n A M b x0 tol atol maxiter :
  let s := r_cg n A M b x0 tol atol maxiter in
  let Af := Af Qc 0%Qc Qcplus Qcmult n (rmat n A) in
  sr _ _ s = tsub Qc Qcminus n (rvec n b) (Af (sx _ _ s)) /\
  sz _ _ s = rprec n M (sr _ _ s) /\
  snum _ _ s = ipn Qc 0%Qc Qcplus Qcmult qid n (sr _ _ s) (sz _ _ s) /\
  sii _ _ s <= maxiter /\
  (sii _ _ s = maxiter \/ Qc_leb (snum _ _ s) (r_tolsq n tol atol (rvec n b)) = true).
Proof.
  cbv zeta. unfold r_cg.
  pose proof (cg_mat_spec Qc 0%Qc 1%Qc Qcplus Qcmult Qcminus Qcopp qid Qcdiv Qcrt
                (fun num => negb (Qc_leb num (r_tolsq n tol atol (rvec n b)))) n (rmat n A)
                (rprec n M) maxiter (rvec n b) (rvec n x0)) as H.
  cbv zeta in H. destruct H as (H1 & H2 & H3 & H4 & H5 & _).
  repeat split; auto. destruct H5 as [H5|H5]; [left; auto|right].
  apply negb_false_iff in H5. exact H5.
Qed.

Lemma C_ring : ring_theory C0 (1%Qc, 0%Qc) Cadd Cmul Csub (copp Qc Qcopp) eq.
Proof. apply (cx_ring Qc 0%Qc 1%Qc Qcplus Qcmult Qcminus Qcopp Qcrt). Qed.

Theorem c_cg_spec n A M b x0 tol atol maxiter :
  let s := c_cg n A M b x0 tol atol maxiter in
  let Af := Af C C0 Cadd Cmul n (cmat n A) in
  sr _ _ s = tsub C Csub n (cvec n b) (Af (sx _ _ s)) /\
  sz _ _ s = cprec n M (sr _ _ s) /\
  snum _ _ s = ipn C C0 Cadd Cmul Cconj n (sr _ _ s) (sz _ _ s) /\
  sii _ _ s <= maxiter /\
  (sii _ _ s = maxiter \/ Cgt (snum _ _ s) (c_tolsq n tol atol (cvec n b)) = false).
Proof.
  cbv zeta. unfold c_cg.
  pose proof (cg_mat_spec C C0 (1%Qc, 0%Qc) Cadd Cmul Csub (copp Qc Qcopp) Cconj Cdiv C_ring
                (fun num => Cgt num (c_tolsq n tol atol (cvec n b))) n (cmat n A)
                (cprec n M) maxiter (cvec n b) (cvec n x0)) as H.
  cbv zeta in H. destruct H as (H1 & H2 & H3 & H4 & H5 & _).
  repeat split; auto.
Qed.

(** the scan variant is CG: a finite result of cg_solver is the maxiter-th iterate of the same
    loop body (instances of [cg_solver_is_cg_iterate]; nothing assumed) *)
Lemma Cdivo_some a c q : Cdivo a c = Some q -> q = Cdiv a c.
Proof. unfold Cdivo. destruct (Qc_eqb (fst c) 0%Qc && Qc_eqb (snd c) 0%Qc); intros H; inversion H; reflexivity. Qed.
Lemma Qc_divo_some a c q : Qc_divo a c = Some q -> q = (a / c)%Qc.
Proof. unfold Qc_divo. destruct (Qc_eqb c 0%Qc); intros H; inversion H; reflexivity. Qed.

Theorem c_cg_solver_is_cg_iterate n A b x0 maxiter x :
  c_cg_solver n A b x0 maxiter = Some x ->
  x = sx _ _ (iter_mat C C0 Cadd Cmul Csub Cconj Cdiv n (cmat n A) (fun v => v) maxiter (cvec n b) (cvec n x0)).
Proof.
  unfold c_cg_solver, cg_solver_mat, iter_mat. intros H.
  apply (cg_solver_is_cg_iterate C (tup C n)) with (kdivo := Cdivo); auto. exact Cdivo_some.
Qed.

Theorem r_cg_solver_is_cg_iterate n A b x0 maxiter x :
  r_cg_solver n A b x0 maxiter = Some x ->
  x = sx _ _ (iter_mat Qc 0%Qc Qcplus Qcmult Qcminus qid Qcdiv n (rmat n A) (fun v => v) maxiter (rvec n b) (rvec n x0)).
Proof.
  unfold r_cg_solver, cg_solver_mat, iter_mat. intros H.
  apply (cg_solver_is_cg_iterate Qc (tup Qc n)) with (kdivo := Qc_divo); auto. exact Qc_divo_some.
Qed.

(** ------------------------------------------------------------------ comparison with the
    implementation (values of the implementation are exact binary fractions, type Q) *)
Definition close (eps a b : Q) : bool := Qle_bool (Qabs (a - b)) (eps * (1 + Qabs b)).
Definition eps30 : Q := 1 # 1073741824.
Definition eps20 : Q := 1 # 1048576.

Fixpoint all2 {T U} (f : T -> U -> bool) (l : list T) (m : list U) : bool :=
  match l, m with
  | [], [] => true
  | a :: l', b :: m' => f a b && all2 f l' m'
  | _, _ => false
  end.

Fixpoint bad_idx14 {T} (f : T -> bool) (l : list T) (i : nat) : list nat :=
  match l with [] => [] | x :: r => if f x then bad_idx14 f r (S i) else i :: bad_idx14 f r (S i) end.

(** one observation of the implementation: maxiter, returned x, num_iter, rel_res (None = nan) *)
Definition robs := (nat * list Q * nat * option Q)%type.
Definition rcase := (nat * list (list Q) * option (list (list Q)) * list Q * list Q * Q * Q * list robs)%type.

(** a test num_j > tsq whose two sides agree to 2^-20 relative is decided by rounding in the
    implementation: such cases are not compared (reported as fragile) *)
Definition near (a b : Qc) : bool :=
  Qle_bool (Qabs (this a - this b)) (eps20 * (Qabs (this a) + Qabs (this b))) && negb (Qc_eqb a b).

(** Tolerance rule (what rounding justifies, and no more).  Floating-point CG deviates from
    exact CG by rounding errors that are proportional to the LARGEST magnitudes that occurred in
    the run (x = x + alpha p rounds at the size of the iterates, r = r - alpha A p at the size of
    the residuals) and are then amplified by the conditioning of the preconditioned system over
    the <= 6 iterations compared.  Hence
      x        : |x_i(impl) - x_i(model)| <= 2^-30 * (1 + X),   X = max_j max_i |x_j,i| over the
                 iterates j = 0..num_iter the run visited (x0 included);
      rel_res  : with a = rel_res*||b|| (impl) and b' = sqrt(num) (model):
                 |a^2 - b'^2| <= 2^-30 (1 + b'^2)                    (relative, as before)   or
                 |a - b'|     <= 2^-30 * sqrt(1 + N),  N = max_j num_j over the visited iterates;
      num_iter : exactly, unless some test num_j > tsq is within rounding of the threshold:
                 |num_j - tsq| <= 2^-20 (|num_j| + tsq)  or  |sqrt num_j - sqrt tsq| <= 2^-28 sqrt(1+N_j)
                 (then the case is reported as fragile and not compared: either decision is accepted).
    2^-30 = 2^23 unit roundoffs: room for an amplification of ~8e6, i.e. about kappa(MA)^1.5 for
    the generated systems (kappa(A) <= ~150, diagonal M with entry ratio <= 256, full M ~ A/8).
    For runs of moderate size (X, N ~ 1..100) this is the rule used before; it is wider only by the
    factor of the data the code was actually given (e.g. x0 ~ 128 and ||r0|| ~ 1e3 with ||b|| ~ 1).
    Square roots are avoided:  |a - b| <= t  <=>  a^2 + b^2 - t^2 <= 2ab  (a, b >= 0). *)
Definition sqrt_close (t2 a2 b2 : Q) : bool :=
  let d := (a2 + b2 - t2)%Q in
  Qle_bool d 0 || Qle_bool (d * d) (4 * a2 * b2).

Definition qmax (a b : Q) : Q := if Qle_bool a b then b else a.
Definition maxl (l : list Q) : Q := fold_right qmax 0%Q l.
Definition eps28 : Q := 1 # 268435456.

(** rounding-decided test at iterate j: the two sides nearly equal (relative to themselves, or to
    the largest num seen so far), or exactly equal after at least one inexact iteration *)
Fixpoint frag_list (nums : list Qc) (tsq : Qc) (j : nat) (nmax : Q) : bool :=
  match nums with
  | [] => false
  | a :: r =>
      let nmax' := qmax nmax (this a) in
      near a tsq || (Qc_eqb a tsq && negb (Nat.eqb j 0))
      || (sqrt_close (eps28 * eps28 * (1 + nmax')) (this a) (this tsq) && negb (Nat.eqb j 0))
      || frag_list r tsq (S j) nmax'
  end.

Definition obs_kmax {X Y Z} (obs : list (nat * X * Y * Z)) : nat :=
  fold_right Nat.max 0%nat (map (fun o => fst (fst (fst o))) obs).

Definition r_states n A M b x0 kmax :=
  states_mat Qc 0%Qc Qcplus Qcmult Qcminus qid Qcdiv n (rmat n A) (rprec n M) kmax (rvec n b) (rvec n x0).

Definition r_obs_ok n (tsq bb : Qc) (sts : list (st Qc (tup Qc n))) (o : robs) : bool :=
  let '(maxiter, x, it, rr) := o in
  match pick_state Qc (fun num => negb (Qc_leb num tsq)) n maxiter sts with
  | None => false
  | Some s =>
      let visited := firstn (S (sii _ _ s)) sts in
      let xscale := (1 + maxl (map (fun t => maxl (map (fun m => Qabs (this m)) (to_list n (sx _ _ t)))) visited))%Q in
      let nmax := maxl (map (fun t => this (snum _ _ t)) visited) in
      Nat.eqb (sii _ _ s) it &&
      all2 (fun m i => Qle_bool (Qabs (i - this m)) (eps30 * xscale)) (to_list n (sx _ _ s)) x &&
      match rr with
      | None => Qc_eqb bb 0%Qc
      | Some v => negb (Qc_eqb bb 0%Qc) &&
                  (close eps30 (v * v * this bb) (this (snum _ _ s))
                   || sqrt_close (eps30 * eps30 * (1 + nmax)) (v * v * this bb) (this (snum _ _ s)))
      end
  end.

Definition r_case_ok (c : rcase) : bool :=
  let '(n, A, M, b, x0, tol, atol, obs) := c in
  let bv := rvec n b in
  let tsq := r_tolsq n tol atol bv in
  let bb := dotc Qc 0%Qc Qcplus Qcmult qid n bv bv in
  let sts := r_states n A M b x0 (obs_kmax obs) in
  forallb (r_obs_ok n tsq bb sts) obs.
Definition r_case_fragile (c : rcase) : bool :=
  let '(n, A, M, b, x0, tol, atol, obs) := c in
  let tsq := r_tolsq n tol atol (rvec n b) in
  frag_list (map (fun s => snum _ _ s) (r_states n A M b x0 (obs_kmax obs))) tsq 0 0%Q.

(** complex *)
Definition cobs := (nat * list (Q * Q) * nat * option Q)%type.
Definition ccase := (nat * list (list (Q * Q)) * option (list (list (Q * Q))) * list (Q * Q) * list (Q * Q) * Q * Q * list cobs)%type.

Definition c_states n A M b x0 kmax :=
  states_mat C C0 Cadd Cmul Csub Cconj Cdiv n (cmat n A) (cprec n M) kmax (cvec n b) (cvec n x0).

Definition c_obs_ok n (tsq bb : Qc) (sts : list (st C (tup C n))) (o : cobs) : bool :=
  let '(maxiter, x, it, rr) := o in
  match pick_state C (fun num => Cgt num tsq) n maxiter sts with
  | None => false
  | Some s =>
      let visited := firstn (S (sii _ _ s)) sts in
      let xscale := (1 + maxl (map (fun t => maxl (map (fun m => qmax (Qabs (this (fst m))) (Qabs (this (snd m))))
                                                       (to_list n (sx _ _ t)))) visited))%Q in
      let nmax := maxl (map (fun t => this (fst (snum _ _ t))) visited) in
      Nat.eqb (sii _ _ s) it &&
      all2 (fun m i => Qle_bool (Qabs (fst i - this (fst m))) (eps30 * xscale)
                       && Qle_bool (Qabs (snd i - this (snd m))) (eps30 * xscale))
           (to_list n (sx _ _ s)) x &&
      match rr with
      | None => Qc_eqb bb 0%Qc
      | Some v => negb (Qc_eqb bb 0%Qc) &&
                  (close eps30 (v * v * this bb) (this (fst (snum _ _ s)))
                   || sqrt_close (eps30 * eps30 * (1 + nmax)) (v * v * this bb) (this (fst (snum _ _ s))))
      end
  end.

Definition c_case_ok (c : ccase) : bool :=
  let '(n, A, M, b, x0, tol, atol, obs) := c in
  let bv := cvec n b in
  let tsq := c_tolsq n tol atol bv in
  let bb := fst (dotc C C0 Cadd Cmul Cconj n bv bv) in
  let sts := c_states n A M b x0 (obs_kmax obs) in
  forallb (c_obs_ok n tsq bb sts) obs.
Definition c_case_fragile (c : ccase) : bool :=
  let '(n, A, M, b, x0, tol, atol, obs) := c in
  let tsq := c_tolsq n tol atol (cvec n b) in
  frag_list (map (fun s => fst (snum _ _ s)) (c_states n A M b x0 (obs_kmax obs))) tsq 0 0%Q.

(** cg_solver (scan): observation = maxiter, returned x (None = contains nan).
    [exact] = the data were generated so that float arithmetic is exact (b = 0, A = 2^k I, ...):
    then model and implementation must agree on nan as well; otherwise a model nan (exact
    residual 0) against a finite implementation value (rounded residual ~1e-17) is decided by
    rounding and is not compared. *)
Definition sobs := (nat * option (list Q))%type.
Definition r_scan_ok n A b x0 (exact : bool) (o : sobs) : bool :=
  let '(maxiter, x) := o in
  match r_cg_solver n A b x0 maxiter, x with
  | None, None => true
  | Some m, Some i => all2 (fun a c => close eps30 c (this a)) (to_list n m) i
  | None, Some _ => negb exact
  | Some _, None => false
  end.
Definition scase := (nat * list (list Q) * list Q * list Q * bool * list sobs)%type.
Definition r_scan_case_ok (c : scase) : bool :=
  let '(n, A, b, x0, exact, obs) := c in forallb (r_scan_ok n A b x0 exact) obs.

(** complex cg_solver (scan): same protocol; [eps] is the comparison tolerance (2^-30 for complex128,
    2^-12 for complex64 data) *)
Definition csobs := (nat * option (list (Q * Q)))%type.
Definition c_scan_ok n A b x0 (exact : bool) (eps : Q) (o : csobs) : bool :=
  let '(maxiter, x) := o in
  match c_cg_solver n A b x0 maxiter, x with
  | None, None => true
  | Some m, Some i =>
      all2 (fun a c => close eps (fst c) (this (fst a)) && close eps (snd c) (this (snd a))) (to_list n m) i
  | None, Some _ => negb exact
  | Some _, None => false
  end.
Definition cscase := (nat * list (list (Q * Q)) * list (Q * Q) * list (Q * Q) * bool * Q * list csobs)%type.
Definition c_scan_case_ok (c : cscase) : bool :=
  let '(n, A, b, x0, exact, eps, obs) := c in forallb (c_scan_ok n A b x0 exact eps) obs.
