(** C14 -- what the exit of scico.solver.cg means over the reals.
    Without preconditioner (M = identity) the loop stops on, and info["rel_res"] reports, the
    TRUE residual norm ||b - A x||; with a preconditioner it stops on / reports
    sqrt(<r, M r>) instead (see Findings/C14_cg_precond.v).
    Scalars K are abstract (real or complex); [re] extracts the real part, [ip v v] is real
    and non-negative; [test] is the comparison num > termination_tol_sq. *)
From Coq Require Import Reals Lra Lia Bool.
From SV Require Import Base.Num C14.CG.
Local Open Scope R_scope.

(** termination_tol_sq = maximum(tol * bn, atol) ** 2, in the squared form the exact model runs *)
Lemma tolsq_sq tol atol bb :
  0 <= tol -> 0 <= atol -> 0 <= bb ->
  Rmax (tol * sqrt bb) atol * Rmax (tol * sqrt bb) atol = Rmax (tol * tol * bb) (atol * atol).
Proof.
  intros Ht Ha Hb. pose proof (sqrt_sqrt bb Hb) as Hs. pose proof (sqrt_pos bb) as Hp.
  set (s := sqrt bb) in *. replace (tol * tol * bb) with ((tol * s) * (tol * s)) by (rewrite <- Hs; ring).
  assert (H0 : 0 <= tol * s) by (apply Rmult_le_pos; auto).
  unfold Rmax. destruct (Rle_dec (tol * s) atol), (Rle_dec (tol * s * (tol * s)) (atol * atol)); try reflexivity; nra.
Qed.

Section CGReal.
  Variables K V : Type.
  Variables (vadd vsub : V -> V -> V) (vscale : K -> V -> V).
  Variable kdiv : K -> K -> K.
  Variable ip : V -> V -> K.
  Variable test : K -> bool.
  Variable A : V -> V.
  Variable re : K -> R.

  Hypothesis A_add : forall u v, A (vadd u v) = vadd (A u) (A v).
  Hypothesis A_scale : forall a v, A (vscale a v) = vscale a (A v).
  Hypothesis sub_add : forall u v w, vsub u (vadd v w) = vsub (vsub u v) w.
  Hypothesis ip_pos : forall v, 0 <= re (ip v v).

  Definition norm (v : V) : R := sqrt (re (ip v v)).

  Variables tol atol : R.
  Hypothesis tol_nonneg : 0 <= tol.
  Hypothesis atol_nonneg : 0 <= atol.
  Variable b : V.

  (** snp.maximum(tol * bn, atol) ** 2 with bn = snp.linalg.norm(b) *)
  Definition thr : R := Rmax (tol * norm b) atol.
  Definition tsq : R := thr * thr.
  Hypothesis test_spec : forall v, test (ip v v) = true <-> tsq < re (ip v v).

  Lemma thr_nonneg : 0 <= thr.
  Proof. unfold thr. apply Rle_trans with atol; auto. apply Rmax_r. Qed.

  Definition cgI := cg K V vadd vsub vscale kdiv ip test A (fun v => v).
  (** info["rel_res"] = snp.sqrt(num).real / bn  (num is real and >= 0 here) *)
  Definition rel_res (s : st K V) : R := sqrt (re (snum K V s)) / norm b.

  (** M = None: for every maxiter and x0, the loop exits with num_iter = maxiter or with the
      TRUE residual below the documented threshold max(tol ||b||, atol), and it did not
      stop earlier: every earlier iterate had a residual above the threshold. *)
  Theorem cg_identity_rule maxiter x0 :
    let s := cgI maxiter b x0 in
    (sii K V s <= maxiter)%nat /\
    (sii K V s = maxiter \/ norm (vsub b (A (sx K V s))) <= thr) /\
    (forall j, (j < sii K V s)%nat ->
       thr < norm (vsub b (A (sx K V (iter K V vadd vsub vscale kdiv ip A (fun v => v) j
                                          (cg_init K V vsub ip A (fun v => v) b x0)))))).
  Proof.
    cbv zeta. unfold cgI.
    destruct (cg_spec K V vadd vsub vscale kdiv ip test A (fun v => v) A_add A_scale sub_add maxiter b x0)
      as (Hr & Hz & Hn & Hle & Hex & Hit & Hall).
    set (s := cg K V vadd vsub vscale kdiv ip test A (fun v => v) maxiter b x0) in *.
    split; [exact Hle|]. split.
    - destruct Hex as [Hex|Hex]; [left; exact Hex|right].
      rewrite Hn, Hz in Hex.
      assert (Hnt : ~ tsq < re (ip (sr K V s) (sr K V s))).
      { intro Hlt. apply test_spec in Hlt. congruence. }
      rewrite <- Hr. unfold norm.
      rewrite <- (sqrt_square thr thr_nonneg). apply sqrt_le_1_alt. unfold tsq in Hnt. lra.
    - intros j Hj. specialize (Hall j Hj).
      pose proof (iter_inv K V vadd vsub vscale kdiv ip A (fun v => v) A_add A_scale sub_add b j _
                    (cg_init_inv K V vsub ip A (fun v => v) b x0)) as (Hr' & Hz' & Hn').
      set (sj := iter K V vadd vsub vscale kdiv ip A (fun v => v) j
                      (cg_init K V vsub ip A (fun v => v) b x0)) in *.
      rewrite Hn', Hz' in Hall. apply test_spec in Hall.
      rewrite <- Hr'. unfold norm.
      rewrite <- (sqrt_square thr thr_nonneg). apply sqrt_lt_1_alt.
      split; [apply Rmult_le_pos; apply thr_nonneg | exact Hall].
  Qed.

  (** M = None: the reported relative residual is the true one, ||b - A x|| / ||b|| *)
  Theorem cg_identity_rel_res maxiter x0 :
    let s := cgI maxiter b x0 in
    rel_res s = norm (vsub b (A (sx K V s))) / norm b.
  Proof.
    cbv zeta. unfold cgI.
    destruct (cg_spec K V vadd vsub vscale kdiv ip test A (fun v => v) A_add A_scale sub_add maxiter b x0)
      as (Hr & Hz & Hn & _).
    unfold rel_res, norm. rewrite Hn, Hz, <- Hr. reflexivity.
  Qed.
End CGReal.

(** Real scalars: K = R, test num = (num > termination_tol_sq) literally. *)
Section CGRealR.
  Variable V : Type.
  Variables (vadd vsub : V -> V -> V) (vscale : R -> V -> V).
  Variable ip : V -> V -> R.
  Variables A M : V -> V.
  Hypothesis A_add : forall u v, A (vadd u v) = vadd (A u) (A v).
  Hypothesis A_scale : forall a v, A (vscale a v) = vscale a (A v).
  Hypothesis sub_add : forall u v w, vsub u (vadd v w) = vsub (vsub u v) w.
  Hypothesis ip_pos : forall v, 0 <= ip v v.
  Variables tol atol : R.
  Hypothesis tol_nonneg : 0 <= tol.
  Hypothesis atol_nonneg : 0 <= atol.
  Variable b : V.

  Definition rnorm (v : V) := sqrt (ip v v).
  Definition rthr := Rmax (tol * rnorm b) atol.
  Definition rtest (num : R) : bool := kltb (rthr * rthr) num.

  Lemma rtest_spec v : rtest (ip v v) = true <-> rthr * rthr < ip v v.
  Proof.
    unfold rtest, kltb. cbn [kleb Num_R]. rewrite negb_true_iff. apply R_leb_false.
  Qed.

  Theorem cg_real_rule maxiter x0 :
    let s := cg R V vadd vsub vscale Rdiv ip rtest A (fun v => v) maxiter b x0 in
    (sii R V s = maxiter \/ rnorm (vsub b (A (sx R V s))) <= Rmax (tol * rnorm b) atol) /\
    sqrt (snum R V s) / rnorm b = rnorm (vsub b (A (sx R V s))) / rnorm b.
  Proof.
    cbv zeta. split.
    - exact (proj1 (proj2 (cg_identity_rule R V vadd vsub vscale Rdiv ip rtest A (fun x => x)
               A_add A_scale sub_add tol atol atol_nonneg b rtest_spec maxiter x0))).
    - exact (cg_identity_rel_res R V vadd vsub vscale Rdiv ip rtest A (fun x => x)
               A_add A_scale sub_add b maxiter x0).
  Qed.

  (** With a preconditioner M (any function): what the code stops on and reports is the
      M-weighted quantity sqrt(<r, M r>), r the true residual -- NOT ||r||. *)
  Theorem cg_real_precond_rule maxiter x0 :
    let s := cg R V vadd vsub vscale Rdiv ip rtest A M maxiter b x0 in
    let r := vsub b (A (sx R V s)) in
    (sii R V s = maxiter \/ ip r (M r) <= rthr * rthr) /\
    sqrt (snum R V s) / rnorm b = sqrt (ip r (M r)) / rnorm b.
  Proof.
    cbv zeta.
    destruct (cg_spec R V vadd vsub vscale Rdiv ip rtest A M A_add A_scale sub_add maxiter b x0)
      as (Hr & Hz & Hn & Hle & Hex & _).
    set (s := cg R V vadd vsub vscale Rdiv ip rtest A M maxiter b x0) in *.
    rewrite <- Hr, <- Hz, <- Hn. split; [|reflexivity].
    destruct Hex as [Hex|Hex]; [left; exact Hex|right].
    unfold rtest, kltb in Hex. cbn [kleb Num_R] in Hex. rewrite negb_false_iff in Hex.
    apply R_leb_true in Hex. exact Hex.
  Qed.
End CGRealR.

(** Complex scalars as pairs (re, im); jax compares complex numbers lexicographically, and
    <v, v> = sum(conj(v) * v) has zero imaginary part. *)
Section CGRealC.
  Variable V : Type.
  Variables (vadd vsub : V -> V -> V) (vscale : R * R -> V -> V).
  Variable cdiv : R * R -> R * R -> R * R.
  Variable ip : V -> V -> R * R.
  Variable A : V -> V.
  Hypothesis A_add : forall u v, A (vadd u v) = vadd (A u) (A v).
  Hypothesis A_scale : forall a v, A (vscale a v) = vscale a (A v).
  Hypothesis sub_add : forall u v w, vsub u (vadd v w) = vsub (vsub u v) w.
  Hypothesis ip_pos : forall v, 0 <= fst (ip v v).
  Hypothesis ip_im : forall v, snd (ip v v) = 0.
  Variables tol atol : R.
  Hypothesis tol_nonneg : 0 <= tol.
  Hypothesis atol_nonneg : 0 <= atol.
  Variable b : V.

  Definition cnorm (v : V) := sqrt (fst (ip v v)).
  Definition cthr := Rmax (tol * cnorm b) atol.
  Definition ctest (num : R * R) : bool :=
    kltb (cthr * cthr) (fst num) || (keqb (fst num) (cthr * cthr) && kltb 0 (snd num)).

  Lemma ctest_spec v : ctest (ip v v) = true <-> cthr * cthr < fst (ip v v).
  Proof.
    unfold ctest, kltb. cbn [kleb keqb Num_R]. rewrite ip_im.
    assert (E : R_leb 0 0 = true) by (apply R_leb_true; lra). rewrite E. cbn [negb].
    rewrite andb_false_r, orb_false_r, negb_true_iff. apply R_leb_false.
  Qed.

  Theorem cg_complex_rule maxiter x0 :
    let s := cg (R * R) V vadd vsub vscale cdiv ip ctest A (fun v => v) maxiter b x0 in
    (sii _ V s = maxiter \/ cnorm (vsub b (A (sx _ V s))) <= Rmax (tol * cnorm b) atol) /\
    sqrt (fst (snum _ V s)) / cnorm b = cnorm (vsub b (A (sx _ V s))) / cnorm b.
  Proof.
    cbv zeta. split.
    - exact (proj1 (proj2 (cg_identity_rule (R * R) V vadd vsub vscale cdiv ip ctest A fst
               A_add A_scale sub_add tol atol atol_nonneg b ctest_spec maxiter x0))).
    - exact (cg_identity_rel_res (R * R) V vadd vsub vscale cdiv ip ctest A fst
               A_add A_scale sub_add b maxiter x0).
  Qed.
End CGRealC.
