(** Tie of the C14 conjugate-gradient model to the source: the initialisation and the
    `while (ii < maxiter) and (num > termination_tol_sq)` loop of scico.solver.cg, regenerated
    by tools/py2coq.py (SVGen.C14_CG; fuel = maxiter), equal [CG.cg] instantiated with the
    operations the code uses: ip u v = snp.sum(u.conj() * v), test num = (num > tts) with
    tts = maximum(tol * norm(b), atol) ** 2.  Generic in scalars, vectors, A, M. *)
From Coq Require Import List Bool Arith.
From SV Require Import Base.Num C11.Overload C14.CG.
From SVGen Require C14_CG.

Section Gen.
  Context {K : Type} {NK : Num K} {V : Type} {VV : VecOps K V} {CD : CDot V K} {NO : NormOracle V K}.
  Variables (A M : V -> V) (tol atol : K).

  Definition cg_tts (b : V) : K := kmul (kmax (kmul tol (nrm_ b)) atol) (kmax (kmul tol (nrm_ b)) atol).
  Definition cg_test (b : V) (num : K) : bool := kltb (cg_tts b) num.
  Definition cg_model (maxiter : nat) (b x0 : V) : st K V :=
    cg K V vadd_ vsub_ vscale_ kdiv cdot_ (cg_test b) A M maxiter b x0.
  Definition st_tuple (s : st K V) := (sx K V s, sr K V s, sz K V s, sp K V s, snum K V s, sii K V s).

  Lemma cg_fix_is_loop b : forall fuel x r z num p ii,
    (fix loop_ (fuel_ : nat) (acc_ : V * V * V * K * V * nat) {struct fuel_} : V * V * V * K * V * nat :=
       match fuel_ with
       | O => acc_
       | S fuel_ =>
           let '(v_x, v_r, v_z, v_num, v_p, v_ii) := acc_ in
           if hlt (cg_tts b) v_num
           then loop_ fuel_
                  (hadd v_x (hmul (hdiv v_num (cdot_ v_p (hcall A v_p))) v_p),
                   hsub v_r (hmul (hdiv v_num (cdot_ v_p (hcall A v_p))) (hcall A v_p)),
                   hcall M (hsub v_r (hmul (hdiv v_num (cdot_ v_p (hcall A v_p))) (hcall A v_p))),
                   cdot_ (hsub v_r (hmul (hdiv v_num (cdot_ v_p (hcall A v_p))) (hcall A v_p)))
                         (hcall M (hsub v_r (hmul (hdiv v_num (cdot_ v_p (hcall A v_p))) (hcall A v_p)))),
                   hadd (hcall M (hsub v_r (hmul (hdiv v_num (cdot_ v_p (hcall A v_p))) (hcall A v_p))))
                        (hmul (hdiv (cdot_ (hsub v_r (hmul (hdiv v_num (cdot_ v_p (hcall A v_p))) (hcall A v_p)))
                                           (hcall M (hsub v_r (hmul (hdiv v_num (cdot_ v_p (hcall A v_p))) (hcall A v_p)))))
                                    v_num) v_p),
                   S v_ii)
           else (v_x, v_r, v_z, v_num, v_p, v_ii)
       end) fuel (x, r, z, num, p, ii)
    = let s := cg_loop K V vadd_ vsub_ vscale_ kdiv cdot_ (cg_test b) A M fuel (mkst K V x r z p num ii) in
      (sx K V s, sr K V s, sz K V s, snum K V s, sp K V s, sii K V s).
  Proof.
    induction fuel as [|n IH]; intros x r z num p ii; [reflexivity|].
    cbn [cg_loop snum]. change (cg_test b num) with (kltb (cg_tts b) num). unfold hlt, HLt_num.
    destruct (kltb (cg_tts b) num); [|reflexivity].
    rewrite IH. reflexivity.
  Qed.

  Theorem cg_gen_is_model : forall (b x0 : V) (maxiter : nat),
    C14_CG.cg_loop_gen A b x0 tol atol maxiter M = st_tuple (cg_model maxiter b x0).
  Proof.
    intros b x0 maxiter. unfold C14_CG.cg_loop_gen, st_tuple, cg_model, cg, cg_init.
    change (amax (hmul tol (nrm_ b)) atol) with (kmax (kmul tol (nrm_ b)) atol).
    fold (cg_tts b). cbv zeta.
    rewrite (cg_fix_is_loop b maxiter). reflexivity.
  Qed.
End Gen.
