(** C14 -- scico.solver.golden: element-wise model of the vectorised golden-section loop
    (generic over [Num K]) and theorems over R for every iteration count. *)
From Coq Require Import Reals Lra Lia Bool List.
From SV Require Import Base.Num.
Import ListNotations.

Section GoldenModel.
  Context {K : Type} `{Num K}.
  Local Open Scope num_scope.
  Variable gr : K.                      (* 2 / (sqrt(5) + 1) *)

  (** state of one array element: a, b, c, d *)
  Definition gst := (K * K * K * K)%type.
  Definition ga (s : gst) : K := fst (fst (fst s)).
  Definition gb (s : gst) : K := snd (fst (fst s)).
  Definition gc (s : gst) : K := snd (fst s).
  Definition gd (s : gst) : K := snd s.

  (** c = b - gr (b - a) unless given; d = a + gr (b - a) *)
  Definition gold_init (a b : K) (c : option K) : gst :=
    (a, b, match c with Some c => c | None => b - gr * (b - a) end, a + gr * (b - a)).

  (** loop body: b = where(fc < fd, d, b); a = where(fc >= fd, c, a); then c, d are
      recomputed (on the final pass they are not, but they are not used again) *)
  Definition gold_step (f : K -> K) (s : gst) : gst :=
    let fc := f (gc s) in
    let fd := f (gd s) in
    let b' := if fc <? fd then gd s else gb s in
    let a' := if fd <=? fc then gc s else ga s in
    (a', b', b' - gr * (b' - a'), a' + gr * (b' - a')).

  Fixpoint gold_iter (f : K -> K) (n : nat) (s : gst) : gst :=
    match n with O => s | S k => gold_iter f k (gold_step f s) end.

  (** idx = argmin(stack(fa, fb)); first minimum wins *)
  Definition gold_pick (f : K -> K) (s : gst) : K :=
    if f (ga s) <=? f (gb s) then ga s else gb s.

  (** vectorised loop with the global break test xerr = amax |b - a| <= xtol *)
  Definition gelem := ((K -> K) * gst)%type.
  Definition gvstep (st : list gelem) : list gelem :=
    map (fun e => (fst e, gold_step (fst e) (snd e))) st.
  Definition gxerr (st : list gelem) : K :=
    fold_right kmax k0 (map (fun e => kabs (gb (snd e) - ga (snd e))) st).
  Fixpoint gold_loop (fuel : nat) (xtol : K) (st : list gelem) (done : nat) : list gelem * nat :=
    match fuel with
    | O => (st, done)
    | S k =>
        let st' := gvstep st in
        if gxerr st' <=? xtol then (st', S done) else gold_loop k xtol st' (S done)
    end.
  Fixpoint gviter (n : nat) (st : list gelem) : list gelem :=
    match n with O => st | S k => gviter k (gvstep st) end.

  Definition golden (maxiter : nat) (xtol : K) (st : list gelem) : list K * K * nat :=
    let r := gold_loop maxiter xtol st 0 in
    (map (fun e => gold_pick (fst e) (snd e)) (fst r), gxerr (fst r), snd r).

  Lemma gviter_elem n : forall st,
    gviter n st = map (fun e => (fst e, gold_iter (fst e) n (snd e))) st.
  Proof.
    induction n; intros st; cbn.
    - rewrite <- (map_id st) at 1. apply map_ext. intros [f s]; reflexivity.
    - rewrite IHn. unfold gvstep. rewrite map_map. apply map_ext. intros [f s]; reflexivity.
  Qed.

  Lemma gold_loop_spec fuel xtol : forall st done,
    exists k, (k <= fuel)%nat /\ (fuel > 0 -> k > 0)%nat /\
      gold_loop fuel xtol st done = (gviter k st, (done + k)%nat) /\
      (k = fuel \/ ((k > 0)%nat /\ (gxerr (gviter k st) <=? xtol) = true)).
  Proof.
    induction fuel; intros st done.
    - exists 0%nat. cbn. split; [lia|]. split; [lia|]. split; [f_equal; lia | left; reflexivity].
    - cbn [gold_loop]. destruct (gxerr (gvstep st) <=? xtol) eqn:E.
      + exists 1%nat. cbn. split; [lia|]. split; [lia|]. split; [f_equal; lia|].
        right. split; [lia|exact E].
      + destruct (IHfuel (gvstep st) (S done)) as (k & Hk & Hpos & Heq & Hend).
        exists (S k). cbn [gviter]. split; [lia|]. split; [lia|].
        split; [rewrite Heq; f_equal; lia|].
        destruct Hend as [Hend|[Hp H1]]; [left; lia|right; split; [lia|exact H1]].
  Qed.
End GoldenModel.

(** ------------------------------------------------------------------ theorems over R *)
Local Open Scope R_scope.

(** the constant: gr > 0 with gr^2 = 1 - gr lies strictly between 1/2 and 1 *)
Lemma golden_ratio_range (gr : R) : 0 < gr -> gr * gr = 1 - gr -> 1 / 2 < gr < 1.
Proof. intros Hp Hg. split; nra. Qed.

(** f is strictly decreasing on [lo, m] and strictly increasing on [m, hi] *)
Definition unimodal (f : R -> R) (lo hi m : R) : Prop :=
  lo <= m <= hi /\
  (forall x y, lo <= x -> x < y -> y <= m -> f y < f x) /\
  (forall x y, m <= x -> x < y -> y <= hi -> f x < f y).

Section GoldenR.
  Variable gr : R.
  Hypothesis gr_pos : 0 < gr.
  Hypothesis gr_golden : gr * gr = 1 - gr.
  Variable f : R -> R.

  Let gr_lo : 1 / 2 < gr := proj1 (golden_ratio_range gr gr_pos gr_golden).
  Let gr_hi : gr < 1 := proj2 (golden_ratio_range gr gr_pos gr_golden).

  (** the interior points are the golden-section points of the bracket *)
  Definition gwf (s : @gst R) : Prop :=
    ga s <= gb s /\ gc s = gb s - gr * (gb s - ga s) /\ gd s = ga s + gr * (gb s - ga s).

  Lemma gold_step_R (s : @gst R) :
    gold_step gr f s =
      let b' := if Rlt_dec (f (gc s)) (f (gd s)) then gd s else gb s in
      let a' := if Rlt_dec (f (gc s)) (f (gd s)) then ga s else gc s in
      (a', b', b' - gr * (b' - a'), a' + gr * (b' - a')).
  Proof.
    unfold gold_step, kltb. cbn [kleb ksub kadd kmul Num_R].
    destruct (Rlt_dec (f (gc s)) (f (gd s))) as [Hl|Hl].
    - assert (E : R_leb (f (gd s)) (f (gc s)) = false) by (apply R_leb_false; lra).
      rewrite E. reflexivity.
    - assert (E : R_leb (f (gd s)) (f (gc s)) = true) by (apply R_leb_true; lra).
      rewrite E. reflexivity.
  Qed.

  Lemma gold_init_wf a b : a <= b -> gwf (gold_init gr a b None).
  Proof. intros Hab. unfold gwf, gold_init, ga, gb, gc, gd; cbn. repeat split; auto. Qed.

  (** one step: nested, length multiplied by gr, golden-section points again *)
  Lemma gold_step_wf s :
    gwf s ->
    gwf (gold_step gr f s) /\
    ga s <= ga (gold_step gr f s) /\ gb (gold_step gr f s) <= gb s /\
    gb (gold_step gr f s) - ga (gold_step gr f s) = gr * (gb s - ga s).
  Proof.
    intros (Hab & Hc & Hd). rewrite gold_step_R. cbv zeta.
    destruct s as [[[a b] c] d]. unfold gwf, ga, gb, gc, gd in *. cbn [fst snd] in *.
    destruct (Rlt_dec (f c) (f d)); cbn [fst snd]; subst c d; repeat split; try nra.
  Qed.

  (** one step keeps the minimiser of a unimodal f inside *)
  Lemma gold_step_min s lo hi m :
    gwf s -> unimodal f lo hi m -> lo <= ga s -> gb s <= hi ->
    ga s <= m <= gb s ->
    ga (gold_step gr f s) <= m <= gb (gold_step gr f s).
  Proof.
    intros (Hab & Hc & Hd) (Hm & Hdec & Hinc) Hlo Hhi Hin. rewrite gold_step_R. cbv zeta.
    destruct s as [[[a b] c] d]. unfold ga, gb, gc, gd in *. cbn [fst snd] in *.
    destruct (Req_dec a b) as [Eab|Nab].
    - (* degenerate bracket *) subst b. assert (Ec : c = a) by (subst c; lra). assert (Ed : d = a) by (subst d; lra).
      clear Hc Hd. subst c d. destruct (Rlt_dec (f a) (f a)); cbn [fst snd]; lra.
    - assert (Hlt : a < b) by lra.
      assert (Hcd : c < d) by (subst c d; nra).
      assert (Hac : a <= c) by (subst c; nra).
      assert (Hdb : d <= b) by (subst d; nra).
      destruct (Rlt_dec (f c) (f d)) as [Hl|Hl]; cbn [fst snd].
      + split; [lra|]. destruct (Rle_dec m d) as [Hmd|Hmd]; auto.
        exfalso. assert (f d < f c) by (apply Hdec; lra). lra.
      + split; [|lra]. destruct (Rle_dec c m) as [Hcm|Hcm]; auto.
        exfalso. assert (f c < f d) by (apply Hinc; lra). lra.
  Qed.

  (** ---- all iteration counts ---- *)
  Theorem gold_iter_spec n : forall s,
    gwf s ->
    let s' := gold_iter gr f n s in
    gwf s' /\ ga s <= ga s' /\ ga s' <= gb s' /\ gb s' <= gb s /\
    gb s' - ga s' = gr ^ n * (gb s - ga s).
  Proof.
    induction n; intros s Hw; cbn [gold_iter]; cbv zeta.
    - destruct Hw as (Hab & Hc & Hd). repeat split; auto; try lra; try (cbn [pow]; lra).
    - destruct (gold_step_wf s Hw) as (Hw1 & Ha1 & Hb1 & HL1).
      specialize (IHn (gold_step gr f s) Hw1). cbv zeta in IHn.
      destruct IHn as (Hw2 & Ha2 & Hab2 & Hb2 & HL2).
      split; [exact Hw2|]. split; [lra|]. split; [exact Hab2|]. split; [lra|].
      rewrite HL2, HL1. cbn [pow]. ring.
  Qed.

  Theorem gold_iter_min n : forall s lo hi m,
    gwf s -> unimodal f lo hi m -> lo <= ga s -> gb s <= hi -> ga s <= m <= gb s ->
    ga (gold_iter gr f n s) <= m <= gb (gold_iter gr f n s).
  Proof.
    induction n; intros s lo hi m Hw Hu Hlo Hhi Hin; cbn [gold_iter]; auto.
    destruct (gold_step_wf s Hw) as (Hw1 & Ha1 & Hb1 & _).
    apply (IHn (gold_step gr f s) lo hi m); auto; try lra.
    apply (gold_step_min s lo hi m); auto.
  Qed.

  Lemma gold_pick_endpoint s : gold_pick f s = ga s \/ gold_pick f s = gb s.
  Proof. unfold gold_pick. destruct (f (ga s) <=? f (gb s))%num; auto. Qed.

  (** Main theorem, element-wise, default c: for every n the bracket after n passes is nested
      in the initial one, has length gr^n (b0 - a0), contains the minimiser m of a unimodal
      f, and the returned point lies in the initial bracket within gr^n (b0 - a0) of m. *)
  Theorem golden_elementwise n a0 b0 m :
    a0 <= b0 -> unimodal f a0 b0 m ->
    let s := gold_iter gr f n (gold_init gr a0 b0 None) in
    let x := gold_pick f s in
    a0 <= ga s /\ ga s <= gb s /\ gb s <= b0 /\
    gb s - ga s = gr ^ n * (b0 - a0) /\
    ga s <= m <= gb s /\
    a0 <= x <= b0 /\ Rabs (x - m) <= gr ^ n * (b0 - a0).
  Proof.
    intros H0 Hu. cbv zeta.
    pose proof (gold_init_wf a0 b0 H0) as Hw.
    destruct (gold_iter_spec n _ Hw) as (Hw' & Ha & Hab & Hb & HL). cbv zeta in *.
    assert (Hm0 : a0 <= m <= b0) by (destruct Hu as (Hm & _); exact Hm).
    pose proof (gold_iter_min n (gold_init gr a0 b0 None) a0 b0 m Hw Hu) as Hmin.
    unfold gold_init in Hmin at 1 2 3 4. unfold ga at 1 2, gb at 1 2 in Hmin. cbn [fst snd] in Hmin.
    specialize (Hmin (Rle_refl a0) (Rle_refl b0) Hm0).
    unfold gold_init in Ha at 1, Hb at 2, HL at 3 4.
    unfold ga at 1 in Ha. unfold gb at 2 in Hb. unfold gb at 2 in HL. unfold ga at 2 in HL.
    cbn [fst snd] in Ha, Hb, HL.
    set (s := gold_iter gr f n (gold_init gr a0 b0 None)) in *.
    repeat split; auto; try lra;
      destruct (gold_pick_endpoint s) as [Hx|Hx]; rewrite Hx; try lra;
      unfold Rabs; destruct (Rcase_abs _); lra.
  Qed.
End GoldenR.

Lemma gkmax_R_le (a b t : R) : kmax a b <= t -> a <= t /\ b <= t.
Proof.
  unfold kmax. cbn [kleb Num_R].
  destruct (R_leb a b) eqn:E; [apply R_leb_true in E|apply R_leb_false in E]; intros; lra.
Qed.

Lemma gfold_kmax_le (l : list R) (t : R) :
  (fold_right kmax k0 l <=? t)%num = true -> forall x, In x l -> x <= t.
Proof.
  intros Hle. cbn [kleb Num_R] in Hle. apply R_leb_true in Hle. revert Hle.
  induction l as [|y l IH]; cbn [fold_right]; intros Hle x Hin; [contradiction|].
  apply gkmax_R_le in Hle. destruct Hle as [H1 H2].
  destruct Hin as [Hin|Hin]; [subst; lra|]. apply IH; auto.
Qed.

(** Vectorised statement: one common pass count k; an early stop means every element's
    bracket is no longer than xtol. *)
Theorem golden_vector (gr : R) (maxiter : nat) (xtol : R) (st : list (@gelem R)) :
  exists k, (k <= maxiter)%nat /\
    gold_loop gr maxiter xtol st 0 = (map (fun e => (fst e, gold_iter gr (fst e) k (snd e))) st, k) /\
    (k = maxiter \/
     forall e, In e st ->
       Rabs (gb (gold_iter gr (fst e) k (snd e)) - ga (gold_iter gr (fst e) k (snd e))) <= xtol).
Proof.
  destruct (gold_loop_spec gr maxiter xtol st 0%nat) as (k & Hk & _ & Heq & Hend).
  exists k. split; [exact Hk|]. split; [rewrite Heq, gviter_elem; reflexivity|].
  destruct Hend as [Hend|[_ H1]]; [left; exact Hend|right].
  intros e He. rewrite gviter_elem in H1. unfold gxerr in H1. rewrite map_map in H1.
  cbn [fst snd] in H1.
  pose proof (gfold_kmax_le _ _ H1) as Hall.
  assert (Eabs : forall x : R, kabs x = Rabs x).
  { intros x. unfold kabs. cbn [kleb k0 kopp Num_R]. unfold Rabs.
    destruct (Rcase_abs x); destruct (R_leb 0 x) eqn:E;
      [apply R_leb_true in E|apply R_leb_false in E|apply R_leb_true in E|apply R_leb_false in E]; lra. }
  rewrite <- Eabs. apply Hall.
  apply in_map_iff. exists e. split; auto.
Qed.
