(** C14 -- scico.solver.lstsq: the code forms  ATA = Aop.H @ Aop,  ATb = Aop.H @ b  and
    hands them to cg.  In abstract real inner-product spaces X, Y (a complex space is one,
    with <u,v> = Re(u^H v)), with AH the adjoint of A:
        AH (A x) = AH b   <->   x minimises ||A x - b||^2 .
    The conjugate transpose IS the adjoint for real and for complex matrices
    (Tup.dotc_mvH); LstsqMat.v instantiates this theorem for every complex (hence every
    real) matrix with no hypothesis left.
    (Before scico commit 247d4df the code used the plain transpose Aop.T, which is not the
    adjoint of a complex A; the refuted statement lived in Findings/C14_lstsq_complex.v and
    is now the positive example [C14_lstsq_complex_example] of Properties/C14.v.) *)
From Coq Require Import Reals Lra.
Local Open Scope R_scope.

Section Lstsq.
  Variables X Y : Type.
  Variables (xadd xsub : X -> X -> X) (xscale : R -> X -> X).
  Variables (yadd ysub : Y -> Y -> Y) (yscale : R -> Y -> Y).
  Variable ipX : X -> X -> R.
  Variable ipY : Y -> Y -> R.
  Variable A : X -> Y.
  Variable AH : Y -> X.                  (* Aop.H *)

  Hypothesis A_sub : forall u v, A (xsub u v) = ysub (A u) (A v).
  Hypothesis A_scale : forall t u, A (xscale t u) = yscale t (A u).
  Hypothesis AH_sub : forall u v, AH (ysub u v) = xsub (AH u) (AH v).
  Hypothesis ipY_sym : forall u v, ipY u v = ipY v u.
  Hypothesis ipY_add_l : forall u v w, ipY (yadd u v) w = ipY u w + ipY v w.
  Hypothesis ipY_scale_l : forall t u w, ipY (yscale t u) w = t * ipY u w.
  Hypothesis ipY_pos : forall u, 0 <= ipY u u.
  Hypothesis ipX_sub_r : forall h u v, ipX h (xsub u v) = ipX h u - ipX h v.
  Hypothesis ipX_def : forall u v, ipX (xsub u v) (xsub u v) = 0 -> u = v.
  Hypothesis y_split : forall u v b, ysub u b = yadd (ysub v b) (ysub u v).
  Hypothesis x_add_sub : forall x h, xsub (xadd x h) x = h.
  (** AH is the adjoint of A *)
  Hypothesis adjoint : forall u w, ipY (A u) w = ipX u (AH w).

  (** the system lstsq passes to cg *)
  Definition lstsq_lhs (x : X) : X := AH (A x).
  Definition lstsq_rhs (b : Y) : X := AH b.

  Definition obj (b : Y) (x : X) : R := ipY (ysub (A x) b) (ysub (A x) b).

  Lemma obj_expand b x x' :
    obj b x' = obj b x + 2 * ipX (xsub x' x) (xsub (AH (A x)) (AH b))
               + ipY (A (xsub x' x)) (A (xsub x' x)).
  Proof.
    unfold obj. rewrite (y_split (A x') (A x) b). rewrite <- A_sub.
    set (r := ysub (A x) b). set (w := A (xsub x' x)).
    rewrite ipY_add_l. rewrite (ipY_sym r (yadd r w)), (ipY_sym w (yadd r w)).
    rewrite !ipY_add_l.
    assert (E : ipY w r = ipX (xsub x' x) (xsub (AH (A x)) (AH b))).
    { unfold w, r. rewrite adjoint, AH_sub. reflexivity. }
    rewrite (ipY_sym r w). rewrite E. lra.
  Qed.

  Theorem normal_equations_iff_minimiser b x :
    lstsq_lhs x = lstsq_rhs b <-> (forall x', obj b x <= obj b x').
  Proof.
    unfold lstsq_lhs, lstsq_rhs. split.
    - intros Hn x'. rewrite (obj_expand b x x'). rewrite Hn.
      rewrite ipX_sub_r. pose proof (ipY_pos (A (xsub x' x))). lra.
    - intros Hmin. apply ipX_def.
      set (g := xsub (AH (A x)) (AH b)).
      set (n := ipX g g). set (m := ipY (A g) (A g)).
      assert (Hm : 0 <= m) by apply ipY_pos.
      assert (Hq : forall t, 0 <= 2 * t * n + t * t * m).
      { intros t. specialize (Hmin (xadd x (xscale t g))).
        rewrite (obj_expand b x (xadd x (xscale t g))) in Hmin.
        rewrite x_add_sub in Hmin. fold g in Hmin.
        rewrite A_scale in Hmin. rewrite ipY_scale_l in Hmin.
        rewrite (ipY_sym (A g) (yscale t (A g))) in Hmin. rewrite ipY_scale_l in Hmin.
        fold m in Hmin.
        assert (E : ipX (xscale t g) g = t * n).
        { unfold n. unfold g at 2 4. rewrite <- AH_sub. rewrite <- !adjoint.
          rewrite A_scale, ipY_scale_l. reflexivity. }
        rewrite E in Hmin. lra. }
      (* choose t = - n / (m + 1) *)
      specialize (Hq (- n / (m + 1))).
      assert (Hm1 : 0 < m + 1) by lra.
      assert (Hid : 2 * (- n / (m + 1)) * n + (- n / (m + 1)) * (- n / (m + 1)) * m
                    = - (n * n) * (m + 2) / ((m + 1) * (m + 1))).
      { field. lra. }
      rewrite Hid in Hq.
      assert (Hnn : n * n <= 0).
      { assert (Hd : 0 < (m + 1) * (m + 1)) by (apply Rmult_lt_0_compat; lra).
        destruct (Rle_or_lt (n * n) 0) as [Hle|Hgt]; auto. exfalso.
        assert (Hneg : - (n * n) * (m + 2) / ((m + 1) * (m + 1)) < 0).
        { unfold Rdiv. apply Rmult_lt_reg_r with ((m + 1) * (m + 1)); auto.
          rewrite Rmult_assoc, Rinv_l by lra. nra. }
        lra. }
      nra.
  Qed.
End Lstsq.
