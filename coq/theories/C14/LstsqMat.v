(** C14 -- scico.solver.lstsq on matrices, real AND complex: closed instance of the abstract
    theorem of Lstsq.v.  Scalars are complex numbers over R (pairs), vectors are n-tuples, the
    operator the code now uses for the normal equations is the conjugate transpose
    ([Aop.H], [mvH] here), the real inner product of C^n is Re <u, v>.  A real matrix is the
    special case of zero imaginary parts.  Every hypothesis of the abstract theorem is proved
    here for every m, n and every matrix. *)
From Coq Require Import Reals Lra RealField Ring.
From SV Require Import C14.Tup C14.Lstsq.
Local Open Scope R_scope.

Definition CR := (R * R)%type.
Definition cr0 : CR := c0 R 0.
Definition cr1 : CR := c1 R 0 1.
Definition cradd : CR -> CR -> CR := cadd R Rplus.
Definition crsub : CR -> CR -> CR := csub R Rminus.
Definition crmul : CR -> CR -> CR := cmul R Rplus Rmult Rminus.
Definition cropp : CR -> CR := copp R Ropp.
Definition crconj : CR -> CR := cconj R Ropp.

Lemma CR_ring : ring_theory cr0 cr1 cradd crmul crsub cropp eq.
Proof. exact (cx_ring R 0 1 Rplus Rmult Rminus Ropp RTheory). Qed.

Ltac crunf := unfold crconj, cconj, cradd, cadd, crsub, csub, crmul, cmul, cr0, c0; cbn [fst snd].

Lemma crconj_add a b : crconj (cradd a b) = cradd (crconj a) (crconj b).
Proof. destruct a, b; crunf. f_equal; ring. Qed.
Lemma crconj_mul a b : crconj (crmul a b) = crmul (crconj a) (crconj b).
Proof. destruct a, b; crunf. f_equal; ring. Qed.
Lemma crconj_sub a b : crconj (crsub a b) = crsub (crconj a) (crconj b).
Proof. destruct a, b; crunf. f_equal; ring. Qed.
Lemma crconj_zero : crconj cr0 = cr0.
Proof. crunf. f_equal; ring. Qed.
Lemma crconj_invol a : crconj (crconj a) = a.
Proof. destruct a; crunf. f_equal; ring. Qed.

Ltac crsolve :=
  first [exact CR_ring | exact crconj_add | exact crconj_mul | exact crconj_sub
        | exact crconj_zero | exact crconj_invol].

(** vectors, matrices, products *)
Definition cvecn n := tup CR n.
Definition cadd_n n := tadd CR cradd n.
Definition csub_n n := tsub CR crsub n.
Definition cscale_n n (t : R) := tscale CR crmul n (t, 0).
Definition cdot n := dotc CR cr0 cradd crmul crconj n.
Definition cmv m n := mv CR cr0 cradd crmul m n.
Definition cmvH m n := mvH CR cr0 cradd crmul crconj m n.

(** the real inner product of C^n:  Re <u, v> ;  ||w||^2 = Re <w, w> *)
Definition rip n (u v : cvecn n) : R := fst (cdot n u v).

Lemma rip_sym n u v : rip n u v = rip n v u.
Proof.
  unfold rip, cdot.
  rewrite (dotc_conj_sym CR cr0 cr1 cradd crmul crsub cropp crconj CR_ring) by crsolve.
  unfold crconj, cconj. reflexivity.
Qed.

Lemma rip_add_l n u v w : rip n (cadd_n n u v) w = rip n u w + rip n v w.
Proof.
  unfold rip, cdot, cadd_n.
  rewrite (dotc_add_l CR cr0 cr1 cradd crmul crsub cropp crconj CR_ring) by crsolve.
  reflexivity.
Qed.

Lemma rip_scale_l n t u w : rip n (cscale_n n t u) w = t * rip n u w.
Proof.
  unfold rip, cdot, cscale_n.
  rewrite (dotc_scale_l CR cr0 cr1 cradd crmul crsub cropp crconj CR_ring) by crsolve.
  destruct (dotc CR cr0 cradd crmul crconj n u w) as [p q]. crunf. ring.
Qed.

Lemma rip_sub_r n h u v : rip n h (csub_n n u v) = rip n h u - rip n h v.
Proof.
  unfold rip, cdot, csub_n.
  rewrite (dotc_sub_r CR cr0 cr1 cradd crmul crsub cropp crconj CR_ring).
  reflexivity.
Qed.

Lemma rip_pos n : forall u, 0 <= rip n u u.
Proof.
  unfold rip, cdot, dotc. induction n; intros u; cbn [tmap dotb].
  - crunf. lra.
  - destruct u as [[a1 a2] u]. cbn [fst snd]. specialize (IHn u).
    destruct (dotb CR cr0 cradd crmul n (tmap crconj n u) u) as [p q]. crunf. cbn [fst] in IHn. nra.
Qed.

Lemma rip_def n : forall u v, rip n (csub_n n u v) (csub_n n u v) = 0 -> u = v.
Proof.
  induction n; intros u v Hz.
  - destruct u, v. reflexivity.
  - destruct u as [[a1 a2] u], v as [[b1 b2] v].
    pose proof (rip_pos n (csub_n n u v)) as Hp.
    unfold rip, cdot, dotc, csub_n in *. cbn [tsub tmap2 tmap dotb fst snd] in Hz.
    fold (tsub CR crsub n u v) in Hz.
    destruct (dotb CR cr0 cradd crmul n (tmap crconj n (tsub CR crsub n u v)) (tsub CR crsub n u v)) as [p q] eqn:E.
    revert Hz. crunf. cbn [fst] in Hp. intros Hz.
    pose proof (Rle_0_sqr (a1 - b1)) as Hs. pose proof (Rle_0_sqr (a2 - b2)) as Ht. unfold Rsqr in Hs, Ht.
    assert (Hs0 : (a1 - b1) * (a1 - b1) = 0) by lra.
    assert (Ht0 : (a2 - b2) * (a2 - b2) = 0) by lra.
    assert (Hp0 : p = 0) by lra.
    assert (H1 : a1 - b1 = 0) by (apply Rmult_integral in Hs0; destruct Hs0; assumption).
    assert (H2 : a2 - b2 = 0) by (apply Rmult_integral in Ht0; destruct Ht0; assumption).
    f_equal.
    + f_equal; lra.
    + apply IHn. rewrite E. cbn [fst]. exact Hp0.
Qed.

(** Least squares on matrices, real and complex, every size: the system lstsq hands to cg,
    A^H A x = A^H b, is solved by x exactly when x minimises ||A x - b||^2. *)
Theorem lstsq_matrix m n (A : mat CR m n) (b : cvecn m) (x : cvecn n) :
  cmvH m n A (cmv m n A x) = cmvH m n A b <->
  (forall x' : cvecn n,
     rip m (csub_n m (cmv m n A x) b) (csub_n m (cmv m n A x) b)
     <= rip m (csub_n m (cmv m n A x') b) (csub_n m (cmv m n A x') b)).
Proof.
  apply (normal_equations_iff_minimiser (cvecn n) (cvecn m)
           (cadd_n n) (csub_n n) (cscale_n n) (cadd_n m) (csub_n m) (cscale_n m)
           (rip n) (rip m) (cmv m n A) (cmvH m n A)).
  - intros u v. apply (mv_sub CR cr0 cr1 cradd crmul crsub cropp CR_ring).
  - intros t u. apply (mv_scale CR cr0 cr1 cradd crmul crsub cropp CR_ring).
  - intros u v. apply (mvH_sub CR cr0 cr1 cradd crmul crsub cropp crconj CR_ring).
  - apply rip_sym.
  - apply rip_add_l.
  - apply rip_scale_l.
  - apply rip_pos.
  - apply rip_sub_r.
  - apply rip_def.
  - intros u v c. apply (tsub_split CR cr0 cr1 cradd crmul crsub cropp CR_ring).
  - intros y h. apply (tadd_tsub_l CR cr0 cr1 cradd crmul crsub cropp CR_ring).
  - intros u w. unfold rip, cdot, cmv, cmvH.
    rewrite (dotc_mvH CR cr0 cr1 cradd crmul crsub cropp crconj CR_ring) by crsolve.
    reflexivity.
Qed.
