(** C14 -- executable (Qc) instances of the bisect / golden models for the correspondence
    harness: the SAME generic definitions of Bisect.v / Golden.v at the [Num_Qc] instance,
    applied to dyadic-exact functions described by [fdesc]. *)
From Coq Require Import List Bool ZArith QArith Qabs Qcanon.
From SV Require Import Base.Num C14.Bisect C14.Golden.
Import ListNotations.

Inductive fdesc :=
| FLin (s r : Q)            (* s * (x - r) *)
| FQuad (s r1 r2 : Q)       (* s * ((x - r1) * (x - r2)) *)
| FSq (s m t : Q)           (* s * ((x - m) * (x - m)) + t *)
| FAbs (s m : Q).           (* s * |x - m| *)

Definition qc := Q2Qc.
Definition feval (d : fdesc) (x : Qc) : Qc :=
  match d with
  | FLin s r => (qc s * (x - qc r))%Qc
  | FQuad s r1 r2 => (qc s * ((x - qc r1) * (x - qc r2)))%Qc
  | FSq s m t => (qc s * ((x - qc m) * (x - qc m)) + qc t)%Qc
  | FAbs s m => (qc s * kabs (x - qc m)%Qc)%Qc
  end.

Definition qeq (a : Qc) (b : Q) : bool := Qeq_bool (this a) b.
Definition qclose (eps : Q) (a : Qc) (b : Q) : bool := Qle_bool (Qabs (this a - b)) (eps * (1 + Qabs b)).
Definition qnear (a b : Qc) : bool :=
  Qle_bool (Qabs (this a - this b)) ((1 # 1048576) * (Qabs (this a) + Qabs (this b)))
  && negb (Qeq_bool (this a) (this b)).

Fixpoint all2b {T U} (f : T -> U -> bool) (l : list T) (m : list U) : bool :=
  match l, m with
  | [], [] => true
  | a :: l', b :: m' => f a b && all2b f l' m'
  | _, _ => false
  end.

Fixpoint bad_idx_s {T} (f : T -> bool) (l : list T) (i : nat) : list nat :=
  match l with [] => [] | x :: r => if f x then bad_idx_s f r (S i) else i :: bad_idx_s f r (S i) end.

(** ---- bisect: case = elements (fdesc, a, b), maxiter, xtol, ftol;
         observed: x, a, b per element, number of passes ---- *)
Definition bcase := (list (fdesc * Q * Q) * nat * Q * Q * (list Q * list Q * list Q * nat))%type.

Definition b_state (els : list (fdesc * Q * Q)) : list (@elem Qc) :=
  map (fun e => (feval (fst (fst e)), (qc (snd (fst e)), qc (snd e)))) els.

Definition b_case_ok (c : bcase) : bool :=
  let '(els, maxiter, xtol, ftol, (xs, az, bz, passes)) := c in
  let r := bis_loop maxiter (qc xtol) (qc ftol) (b_state els) 0 in
  Nat.eqb (snd r) passes &&
  all2b (fun e a => qeq (fst (snd e)) a) (fst r) az &&
  all2b (fun e b => qeq (snd (snd e)) b) (fst r) bz &&
  all2b (fun e x => qeq (bis_pick (fst e) (snd e)) x) (fst r) xs.

(** products are rounded in the implementation: a comparison |fa| <= |fb| or |fc| <= ftol
    between nearly equal values is decided by rounding -> not compared *)
Definition b_case_fragile (c : bcase) : bool :=
  let '(els, maxiter, xtol, ftol, (xs, az, bz, passes)) := c in
  let r := bis_loop maxiter (qc xtol) (qc ftol) (b_state els) 0 in
  existsb (fun e => qnear (kabs (fst e (fst (snd e)))) (kabs (fst e (snd (snd e))))) (fst r)
  || existsb (fun j => qnear (vferr (viter j (b_state els))) (qc ftol)) (seq 0 (snd r)).

(** ---- golden: case = gr, elements (fdesc, a, b, optional c), maxiter, xtol;
         observed: x per element, xerr, passes ---- *)
Definition gcase := (Q * list (fdesc * Q * Q * option Q) * nat * Q * (list Q * Q * nat))%type.

Definition g_state (gr : Q) (els : list (fdesc * Q * Q * option Q)) : list (@gelem Qc) :=
  map (fun e => let '(d, a, b, c) := e in
                (feval d, gold_init (qc gr) (qc a) (qc b) (option_map qc c))) els.

Definition eps30s : Q := 1 # 1073741824.

Definition g_case_ok (c : gcase) : bool :=
  let '(gr, els, maxiter, xtol, (xs, xerr, passes)) := c in
  let r := golden (qc gr) maxiter (qc xtol) (g_state gr els) in
  let '(mx, mxerr, mp) := r in
  Nat.eqb mp passes && qclose eps30s mxerr xerr && all2b (fun m x => qclose eps30s m x) mx xs.

Definition g_case_fragile (c : gcase) : bool :=
  let '(gr, els, maxiter, xtol, (xs, xerr, passes)) := c in
  let st0 := g_state gr els in
  existsb (fun j =>
    let st := gviter (qc gr) j st0 in
    existsb (fun e => qnear (fst e (gc (snd e))) (fst e (gd (snd e)))) st
    || qnear (gxerr (gvstep (qc gr) st)) (qc xtol)) (seq 0 passes)
  || existsb (fun e => qnear (fst e (ga (snd e))) (fst e (gb (snd e)))) (gviter (qc gr) passes st0).
