(** C14 -- fixed-dimension vectors as nested pairs ([tup T n]), so that equality is Leibniz
    and the module laws the abstract CG / Woodbury theorems need hold on the nose; matrices as
    tuples of rows; complex numbers over a commutative ring as pairs.  No [Reals] here:
    everything is executable by [vm_compute] at [Qc]. *)
From Coq Require Import List Ring.
Import ListNotations.

Fixpoint tup (T : Type) (n : nat) : Type :=
  match n with O => unit | S k => (T * tup T k)%type end.

Fixpoint tmap {T U : Type} (f : T -> U) (n : nat) : tup T n -> tup U n :=
  match n with
  | O => fun _ => tt
  | S k => fun v => (f (fst v), tmap f k (snd v))
  end.

Fixpoint tmap2 {T U W : Type} (f : T -> U -> W) (n : nat) : tup T n -> tup U n -> tup W n :=
  match n with
  | O => fun _ _ => tt
  | S k => fun u v => (f (fst u) (fst v), tmap2 f k (snd u) (snd v))
  end.

Fixpoint of_list {T : Type} (d : T) (n : nat) (l : list T) : tup T n :=
  match n with
  | O => tt
  | S k => (hd d l, of_list d k (tl l))
  end.

Fixpoint to_list {T : Type} (n : nat) : tup T n -> list T :=
  match n with
  | O => fun _ => []
  | S k => fun v => fst v :: to_list k (snd v)
  end.

Lemma to_list_length {T} n (v : tup T n) : length (to_list n v) = n.
Proof. induction n; cbn; auto. Qed.

Lemma of_to_list {T} (d : T) n (v : tup T n) : of_list d n (to_list n v) = v.
Proof.
  induction n; cbn.
  - destruct v; reflexivity.
  - destruct v as [a w]; cbn. rewrite IHn. reflexivity.
Qed.

Section TupRing.
  Variable K : Type.
  Variables (k0 k1 : K) (kadd kmul ksub : K -> K -> K) (kopp : K -> K).
  Variable conj : K -> K.
  Hypothesis Rth : ring_theory k0 k1 kadd kmul ksub kopp eq.
  Add Ring Kring : Rth.

  Definition tadd n := tmap2 kadd n.
  Definition tsub n := tmap2 ksub n.
  Definition tscale n (a : K) := tmap (kmul a) n.
  Definition tzero n : tup K n := of_list k0 n [].

  (** bilinear dot product  sum_i u_i v_i *)
  Fixpoint dotb (n : nat) : tup K n -> tup K n -> K :=
    match n with
    | O => fun _ _ => k0
    | S k => fun u v => kadd (kmul (fst u) (fst v)) (dotb k (snd u) (snd v))
    end.
  (** snp.sum(u.conj() * v) *)
  Definition dotc n (u v : tup K n) : K := dotb n (tmap conj n u) v.

  (** matrix (tuple of rows) times vector *)
  Definition mat m n := tup (tup K n) m.
  Definition mv m n (A : mat m n) (x : tup K n) : tup K m := tmap (fun row => dotb n row x) m A.

  Lemma tsub_tadd n (u v w : tup K n) : tsub n u (tadd n v w) = tsub n (tsub n u v) w.
  Proof.
    induction n; cbn; auto.
    destruct u, v, w; cbn. f_equal; [ring | apply IHn].
  Qed.

  Lemma tadd_comm n (u v : tup K n) : tadd n u v = tadd n v u.
  Proof. induction n; cbn; auto. destruct u, v; cbn. f_equal; [ring | apply IHn]. Qed.

  Lemma tadd_assoc n (u v w : tup K n) : tadd n u (tadd n v w) = tadd n (tadd n u v) w.
  Proof. induction n; cbn; auto. destruct u, v, w; cbn. f_equal; [ring | apply IHn]. Qed.

  Lemma tadd_tsub n (u v : tup K n) : tsub n (tadd n u v) v = u.
  Proof. induction n; cbn. - destruct u; auto. - destruct u, v; cbn. f_equal; [ring | apply IHn]. Qed.

  Lemma tadd_tsub2 n (u v : tup K n) : tadd n u (tsub n v u) = v.
  Proof. induction n; cbn. - destruct v; auto. - destruct u, v; cbn. f_equal; [ring | apply IHn]. Qed.

  Lemma dotb_add_r n (a u v : tup K n) : dotb n a (tadd n u v) = kadd (dotb n a u) (dotb n a v).
  Proof. induction n; cbn. - ring. - destruct a, u, v; cbn. rewrite IHn. ring. Qed.

  Lemma dotb_sub_r n (a u v : tup K n) : dotb n a (tsub n u v) = ksub (dotb n a u) (dotb n a v).
  Proof. induction n; cbn. - ring. - destruct a, u, v; cbn. rewrite IHn. ring. Qed.

  Lemma dotb_scale_r n (a u : tup K n) c : dotb n a (tscale n c u) = kmul c (dotb n a u).
  Proof. unfold tscale. induction n; cbn. - ring. - destruct a, u; cbn. rewrite IHn. ring. Qed.

  Lemma mv_add m n (A : mat m n) u v : mv m n A (tadd n u v) = tadd m (mv m n A u) (mv m n A v).
  Proof.
    induction m; cbn; auto. destruct A as [row A']; cbn.
    rewrite dotb_add_r. f_equal. apply IHm.
  Qed.

  Lemma mv_sub m n (A : mat m n) u v : mv m n A (tsub n u v) = tsub m (mv m n A u) (mv m n A v).
  Proof.
    induction m; cbn; auto. destruct A as [row A']; cbn.
    rewrite dotb_sub_r. f_equal. apply IHm.
  Qed.

  Lemma mv_scale m n (A : mat m n) c u : mv m n A (tscale n c u) = tscale m c (mv m n A u).
  Proof.
    induction m; cbn; auto. destruct A as [row A']; cbn.
    rewrite dotb_scale_r. f_equal. apply IHm.
  Qed.

  (** ---- conjugate transpose:  A^H y = sum_i y_i conj(row_i)  (no transposed matrix is
      built), and the adjoint identity for the sesquilinear product [dotc] ---- *)
  Fixpoint mvH (m n : nat) : mat m n -> tup K m -> tup K n :=
    match m with
    | O => fun _ _ => tzero n
    | S k => fun A y => tadd n (tscale n (fst y) (tmap conj n (fst A))) (mvH k n (snd A) (snd y))
    end.

  Hypothesis conj_add : forall a b, conj (kadd a b) = kadd (conj a) (conj b).
  Hypothesis conj_mul : forall a b, conj (kmul a b) = kmul (conj a) (conj b).
  Hypothesis conj_sub : forall a b, conj (ksub a b) = ksub (conj a) (conj b).
  Hypothesis conj_zero : conj k0 = k0.
  Hypothesis conj_invol : forall a, conj (conj a) = a.

  Lemma dotb_comm n (u v : tup K n) : dotb n u v = dotb n v u.
  Proof. induction n; cbn; auto. destruct u, v; cbn. rewrite IHn. ring. Qed.

  Lemma dotb_add_l n (u v a : tup K n) : dotb n (tadd n u v) a = kadd (dotb n u a) (dotb n v a).
  Proof. rewrite dotb_comm, dotb_add_r, (dotb_comm n a u), (dotb_comm n a v). reflexivity. Qed.

  Lemma dotb_zero_r n (u : tup K n) : dotb n u (tzero n) = k0.
  Proof. unfold tzero. induction n; cbn; auto. destruct u; cbn. rewrite IHn. ring. Qed.

  Lemma dotb_conj n (u v : tup K n) : dotb n (tmap conj n u) (tmap conj n v) = conj (dotb n u v).
  Proof.
    induction n; cbn; [symmetry; apply conj_zero|].
    destruct u, v; cbn. rewrite IHn, conj_add, conj_mul. reflexivity.
  Qed.

  Lemma tmap_conj_add n (u v : tup K n) : tmap conj n (tadd n u v) = tadd n (tmap conj n u) (tmap conj n v).
  Proof. induction n; cbn; auto. destruct u, v; cbn. rewrite conj_add, IHn. reflexivity. Qed.

  Lemma tmap_conj_sub n (u v : tup K n) : tmap conj n (tsub n u v) = tsub n (tmap conj n u) (tmap conj n v).
  Proof. induction n; cbn; auto. destruct u, v; cbn. rewrite conj_sub, IHn. reflexivity. Qed.

  Lemma tmap_conj_invol n (u : tup K n) : tmap conj n (tmap conj n u) = u.
  Proof. induction n; cbn. - destruct u; auto. - destruct u; cbn. rewrite conj_invol, IHn. reflexivity. Qed.

  (** <u, v> = conj <v, u> *)
  Lemma dotc_conj_sym n (u v : tup K n) : dotc n u v = conj (dotc n v u).
  Proof.
    unfold dotc. rewrite <- dotb_conj, tmap_conj_invol. apply dotb_comm.
  Qed.

  Lemma dotc_add_l n (u v w : tup K n) : dotc n (tadd n u v) w = kadd (dotc n u w) (dotc n v w).
  Proof. unfold dotc. rewrite tmap_conj_add. apply dotb_add_l. Qed.

  Lemma dotc_sub_r n (h u v : tup K n) : dotc n h (tsub n u v) = ksub (dotc n h u) (dotc n h v).
  Proof. unfold dotc. apply dotb_sub_r. Qed.

  Lemma dotc_scale_l n c (u w : tup K n) : dotc n (tscale n c u) w = kmul (conj c) (dotc n u w).
  Proof.
    unfold dotc, tscale. induction n; cbn. - ring. - destruct u, w; cbn. rewrite IHn, conj_mul. ring.
  Qed.

  (** the adjoint identity:  <A x, y> = <x, A^H y>  for every matrix, real or complex *)
  Theorem dotc_mvH m n (A : mat m n) (x : tup K n) (y : tup K m) :
    dotc m (mv m n A x) y = dotc n x (mvH m n A y).
  Proof.
    unfold dotc, mv. revert A y. induction m; intros A y.
    - cbn [tmap mvH dotb]. rewrite dotb_zero_r. reflexivity.
    - destruct A as [row A'], y as [y0 y']. cbn [tmap mvH dotb fst snd].
      rewrite dotb_add_r, dotb_scale_r, dotb_conj, <- IHm, (dotb_comm n x row). ring.
  Qed.

  (** module laws used by the least-squares instance *)
  Lemma tsub_split n (u v b : tup K n) : tsub n u b = tadd n (tsub n v b) (tsub n u v).
  Proof. induction n; cbn; auto. destruct u, v, b; cbn. f_equal; [ring | apply IHn]. Qed.

  Lemma tadd_tsub_l n (x h : tup K n) : tsub n (tadd n x h) x = h.
  Proof. induction n; cbn. - destruct h; auto. - destruct x, h; cbn. f_equal; [ring | apply IHn]. Qed.

  Lemma tsub_interchange n (a b c d : tup K n) :
    tsub n (tadd n a b) (tadd n c d) = tadd n (tsub n a c) (tsub n b d).
  Proof. induction n; cbn; auto. destruct a, b, c, d; cbn. f_equal; [ring | apply IHn]. Qed.

  Lemma tscale_sub_l n (a b : K) (v : tup K n) :
    tscale n (ksub a b) v = tsub n (tscale n a v) (tscale n b v).
  Proof. unfold tscale. induction n; cbn; auto. destruct v; cbn. f_equal; [ring | apply IHn]. Qed.

  Lemma tzero_sub n : tzero n = tsub n (tzero n) (tzero n).
  Proof. unfold tzero. induction n; cbn; auto. f_equal; [ring | apply IHn]. Qed.

  Lemma mvH_sub m n (A : mat m n) (u v : tup K m) :
    mvH m n A (tsub m u v) = tsub n (mvH m n A u) (mvH m n A v).
  Proof.
    induction m; cbn [mvH tsub tmap2].
    - apply tzero_sub.
    - destruct A as [row A'], u as [u0 u'], v as [v0 v']; cbn [fst snd].
      fold (tsub m u' v'). rewrite IHm, tscale_sub_l. symmetry. apply tsub_interchange.
  Qed.

  (** conversions used by the case files *)
  Definition vec_of n (l : list K) : tup K n := of_list k0 n l.
  Definition mat_of m n (rows : list (list K)) : mat m n :=
    of_list (tzero n) m (map (vec_of n) rows).
End TupRing.

(** Complex numbers over a commutative ring as pairs (re, im). *)
Section Cx.
  Variable K : Type.
  Variables (k0 k1 : K) (kadd kmul ksub : K -> K -> K) (kopp : K -> K).
  Hypothesis Rth : ring_theory k0 k1 kadd kmul ksub kopp eq.
  Add Ring Kring2 : Rth.

  Definition cx := (K * K)%type.
  Definition c0 : cx := (k0, k0).
  Definition c1 : cx := (k1, k0).
  Definition cadd (a b : cx) : cx := (kadd (fst a) (fst b), kadd (snd a) (snd b)).
  Definition csub (a b : cx) : cx := (ksub (fst a) (fst b), ksub (snd a) (snd b)).
  Definition copp (a : cx) : cx := (kopp (fst a), kopp (snd a)).
  Definition cmul (a b : cx) : cx :=
    (ksub (kmul (fst a) (fst b)) (kmul (snd a) (snd b)),
     kadd (kmul (fst a) (snd b)) (kmul (snd a) (fst b))).
  Definition cconj (a : cx) : cx := (fst a, kopp (snd a)).

  Lemma cx_ring : ring_theory c0 c1 cadd cmul csub copp eq.
  Proof.
    constructor; intros; repeat match goal with x : cx |- _ => destruct x end;
      unfold c0, c1, cadd, cmul, csub, copp; cbn [fst snd]; f_equal; ring.
  Qed.

  Lemma cconj_invol a : cconj (cconj a) = a.
  Proof. destruct a; unfold cconj; cbn [fst snd]. f_equal. ring. Qed.
  Lemma cconj_add a b : cconj (cadd a b) = cadd (cconj a) (cconj b).
  Proof. destruct a, b; unfold cconj, cadd; cbn [fst snd]. f_equal; ring. Qed.
  Lemma cconj_mul a b : cconj (cmul a b) = cmul (cconj a) (cconj b).
  Proof. destruct a, b; unfold cconj, cmul; cbn [fst snd]. f_equal; ring. Qed.
  (** conj(a) * a is real: (|a|^2, 0) *)
  Lemma cconj_mul_self a :
    cmul (cconj a) a = (kadd (kmul (fst a) (fst a)) (kmul (snd a) (snd a)), k0).
  Proof. destruct a; unfold cconj, cmul; cbn [fst snd]. f_equal; ring. Qed.
End Cx.
