(** C14 -- MatrixATADSolver / ConvATADSolver: algebra of the two solution paths.
    X = space of x and b (vectors, or matrices acted on column-wise), Y = row space of A;
    every matrix is an additive map, so the theorems cover vector and matrix right-hand
    sides, diagonal and full D, real and complex (AH = conjugate transpose) alike.
    [fact_solve] (lu_solve / cho_solve of the stored factorisation) is a Section variable
    whose contract is "inverts the matrix G that was factorised".  No commutativity. *)
From Coq Require Import List.

Section Woodbury.
  Variables X Y : Type.
  Variables (xadd xsub : X -> X -> X) (yadd ysub : Y -> Y -> Y).
  (** the two abelian-group facts used *)
  Hypothesis y_add_sub : forall a t, ysub (yadd a t) t = a.
  Hypothesis x_add_sub2 : forall a b, xadd a (xsub b a) = b.

  Variable A : X -> Y.
  Variable AH : Y -> X.
  Variables W Winv : Y -> Y.
  Variables D Dinv : X -> X.
  Hypothesis A_sub : forall u v, A (xsub u v) = ysub (A u) (A v).
  Hypothesis Dinv_sub : forall u v, Dinv (xsub u v) = xsub (Dinv u) (Dinv v).
  Hypothesis D_Dinv : forall u, D (Dinv u) = u.
  Hypothesis W_Winv : forall u, W (Winv u) = u.

  (** the system matrix  A^H W A + D *)
  Definition sysop (x : X) : X := xadd (AH (W (A x))) (D x).

  (** ---- Woodbury path (N < M and D diagonal):  G = diag(1/W) + A (A^H / D) ---- *)
  Definition Gw (w : Y) : Y := yadd (Winv w) (A (Dinv (AH w))).
  Variable fact_solve_w : Y -> Y.
  Hypothesis fact_w : forall y, Gw (fact_solve_w y) = y.

  (** w = fact_solve(A @ (b / D));  x = (b - A^H w) / D *)
  Definition solve_woodbury (b : X) : X :=
    let w := fact_solve_w (A (Dinv b)) in
    Dinv (xsub b (AH w)).

  Theorem woodbury_solves b : sysop (solve_woodbury b) = b.
  Proof.
    unfold sysop, solve_woodbury. set (w := fact_solve_w (A (Dinv b))).
    rewrite D_Dinv. rewrite Dinv_sub, A_sub.
    assert (HG : yadd (Winv w) (A (Dinv (AH w))) = A (Dinv b)) by apply fact_w.
    rewrite <- HG. rewrite y_add_sub. rewrite W_Winv. apply x_add_sub2.
  Qed.

  (** ---- direct path:  G = A^H W A + D, x = fact_solve(b) ---- *)
  Variable fact_solve_d : X -> X.
  Hypothesis fact_d : forall b, sysop (fact_solve_d b) = b.
  Definition solve_direct (b : X) : X := fact_solve_d b.
  Theorem direct_solves b : sysop (solve_direct b) = b.
  Proof. apply fact_d. Qed.

  (** ---- accuracy:  rel_res(A^H W A x + Dx, b)  with
        Dx = D * x   (element-wise, broadcast along the columns of a matrix x) when D is
                     stored as the vector of its diagonal entries, i.e. diag(D) x, and
        Dx = D @ x   when D is a full 2-D matrix:
      in both representations Dx is the action of D on x.
      rel_res(ax, b) = ||b - ax|| / max(||ax||, ||b||), 0 when both vanish: [relres] is
      scico.metric.rel_res (Section variable).
      (Before scico commit 25e555b the 2-D branch also used D * x; the refuted statement lived
      in Findings/C14_accuracy_fullD.v.) *)
  Variable S : Type.
  Variable relres : X -> X -> S.
  Definition accuracy (x b : X) : S := relres (xadd (AH (W (A x))) (D x)) b.

  (** accuracy is the relative residual of (A^H W A + D) x = b, for 1-D and 2-D D *)
  Theorem accuracy_is_system_residual x b : accuracy x b = relres (sysop x) b.
  Proof. reflexivity. Qed.

  (** and on the value returned by solve (both paths) it is rel_res(b, b) *)
  Corollary accuracy_of_woodbury_solution b : accuracy (solve_woodbury b) b = relres b b.
  Proof. rewrite accuracy_is_system_residual, woodbury_solves. reflexivity. Qed.
  Corollary accuracy_of_direct_solution b : accuracy (solve_direct b) b = relres b b.
  Proof. rewrite accuracy_is_system_residual, direct_solves. reflexivity. Qed.
End Woodbury.

(** ConvATADSolver: in the DFT domain (Ahat, Dhat diagonal per frequency) the code computes
      AHEinv = conj(Ahat) / (1 + sum(Ahat conj(Ahat) / Dhat))
      xhat   = (bhat - AHEinv * sum(Ahat * bhat / Dhat)) / Dhat
    which is the Woodbury path with W = I:  G = I + A D^-1 A^H  and  AHEinv = A^H G^-1. *)
Section ConvATAD.
  Variables X Y : Type.
  Variables (xadd xsub : X -> X -> X) (yadd ysub : Y -> Y -> Y).
  Hypothesis y_add_sub : forall a t, ysub (yadd a t) t = a.
  Hypothesis x_add_sub2 : forall a b, xadd a (xsub b a) = b.
  Variable A : X -> Y.          (* xhat |-> sum_k Ahat_k xhat_k *)
  Variable AH : Y -> X.         (* y |-> (conj(Ahat_k) y)_k *)
  Variables D Dinv : X -> X.    (* multiplication / division by Dhat *)
  Hypothesis A_sub : forall u v, A (xsub u v) = ysub (A u) (A v).
  Hypothesis Dinv_sub : forall u v, Dinv (xsub u v) = xsub (Dinv u) (Dinv v).
  Hypothesis D_Dinv : forall u, D (Dinv u) = u.
  Variable Einv : Y -> Y.       (* division by 1 + sum(Ahat conj(Ahat) / Dhat) *)
  Hypothesis Einv_spec : forall y, yadd (Einv y) (A (Dinv (AH (Einv y)))) = y.

  Definition conv_solve (b : X) : X := Dinv (xsub b (AH (Einv (A (Dinv b))))).

  Theorem conv_solves b : xadd (AH (A (conv_solve b))) (D (conv_solve b)) = b.
  Proof.
    exact (woodbury_solves X Y xadd xsub yadd ysub y_add_sub x_add_sub2 A AH
             (fun y => y) (fun y => y) D Dinv A_sub Dinv_sub D_Dinv (fun u => eq_refl) Einv Einv_spec b).
  Qed.
End ConvATAD.
