(** C14 -- MatrixATADSolver / ConvATADSolver: algebra of the two solution paths.
    X = space of x and b (vectors, or matrices acted on column-wise), Y = row space of A;
    every matrix is an additive map, so the theorems cover vector and matrix right-hand
    sides, diagonal and full D, real and complex (AH = conjugate transpose) alike.
    [fact_solve] (lu_solve / cho_solve of the stored factorisation) is a Section variable
    whose contract is "inverts the matrix G that was factorised".  No commutativity. *)
From Coq Require Import List.

Section Woodbury.
  Variables X Y : Type.
  Variables (xadd xsub : X -> X -> X) (yadd ysub : Y -> Y -> Y).
  (** the two abelian-group facts used *)
  Hypothesis y_add_sub : forall a t, ysub (yadd a t) t = a.
  Hypothesis x_add_sub2 : forall a b, xadd a (xsub b a) = b.

  Variable A : X -> Y.
  Variable AH : Y -> X.
  Variables W Winv : Y -> Y.
  Variables D Dinv : X -> X.
  Hypothesis A_sub : forall u v, A (xsub u v) = ysub (A u) (A v).
  Hypothesis Dinv_sub : forall u v, Dinv (xsub u v) = xsub (Dinv u) (Dinv v).
  Hypothesis D_Dinv : forall u, D (Dinv u) = u.
  Hypothesis W_Winv : forall u, W (Winv u) = u.

  (** the system matrix  A^H W A + D *)
  Definition sysop (x : X) : X := xadd (AH (W (A x))) (D x).

  (** ---- Woodbury path (N < M and D diagonal):  G = diag(1/W) + A (A^H / D) ---- *)
  Definition Gw (w : Y) : Y := yadd (Winv w) (A (Dinv (AH w))).
  Variable fact_solve_w : Y -> Y.
  Hypothesis fact_w : forall y, Gw (fact_solve_w y) = y.

  (** w = fact_solve(A @ (b / D));  x = (b - A^H w) / D *)
  Definition solve_woodbury (b : X) : X :=
    let w := fact_solve_w (A (Dinv b)) in
    Dinv (xsub b (AH w)).

  Theorem woodbury_solves b : sysop (solve_woodbury b) = b.
  Proof.
    unfold sysop, solve_woodbury. set (w := fact_solve_w (A (Dinv b))).
    rewrite D_Dinv. rewrite Dinv_sub, A_sub.
    assert (HG : yadd (Winv w) (A (Dinv (AH w))) = A (Dinv b)) by apply fact_w.
    rewrite <- HG. rewrite y_add_sub. rewrite W_Winv. apply x_add_sub2.
  Qed.

  (** ---- direct path:  G = A^H W A + D, x = fact_solve(b) ---- *)
  Variable fact_solve_d : X -> X.
  Hypothesis fact_d : forall b, sysop (fact_solve_d b) = b.
  Definition solve_direct (b : X) : X := fact_solve_d b.
  Theorem direct_solves b : sysop (solve_direct b) = b.
  Proof. apply fact_d. Qed.

  (** ---- accuracy:  rel_res(A^H W A x + Dx, b)  with
        Dx = D * x   (element-wise, broadcast along the columns of a matrix x) when D is
                     stored as the vector of its diagonal entries, i.e. diag(D) x, and
        Dx = D @ x   when D is a full 2-D matrix:
      in both representations Dx is the action of D on x.
      rel_res(ax, b) = ||b - ax|| / max(||ax||, ||b||), 0 when both vanish: [relres] is
      scico.metric.rel_res (Section variable).
      (Before scico commit 25e555b the 2-D branch also used D * x; the refuted statement lived
      in Findings/C14_accuracy_fullD.v.) *)
  Variable S : Type.
  Variable relres : X -> X -> S.
  Definition accuracy (x b : X) : S := relres (xadd (AH (W (A x))) (D x)) b.

  (** accuracy is the relative residual of (A^H W A + D) x = b, for 1-D and 2-D D *)
  Theorem accuracy_is_system_residual x b : accuracy x b = relres (sysop x) b.
  Proof. reflexivity. Qed.

  (** and on the value returned by solve (both paths) it is rel_res(b, b) *)
  Corollary accuracy_of_woodbury_solution b : accuracy (solve_woodbury b) b = relres b b.
  Proof. rewrite accuracy_is_system_residual, woodbury_solves. reflexivity. Qed.
  Corollary accuracy_of_direct_solution b : accuracy (solve_direct b) b = relres b b.
  Proof. rewrite accuracy_is_system_residual, direct_solves. reflexivity. Qed.
End Woodbury.

(** MatrixATADSolver.__init__ / solve: which factorisation is stored and how it is used.
      if cho_factor:  c, lower = jsl.cho_factor(G, lower=lower, ...);  self.factor = (c, lower)
      else:           lu, piv  = jsl.lu_factor(G, ...);                 self.factor = (lu, piv)
      fact_solve = cho_solve(self.factor, .)  /  lu_solve(self.factor, .)
    jax's cho_factor fills only the requested triangle (the other one is zeroed) and cho_solve
    reads the triangle named by the flag stored WITH the factor: the library contract
    ([cho_contract], Section hypothesis) only speaks about solving with the flag the factor
    was computed with.  The model keeps the flag in the stored factor, so the theorem holds
    for every value of the constructor flags (cho_factor, lower); storing a different flag
    than the one passed to cho_factor is outside the contract. *)
Section ATADConstructor.
  Variables Z F : Type.
  Variable G : Z -> Z.                         (* the matrix that is factorised *)
  Variable cho_fac : bool -> F.                (* jsl.cho_factor(G, lower=flag)[0] *)
  Variable cho_solve : F -> bool -> Z -> Z.    (* jsl.cho_solve((c, flag), y) *)
  Variable lu_fac : F.                         (* jsl.lu_factor(G) *)
  Variable lu_solve : F -> Z -> Z.
  Hypothesis cho_contract : forall lower y, G (cho_solve (cho_fac lower) lower y) = y.
  Hypothesis lu_contract : forall y, G (lu_solve lu_fac y) = y.

  Inductive factor := FCho (c : F) (lower : bool) | FLU (lu : F).

  (** __init__(..., cho_factor, lower, check_finite) -- check_finite only validates input *)
  Definition atad_init (cho lower : bool) : factor :=
    if cho then FCho (cho_fac lower) lower else FLU lu_fac.

  Definition fact_solve (f : factor) (y : Z) : Z :=
    match f with FCho c lower => cho_solve c lower y | FLU lu => lu_solve lu y end.

  Theorem fact_solve_inverts cho lower y : G (fact_solve (atad_init cho lower) y) = y.
  Proof. destruct cho; cbn; [apply cho_contract | apply lu_contract]. Qed.
End ATADConstructor.

(** both paths of MatrixATADSolver.solve for every value of the constructor flags *)
Section ATADAllFlags.
  Variables X Y F : Type.
  Variables (xadd xsub : X -> X -> X) (yadd ysub : Y -> Y -> Y).
  Hypothesis y_add_sub : forall a t, ysub (yadd a t) t = a.
  Hypothesis x_add_sub2 : forall a b, xadd a (xsub b a) = b.
  Variable A : X -> Y.
  Variable AH : Y -> X.
  Variables W Winv : Y -> Y.
  Variables D Dinv : X -> X.
  Hypothesis A_sub : forall u v, A (xsub u v) = ysub (A u) (A v).
  Hypothesis Dinv_sub : forall u v, Dinv (xsub u v) = xsub (Dinv u) (Dinv v).
  Hypothesis D_Dinv : forall u, D (Dinv u) = u.
  Hypothesis W_Winv : forall u, W (Winv u) = u.
  (** factorisation primitives for the Woodbury matrix (on Y) and the direct matrix (on X) *)
  Variable cho_fac_w : bool -> F.
  Variable cho_solve_w : F -> bool -> Y -> Y.
  Variable lu_fac_w : F.
  Variable lu_solve_w : F -> Y -> Y.
  Hypothesis cho_contract_w : forall lower y,
    Gw X Y yadd A AH Winv Dinv (cho_solve_w (cho_fac_w lower) lower y) = y.
  Hypothesis lu_contract_w : forall y, Gw X Y yadd A AH Winv Dinv (lu_solve_w lu_fac_w y) = y.
  Variable cho_fac_d : bool -> F.
  Variable cho_solve_d : F -> bool -> X -> X.
  Variable lu_fac_d : F.
  Variable lu_solve_d : F -> X -> X.
  Hypothesis cho_contract_d : forall lower b,
    sysop X Y xadd A AH W D (cho_solve_d (cho_fac_d lower) lower b) = b.
  Hypothesis lu_contract_d : forall b, sysop X Y xadd A AH W D (lu_solve_d lu_fac_d b) = b.

  Theorem atad_woodbury_all_flags (cho lower : bool) (b : X) :
    sysop X Y xadd A AH W D
      (solve_woodbury X Y xsub A AH Dinv
         (fact_solve Y F cho_solve_w lu_solve_w (atad_init F cho_fac_w lu_fac_w cho lower)) b) = b.
  Proof.
    apply (woodbury_solves X Y xadd xsub yadd ysub y_add_sub x_add_sub2 A AH W Winv D Dinv
             A_sub Dinv_sub D_Dinv W_Winv).
    intros y. apply (fact_solve_inverts Y F (Gw X Y yadd A AH Winv Dinv)); auto.
  Qed.

  Theorem atad_direct_all_flags (cho lower : bool) (b : X) :
    sysop X Y xadd A AH W D
      (solve_direct X (fact_solve X F cho_solve_d lu_solve_d (atad_init F cho_fac_d lu_fac_d cho lower)) b) = b.
  Proof.
    unfold solve_direct. apply (fact_solve_inverts X F (sysop X Y xadd A AH W D)); auto.
  Qed.
End ATADAllFlags.

(** ConvATADSolver: in the DFT domain (Ahat, Dhat diagonal per frequency) the code computes
      AHEinv = conj(Ahat) / (1 + sum(Ahat conj(Ahat) / Dhat))
      xhat   = (bhat - AHEinv * sum(Ahat * bhat / Dhat)) / Dhat
    which is the Woodbury path with W = I:  G = I + A D^-1 A^H  and  AHEinv = A^H G^-1. *)
Section ConvATAD.
  Variables X Y : Type.
  Variables (xadd xsub : X -> X -> X) (yadd ysub : Y -> Y -> Y).
  Hypothesis y_add_sub : forall a t, ysub (yadd a t) t = a.
  Hypothesis x_add_sub2 : forall a b, xadd a (xsub b a) = b.
  Variable A : X -> Y.          (* xhat |-> sum_k Ahat_k xhat_k *)
  Variable AH : Y -> X.         (* y |-> (conj(Ahat_k) y)_k *)
  Variables D Dinv : X -> X.    (* multiplication / division by Dhat *)
  Hypothesis A_sub : forall u v, A (xsub u v) = ysub (A u) (A v).
  Hypothesis Dinv_sub : forall u v, Dinv (xsub u v) = xsub (Dinv u) (Dinv v).
  Hypothesis D_Dinv : forall u, D (Dinv u) = u.
  Variable Einv : Y -> Y.       (* division by 1 + sum(Ahat conj(Ahat) / Dhat) *)
  Hypothesis Einv_spec : forall y, yadd (Einv y) (A (Dinv (AH (Einv y)))) = y.

  Definition conv_solve (b : X) : X := Dinv (xsub b (AH (Einv (A (Dinv b))))).

  Theorem conv_solves b : xadd (AH (A (conv_solve b))) (D (conv_solve b)) = b.
  Proof.
    exact (woodbury_solves X Y xadd xsub yadd ysub y_add_sub x_add_sub2 A AH
             (fun y => y) (fun y => y) D Dinv A_sub Dinv_sub D_Dinv (fun u => eq_refl) Einv Einv_spec b).
  Qed.
End ConvATAD.
