(** Executable (Qc) instances of the step-size models and the comparison functions used by
    the correspondence harness vf/props/C16.py.  Nothing here is part of a theorem statement. *)
From Coq Require Import Bool Arith List ZArith QArith Qcanon.
From SV Require Import Base.Num C16.XR C16.StepSize.
Import ListNotations.

Notation xq := (xr Qc).
Definition F (n : Z) (d : positive) : xq := Fin (Q2Qc (n # d)).
Definition q (n : Z) (d : positive) : Qc := Q2Qc (n # d).

Definition qabs (a : Qc) : Qc := kabs a.
(** |a - b| <= tol * max(|a|,|b|)  (tol = 0: exact) *)
Definition q_close (tol a b : Qc) : bool :=
  kleb (qabs (a - b)%Qc) (tol * kmax (qabs a) (qabs b))%Qc.

Definition xr_close (tol : Qc) (a b : xq) : bool :=
  match a, b with
  | Fin x, Fin y => q_close tol x y
  | NZ, NZ | PInf, PInf | NInf, NInf | NaN, NaN => true
  | _, _ => false
  end.

Definition oxr_close (tol : Qc) (a b : option xq) : bool :=
  match a, b with
  | Some x, Some y => xr_close tol x y
  | None, None => true
  | _, _ => false
  end.

Fixpoint bad_idx {A} (f : A -> bool) (l : list A) (i : nat) : list nat :=
  match l with [] => [] | x :: r => if f x then bad_idx f r (S i) else i :: bad_idx f r (S i) end.

Definition onat_eqb (a b : option nat) : bool :=
  match a, b with Some x, Some y => Nat.eqb x y | None, None => true | _, _ => false end.

(** BB, through [bb_step] with the update arguments numbered by the harness:
    (pgmL, stored id before, id of the current argument, gg, xg, returned L, stored id after).
    gg, xg are the inner products of the differences between the arguments with these two ids. *)
Definition bb_case_ok (tol : Qc) (c : xq * option nat * nat * xq * xq * xq * option nat) : bool :=
  let '(pgmL, mem, cur, gg, xg, out, mem') := c in
  let '(L, m) := bb_step nat (fun _ _ => xg) (fun _ _ => gg) pgmL mem cur in
  xr_close tol L out && onat_eqb m mem'.

(** adaptive BB: (kappa, pgmL, stored id, memory, current id, xx, xg, gg, returned L, stored id
    after, new memory).  If the model's Lbb1/Lbb2 is within tol of kappa the selection is decided
    by rounding: either candidate is accepted (the harness counts these; none are expected). *)
Definition abb_near_tie (tol kappa : Qc) (m : option xq * option xq) : bool :=
  match m with
  | (Some (Fin a), Some (Fin b)) =>
      if keqb b 0%Qc then false else kleb (qabs (a / b - kappa)%Qc) tol
  | _ => false
  end.

Definition abb_case_ok (tol : Qc)
  (c : Qc * xq * option nat * (option xq * option xq) * nat * xq * xq * xq * xq * option nat *
       (option xq * option xq)) : bool :=
  let '(kappa, pgmL, mem, m, cur, xx, xg, gg, out, mem', m') := c in
  let '(L, (pm, mm)) := abb_step nat (fun _ _ => xx) (fun _ _ => xg) (fun _ _ => gg) kappa pgmL mem m cur in
  onat_eqb pm mem' &&
  oxr_close tol (fst mm) (fst m') && oxr_close tol (snd mm) (snd m') &&
  (xr_close tol L out ||
   (match mem with Some _ => true | None => false end && abb_near_tie tol kappa mm &&
    (oxr_close tol (fst mm) (Some out) || oxr_close tol (snd mm) (Some out)))).

(** recorded trials of a line search: (L_j, f(z_j), fquad(z_j)) *)
Definition trial := (Qc * Qc * Qc)%type.
Fixpoint tab_find (tol : Qc) (tab : list trial) (L : Qc) : option trial :=
  match tab with
  | [] => None
  | t :: r => if q_close tol (fst (fst t)) L then Some t else tab_find tol r L
  end.
(** a candidate the implementation never evaluated counts as rejected (1 <= 0 is false) *)
Definition tab_fz tol tab (L : Qc) : Qc :=
  match tab_find tol tab L with Some t => snd (fst t) | None => 1%Qc end.
Definition tab_fq tol tab (L : Qc) : Qc :=
  match tab_find tol tab L with Some t => snd t | None => 0%Qc end.

Fixpoint geo_ok (tol : Qc) (L gu : Qc) (tab : list trial) : bool :=
  match tab with
  | [] => true
  | t :: r => q_close tol (fst (fst t)) L && geo_ok tol (L * gu)%Qc gu r
  end.

(** line search: (gamma_u, maxiter, pgm.L, trials, returned L) *)
Definition ls_case_ok (tol : Qc) (c : Qc * nat * Qc * list trial * Qc) : bool :=
  let '(gu, maxiter, pgmL, tab, out) := c in
  let '(L, n, _) := ls_update (tab_fz tol tab) (tab_fq tol tab) gu maxiter pgmL in
  q_close tol L out && Nat.eqb n (length tab) && geo_ok tol pgmL gu tab.

(** robust line search, run through [rl_update] itself with V := Qc standing for "the L a
    vector was computed with": x_step(y, L) := L, f(z) / fquad(z, y, L) looked up by L.
    (gamma_d, gamma_u, maxiter, pgm.L, Tk, trials,
     Some (returned L, L the returned Z was computed with, new Tk) | None = UnboundLocalError) *)
Definition rl_run (tol gd gu : Qc) (maxiter : nat) (pgmL Tk : Qc) (tab : list trial) :=
  rl_update (K:=Qc) Qc (fun a _ => a) (fun a _ => a) (fun _ v => v)
            (fun _ L => L) (tab_fz tol tab) (fun z _ _ => tab_fq tol tab z) (fun _ => 0%Qc)
            gd gu 0%Qc 0%Qc Tk maxiter pgmL.

Definition rl_case_ok (tolT tol : Qc)
  (c : Qc * Qc * nat * Qc * Qc * list trial * option (Qc * Qc * Qc)) : bool :=
  let '(gd, gu, maxiter, pgmL, Tk, tab, out) := c in
  match rl_run tol gd gu maxiter pgmL Tk tab, out with
  | None, None => true
  | Some o, Some (L, Lz, Tk') =>
      q_close tol (rl_L _ o) L && Nat.eqb (rl_trials _ o) (length tab) &&
      q_close tol (rl_Z _ o) Lz && geo_ok tol (pgmL * gd)%Qc gu tab &&
      (* new Tk = Tk + t with t the positive root of Lz t^2 = t + Tk *)
      (let t := (Tk' - Tk)%Qc in
       kltb 0%Qc t &&
       kleb (qabs (Lz * t * t - t - Tk)%Qc) (tolT * (1 + qabs t + qabs Tk + qabs (Lz * t * t)))%Qc)
  | _, _ => false
  end.

(** which point AcceleratedPGM.step hands to the policy: 0 = x, 1 = v *)
Definition policy_of (n : nat) : policy :=
  match n with 0 => PFixed | 1 => PBB | 2 => PABB | 3 => PLS | _ => PRLS end%nat.
Definition arg_case_ok (c : nat * bool * nat * nat) : bool :=
  let '(p, accel, arg, newx) := c in
  (Nat.eqb (if accel then apgm_arg (policy_of p) 0 1 else pgm_arg (policy_of p) 0) arg &&
   Nat.eqb (if accel then apgm_newx (policy_of p) 0 1 else 1) newx)%nat.
