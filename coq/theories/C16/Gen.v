(** Tie of the C16 hand models to the source: the definitions tools/py2coq.py regenerates from
    scico/optimize/_pgmaux.py on every run (SVGen.C16_BB, C16_ABB, C16_LS) equal the models of
    C16/StepSize.v that the C16 theorems are about.

    The stored point of the model is the pair (xprev, gradprev) of the code; the three inner
    products are the ones the code forms from the stored pair and the current argument.  The
    memories considered are the well-formed ones (xprev and gradprev both None or both set:
    the class sets them together). *)
From Coq Require Import Bool Arith List.
From SV Require Import Base.Num C11.Overload C16.XR C16.GenSig C16.StepSize.
From SVGen Require C16_BB C16_ABB C16_LS.

Section Gen.
  Context {K : Type} {NK : Num K} {X : Type} {VX : VecOps (xr K) X}.
  Notation P := (X * X)%type.
  Variable pgm_f : Func (xr K) X.

  (** Re<dx,dx>, Re<dx,dg>, Re<dg,dg> of (stored pair, current pair), as the code forms them *)
  Definition ipxx (p c : P) : xr K := vdot_ (vsub_ (fst c) (fst p)) (vsub_ (fst c) (fst p)).
  Definition ipxg (p c : P) : xr K := vdot_ (vsub_ (fst c) (fst p)) (vsub_ (snd c) (snd p)).
  Definition ipgg (p c : P) : xr K := vdot_ (vsub_ (snd c) (snd p)) (vsub_ (snd c) (snd p)).
  Definition cur (v : X) : P := (v, fgrad pgm_f v).

  Theorem bb_update_gen_is_model : forall (pgmL : xr K) (mem : option P) (v : X),
    C16_BB.update_gen pgmL pgm_f (C16_BB.mk_st (option_map fst mem) (option_map snd mem)) v
    = let '(L, m') := bb_step P ipxg ipgg pgmL mem (cur v) in
      (L, C16_BB.mk_st (option_map fst m') (option_map snd m')).
  Proof.
    intros pgmL [[x g]|] v; unfold C16_BB.update_gen, bb_step, bb_update, bb_reject, cur, ipxg, ipgg; cbn.
    - unfold hdiv, HDiv_xr, hsub, HSub_vec, hisfinite, HIsFinite_xr, hle0, HLe0_xr.
      destruct (negb _ || _); reflexivity.
    - reflexivity.
  Qed.

  Theorem abb_update_gen_is_model : forall (kappa : K) (pgmL : xr K) (mem : option P) (m : abb_mem) (v : X),
    C16_ABB.update_gen pgmL pgm_f
      (C16_ABB.mk_st kappa (option_map fst mem) (option_map snd mem) (fst m) (snd m)) v
    = let '(L, (mem', m')) := abb_step P ipxx ipxg ipgg kappa pgmL mem m (cur v) in
      (L, C16_ABB.mk_st kappa (option_map fst mem') (option_map snd mem') (fst m') (snd m')).
  Proof.
    intros kappa pgmL [[x g]|] [m1 m2] v;
      unfold C16_ABB.update_gen, abb_step, abb_update, bb_reject, cur, ipxx, ipxg, ipgg; cbn.
    - unfold hdiv, HDiv_xr, hsub, HSub_vec, hisfinite, HIsFinite_xr, hle0, HLe0_xr, hlt, HLt_xr.
      destruct (negb _ || _); destruct (negb _ || _); cbn;
        repeat match goal with
        | |- context [match ?o with Some _ => _ | None => _ end] => destruct o; cbn
        | |- context [if ?c then _ else _] => destruct c; cbn
        end; reflexivity.
    - reflexivity.
  Qed.
End Gen.

Section GenLS.
  Context {K : Type} {NK : Num K} {SK : Sqrt K} {X : Type} {VX : VecOps K X}.
  Variables (pgm_f pgm_g : Func K X) (fquad : X -> X -> K -> K).

  (** the candidate, f at the candidate, and the quadratic model at the candidate, as functions of L *)
  Definition ls_z (s : C16_LS.st K) (v : X) (L : K) : X := C16_LS.g_prox_gen pgm_g s v (fgrad pgm_f v) L.
  Definition ls_fz (s : C16_LS.st K) (v : X) (L : K) : K := feval pgm_f (ls_z s v L).
  Definition ls_fq (s : C16_LS.st K) (v : X) (L : K) : K := fquad (ls_z s v L) v L.

  Lemma ls_loop_gen_is_model s v : forall fuel L it,
    (fix loop_ (fuel_ : nat) (acc_ : K) {struct fuel_} : K :=
       match fuel_ with
       | O => acc_
       | S fuel_ =>
           if hle (hcall pgm_f (C16_LS.g_prox_gen pgm_g (C16_LS.mk_st (C16_LS.ls_gamma_u s) (C16_LS.ls_maxiter s)) v (fgrad pgm_f v) acc_))
                  (fquad (C16_LS.g_prox_gen pgm_g (C16_LS.mk_st (C16_LS.ls_gamma_u s) (C16_LS.ls_maxiter s)) v (fgrad pgm_f v) acc_) v acc_)
           then acc_ else loop_ fuel_ (hmul acc_ (C16_LS.ls_gamma_u s))
       end) fuel L
    = fst (fst (ls_loop (fun L => kleb (ls_fz s v L) (ls_fq s v L)) (C16_LS.ls_gamma_u s) fuel L it)).
  Proof.
    induction fuel as [|n IH]; intros L it; [reflexivity|].
    cbn [ls_loop]. unfold ls_fz, ls_fq, ls_z. destruct s as [gu mi]. cbn [C16_LS.ls_gamma_u C16_LS.ls_maxiter] in *.
    unfold hle, HLe_num, hcall, HCall_func.
    destruct (kleb _ _); [reflexivity|]. apply IH.
  Qed.

  Theorem ls_update_gen_is_model : forall (pgmL : K) (s : C16_LS.st K) (v : X),
    C16_LS.update_gen pgmL pgm_f pgm_g fquad s v
    = fst (fst (ls_update (ls_fz s v) (ls_fq s v) (C16_LS.ls_gamma_u s) (C16_LS.ls_maxiter s) pgmL)).
  Proof. intros pgmL s v. unfold C16_LS.update_gen, ls_update. apply ls_loop_gen_is_model. Qed.

  Theorem ls_g_prox_gen_is_doc : forall s v gradv L,
    C16_LS.g_prox_gen pgm_g s v gradv L = fprox pgm_g (vsub_ v (vscale_ (kdiv k1 L) gradv)) (kdiv k1 L).
  Proof. reflexivity. Qed.
End GenLS.
