(** Signature instances for the code generated from scico/optimize/_pgmaux.py
    (modules SVGen.C16_BB etc.): JAX scalars are the extended scalars [xr K] of C16/XR.v. *)
From Coq Require Import Bool.
From SV Require Import Base.Num C11.Overload C16.XR.

#[global] Instance HDiv_xr {K} `{Num K} : HDiv (xr K) (xr K) (xr K) := xdiv.
#[global] Instance HIsFinite_xr {K} `{Num K} : HIsFinite (xr K) := xisfinite.
#[global] Instance HLe0_xr {K} `{Num K} : HLe0 (xr K) := xle0.
#[global] Instance HLt_xr {K} `{Num K} : HLt (xr K) K := xltk.
#[global] Instance HZero_xr {K} `{Num K} : HZero (xr K) := NaN.
