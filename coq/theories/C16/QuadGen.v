(** The quadratic upper model used by the line searches: the definition REGENERATED from
    PGM.f_quad_approx (coq/gen/C16_fquad.v, fail-closed translation by vf/props/C16.py) is the
    documented  f(y) + Re<grad f(y), x - y> + L/2 ||x - y||^2  with ||.|| the Euclidean norm of the
    flattened array (all entries), for arbitrary f, grad f, inner product and norm. *)
From SV Require Import Base.Num.
From SVGen Require Import C16_fquad.

Section Spec.
  Context {K : Type} `{NK : Num K}.
  Variable V : Type.
  Variables (vsub : V -> V -> V) (fval : V -> K) (fgrad : V -> V) (re_ip : V -> V -> K) (norm2 : V -> K).

  Definition fquad_spec (x y : V) (L : K) : K :=
    kadd (kadd (fval y) (re_ip (fgrad y) (vsub x y)))
         (kmul (kmul khalf L) (kmul (norm2 (vsub x y)) (norm2 (vsub x y)))).

  Theorem fquad_gen_is_documented x y L :
    f_quad_approx_gen V vsub fval fgrad re_ip norm2 x y L = fquad_spec x y L.
  Proof. reflexivity. Qed.
End Spec.
