(** Executable models of the [update] methods of scico/optimize/_pgmaux.py and of the point
    PGM / AcceleratedPGM.step hand to them (scico/optimize/_pgm.py), generic in the scalar
    [K], plus the theorems that need no order reasoning (closed under the global context). *)
From Coq Require Import Bool Arith Lia List.
From SV Require Import Base.Num C16.XR.
Import ListNotations.

Section Models.
  Context {K : Type} `{NK : Num K}.
  Notation xr := (xr K).

  (** ** BBStepSize.update
      [first]: [self.xprev is None] (first call: store state, return [pgm.L]).
      [gg = Re<dg,dg>] ([num]), [xg = Re<dx,dg>] ([den]), as computed by the code.
<<
      L = num / den
      if not snp.isfinite(L) or L <= 0.0:  L = self.pgm.L
>> *)
  Definition bb_reject (L : xr) : bool := negb (xisfinite L) || xle0 L.
  Definition bb_update (pgmL : xr) (first : bool) (gg xg : xr) : xr :=
    if first then pgmL
    else let L := xdiv gg xg in if bb_reject L then pgmL else L.

  (** ** AdaptiveBBStepSize.update
      memory: [Lbb1prev], [Lbb2prev] ([None] = Python [None]). *)
  Definition abb_mem := (option xr * option xr)%type.
  Definition abb_update (kappa : K) (pgmL : xr) (first : bool) (m : abb_mem) (xx xg gg : xr)
    : xr * abb_mem :=
    if first then (pgmL, m)
    else
      let r1 := xdiv xg xx in
      let Lbb1 := if bb_reject r1 then fst m else Some r1 in
      let r2 := xdiv gg xg in
      let Lbb2 := if bb_reject r2 then snd m else Some r2 in
      let L := match Lbb1, Lbb2 with
               | Some a, Some b => if xltk (xdiv a b) kappa then b else a
               | _, _ => pgmL
               end in
      (L, (Lbb1, Lbb2)).

  (** ** The stored previous point.  [P] stands for (point, gradient at that point); the inner
      products the code forms are functions of the STORED point and the CURRENT argument:
<<
      if self.xprev is None:  self.xprev = v; self.gradprev = grad(v); L = self.pgm.L
      else:  dx = v - self.xprev; dg = grad(v) - self.gradprev; ... (as above) ...
             self.xprev = v; self.gradprev = gradv        # unconditionally
>> *)
  Section Memory.
    Variable P : Type.
    Variables ipxx ipxg ipgg : P -> P -> xr.   (* Re<dx,dx>, Re<dx,dg>, Re<dg,dg> of (stored, current) *)

    Definition bb_step (pgmL : xr) (mem : option P) (cur : P) : xr * option P :=
      match mem with
      | None => (bb_update pgmL true NaN NaN, Some cur)
      | Some p => (bb_update pgmL false (ipgg p cur) (ipxg p cur), Some cur)
      end.

    Definition abb_step (kappa : K) (pgmL : xr) (mem : option P) (m : abb_mem) (cur : P)
      : xr * (option P * abb_mem) :=
      match mem with
      | None => let '(L, m') := abb_update kappa pgmL true m NaN NaN NaN in (L, (Some cur, m'))
      | Some p => let '(L, m') := abb_update kappa pgmL false m (ipxx p cur) (ipxg p cur) (ipgg p cur) in
                  (L, (Some cur, m'))
      end.

    (** after ANY update (first call, accepted ratio or fall-back) the memory is the current argument *)
    Theorem bb_step_memory pgmL mem cur : snd (bb_step pgmL mem cur) = Some cur.
    Proof. destruct mem; reflexivity. Qed.
    Theorem abb_step_memory kappa pgmL mem m cur : fst (snd (abb_step kappa pgmL mem m cur)) = Some cur.
    Proof.
      destruct mem; cbn.
      - destruct (abb_update kappa pgmL false m (ipxx p cur) (ipxg p cur) (ipgg p cur)); reflexivity.
      - reflexivity.
    Qed.

    (** a whole run (pgm.L := returned L after every step): the list of returned L *)
    Fixpoint bb_run (pgmL : xr) (mem : option P) (vs : list P) : list xr :=
      match vs with
      | [] => []
      | v :: r => let '(L, m') := bb_step pgmL mem v in L :: bb_run L m' r
      end.

    (** every L after the first is formed from the differences between the current argument
        and the IMMEDIATELY PRECEDING one, whatever happened before *)
    Theorem bb_run_consecutive pgmL mem u v r :
      bb_run pgmL mem (u :: v :: r) =
      let L0 := fst (bb_step pgmL mem u) in
      let L1 := bb_update L0 false (ipgg u v) (ipxg u v) in
      L0 :: L1 :: bb_run L1 (Some v) r.
    Proof. destruct mem; reflexivity. Qed.

    Fixpoint abb_run (kappa : K) (pgmL : xr) (mem : option P) (m : abb_mem) (vs : list P) : list xr :=
      match vs with
      | [] => []
      | v :: r => let '(L, (mem', m')) := abb_step kappa pgmL mem m v in L :: abb_run kappa L mem' m' r
      end.

    Theorem abb_run_consecutive kappa pgmL mem m u v r :
      abb_run kappa pgmL mem m (u :: v :: r) =
      let '(L0, (_, m0)) := abb_step kappa pgmL mem m u in
      let '(L1, m1) := abb_update kappa L0 false m0 (ipxx u v) (ipxg u v) (ipgg u v) in
      L0 :: L1 :: abb_run kappa L1 (Some v) m1 r.
    Proof.
      destruct mem as [p|]; cbn [abb_run abb_step].
      - destruct (abb_update kappa pgmL false m (ipxx p u) (ipxg p u) (ipgg p u)) as [L0 m0].
        cbn [abb_run abb_step].
        destruct (abb_update kappa L0 false m0 (ipxx u v) (ipxg u v) (ipgg u v)) as [L1 m1]. reflexivity.
      - destruct (abb_update kappa pgmL true m NaN NaN NaN) as [L0 m0].
        cbn [abb_run abb_step].
        destruct (abb_update kappa L0 false m0 (ipxx u v) (ipxg u v) (ipgg u v)) as [L1 m1]. reflexivity.
    Qed.
  End Memory.

  (** ** LineSearchStepSize.update
<<
      L = self.pgm.L; it = 0
      while it < self.maxiter:
          z = g_prox(v, gradv, L); fz = f(z); fquad = f_quad_approx(z, v, L)
          if fz <= fquad: break
          else: L *= self.gamma_u
          it += 1
      return L
>>
      [acc L] is the acceptance test evaluated at the candidate computed with [L].
      Result: returned L, number of candidates evaluated, whether one was accepted. *)
  Fixpoint ls_loop (acc : K -> bool) (gu : K) (fuel : nat) (L : K) (it : nat) : K * nat * bool :=
    match fuel with
    | O => (L, it, false)
    | S m => if acc L then (L, S it, true) else ls_loop acc gu m (L * gu)%num (S it)
    end.

  Definition ls_update (fz fq : K -> K) (gu : K) (maxiter : nat) (pgmL : K) : K * nat * bool :=
    ls_loop (fun L => (fz L <=? fq L)%num) gu maxiter pgmL 0.

  (** the geometric sequence L, L*gu, L*gu*gu, ... exactly as the code forms it *)
  Fixpoint geo (L gu : K) (j : nat) : K :=
    match j with O => L | S i => geo (L * gu)%num gu i end.

  Lemma geo_S L gu j : geo L gu (S j) = (geo L gu j * gu)%num.
  Proof. revert L; induction j; intros; cbn in *; auto. Qed.

  Theorem ls_loop_spec acc gu n : forall L it L' it' b,
    ls_loop acc gu n L it = (L', it', b) ->
    if b then exists j, j < n /\ L' = geo L gu j /\ acc L' = true /\
                        (forall i, i < j -> acc (geo L gu i) = false) /\ it' = it + j + 1
    else (forall i, i < n -> acc (geo L gu i) = false) /\ L' = geo L gu n /\ it' = it + n.
  Proof.
    induction n as [|n IH]; intros L it L' it' b E; cbn in E.
    - inversion E; subst. cbn. repeat split; auto; try (intros; lia).
    - destruct (acc L) eqn:A.
      + inversion E; subst. exists 0. repeat split; auto; try (intros; lia).
      + apply IH in E. destruct b.
        * destruct E as (j & Hj & HL & HA & Hall & Hit). exists (S j).
          repeat split; auto; try lia.
          intros [|i] Hi; cbn; auto. apply Hall. lia.
        * destruct E as (Hall & HL & Hit). repeat split; auto; try lia.
          intros [|i] Hi; cbn; auto. apply Hall. lia.
  Qed.

  (** Accepted: the first L of the geometric sequence that passes the test. *)
  Lemma ls_first_accepted_gen acc gu n : forall L it j,
    j < n -> acc (geo L gu j) = true -> (forall i, i < j -> acc (geo L gu i) = false) ->
    ls_loop acc gu n L it = (geo L gu j, it + S j, true).
  Proof.
    induction n as [|n IH]; intros L it j Hj HA Hall; [lia|].
    cbn. destruct j as [|j].
    - cbn in HA. rewrite HA. cbn. f_equal. f_equal. lia.
    - pose proof (Hall 0 ltac:(lia)) as H0. cbn in H0. rewrite H0.
      rewrite (IH (L * gu)%num (S it) j); try lia.
      + cbn [geo]. f_equal. f_equal. lia.
      + exact HA.
      + intros i Hi. apply (Hall (S i)). lia.
  Qed.

  Theorem ls_first_accepted acc gu n L j :
    j < n -> acc (geo L gu j) = true -> (forall i, i < j -> acc (geo L gu i) = false) ->
    ls_loop acc gu n L 0 = (geo L gu j, S j, true).
  Proof. intros. rewrite (ls_first_accepted_gen acc gu n L 0 j); auto. Qed.

  (** Budget exhausted: the code returns the value AFTER the last multiplication, i.e.
      [gamma_u] times the last value for which a candidate was evaluated. *)
  Theorem ls_exhausted acc gu n L :
    (forall i, i < n -> acc (geo L gu i) = false) ->
    ls_loop acc gu n L 0 = (geo L gu n, n, false).
  Proof.
    intros Hall. destruct (ls_loop acc gu n L 0) as [[L' it'] b] eqn:E.
    pose proof (ls_loop_spec _ _ _ _ _ _ _ _ E) as S. destruct b.
    - destruct S as (j & Hj & HL & HA & _). subst. rewrite Hall in HA by auto. discriminate.
    - destruct S as (_ & HL & Hit). subst. reflexivity.
  Qed.

  Corollary ls_exhausted_is_gu_times_last_tried acc gu n L :
    (forall i, i < S n -> acc (geo L gu i) = false) ->
    fst (fst (ls_loop acc gu (S n) L 0)) = (geo L gu n * gu)%num.
  Proof. intros Hall. rewrite ls_exhausted by auto. cbn [fst]. apply geo_S. Qed.

  (** ** RobustLineSearchStepSize.update, over an arbitrary vector type.
<<
      L = self.pgm.L * self.gamma_d; it = 0
      while it < self.maxiter:
          t = (1.0 + sqrt(1.0 + 4.0 * L * self.Tk)) / (2.0 * L)
          T = self.Tk + t
          y = (self.Tk * self.pgm.x + t * self.Zrb) / T
          z = self.pgm.x_step(y, L); fz = f(z); fquad = f_quad_approx(z, y, L)
          if fz <= fquad: break
          else: L *= self.gamma_u
          it += 1
      self.Tk = T; self.Zrb += t * L * (z - y); self.Z = z
      return L
>> *)
  Section Robust.
    Variable V : Type.
    Variables (vadd vsub : V -> V -> V) (vscale : K -> V -> V).
    Variable xstep : V -> K -> V.          (* pgm.x_step *)
    Variable f : V -> K.                   (* pgm.f *)
    Variable fquad : V -> V -> K -> K.     (* pgm.f_quad_approx *)
    Variable ksqrt : K -> K.               (* snp.sqrt *)
    Variables (gd gu : K).
    Variables (x Zrb : V) (Tk : K).        (* pgm.x, self.Zrb (after the None test), self.Tk *)

    Definition k4 : K := (k2 * k2)%num.
    Definition rl_t (L : K) : K := ((k1 + ksqrt (k1 + k4 * L * Tk)) / (k2 * L))%num.
    Definition rl_T (L : K) : K := (Tk + rl_t L)%num.
    Definition rl_y (L : K) : V := vscale (kinv (rl_T L)) (vadd (vscale Tk x) (vscale (rl_t L) Zrb)).
    Definition rl_z (L : K) : V := xstep (rl_y L) L.
    Definition rl_acc (L : K) : bool := (f (rl_z L) <=? fquad (rl_z L) (rl_y L) L)%num.

    (** [last]: the locals t, T, y, z of the most recent loop body ([None]: unbound) *)
    Definition rl_locals := (K * K * V * V)%type.
    Definition rl_body (L : K) : rl_locals := (rl_t L, rl_T L, rl_y L, rl_z L).

    Fixpoint rl_loop (fuel : nat) (L : K) (it : nat) (last : option rl_locals)
      : K * nat * bool * option rl_locals :=
      match fuel with
      | O => (L, it, false, last)
      | S m =>
          let b := rl_body L in
          if rl_acc L then (L, S it, true, Some b) else rl_loop m (L * gu)%num (S it) (Some b)
      end.

    Record rl_out := mk_rl { rl_L : K; rl_trials : nat; rl_accepted : bool;
                             rl_Tk : K; rl_Zrb : V; rl_Z : V }.

    (** [None]: UnboundLocalError (maxiter = 0 leaves T, t, z unbound) *)
    Definition rl_update (maxiter : nat) (pgmL : K) : option rl_out :=
      match rl_loop maxiter (pgmL * gd)%num 0 None with
      | (L, it, b, Some (t, T, y, z)) =>
          Some (mk_rl L it b T (vadd Zrb (vscale (t * L)%num (vsub z y))) z)
      | (_, _, _, None) => None
      end.

    (** the L-sequence of the robust search is the plain line search started at gamma_d * L *)
    Lemma rl_loop_ls fuel : forall L it last,
      fst (rl_loop fuel L it last) = ls_loop rl_acc gu fuel L it.
    Proof.
      induction fuel as [|m IH]; intros; cbn; auto.
      destruct (rl_acc L); cbn; auto.
    Qed.

    (** the locals that survive the loop are those of the last L for which a candidate
        was computed: the returned L if it was accepted, otherwise the one before the
        final multiplication *)
    Lemma rl_loop_last fuel : forall L it last,
      snd (rl_loop fuel L it last) =
      match fuel with
      | O => last
      | S m => let '(L', _, b) := ls_loop rl_acc gu fuel L it in
               Some (rl_body (if b then L' else geo L gu m))
      end.
    Proof.
      induction fuel as [|m IH]; intros; cbn; auto.
      destruct (rl_acc L) eqn:A; cbn; auto.
      rewrite IH. destruct m as [|m']; cbn; auto.
    Qed.

    (** Accepted within the budget: everything handed back is computed with the returned L. *)
    Theorem rl_update_accepted maxiter pgmL j :
      j < maxiter -> rl_acc (geo (pgmL * gd)%num gu j) = true ->
      (forall i, i < j -> rl_acc (geo (pgmL * gd)%num gu i) = false) ->
      let L := geo (pgmL * gd)%num gu j in
      rl_update maxiter pgmL =
      Some (mk_rl L (S j) true (Tk + rl_t L)%num
                  (vadd Zrb (vscale (rl_t L * L)%num (vsub (rl_z L) (rl_y L))))
                  (xstep (rl_y L) L)).
    Proof.
      intros Hj HA Hall L. unfold rl_update.
      pose proof (rl_loop_ls maxiter (pgmL * gd)%num 0 None) as E1.
      pose proof (rl_loop_last maxiter (pgmL * gd)%num 0 None) as E2.
      rewrite (ls_first_accepted rl_acc gu maxiter (pgmL * gd)%num j Hj HA Hall) in E1, E2.
      destruct maxiter as [|m]; [lia|].
      destruct (rl_loop (S m) (pgmL * gd)%num 0 None) as [[[L' it'] b] last].
      cbn [fst snd] in E1, E2. inversion E1; subst. reflexivity.
    Qed.

    (** Budget exhausted: returned L = gamma_u * (last L tried); Tk, Z are those of the last
        L tried, and Zrb mixes the two. *)
    Theorem rl_update_exhausted m pgmL :
      (forall i, i < S m -> rl_acc (geo (pgmL * gd)%num gu i) = false) ->
      let Lt := geo (pgmL * gd)%num gu m in
      rl_update (S m) pgmL =
      Some (mk_rl (Lt * gu)%num (S m) false (Tk + rl_t Lt)%num
                  (vadd Zrb (vscale (rl_t Lt * (Lt * gu))%num (vsub (rl_z Lt) (rl_y Lt))))
                  (xstep (rl_y Lt) Lt)).
    Proof.
      intros Hall Lt. unfold rl_update.
      pose proof (rl_loop_ls (S m) (pgmL * gd)%num 0 None) as E1.
      pose proof (rl_loop_last (S m) (pgmL * gd)%num 0 None) as E2.
      rewrite (ls_exhausted rl_acc gu (S m) (pgmL * gd)%num Hall) in E1, E2.
      destruct (rl_loop (S m) (pgmL * gd)%num 0 None) as [[[L' it'] b] last].
      cbn [fst snd] in E1, E2. inversion E1; subst. subst Lt. rewrite <- !geo_S. reflexivity.
    Qed.

    Theorem rl_update_maxiter0 pgmL : rl_update 0 pgmL = None.
    Proof. reflexivity. Qed.
  End Robust.

  (** ** Which point the solvers hand to the policy (scico/optimize/_pgm.py step methods) *)
  Inductive policy := PFixed | PBB | PABB | PLS | PRLS.

  (** PGM.step: [self.L = self.step_size.update(self.x)]; [x = x_step(self.x, self.L)] *)
  Definition pgm_arg {V} (p : policy) (x : V) : V := x.
  (** AcceleratedPGM.step: isinstance(step_size, (AdaptiveBBStepSize, BBStepSize)) -> x, else v *)
  Definition apgm_arg {V} (p : policy) (x v : V) : V :=
    match p with PBB | PABB => x | _ => v end.
  (** new x of AcceleratedPGM.step: the policy's Z for the robust search, else x_step(v, L) *)
  Definition apgm_newx {V} (p : policy) (Z : V) (xstep_v_L : V) : V :=
    match p with PRLS => Z | _ => xstep_v_L end.

  Theorem apgm_arg_spec {V} p (x v : V) :
    apgm_arg p x v = (if match p with PBB | PABB => true | _ => false end then x else v).
  Proof. destruct p; reflexivity. Qed.
End Models.
