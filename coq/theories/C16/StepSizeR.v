(** Theorems about the step-size policy models at the real-number instance. *)
From Coq Require Import Bool Arith Lia Reals Lra.
From SV Require Import Base.Num C16.XR C16.StepSize.
Local Open Scope R_scope.

Notation xrR := (xr R).

Ltac xr_unfold :=
  unfold bb_update, abb_update, bb_reject, xdiv, xle0, xltk, xposfin, xzero, xsign, xisnan, xisinf, xisfinite,
         sinf, szero, kltb in *;
  cbn [k0 k1 kadd kmul kopp ksub kinv kdiv kleb keqb Num_R fst snd orb andb negb xorb] in *.

(** ** IEEE division on finite reals *)
Lemma xdiv_fin_nz (p q : R) : q <> 0 ->
  xdiv (Fin p) (Fin q) = if Req_EM_T p 0 then (if Rlt_dec q 0 then NZ else Fin 0) else Fin (p / q).
Proof.
  intros Hq. xr_unfold. rcases; try lra; cbn.
  all: destruct (Req_EM_T p 0); try lra; destruct (Rlt_dec q 0); try lra; auto.
Qed.

Lemma xdiv_fin_pinf (p : R) (b : xrR) :
  xdiv (Fin p) b = PInf <-> (b = Fin 0 /\ 0 < p) \/ (b = NZ /\ p < 0).
Proof.
  destruct b as [q| | | |]; xr_unfold; rcases; cbn; split; intros H;
    try discriminate; try (destruct H as [[H1 H2]|[H1 H2]]; try discriminate; try inversion H1; subst; lra);
    try (left; split; [f_equal|]; lra); try (right; split; auto; lra); auto.
Qed.

(** ** BBStepSize *)
Theorem bb_first (pgmL gg xg : xrR) : bb_update pgmL true gg xg = pgmL.
Proof. reflexivity. Qed.

(** the test the code applies, verbatim *)
Theorem bb_fallback_iff (pgmL gg xg : xrR) :
  let r := xdiv gg xg in
  bb_update pgmL false gg xg = if negb (xisfinite r) || xle0 r then pgmL else r.
Proof. reflexivity. Qed.

(** finite inner products, non-zero denominator: the documented ratio when it is positive,
    otherwise the previous L *)
Theorem bb_ratio (pgmL : xrR) (gg xg : R) : xg <> 0 ->
  bb_update pgmL false (Fin gg) (Fin xg) = if Rlt_dec 0 (gg / xg) then Fin (gg / xg) else pgmL.
Proof.
  intros Hq. unfold bb_update. rewrite xdiv_fin_nz by auto.
  destruct (Req_EM_T gg 0) as [->|Hg].
  - replace (0 / xg) with 0 by (field; auto). destruct (Rlt_dec 0 0); [lra|].
    destruct (Rlt_dec xg 0); xr_unfold; rcases; auto; lra.
  - xr_unfold. destruct (Rlt_dec 0 (gg / xg)); rcases; auto; lra.
Qed.

(** zero denominator: 0/0 = nan, num/0 = +-inf: all fall back *)
Theorem bb_zero_den (pgmL : xrR) (gg : R) (z : xrR) :
  z = Fin 0 \/ z = NZ -> bb_update pgmL false (Fin gg) z = pgmL.
Proof. intros [->| ->]; xr_unfold; rcases; cbn; auto; try lra; try congruence. Qed.

(** a non-finite quotient (nan, +inf, -inf) always falls back *)
Theorem bb_nonfinite_falls_back (pgmL gg xg : xrR) :
  xisfinite (xdiv gg xg) = false -> bb_update pgmL false gg xg = pgmL.
Proof. intros H. unfold bb_update, bb_reject. rewrite H. reflexivity. Qed.

(** a quotient that passes the code's test is finite and positive *)
Lemma accepted_posfin (r : xrR) : bb_reject r = false -> xposfin r = true.
Proof. destruct r; xr_unfold; rcases; cbn; intros; auto; try discriminate; lra. Qed.

Lemma posfin_accepted (r : xrR) : xposfin r = true -> bb_reject r = false.
Proof. destruct r; xr_unfold; rcases; cbn; intros; auto; try discriminate; lra. Qed.

(** FULL statement: for all extended inputs (nan, +-inf, signed zeros) the returned L is finite
    and > 0 whenever pgm.L is *)
Theorem bb_posfin (pgmL gg xg : xrR) first :
  xposfin pgmL = true -> xposfin (bb_update pgmL first gg xg) = true.
Proof.
  intros HL. unfold bb_update. destruct first; auto.
  destruct (bb_reject (xdiv gg xg)) eqn:E; auto. apply accepted_posfin; auto.
Qed.

(** ** AdaptiveBBStepSize *)
Definition mem_ok (m : abb_mem (K:=R)) : Prop :=
  (forall a, fst m = Some a -> xposfin a = true) /\ (forall a, snd m = Some a -> xposfin a = true).

Theorem abb_first kappa (pgmL : xrR) m xx xg gg :
  abb_update kappa pgmL true m xx xg gg = (pgmL, m).
Proof. reflexivity. Qed.

(** individual fall-backs and the selection rule, verbatim *)
Theorem abb_structure kappa (pgmL : xrR) m xx xg gg :
  let r1 := xdiv xg xx in let r2 := xdiv gg xg in
  let L1 := if negb (xisfinite r1) || xle0 r1 then fst m else Some r1 in
  let L2 := if negb (xisfinite r2) || xle0 r2 then snd m else Some r2 in
  abb_update kappa pgmL false m xx xg gg =
  (match L1, L2 with
   | Some a, Some b => if xltk (xdiv a b) kappa then b else a
   | _, _ => pgmL end, (L1, L2)).
Proof. reflexivity. Qed.

(** both fresh quotients finite and positive: the documented formulas and selection *)
Theorem abb_ratios kappa (pgmL : xrR) m (xx xg gg : R) :
  xx <> 0 -> xg <> 0 -> 0 < xg / xx -> 0 < gg / xg ->
  abb_update kappa pgmL false m (Fin xx) (Fin xg) (Fin gg) =
  (if Rlt_dec ((xg / xx) / (gg / xg)) kappa then Fin (gg / xg) else Fin (xg / xx),
   (Some (Fin (xg / xx)), Some (Fin (gg / xg)))).
Proof.
  intros Hxx Hxg H1 H2. unfold abb_update.
  assert (Hg : gg <> 0).
  { intro; subst. replace (0 / xg) with 0 in H2 by (field; auto). lra. }
  rewrite !xdiv_fin_nz by auto.
  destruct (Req_EM_T xg 0); [lra|]. destruct (Req_EM_T gg 0); [lra|].
  assert (E1 : bb_reject (Fin (xg / xx) : xrR) = false) by (apply posfin_accepted; xr_unfold; rcases; auto; lra).
  assert (E2 : bb_reject (Fin (gg / xg) : xrR) = false) by (apply posfin_accepted; xr_unfold; rcases; auto; lra).
  rewrite E1, E2. cbn [fst snd].
  assert (Hn : gg / xg <> 0) by lra.
  rewrite xdiv_fin_nz by auto.
  destruct (Req_EM_T (xg / xx) 0); [lra|].
  f_equal. xr_unfold. destruct (Rlt_dec (xg / xx / (gg / xg)) kappa); rcases; auto; lra.
Qed.

(** a missing estimate (no usable quotient so far) makes the policy return pgm.L *)
Theorem abb_missing kappa (pgmL : xrR) m xx xg gg :
  (fst m = None /\ bb_reject (xdiv xg xx) = true) \/ (snd m = None /\ bb_reject (xdiv gg xg) = true) ->
  fst (abb_update kappa pgmL false m xx xg gg) = pgmL.
Proof.
  unfold abb_update. intros [[E1 E2]|[E1 E2]]; rewrite E1, E2; cbn [fst snd]; auto.
  destruct (if bb_reject (xdiv xg xx) then fst m else Some (xdiv xg xx)); auto.
Qed.

(** FULL statement for the adaptive policy, as an invariant of its memory (any history) *)
Theorem abb_posfin kappa (pgmL : xrR) first m xx xg gg :
  xposfin pgmL = true -> mem_ok m ->
  let '(L, m') := abb_update kappa pgmL first m xx xg gg in
  xposfin L = true /\ mem_ok m'.
Proof.
  intros HL [M1 M2]. unfold abb_update. destruct first; [split; [auto|split; auto]|].
  set (L1 := if bb_reject (xdiv xg xx) then fst m else Some (xdiv xg xx)).
  set (L2 := if bb_reject (xdiv gg xg) then snd m else Some (xdiv gg xg)).
  assert (P1 : forall a, L1 = Some a -> xposfin a = true).
  { intros a Ha. unfold L1 in Ha. destruct (bb_reject (xdiv xg xx)) eqn:E; auto.
    inversion Ha; subst. apply accepted_posfin; auto. }
  assert (P2 : forall a, L2 = Some a -> xposfin a = true).
  { intros a Ha. unfold L2 in Ha. destruct (bb_reject (xdiv gg xg)) eqn:E; auto.
    inversion Ha; subst. apply accepted_posfin; auto. }
  split; [|split; auto].
  destruct L1 as [a|]; auto. destruct L2 as [b|]; auto.
  destruct (xltk (xdiv a b) kappa); auto.
Qed.

(** whole runs: every L of a BB run started from a usable L0 is usable, for every sequence of
    points and every (extended) value of the inner products *)
Theorem bb_run_posfin P (ipxg ipgg : P -> P -> xrR) vs : forall pgmL mem,
  xposfin pgmL = true -> List.Forall (fun L => xposfin L = true) (bb_run P ipxg ipgg pgmL mem vs).
Proof.
  induction vs as [|v r IH]; intros pgmL mem HL; cbn [bb_run]; [constructor|].
  destruct mem as [p|]; cbn [bb_step].
  - constructor; [apply bb_posfin; auto|]. apply IH. apply bb_posfin; auto.
  - constructor; [apply bb_posfin; auto|]. apply IH. apply bb_posfin; auto.
Qed.

(** ** Line searches: positivity of every returned L, geometric sequence in closed form *)
Lemma geo_pow (L gu : R) j : geo L gu j = L * gu ^ j.
Proof.
  revert L. induction j as [|j IH]; intros L; cbn [geo pow].
  - lra.
  - rewrite IH. cbn [kmul Num_R]. ring.
Qed.

Lemma geo_pos (L gu : R) j : 0 < L -> 0 < gu -> 0 < geo L gu j.
Proof. intros. rewrite geo_pow. apply Rmult_lt_0_compat; auto. apply pow_lt; auto. Qed.

Theorem ls_positive (acc : R -> bool) gu n L it :
  0 < L -> 0 < gu -> 0 < fst (fst (ls_loop acc gu n L it)).
Proof.
  intros HL Hg. destruct (ls_loop acc gu n L it) as [[L' it'] b] eqn:E.
  apply ls_loop_spec in E. cbn [fst]. destruct b.
  - destruct E as (j & _ & -> & _). apply geo_pos; auto.
  - destruct E as (_ & -> & _). apply geo_pos; auto.
Qed.

Theorem rl_positive V vadd vsub vscale xstep f fquad ksqrt gd gu x Zrb Tk maxiter pgmL o :
  0 < pgmL -> 0 < gd -> 0 < gu ->
  rl_update (K:=R) V vadd vsub vscale xstep f fquad ksqrt gd gu x Zrb Tk maxiter pgmL = Some o ->
  0 < rl_L V o.
Proof.
  intros HL Hd Hu. unfold rl_update.
  pose proof (rl_loop_ls (K:=R) V vadd vscale xstep f fquad ksqrt gu x Zrb Tk maxiter
                         (kmul pgmL gd) 0%nat None) as E1.
  destruct (rl_loop V vadd vscale xstep f fquad ksqrt gu x Zrb Tk maxiter (kmul pgmL gd) 0%nat None)
    as [[[L' it'] b] last].
  cbn [fst] in E1.
  destruct last as [[[[t T] y] z]|]; [|discriminate].
  intros E; inversion E; subst; clear E. cbn [rl_L].
  pose proof (ls_positive (rl_acc V vadd vscale xstep f fquad ksqrt x Zrb Tk) gu maxiter
                          (kmul pgmL gd) 0%nat) as P.
  rewrite <- E1 in P. cbn [fst] in P. apply P; auto. cbn [kmul Num_R]. apply Rmult_lt_0_compat; auto.
Qed.

(** the auxiliary step t is the positive root of L t^2 = t + Tk (the documented recursion) *)
Theorem rl_t_root (L Tk : R) :
  0 < L -> 0 <= Tk ->
  let t := rl_t (K:=R) sqrt Tk L in
  0 < t /\ L * t * t = t + Tk.
Proof.
  intros HL HT. unfold rl_t, k4, k2. cbn [k1 kadd kmul kdiv Num_R].
  set (s := sqrt (1 + (1 + 1) * (1 + 1) * L * Tk)).
  assert (Hd : 0 <= 1 + (1 + 1) * (1 + 1) * L * Tk) by nra.
  assert (Hs : s * s = 1 + (1 + 1) * (1 + 1) * L * Tk) by (apply sqrt_sqrt; auto).
  assert (Hs0 : 0 <= s) by apply sqrt_pos.
  split.
  - apply Rdiv_lt_0_compat; lra.
  - clearbody s.
    assert (HTk : Tk = (s * s - 1) / ((1 + 1) * (1 + 1) * L)) by (rewrite Hs; field; lra).
    rewrite HTk. field. lra.
Qed.
