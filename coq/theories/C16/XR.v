(** Extended scalars for the PGM step-size policies (scico/optimize/_pgmaux.py).

    The Barzilai-Borwein policies divide inner products with IEEE semantics (the operands
    are JAX scalars, so [x/0] is [+-inf] or [nan], never an exception) and then test the
    quotient with [isfinite] and [<= 0.0].  This file writes those rules out once, generically
    in the finite scalar [K] (theorems at [R], execution at [Qc]).

    [Fin q] is a finite value; [Fin 0] is the IEEE +0 and [NZ] the IEEE -0 (the sign of a
    zero denominator decides the sign of the infinite quotient).  Rounding, overflow and
    underflow of finite values are NOT modelled (finite arithmetic is exact in [K]). *)
From Coq Require Import Bool.
From SV Require Import Base.Num.
Local Open Scope num_scope.

Section XR.
  Context {K : Type} `{NK : Num K}.

  Inductive xr := Fin (q : K) | NZ | PInf | NInf | NaN.

  (** sign bit *)
  Definition xsign (a : xr) : bool :=
    match a with Fin q => q <? k0 | NZ => true | PInf => false | NInf => true | NaN => false end.
  Definition xzero (a : xr) : bool :=
    match a with Fin q => q =? k0 | NZ => true | _ => false end.
  Definition xisnan (a : xr) : bool := match a with NaN => true | _ => false end.
  Definition xisinf (a : xr) : bool := match a with PInf | NInf => true | _ => false end.
  (** [snp.isfinite] *)
  Definition xisfinite (a : xr) : bool := match a with Fin _ | NZ => true | _ => false end.
  Definition sinf (neg : bool) : xr := if neg then NInf else PInf.
  Definition szero (neg : bool) : xr := if neg then NZ else Fin k0.

  (** IEEE 754 division (finite quotients exact) *)
  Definition xdiv (a b : xr) : xr :=
    let s := xorb (xsign a) (xsign b) in
    if xisnan a || xisnan b then NaN
    else if xisinf a then (if xisinf b then NaN else sinf s)
    else if xisinf b then szero s
    else if xzero b then (if xzero a then NaN else sinf s)
    else if xzero a then szero s
    else match a, b with Fin p, Fin q => Fin (p / q) | _, _ => NaN end.

  (** [a <= 0.0] (false on NaN) *)
  Definition xle0 (a : xr) : bool :=
    match a with Fin q => q <=? k0 | NZ => true | PInf => false | NInf => true | NaN => false end.
  (** [a < c] for a finite [c] (false on NaN) *)
  Definition xltk (a : xr) (c : K) : bool :=
    match a with Fin q => q <? c | NZ => k0 <? c | PInf => false | NInf => true | NaN => false end.

  (** finite and strictly positive: what a usable reciprocal step size is *)
  Definition xposfin (a : xr) : bool := match a with Fin q => k0 <? q | _ => false end.
End XR.

Arguments xr K : clear implicits.
