(** Diagonal.norm / ScaledIdentity.norm (scico/linop/_diag.py).

    Diagonal.norm(ord):   None,'fro' -> ||d||_2 ; 'nuc' -> sum |d_i| ;
                          inf, 1, 2 -> max |d_i| ; -inf, -1, -2 -> min |d_i| ; else ValueError
    ScaledIdentity.norm:  None,'fro' -> |s| sqrt(N) ; 'nuc' -> |s| N ; +-inf, +-1, +-2 -> |s| ;
                          else ValueError
    The executable part (generic scalar) returns the reduction WITHOUT the final square root
    for 'fro' (the harness squares the implementation's value). *)
From Coq Require Import Reals Lra Psatz List Arith Lia Bool.
From SV Require Import Base.Num.
Import ListNotations.

Inductive ord := OrdNone | OrdFro | OrdNuc | OrdPInf | OrdNInf | Ord1 | OrdN1 | Ord2 | OrdN2 | OrdOther.
Inductive red := SqrtSumsq | SumAbs | MaxAbs | MinAbs.

(** the dispatch of both norm methods ([None] = ValueError) *)
Definition ord_red (o : ord) : option red :=
  match o with
  | OrdNone | OrdFro => Some SqrtSumsq
  | OrdNuc => Some SumAbs
  | OrdPInf | Ord1 | Ord2 => Some MaxAbs
  | OrdNInf | OrdN1 | OrdN2 => Some MinAbs
  | OrdOther => None
  end.

Section Exec.
  Context {K : Type} `{NK : Num K}.
  Fixpoint d_sumsq (d : list K) : K := match d with [] => k0 | a :: r => kadd (kmul a a) (d_sumsq r) end.
  Fixpoint d_sumabs (d : list K) : K := match d with [] => k0 | a :: r => kadd (kabs a) (d_sumabs r) end.
  Fixpoint d_maxabs (d : list K) : K := match d with [] => k0 | a :: r => kmax (kabs a) (d_maxabs r) end.
  Fixpoint d_minabs (d : list K) : K :=
    match d with [] => k0 | [a] => kabs a | a :: r => kmin (kabs a) (d_minabs r) end.
  (** value of the reduction; for SqrtSumsq the SQUARE of the norm *)
  Definition red_val (r : red) (d : list K) : K :=
    match r with SqrtSumsq => d_sumsq d | SumAbs => d_sumabs d | MaxAbs => d_maxabs d | MinAbs => d_minabs d end.
  Definition diag_norm (o : ord) (d : list K) : option K := option_map (fun r => red_val r d) (ord_red o).
  (** ScaledIdentity with scalar s on N elements *)
  Definition sid_norm (o : ord) (s : K) (N : nat) : option K :=
    option_map (fun r => match r with
                         | SqrtSumsq => kmul (kmul s s) (kofnat N)
                         | SumAbs => kmul (kabs s) (kofnat N)
                         | MaxAbs | MinAbs => kabs s end) (ord_red o).
End Exec.

Local Open Scope R_scope.

Lemma kabs_R a : kabs (K:=R) a = Rabs a.
Proof.
  unfold kabs. cbn [kleb k0 kopp Num_R]. unfold R_leb. destruct (Rle_dec 0 a).
  - rewrite Rabs_right; lra.
  - rewrite Rabs_left; lra.
Qed.
Lemma kmax_R a b : kmax (K:=R) a b = Rmax a b.
Proof. unfold kmax, Rmax. cbn [kleb Num_R]. unfold R_leb. destruct (Rle_dec a b); reflexivity. Qed.
Lemma kmin_R a b : kmin (K:=R) a b = Rmin a b.
Proof. unfold kmin, Rmin. cbn [kleb Num_R]. unfold R_leb. destruct (Rle_dec a b); reflexivity. Qed.

(** the diagonal map and the squared 2-norm on R^n *)
Fixpoint dapply (d x : list R) : list R :=
  match d, x with a :: r, b :: s => a * b :: dapply r s | _, _ => [] end.
Notation sumsq := (d_sumsq (K:=R)).
Notation maxabs := (d_maxabs (K:=R)).
Notation minabs := (d_minabs (K:=R)).

Lemma sumsq_nonneg x : 0 <= sumsq x.
Proof. induction x; cbn; [lra|]. cbn [kadd kmul Num_R]. nra. Qed.
Lemma maxabs_nonneg d : 0 <= maxabs d.
Proof. destruct d; cbn; [lra|]. rewrite kmax_R, kabs_R. eapply Rle_trans; [apply Rabs_pos|apply Rmax_l]. Qed.
Lemma minabs_nonneg d : 0 <= minabs d.
Proof.
  induction d as [|a [|b r] IH]; cbn [d_minabs]; [cbn; lra|rewrite kabs_R; apply Rabs_pos|].
  rewrite kmin_R, kabs_R. apply Rmin_glb; [apply Rabs_pos|exact IH].
Qed.

Lemma dapply_cons a r b s : dapply (a :: r) (b :: s) = a * b :: dapply r s.
Proof. reflexivity. Qed.
Lemma sumsq_cons a r : sumsq (a :: r) = a * a + sumsq r.
Proof. reflexivity. Qed.
Lemma maxabs_cons a r : maxabs (a :: r) = Rmax (Rabs a) (maxabs r).
Proof. cbn [d_maxabs]. rewrite kmax_R, kabs_R. reflexivity. Qed.
Lemma sumsq_zeros n : sumsq (repeat 0 n) = 0.
Proof. induction n; [reflexivity|]. cbn [repeat]. rewrite sumsq_cons, IHn. lra. Qed.
Lemma sumsq_dapply_zeros l : sumsq (dapply l (repeat 0 (length l))) = 0.
Proof. induction l; [reflexivity|]. cbn [length repeat]. rewrite dapply_cons, sumsq_cons, IHl. lra. Qed.

(** *** induced 2-norm = max |d_i| : bound for all x ... *)
Theorem diag_two_norm_bound d : forall x, length x = length d ->
  sumsq (dapply d x) <= maxabs d * maxabs d * sumsq x.
Proof.
  induction d as [|a r IH]; intros [|b s] Hl; try discriminate; cbn [dapply d_sumsq d_maxabs].
  - cbn; lra.
  - injection Hl as Hl. specialize (IH s Hl). cbn [kadd kmul k0 Num_R]. rewrite kmax_R, kabs_R.
    set (M := Rmax (Rabs a) (maxabs r)).
    assert (Rabs a <= M) by apply Rmax_l. assert (maxabs r <= M) by apply Rmax_r.
    pose proof (Rabs_pos a). pose proof (maxabs_nonneg r). pose proof (sumsq_nonneg s).
    assert (a * a = Rabs a * Rabs a) by (rewrite <- Rabs_mult; rewrite Rabs_right; nra).
    assert (Rabs a * Rabs a <= M * M) by nra.
    assert (maxabs r * maxabs r <= M * M) by nra.
    assert (maxabs r * maxabs r * sumsq s <= M * M * sumsq s) by (apply Rmult_le_compat_r; auto).
    assert (0 <= b * b) by nra. nra.
Qed.

(** ... attained at a basis vector *)
Theorem diag_two_norm_attained d : d <> [] ->
  exists x, length x = length d /\ sumsq x = 1 /\ sumsq (dapply d x) = maxabs d * maxabs d.
Proof.
  induction d as [|a r IH]; intros Hne; [contradiction|].
  destruct r as [|b r'].
  - exists [1]. rewrite maxabs_cons. cbn [d_maxabs]. rewrite Rmax_left by apply Rabs_pos.
    repeat split.
    + cbn. cbn [kadd kmul k0 Num_R]. lra.
    + rewrite dapply_cons, sumsq_cons. cbn [dapply d_sumsq]. cbn [k0 Num_R].
      rewrite <- Rabs_mult. rewrite Rabs_right; nra.
  - destruct (IH ltac:(discriminate)) as (x & Hl & H1 & H2).
    rewrite maxabs_cons.
    destruct (Rle_dec (Rabs a) (maxabs (b :: r'))) as [Hle|Hgt].
    + exists (0 :: x). rewrite Rmax_right by auto. repeat split.
      * cbn [length]. rewrite Hl. reflexivity.
      * rewrite sumsq_cons, H1. lra.
      * rewrite dapply_cons, sumsq_cons, H2. lra.
    + exists (1 :: repeat 0 (length (b :: r'))). rewrite Rmax_left by lra. repeat split.
      * cbn [length]. rewrite repeat_length. reflexivity.
      * rewrite sumsq_cons, sumsq_zeros. lra.
      * rewrite dapply_cons, sumsq_cons, sumsq_dapply_zeros. rewrite <- Rabs_mult. rewrite Rabs_right; nra.
Qed.

(** *** ord = -2: smallest singular value = min |d_i| *)
Theorem diag_min_norm_bound d : forall x, length x = length d ->
  minabs d * minabs d * sumsq x <= sumsq (dapply d x).
Proof.
  induction d as [|a r IH]; intros [|b s] Hl; try discriminate.
  - cbn; lra.
  - injection Hl as Hl. specialize (IH s Hl).
    destruct r as [|a' r'].
    + destruct s; [|discriminate]. cbn. rewrite kabs_R.
      assert (a * a = Rabs a * Rabs a) by (rewrite <- Rabs_mult; rewrite Rabs_right; nra). nra.
    + change (minabs (a :: a' :: r')) with (kmin (kabs a) (minabs (a' :: r'))). rewrite kmin_R, kabs_R.
      set (m := Rmin (Rabs a) (minabs (a' :: r'))).
      rewrite dapply_cons, !sumsq_cons.
      assert (Hm1 : m <= Rabs a) by apply Rmin_l.
      assert (Hm2 : m <= minabs (a' :: r')) by apply Rmin_r.
      pose proof (minabs_nonneg (a' :: r')) as Hn. pose proof (Rabs_pos a) as Ha.
      assert (Hm0 : 0 <= m) by (apply Rmin_glb; auto).
      pose proof (sumsq_nonneg s) as Hs.
      assert (Haa : a * a = Rabs a * Rabs a) by (rewrite <- Rabs_mult; rewrite Rabs_right; nra).
      assert (Q1 : m * m <= Rabs a * Rabs a) by nra.
      assert (Q2 : m * m <= minabs (a' :: r') * minabs (a' :: r')) by nra.
      assert (Q3 : m * m * sumsq s <= minabs (a' :: r') * minabs (a' :: r') * sumsq s)
        by (apply Rmult_le_compat_r; auto).
      assert (Hb : 0 <= b * b) by nra.
      assert (Q4 : m * m * (b * b) <= Rabs a * Rabs a * (b * b)) by (apply Rmult_le_compat_r; auto).
      replace (a * b * (a * b)) with (a * a * (b * b)) by ring. rewrite Haa. lra.
Qed.

(** *** the dense matrix of the diagonal operator, entry-wise *)
Definition dent (d : list R) (i j : nat) : R := if Nat.eqb i j then nth i d 0 else 0.
Fixpoint sumn (n : nat) (f : nat -> R) : R := match n with O => 0 | S m => sumn m f + f m end.

Lemma sumn_single n i (g : R -> R) (a : R) : g 0 = 0 ->
  sumn n (fun j => g (if Nat.eqb i j then a else 0)) = if Nat.ltb i n then g a else 0.
Proof.
  intros g0. induction n as [|n IH]; cbn [sumn]; [reflexivity|].
  rewrite IH. destruct (Nat.eqb i n) eqn:E.
  - apply Nat.eqb_eq in E. subst. rewrite Nat.ltb_irrefl.
    replace (n <? S n)%nat with true by (symmetry; apply Nat.ltb_lt; lia). lra.
  - apply Nat.eqb_neq in E. rewrite g0.
    destruct (Nat.ltb i n) eqn:F.
    + replace (i <? S n)%nat with true by (symmetry; apply Nat.ltb_lt; apply Nat.ltb_lt in F; lia). lra.
    + replace (i <? S n)%nat with false by (symmetry; apply Nat.ltb_ge; apply Nat.ltb_ge in F; lia). lra.
Qed.

(** absolute row sums (ord = +-inf) and, the matrix being symmetric, column sums (ord = +-1):
    row i sums to |d_i| *)
Theorem diag_row_abs_sum d i : (i < length d)%nat ->
  sumn (length d) (fun j => Rabs (dent d i j)) = Rabs (nth i d 0).
Proof.
  intros Hi. unfold dent. rewrite (sumn_single (length d) i Rabs (nth i d 0) Rabs_R0).
  replace (i <? length d)%nat with true by (symmetry; apply Nat.ltb_lt; auto). reflexivity.
Qed.
Theorem diag_symmetric d i j : dent d i j = dent d j i.
Proof.
  unfold dent. rewrite (Nat.eqb_sym j i). destruct (Nat.eqb i j) eqn:E; auto.
  apply Nat.eqb_eq in E. subst. reflexivity.
Qed.
(** squared row sums: Frobenius^2 = sum_i sum_j M_ij^2 = sum_i d_i^2 *)
Theorem diag_row_sq_sum d i : (i < length d)%nat ->
  sumn (length d) (fun j => dent d i j * dent d i j) = nth i d 0 * nth i d 0.
Proof.
  intros Hi. unfold dent.
  rewrite (sumn_single (length d) i (fun t => t * t) (nth i d 0) ltac:(lra)).
  replace (i <? length d)%nat with true by (symmetry; apply Nat.ltb_lt; auto). reflexivity.
Qed.

Lemma sumn_nth_sumsq d : sumn (length d) (fun i => nth i d 0 * nth i d 0) = sumsq d.
Proof.
  induction d as [|a r IH] using rev_ind; [reflexivity|].
  rewrite app_length. cbn [length]. rewrite Nat.add_1_r. cbn [sumn].
  rewrite app_nth2 by lia. rewrite Nat.sub_diag. cbn [nth].
  assert (E : sumn (length r) (fun i => nth i (r ++ [a]) 0 * nth i (r ++ [a]) 0)
              = sumn (length r) (fun i => nth i r 0 * nth i r 0)).
  { assert (G : forall n, (n <= length r)%nat ->
               sumn n (fun i => nth i (r ++ [a]) 0 * nth i (r ++ [a]) 0) = sumn n (fun i => nth i r 0 * nth i r 0)).
    { induction n; intros; cbn [sumn]; auto. rewrite IHn by lia. rewrite app_nth1 by lia. reflexivity. }
    apply G. lia. }
  rewrite E, IH.
  assert (A : forall l b, sumsq (l ++ [b]) = sumsq l + b * b).
  { induction l; intros; cbn; cbn [kadd kmul k0 Num_R]; [lra|]. rewrite IHl. lra. }
  rewrite A. reflexivity.
Qed.

Theorem diag_frobenius_sq d :
  sumn (length d) (fun i => sumn (length d) (fun j => dent d i j * dent d i j)) = sumsq d.
Proof.
  rewrite <- sumn_nth_sumsq.
  assert (G : forall n, (n <= length d)%nat ->
             sumn n (fun i => sumn (length d) (fun j => dent d i j * dent d i j)) = sumn n (fun i => nth i d 0 * nth i d 0)).
  { induction n; intros; cbn [sumn]; auto. rewrite IHn by lia. rewrite diag_row_sq_sum by lia. reflexivity. }
  apply G. lia.
Qed.

(** *** singular values: D = diag(|d|) . diag(sign d), the second factor an isometry, so the
    singular values are |d_i| (nuclear norm = sum |d_i|, 2-norm = max, -2-norm = min) *)
Definition sgn (a : R) : R := if Rle_dec 0 a then 1 else -1.
Theorem diag_svd d : forall x, length x = length d ->
  dapply d x = dapply (map Rabs d) (dapply (map sgn d) x) /\
  sumsq (dapply (map sgn d) x) = sumsq x.
Proof.
  induction d as [|a r IH]; intros [|b s] Hl; try discriminate; cbn [map dapply d_sumsq]; auto.
  injection Hl as Hl. destruct (IH s Hl) as [E1 E2]. rewrite <- E1, E2. cbn [kadd kmul Num_R].
  unfold sgn. destruct (Rle_dec 0 a).
  - rewrite Rabs_right by lra. split; [f_equal; ring|ring].
  - rewrite Rabs_left by lra. split; [f_equal; ring|ring].
Qed.

(** *** ScaledIdentity.norm is Diagonal.norm of the constant diagonal *)
Theorem sid_is_diag (s : R) N :
  sumsq (repeat s N) = s * s * INR N /\ d_sumabs (repeat s N) = Rabs s * INR N /\
  maxabs (repeat s (S N)) = Rabs s /\ minabs (repeat s (S N)) = Rabs s.
Proof.
  repeat split.
  - induction N; [cbn; lra|]. rewrite S_INR. cbn [repeat d_sumsq]. rewrite IHN. cbn [kadd kmul Num_R]. ring.
  - induction N; [cbn; lra|]. rewrite S_INR. cbn [repeat d_sumabs]. rewrite IHN, kabs_R. cbn [kadd Num_R]. ring.
  - induction N.
    + change (repeat s 1) with [s]. rewrite maxabs_cons. cbn [d_maxabs]. apply Rmax_left, Rabs_pos.
    + change (repeat s (S (S N))) with (s :: repeat s (S N)). rewrite maxabs_cons, IHN. apply Rmax_left. lra.
  - induction N.
    + change (repeat s 1) with [s]. cbn [d_minabs]. apply kabs_R.
    + change (minabs (repeat s (S (S N)))) with (kmin (kabs s) (minabs (repeat s (S N)))).
      rewrite kmin_R, kabs_R, IHN. apply Rmin_left. lra.
Qed.

Lemma kofnat_R n : kofnat (K:=R) n = INR n.
Proof. induction n; [reflexivity|]. rewrite S_INR. cbn [kofnat]. rewrite IHn. cbn [kadd k1 Num_R]. ring. Qed.

Theorem sid_norm_eq_diag_norm (o : ord) (s : R) N :
  sid_norm o s (S N) = diag_norm o (repeat s (S N)).
Proof.
  destruct (sid_is_diag s (S N)) as (H1 & H2 & _). destruct (sid_is_diag s N) as (_ & _ & H3 & H4).
  unfold sid_norm, diag_norm. destruct o; cbn [ord_red option_map red_val];
    rewrite ?H1, ?H2, ?H3, ?H4, ?kofnat_R, ?kabs_R; cbn [kmul Num_R]; reflexivity.
Qed.

Theorem invalid_ord_raises (d : list R) s N : diag_norm OrdOther d = None /\ sid_norm OrdOther s N = None.
Proof. split; reflexivity. Qed.
