(** Models of the three [estimate_parameters] static methods
    (scico/optimize/_primaldual.py, _padmm.py), generic in the scalar, and their theorems at R.

    PDHG:            factor None -> 1.0;  Cnrm = operator_norm(J)
                     tau = sqrt(factor / ratio) / Cnrm;  sigma = ratio * tau
    ProximalADMM /   mu = operator_norm(A)**2; nu = operator_norm(B)**2
    NonLinearPADMM:  factor None -> (mu, nu)  else (factor * mu, factor * nu) *)
From Coq Require Import Reals Lra Psatz.
From SV Require Import Base.Num.
Local Open Scope R_scope.

Section Model.
  Context {K : Type} `{NK : Num K}.
  Definition ksq (a : K) : K := kmul a a.
  Definition padmm_est (factor : option K) (estA estB : K) : K * K :=
    match factor with
    | None => (ksq estA, ksq estB)
    | Some f => (kmul f (ksq estA), kmul f (ksq estB))
    end.
  Definition eff_factor (factor : option K) : K := match factor with None => k1 | Some f => f end.
  Definition pdhg_est (ksqrt : K -> K) (factor : option K) (ratio est : K) : K * K :=
    let tau := kdiv (ksqrt (kdiv (eff_factor factor) ratio)) est in (tau, kmul ratio tau).
  (** tau^2, computable without a square root (used by the harness at Qc) *)
  Definition pdhg_tau2 (factor : option K) (ratio est : K) : K :=
    kdiv (kdiv (eff_factor factor) ratio) (ksq est).
End Model.

(** ** ProximalADMM / NonLinearPADMM *)
Theorem padmm_none (a b : R) : padmm_est None a b = (a * a, b * b).
Proof. reflexivity. Qed.

Theorem padmm_some (f a b : R) : padmm_est (Some f) a b = (f * (a * a), f * (b * b)).
Proof. reflexivity. Qed.

(** the returned value is on the strict side of the estimate iff factor > 1 (and est <> 0) *)
Theorem padmm_strict_iff (f e : R) : e * e < f * (e * e) <-> (1 < f /\ e <> 0).
Proof.
  split.
  - intros H. assert (e <> 0) by (intro; subst; lra). split; auto.
    assert (0 < e * e) by nra. nra.
  - intros [Hf He]. assert (0 < e * e) by nra. nra.
Qed.

(** ... and on the strict side of the true norm c iff factor * est^2 > c^2: because est <= c
    this needs factor > 1 AND an estimate accurate to the factor *)
Theorem padmm_true_norm (f e c : R) : 0 < e -> e <= c -> c * c < f * (e * e) -> 1 < f.
Proof. intros. assert (e * e <= c * c) by nra. assert (0 < e * e) by nra. nra. Qed.

(** ** PDHG *)
Section PDHG.
  Variables (factor : option R) (ratio est : R).
  Hypothesis ratio_pos : 0 < ratio.
  Hypothesis est_pos : 0 < est.
  Hypothesis factor_nonneg : 0 <= eff_factor factor.
  Let tau := fst (pdhg_est sqrt factor ratio est).
  Let sigma := snd (pdhg_est sqrt factor ratio est).

  Theorem pdhg_sigma : sigma = ratio * tau.
  Proof. reflexivity. Qed.

  Lemma pdhg_tau_sq : tau * tau = pdhg_tau2 factor ratio est.
  Proof.
    unfold tau, pdhg_est, pdhg_tau2, ksq. cbn [fst kdiv kmul Num_R].
    set (f := eff_factor factor) in *.
    assert (0 <= f / ratio) by (apply Rmult_le_pos; auto; left; apply Rinv_0_lt_compat; auto).
    replace (sqrt (f / ratio) / est * (sqrt (f / ratio) / est))
      with (sqrt (f / ratio) * sqrt (f / ratio) / (est * est)) by (field; lra).
    rewrite sqrt_sqrt by auto. reflexivity.
  Qed.

  Lemma pdhg_tau_nonneg : 0 <= tau.
  Proof.
    unfold tau, pdhg_est. cbn [fst kdiv Num_R]. apply Rmult_le_pos; [apply sqrt_pos|].
    left. apply Rinv_0_lt_compat; auto.
  Qed.

  (** tau sigma est^2 = factor (NOT 1/factor) *)
  Theorem pdhg_product : tau * sigma * (est * est) = eff_factor factor.
  Proof.
    rewrite pdhg_sigma. replace (tau * (ratio * tau) * (est * est)) with (ratio * (tau * tau) * (est * est)) by ring.
    rewrite pdhg_tau_sq. unfold pdhg_tau2, ksq. cbn [kdiv kmul Num_R]. field. lra.
  Qed.

  (** with respect to any c (e.g. the true norm): tau sigma c^2 = factor (c/est)^2 *)
  Theorem pdhg_product_true (c : R) : tau * sigma * (c * c) = eff_factor factor * ((c / est) * (c / est)).
  Proof.
    replace (tau * sigma * (c * c)) with (tau * sigma * (est * est) * ((c / est) * (c / est))) by (field; lra).
    rewrite pdhg_product. reflexivity.
  Qed.

  (** the documented strict inequality holds w.r.t. the estimate iff factor < 1 *)
  Theorem pdhg_strict_iff : tau * sigma * (est * est) < 1 <-> eff_factor factor < 1.
  Proof. rewrite pdhg_product. tauto. Qed.

  (** and w.r.t. a norm c >= est it can only hold if factor < 1 *)
  Theorem pdhg_strict_true_norm (c : R) : est <= c -> tau * sigma * (c * c) < 1 -> eff_factor factor < 1.
  Proof.
    intros Hc. rewrite pdhg_product_true.
    assert (1 <= c / est).
    { apply Rmult_le_reg_r with est; auto. unfold Rdiv. rewrite Rmult_assoc, Rinv_l by lra. lra. }
    intros. assert (1 <= (c / est) * (c / est)) by nra.
    destruct (Rlt_dec (eff_factor factor) 1); auto. exfalso. nra.
  Qed.
End PDHG.

(** factor = None behaves as factor = 1: the product is exactly 1, still not < 1 *)
Theorem pdhg_none_product (ratio est : R) : 0 < ratio -> 0 < est ->
  let '(tau, sigma) := pdhg_est sqrt None ratio est in tau * sigma * (est * est) = 1.
Proof.
  intros Hr He. pose proof (pdhg_product None ratio est Hr He) as P. cbn [eff_factor k1 Num_R] in P.
  apply P. lra.
Qed.

(** the default factor 1.01 puts PDHG on the wrong side for EVERY ratio, estimate and norm *)
Theorem pdhg_default_wrong_side (ratio est c : R) : 0 < ratio -> 0 < est -> est <= c ->
  let '(tau, sigma) := pdhg_est sqrt (Some (101 / 100)) ratio est in 1 < tau * sigma * (c * c).
Proof.
  intros Hr He Hc.
  pose proof (pdhg_product_true (Some (101 / 100)) ratio est Hr He ltac:(cbn; lra) c) as P.
  cbn [eff_factor] in P. cbv zeta in P.
  destruct (pdhg_est sqrt (Some (101 / 100)) ratio est) as [tau sigma] eqn:E. cbn [fst snd] in P.
  rewrite P.
  assert (1 <= c / est).
  { apply Rmult_le_reg_r with est; auto. unfold Rdiv. rewrite Rmult_assoc, Rinv_l by lra. lra. }
  assert (1 <= (c / est) * (c / est)) by nra. nra.
Qed.
