(** Models of the three [estimate_parameters] static methods
    (scico/optimize/_primaldual.py, _padmm.py), generic in the scalar, and their theorems at R.

    PDHG:            factor None -> 1.0;  Cnrm = operator_norm(J)
                     tau = sqrt(1.0 / (factor * ratio)) / Cnrm;  sigma = ratio * tau
    ProximalADMM /   mu = operator_norm(A)**2; nu = operator_norm(B)**2
    NonLinearPADMM:  factor None -> (mu, nu)  else (factor * mu, factor * nu) *)
From Coq Require Import Reals Lra Psatz.
From SV Require Import Base.Num.
Local Open Scope R_scope.

Section Model.
  Context {K : Type} `{NK : Num K}.
  Definition ksq (a : K) : K := kmul a a.
  Definition padmm_est (factor : option K) (estA estB : K) : K * K :=
    match factor with
    | None => (ksq estA, ksq estB)
    | Some f => (kmul f (ksq estA), kmul f (ksq estB))
    end.
  Definition eff_factor (factor : option K) : K := match factor with None => k1 | Some f => f end.
  Definition pdhg_est (ksqrt : K -> K) (factor : option K) (ratio est : K) : K * K :=
    let tau := kdiv (ksqrt (kdiv k1 (kmul (eff_factor factor) ratio))) est in (tau, kmul ratio tau).
  (** tau^2, computable without a square root (used by the harness at Qc) *)
  Definition pdhg_tau2 (factor : option K) (ratio est : K) : K :=
    kdiv (kdiv k1 (kmul (eff_factor factor) ratio)) (ksq est).
End Model.

(** ** ProximalADMM / NonLinearPADMM *)
Theorem padmm_none (a b : R) : padmm_est None a b = (a * a, b * b).
Proof. reflexivity. Qed.

Theorem padmm_some (f a b : R) : padmm_est (Some f) a b = (f * (a * a), f * (b * b)).
Proof. reflexivity. Qed.

(** the returned value is on the strict side of the estimate iff factor > 1 (and est <> 0) *)
Theorem padmm_strict_iff (f e : R) : e * e < f * (e * e) <-> (1 < f /\ e <> 0).
Proof.
  split.
  - intros H. assert (e <> 0) by (intro; subst; lra). split; auto.
    assert (0 < e * e) by nra. nra.
  - intros [Hf He]. assert (0 < e * e) by nra. nra.
Qed.

(** ... and on the strict side of the true norm c iff factor * est^2 > c^2: because est <= c
    this needs factor > 1 AND an estimate accurate to the factor *)
Theorem padmm_true_norm (f e c : R) : 0 < e -> e <= c -> c * c < f * (e * e) -> 1 < f.
Proof. intros. assert (e * e <= c * c) by nra. assert (0 < e * e) by nra. nra. Qed.

(** ** PDHG *)
Section PDHG.
  Variables (factor : option R) (ratio est : R).
  Hypothesis ratio_pos : 0 < ratio.
  Hypothesis est_pos : 0 < est.
  Hypothesis factor_pos : 0 < eff_factor factor.
  Let tau := fst (pdhg_est sqrt factor ratio est).
  Let sigma := snd (pdhg_est sqrt factor ratio est).

  Theorem pdhg_sigma : sigma = ratio * tau.
  Proof. reflexivity. Qed.

  Lemma pdhg_tau_sq : tau * tau = pdhg_tau2 factor ratio est.
  Proof.
    unfold tau, pdhg_est, pdhg_tau2, ksq. cbn [fst kdiv kmul k1 Num_R].
    set (f := eff_factor factor) in *.
    assert (0 < f * ratio) by (apply Rmult_lt_0_compat; auto).
    assert (0 <= 1 / (f * ratio)) by (left; apply Rdiv_lt_0_compat; lra).
    replace (sqrt (1 / (f * ratio)) / est * (sqrt (1 / (f * ratio)) / est))
      with (sqrt (1 / (f * ratio)) * sqrt (1 / (f * ratio)) / (est * est)) by (field; lra).
    rewrite sqrt_sqrt by auto. reflexivity.
  Qed.

  Lemma pdhg_tau_pos : 0 < tau.
  Proof.
    unfold tau, pdhg_est. cbn [fst kdiv kmul k1 Num_R]. apply Rdiv_lt_0_compat; auto.
    apply sqrt_lt_R0. apply Rdiv_lt_0_compat; [lra|]. apply Rmult_lt_0_compat; auto.
  Qed.

  (** tau sigma est^2 = 1 / factor *)
  Theorem pdhg_product : tau * sigma * (est * est) = / eff_factor factor.
  Proof.
    rewrite pdhg_sigma. replace (tau * (ratio * tau) * (est * est)) with (ratio * (tau * tau) * (est * est)) by ring.
    rewrite pdhg_tau_sq. unfold pdhg_tau2, ksq. cbn [kdiv kmul k1 Num_R]. field. repeat split; lra.
  Qed.

  (** with respect to any c (e.g. the true norm): tau sigma c^2 = (c/est)^2 / factor *)
  Theorem pdhg_product_true (c : R) : tau * sigma * (c * c) = / eff_factor factor * ((c / est) * (c / est)).
  Proof.
    replace (tau * sigma * (c * c)) with (tau * sigma * (est * est) * ((c / est) * (c / est))) by (field; lra).
    rewrite pdhg_product. reflexivity.
  Qed.

  (** FULL statement: the documented strict inequality holds w.r.t. the estimate iff factor > 1 *)
  Theorem pdhg_strict_iff : tau * sigma * (est * est) < 1 <-> 1 < eff_factor factor.
  Proof.
    rewrite pdhg_product. split; intros H.
    - destruct (Rlt_dec 1 (eff_factor factor)); auto. exfalso.
      assert (1 <= / eff_factor factor).
      { rewrite <- Rinv_1. apply Rinv_le_contravar; lra. }
      lra.
    - rewrite <- Rinv_1. apply Rinv_lt_contravar; lra.
  Qed.

  (** w.r.t. a norm c >= est it holds iff c^2 < factor est^2 (so it needs factor > 1 and an
      estimate accurate to the factor) *)
  Theorem pdhg_strict_true_norm_iff (c : R) : tau * sigma * (c * c) < 1 <-> c * c < eff_factor factor * (est * est).
  Proof.
    rewrite pdhg_product_true.
    replace (/ eff_factor factor * (c / est * (c / est))) with ((c * c) / (eff_factor factor * (est * est))) by (field; lra).
    assert (0 < eff_factor factor * (est * est)) by (apply Rmult_lt_0_compat; nra).
    split; intros H0.
    - apply (Rmult_lt_compat_r (eff_factor factor * (est * est))) in H0; auto.
      unfold Rdiv in H0. rewrite Rmult_assoc, Rinv_l, Rmult_1_r, Rmult_1_l in H0 by lra. exact H0.
    - apply (Rmult_lt_reg_r (eff_factor factor * (est * est))); auto.
      unfold Rdiv. rewrite Rmult_assoc, Rinv_l, Rmult_1_r, Rmult_1_l by lra. exact H0.
  Qed.
End PDHG.

(** factor = None behaves as factor = 1: the product is exactly 1 (not strict) *)
Theorem pdhg_none_product (ratio est : R) : 0 < ratio -> 0 < est ->
  let '(tau, sigma) := pdhg_est sqrt None ratio est in tau * sigma * (est * est) = 1.
Proof.
  intros Hr He. pose proof (pdhg_product None ratio est Hr He) as P. cbn [eff_factor k1 Num_R] in P.
  rewrite Rinv_1 in P. apply P. lra.
Qed.

(** the default factor 1.01 is on the documented side for EVERY ratio and estimate *)
Theorem pdhg_default_strict (ratio est : R) : 0 < ratio -> 0 < est ->
  let '(tau, sigma) := pdhg_est sqrt (Some (101 / 100)) ratio est in tau * sigma * (est * est) < 1.
Proof.
  intros Hr He.
  pose proof (proj2 (pdhg_strict_iff (Some (101 / 100)) ratio est Hr He ltac:(cbn; lra))) as P.
  cbn [eff_factor] in P.
  destruct (pdhg_est sqrt (Some (101 / 100)) ratio est) as [tau sigma]. cbn [fst snd] in P. apply P. lra.
Qed.
