(** Executable (Qc) instances and comparison functions for the C17 correspondence harness
    (vf/props/C17.py).  Nothing here is part of a theorem statement. *)
From Coq Require Import Bool Arith List ZArith QArith Qcanon.
From SV Require Import Base.Num C17.Estimators C17.DiagNorm.
Import ListNotations.

Definition q (n : Z) (d : positive) : Qc := Q2Qc (n # d).
Definition qabs (a : Qc) : Qc := kabs a.
Definition q_close (tol a b : Qc) : bool :=
  kleb (qabs (a - b)%Qc) (tol * kmax (qabs a) (qabs b))%Qc.

Fixpoint bad_idx {A} (f : A -> bool) (l : list A) (i : nat) : list nat :=
  match l with [] => [] | x :: r => if f x then bad_idx f r (S i) else i :: bad_idx f r (S i) end.

Definition ord_of (n : nat) : ord :=
  match n with
  | 0 => OrdNone | 1 => OrdFro | 2 => OrdNuc | 3 => OrdPInf | 4 => OrdNInf
  | 5 => Ord1 | 6 => OrdN1 | 7 => Ord2 | 8 => OrdN2 | _ => OrdOther end%nat.
Definition is_fro (n : nat) : bool := Nat.leb n 1.

(** implementation value [v] ([None] = ValueError); Frobenius compared through its square *)
Definition norm_ok (tol : Qc) (o : nat) (model : option Qc) (out : option Qc) : bool :=
  match model, out with
  | None, None => true
  | Some m, Some v => if is_fro o then q_close tol m (v * v)%Qc && kleb 0%Qc v else q_close tol m v
  | _, _ => false
  end.

Definition diag_case_ok (tol : Qc) (c : nat * list Qc * option Qc) : bool :=
  let '(o, d, out) := c in norm_ok (if is_fro o then tol else 0%Qc) o (diag_norm (ord_of o) d) out.
Definition sid_case_ok (tol : Qc) (c : nat * Qc * nat * option Qc) : bool :=
  let '(o, s, N, out) := c in norm_ok (if is_fro o then tol else 0%Qc) o (sid_norm (ord_of o) s N) out.

(** (factor, estA, estB, mu, nu) *)
Definition padmm_case_ok (tol : Qc) (c : option Qc * Qc * Qc * Qc * Qc) : bool :=
  let '(f, a, b, mu, nu) := c in
  let '(m, n) := padmm_est f a b in q_close tol m mu && q_close tol n nu.

(** (factor, ratio, est, tau, sigma): tau = sqrt(factor/ratio)/est  <=>  tau > 0, tau^2 = ... *)
Definition pdhg_case_ok (tol : Qc) (c : option Qc * Qc * Qc * Qc * Qc) : bool :=
  let '(f, ratio, est, tau, sigma) := c in
  kltb 0%Qc tau && q_close tol (pdhg_tau2 f ratio est) (tau * tau)%Qc && q_close tol (ratio * tau)%Qc sigma.
