(** Power iteration / operator-norm estimate (scico/linop/_util.py) over an abstract real
    inner-product space (C^n is an instance with Re<.,.>).

    operator_norm(A) = sqrt(Re mu) with (mu, _) = power_iteration(A^H A):
<<
      v = randn; v = v / ||v||
      for i in range(maxiter):
          Av = A @ v;  normAv = ||Av||
          if normAv == 0.0:  mu = 0.0; v = Av; break
          mu = <v, Av> / ||v||^2
          v = Av / normAv
      return mu, v
>> *)
From Coq Require Import Reals Lra Psatz.
From SV Require Import Base.InnerSpace.
Open Scope R_scope.

Section Rayleigh.
  Context {S : InnerSpace}.

  Definition rq (B : E -> E) (v : E) : R := ip v (B v) / nsq v.

  Lemma nsq_pos_nz v : v <> vzero -> 0 < nsq v.
  Proof.
    intros Hv. pose proof (nsq_pos v) as H. destruct (Req_dec (nsq v) 0) as [H0|H0]; [|lra].
    apply nsq_0 in H0. contradiction.
  Qed.

  (** Rayleigh quotient of any operator bounded by M (Cauchy-Schwarz, proved in InnerSpace.v) *)
  Theorem rq_le_bound (B : E -> E) (M : R) :
    0 <= M -> (forall x, norm (B x) <= M * norm x) ->
    forall v, v <> vzero -> rq B v <= M.
  Proof.
    intros HM HB v Hv. unfold rq. pose proof (nsq_pos_nz v Hv) as Hn.
    apply Rmult_le_reg_r with (nsq v); auto.
    unfold Rdiv. rewrite Rmult_assoc, Rinv_l, Rmult_1_r by lra.
    pose proof (cauchy_schwarz_norm v (B v)) as CS.
    pose proof (HB v) as Hb. pose proof (norm_pos v) as Hp. pose proof (norm_sq v) as Hs.
    assert (norm v * norm (B v) <= norm v * (M * norm v)) by (apply Rmult_le_compat_l; auto).
    nra.
  Qed.
End Rayleigh.

Section Gram.
  Context {S1 S2 : InnerSpace}.
  Variable A : @E S1 -> @E S2.
  Variable AH : @E S2 -> @E S1.
  Hypothesis adj : IsAdj A AH.
  Variable c : R.
  Hypothesis c_nonneg : 0 <= c.
  Hypothesis bounded : forall x, norm (A x) <= c * norm x.      (* ||A|| <= c *)

  Lemma gram_form v : ip v (AH (A v)) = nsq (A v).
  Proof. unfold nsq. rewrite <- adj. reflexivity. Qed.

  Lemma nsq_bounded x : nsq (A x) <= c * c * nsq x.
  Proof.
    pose proof (bounded x) as H. pose proof (norm_pos (A x)). pose proof (norm_pos x).
    rewrite <- !norm_sq. assert (norm (A x) * norm (A x) <= (c * norm x) * (c * norm x)) by nra. nra.
  Qed.

  (** <v, A^H A v>/<v,v> <= c^2 for every v <> 0 *)
  Theorem gram_rq_le v : v <> vzero -> rq (fun x => AH (A x)) v <= c * c.
  Proof.
    intros Hv. unfold rq. rewrite gram_form. pose proof (nsq_pos_nz v Hv) as Hn.
    apply Rmult_le_reg_r with (nsq v); auto.
    unfold Rdiv. rewrite Rmult_assoc, Rinv_l, Rmult_1_r by lra. apply nsq_bounded.
  Qed.

  Lemma gram_rq_nonneg v : v <> vzero -> 0 <= rq (fun x => AH (A x)) v.
  Proof.
    intros Hv. unfold rq. rewrite gram_form. apply Rmult_le_pos; [apply nsq_pos|].
    left. apply Rinv_0_lt_compat, nsq_pos_nz; auto.
  Qed.

  (** so the estimate sqrt(quotient) never exceeds c, whatever vector the iteration reached *)
  Theorem operator_norm_estimate_le v : v <> vzero -> sqrt (rq (fun x => AH (A x)) v) <= c.
  Proof.
    intros Hv. rewrite <- (sqrt_square c) by auto. apply sqrt_le_1_alt. apply gram_rq_le; auto.
  Qed.
End Gram.

(** ** Monotonicity along power iterates of a self-adjoint positive semi-definite operator *)
Section Monotone.
  Context {S : InnerSpace}.
  Variable B : E -> E.
  Hypothesis Blin : IsLinear B.
  Hypothesis Bsym : forall x y, ip (B x) y = ip x (B y).
  Hypothesis Bpsd : forall x, 0 <= ip x (B x).

  Definition bf (x y : E) : R := ip x (B y).

  Lemma bf_sym x y : bf x y = bf y x.
  Proof. unfold bf. rewrite <- Bsym. apply ip_sym. Qed.

  Lemma bf_expand x y t : bf (vadd x (vscale t y)) (vadd x (vscale t y)) = bf x x + 2 * t * bf x y + t * t * bf y y.
  Proof.
    unfold bf. destruct Blin as [Badd Bsc]. rewrite Badd, Bsc.
    rewrite !ip_add_l, !ip_add_r, !ip_scale_l, !ip_scale_r.
    fold (bf x x) (bf x y) (bf y x) (bf y y). rewrite (bf_sym y x). ring.
  Qed.

  (** Cauchy-Schwarz for the (possibly degenerate) form <x, B y> *)
  Lemma bf_cauchy_schwarz x y : bf x y * bf x y <= bf x x * bf y y.
  Proof.
    pose proof (Bpsd x) as Hx. pose proof (Bpsd y) as Hy. fold (bf x x) in Hx. fold (bf y y) in Hy.
    destruct (Req_dec (bf y y) 0) as [H0|H0].
    - rewrite H0, Rmult_0_r.
      destruct (Req_dec (bf x y) 0) as [Hz|Hz]; [rewrite Hz; lra|].
      exfalso. set (t := - (bf x x + 1) / (2 * bf x y)).
      pose proof (Bpsd (vadd x (vscale t y))) as P. fold (bf (vadd x (vscale t y)) (vadd x (vscale t y))) in P.
      rewrite bf_expand, H0 in P.
      assert (2 * t * bf x y = - (bf x x + 1)) by (unfold t; field; auto). lra.
    - assert (0 < bf y y) by lra.
      set (t := - bf x y / bf y y).
      pose proof (Bpsd (vadd x (vscale t y))) as P. fold (bf (vadd x (vscale t y)) (vadd x (vscale t y))) in P.
      rewrite bf_expand in P.
      assert (E1 : bf x x + 2 * t * bf x y + t * t * bf y y = bf x x - bf x y * bf x y / bf y y)
        by (unfold t; field; auto).
      rewrite E1 in P.
      assert (bf x y * bf x y / bf y y <= bf x x) by lra.
      apply (Rmult_le_compat_r (bf y y)) in H1; [|lra].
      unfold Rdiv in H1. rewrite Rmult_assoc, Rinv_l, Rmult_1_r in H1 by auto. lra.
  Qed.

  (** one power step does not decrease the Rayleigh quotient:
      <x,Bx>^2 <= <x,x><Bx,Bx>  and  <Bx,Bx>^2 <= <x,Bx><Bx,BBx> *)
  Theorem rq_power_step x : x <> vzero -> B x <> vzero -> rq B x <= rq B (B x).
  Proof.
    intros Hx HBx. unfold rq.
    pose proof (nsq_pos_nz x Hx) as Ha. pose proof (nsq_pos_nz (B x) HBx) as Hc.
    set (a := nsq x) in *. set (c := nsq (B x)) in *.
    set (b := ip x (B x)). set (d := ip (B x) (B (B x))).
    assert (Hb : 0 <= b) by apply Bpsd. assert (Hd : 0 <= d) by apply Bpsd.
    assert (H1 : b * b <= a * c) by apply cauchy_schwarz.
    assert (H2 : c * c <= b * d).
    { pose proof (bf_cauchy_schwarz x (B x)) as H. unfold bf in H.
      replace (ip x (B (B x))) with c in H by (unfold c, nsq; rewrite Bsym; reflexivity).
      exact H. }
    assert (Hm : b * c <= a * d).
    { destruct (Req_dec b 0) as [->|Hb0]; [nra|].
      assert (0 < b * c) by nra.
      assert ((b * c) * (b * c) <= (a * d) * (b * c)) by nra.
      apply Rmult_le_reg_r with (b * c); auto. }
    apply Rmult_le_reg_r with (a * c); [nra|].
    replace (b / a * (a * c)) with (b * c) by (field; lra).
    replace (d / c * (a * c)) with (a * d) by (field; lra). exact Hm.
  Qed.

  Fixpoint iter (k : nat) (x : E) : E := match k with O => x | Datatypes.S j => B (iter j x) end.

  (** a larger budget never gives a smaller quotient (iterates not annihilated) *)
  Theorem rq_monotone x j k : (j <= k)%nat -> iter k x <> vzero -> rq B (iter j x) <= rq B (iter k x).
  Proof.
    intros Hjk. induction Hjk as [|k Hjk IH]; intros Hk; [lra|].
    assert (Hk' : iter k x <> vzero).
    { intro E0. apply Hk. cbn. rewrite E0. destruct Blin as [_ Bsc].
      replace (B vzero) with (B (vscale 0 vzero)) by (rewrite vscale_0_l; reflexivity).
      rewrite Bsc. apply vscale_0_l. }
    apply Rle_trans with (rq B (iter k x)); auto. cbn. apply rq_power_step; auto.
  Qed.

  (** the quotient does not see the normalisation v / ||v|| done by the code *)
  Theorem rq_scale s x : s <> 0 -> rq B (vscale s x) = rq B x.
  Proof.
    intros Hs. unfold rq, nsq. destruct Blin as [_ Bsc].
    rewrite Bsc, !ip_scale_l, !ip_scale_r.
    destruct (Req_dec (ip x x) 0) as [H0|H0].
    - rewrite H0. unfold Rdiv. rewrite !Rmult_0_r, Rinv_0, !Rmult_0_r. reflexivity.
    - field. auto.
  Qed.
End Monotone.

(** ** The loop of power_iteration, with its early exit *)
Section Loop.
  Context {S : InnerSpace}.
  Variable B : E -> E.

  Fixpoint pi_loop (n : nat) (v : E) (mu : R) : R * E :=
    match n with
    | O => (mu, v)
    | Datatypes.S m =>
        let Av := B v in
        if Req_EM_T (norm Av) 0 then (0, Av)
        else pi_loop m (vscale (/ norm Av) Av) (ip v Av / nsq v)
    end.

  (** zero operator => the estimate is exactly 0 (the early exit), for every budget >= 1 *)
  Theorem pi_zero_operator n v mu0 :
    (forall x, B x = vzero) -> pi_loop (Datatypes.S n) v mu0 = (0, vzero).
  Proof.
    intros HB. cbn. rewrite HB. unfold norm. rewrite nsq_vzero, sqrt_0.
    destruct (Req_EM_T 0 0); [reflexivity|contradiction].
  Qed.

  (** every value the loop can return is 0 (early exit), the initial value, or a Rayleigh
      quotient at a non-zero vector *)
  Theorem pi_loop_value n : forall v mu,
    v <> vzero ->
    let r := fst (pi_loop n v mu) in
    r = mu \/ r = 0 \/ exists w, w <> vzero /\ r = rq B w.
  Proof.
    induction n as [|n IH]; intros v mu Hv; cbn; auto.
    destruct (Req_EM_T (norm (B v)) 0) as [E0|E0]; cbn; auto.
    assert (Hw : vscale (/ norm (B v)) (B v) <> vzero).
    { intro Z. apply E0. assert (N : nsq (vscale (/ norm (B v)) (B v)) = 0) by (rewrite Z; apply nsq_vzero).
      rewrite nsq_scale in N. pose proof (norm_sq (B v)) as Q. rewrite <- Q in N.
      assert (/ norm (B v) * norm (B v) = 1) by (apply Rinv_l; auto). nra. }
    destruct (IH (vscale (/ norm (B v)) (B v)) (ip v (B v) / nsq v) Hw) as [H|[H|H]].
    - right. right. exists v. split; auto.
    - auto.
    - auto.
  Qed.
End Loop.

(** operator_norm: sqrt of the value power_iteration returns for A^H A never exceeds ||A|| *)
Section OperatorNorm.
  Context {S1 S2 : InnerSpace}.
  Variable A : @E S1 -> @E S2.
  Variable AH : @E S2 -> @E S1.
  Hypothesis adj : IsAdj A AH.
  Variable c : R.
  Hypothesis c_nonneg : 0 <= c.
  Hypothesis bounded : forall x, norm (A x) <= c * norm x.

  Theorem operator_norm_le n v :
    v <> vzero -> sqrt (fst (pi_loop (fun x => AH (A x)) (Datatypes.S n) v 0)) <= c.
  Proof.
    intros Hv. destruct (pi_loop_value (fun x => AH (A x)) (Datatypes.S n) v 0 Hv) as [H|[H|[w [Hw H]]]];
      rewrite H.
    - rewrite sqrt_0; auto.
    - rewrite sqrt_0; auto.
    - apply (operator_norm_estimate_le A AH adj c c_nonneg bounded w Hw).
  Qed.
End OperatorNorm.

(** ** The early exit is taken ONLY on the kernel, and the estimate is 0 only then *)
Section EarlyExit.
  Context {S1 S2 : InnerSpace}.
  Variable A : @E S1 -> @E S2.
  Variable AH : @E S2 -> @E S1.
  Hypothesis adj : IsAdj A AH.
  Let B := fun x => AH (A x).

  (** the test [normAv == 0.0] holds iff A^H A v is exactly the zero vector *)
  Lemma norm_zero_iff (w : @E S1) : norm w = 0 <-> w = vzero.
  Proof.
    split; intros H.
    - apply nsq_0. rewrite <- norm_sq, H. lra.
    - subst. unfold norm. rewrite nsq_vzero. apply sqrt_0.
  Qed.

  Theorem pi_no_exit_off_kernel n v mu :
    B v <> vzero ->
    pi_loop B (Datatypes.S n) v mu = pi_loop B n (vscale (/ norm (B v)) (B v)) (rq B v).
  Proof.
    intros H. cbn [pi_loop]. destruct (Req_EM_T (norm (B v)) 0) as [E0|E0].
    - apply norm_zero_iff in E0. contradiction.
    - reflexivity.
  Qed.

  Theorem pi_exit_on_kernel n v mu : B v = vzero -> pi_loop B (Datatypes.S n) v mu = (0, vzero).
  Proof.
    intros H. cbn [pi_loop]. rewrite H. destruct (Req_EM_T (norm vzero) 0) as [E0|E0]; auto.
    exfalso. apply E0. apply norm_zero_iff. reflexivity.
  Qed.

  Lemma AH_zero : AH vzero = vzero.
  Proof.
    apply nsq_0. unfold nsq. rewrite <- adj. apply ip_0_r.
  Qed.

  (** off the kernel the Rayleigh quotient of A^H A is strictly positive *)
  Theorem gram_rq_pos v : v <> vzero -> B v <> vzero -> 0 < rq B v.
  Proof.
    intros Hv HB. unfold rq, B. rewrite (gram_form A AH adj).
    assert (A v <> vzero) by (intro Z; apply HB; unfold B; rewrite Z; apply AH_zero).
    apply Rdiv_lt_0_compat; apply nsq_pos_nz; auto.
  Qed.

  Lemma scaled_nonzero (w : @E S1) : w <> vzero -> vscale (/ norm w) w <> vzero.
  Proof.
    intros Hw Z. assert (N : nsq (vscale (/ norm w) w) = 0) by (rewrite Z; apply nsq_vzero).
    rewrite nsq_scale in N. pose proof (norm_sq w) as Q. rewrite <- Q in N.
    assert (norm w <> 0) by (intro; apply Hw; apply norm_zero_iff; auto).
    assert (/ norm w * norm w = 1) by (apply Rinv_l; auto). nra.
  Qed.

  (** the value returned after >= 1 iteration is 0 ONLY if some iterate was a non-zero kernel
      vector (exact early exit); in particular never for an operator with trivial kernel *)
  Lemma pi_zero_only_on_kernel_gen n : forall v mu,
    v <> vzero -> fst (pi_loop B n v mu) = 0 -> mu = 0 \/ exists w, w <> vzero /\ B w = vzero.
  Proof.
    induction n as [|n IH]; intros v mu Hv H; cbn [pi_loop fst] in H; auto.
    destruct (Req_EM_T (norm (B v)) 0) as [E0|E0].
    - right. exists v. split; auto. apply norm_zero_iff; auto.
    - assert (HB : B v <> vzero) by (intro Z; apply E0; apply norm_zero_iff; auto).
      destruct (IH _ _ (scaled_nonzero _ HB) H) as [Hz|Hex]; auto.
      exfalso. pose proof (gram_rq_pos v Hv HB) as P. unfold rq in P. fold B in Hz. lra.
  Qed.

  Theorem pi_zero_only_on_kernel n v mu0 :
    v <> vzero -> fst (pi_loop B (Datatypes.S n) v mu0) = 0 -> exists w, w <> vzero /\ B w = vzero.
  Proof.
    intros Hv H. destruct (Req_EM_T (norm (B v)) 0) as [E0|E0].
    - exists v. split; auto. apply norm_zero_iff; auto.
    - assert (HB : B v <> vzero) by (intro Z; apply E0; apply norm_zero_iff; auto).
      rewrite pi_no_exit_off_kernel in H by auto.
      destruct (pi_zero_only_on_kernel_gen n _ _ (scaled_nonzero _ HB) H) as [Hz|Hex]; auto.
      exfalso. pose proof (gram_rq_pos v Hv HB). lra.
  Qed.

  Corollary pi_positive_trivial_kernel n v mu0 :
    (forall w, B w = vzero -> w = vzero) -> v <> vzero -> 0 < fst (pi_loop B (Datatypes.S n) v mu0).
  Proof.
    intros K Hv.
    destruct (Req_dec (fst (pi_loop B (Datatypes.S n) v mu0)) 0) as [Z|Z].
    { destruct (pi_zero_only_on_kernel n v mu0 Hv Z) as (w & Hw & Hk). exfalso. apply Hw, K, Hk. }
    assert (HB : B v <> vzero) by (intro Q; apply Hv, K, Q).
    rewrite pi_no_exit_off_kernel in * by auto.
    destruct (pi_loop_value B n _ (rq B v) (scaled_nonzero _ HB)) as [G|[G|[w [Hw G]]]].
    - rewrite G. apply gram_rq_pos; auto.
    - contradiction.
    - rewrite G. apply gram_rq_pos; auto.
  Qed.
End EarlyExit.

(** non-vacuity: the class is inhabited (R as a one-dimensional space), and a non-trivial
    self-adjoint PSD linear operator exists on it *)
#[local] Program Instance R1 : InnerSpace := {|
  E := R; vzero := 0; vadd := Rplus; vopp := Ropp; vscale := Rmult; ip := Rmult |}.
Solve All Obligations with (intros; try ring; try nra).

Example R1_operator_ok :
  let B := (fun x : @E R1 => 3 * x) in
  IsLinear B /\ (forall x y, ip (B x) y = ip x (B y)) /\ (forall x, 0 <= ip x (B x)) /\ rq B (1 : @E R1) = 3.
Proof.
  cbn. repeat split; intros; cbn; try ring; try nra. unfold rq, nsq. cbn. field.
Qed.
