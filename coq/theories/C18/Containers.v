(** C18 -- containers handled by scico.solver.minimize and their flattened real form.
    N-d array = shape + flat (row-major) list; complex array = array of (re, im) pairs;
    block array = list of arrays.  Models of _split_real_imag / _join_real_imag and of the
    ravel / reshape round trip (plain and nested shapes) with their inverse theorems.
    Everything is polymorphic in the element type, nothing depends on arithmetic. *)
From Coq Require Import List Arith Lia Bool.
Import ListNotations.

Set Implicit Arguments.

Record arr (E : Type) := mkarr { ashape : list nat; adata : list E }.

Definition prod (s : list nat) : nat := fold_right Nat.mul 1 s.
Definition wf {E} (a : arr E) : Prop := length (adata a) = prod (ashape a).

(** ------------------------------------------------------------------ list facts *)
Lemma combine_fst_snd {A B} (l : list (A * B)) : combine (map fst l) (map snd l) = l.
Proof. induction l as [|[a b] l IH]; cbn; [reflexivity | now rewrite IH]. Qed.

Lemma map_fst_combine {A B} (a : list A) (b : list B) :
  length a <= length b -> map fst (combine a b) = a.
Proof.
  revert b; induction a as [|x a IH]; intros [|y b] H; cbn in *; try reflexivity; try lia.
  f_equal. apply IH. lia.
Qed.

Lemma map_snd_combine {A B} (a : list A) (b : list B) :
  length b <= length a -> map snd (combine a b) = b.
Proof.
  revert b; induction a as [|x a IH]; intros [|y b] H; cbn in *; try reflexivity; try lia.
  f_equal. apply IH. lia.
Qed.

Lemma firstn_app_exact {A} (a b : list A) n : n = length a -> firstn n (a ++ b) = a.
Proof.
  intros ->. rewrite firstn_app, Nat.sub_diag, firstn_all. cbn. apply app_nil_r.
Qed.

Lemma skipn_app_exact {A} (a b : list A) n : n = length a -> skipn n (a ++ b) = b.
Proof.
  intros ->. rewrite skipn_app, Nat.sub_diag, skipn_all. reflexivity.
Qed.

(** ------------------------------------------------------------------ split / join *)
Section SplitJoin.
  Variable A : Type.

  (** snp.stack((real(x), imag(x))): new leading axis of length 2, the real parts first *)
  Definition split (x : arr (A * A)) : arr A :=
    mkarr (2 :: ashape x) (map fst (adata x) ++ map snd (adata x)).

  (** x[0] + 1j * x[1]: slices 0 and 1 along the leading axis *)
  Definition join (y : arr A) : arr (A * A) :=
    let s := tl (ashape y) in
    let n := prod s in
    mkarr s (combine (firstn n (adata y)) (firstn n (skipn n (adata y)))).

  Lemma split_wf x : wf x -> wf (split x).
  Proof.
    unfold wf, split; cbn [adata ashape prod fold_right]. intros H.
    rewrite app_length, !map_length. fold (prod (ashape x)). lia.
  Qed.

  Lemma split_shape x : ashape (split x) = 2 :: ashape x.
  Proof. reflexivity. Qed.

  Theorem join_split x : wf x -> join (split x) = x.
  Proof.
    destruct x as [s d]. unfold wf, join, split; cbn [adata ashape tl]. intros H.
    assert (Hf : prod s = length (map fst d)) by now rewrite map_length.
    rewrite (firstn_app_exact _ _ Hf), (skipn_app_exact _ _ Hf).
    assert (Hs : prod s = length (map snd d)) by now rewrite map_length.
    rewrite Hs, firstn_all, combine_fst_snd. reflexivity.
  Qed.

  Theorem split_join y s : ashape y = 2 :: s -> wf y -> split (join y) = y.
  Proof.
    destruct y as [s' d]. unfold wf, join, split; cbn [adata ashape tl]. intros -> H.
    cbn [tl prod fold_right] in *. fold (prod s) in *.
    set (n := prod s) in *. clearbody n.
    assert (Hl : length (skipn n d) = n) by (rewrite skipn_length; lia).
    rewrite (firstn_all2 (n := n) (skipn n d)) by lia.
    assert (Ha : length (firstn n d) = n) by (rewrite firstn_length; lia).
    rewrite map_fst_combine, map_snd_combine by lia.
    now rewrite firstn_skipn.
  Qed.

  Lemma join_wf y s : ashape y = 2 :: s -> wf y -> wf (join y) /\ ashape (join y) = s.
  Proof.
    destruct y as [s' d]. unfold wf, join; cbn [adata ashape tl]. intros -> H.
    cbn [tl prod fold_right] in *. fold (prod s) in *. split; [|reflexivity].
    rewrite combine_length, !firstn_length, skipn_length. lia.
  Qed.

  (** block arrays: the functions are mapped over the blocks *)
  Definition bsplit (x : list (arr (A * A))) : list (arr A) := map split x.
  Definition bjoin (y : list (arr A)) : list (arr (A * A)) := map join y.

  Theorem bjoin_bsplit x : Forall wf x -> bjoin (bsplit x) = x.
  Proof.
    unfold bjoin, bsplit. induction 1 as [|a l Ha _ IH]; cbn; [reflexivity|].
    now rewrite join_split, IH.
  Qed.

  Definition lead2 (y : arr A) : Prop := exists s, ashape y = 2 :: s.

  Theorem bsplit_bjoin y : Forall (fun b => lead2 b /\ wf b) y -> bsplit (bjoin y) = y.
  Proof.
    unfold bjoin, bsplit. induction 1 as [|a l [[s Hs] Ha] _ IH]; cbn; [reflexivity|].
    now rewrite (split_join Hs Ha), IH.
  Qed.
End SplitJoin.

(** ------------------------------------------------------------------ ravel / reshape *)
Section Ravel.
  Variable E : Type.

  (** plain arrays: the data of a C-ordered array is its ravel; reshape keeps the data *)
  Definition ravel (x : arr E) : list E := adata x.
  Definition reshape (v : list E) (s : list nat) : arr E := mkarr s v.

  Theorem reshape_ravel x : reshape (ravel x) (ashape x) = x.
  Proof. now destruct x. Qed.
  Theorem ravel_reshape v s : ravel (reshape v s) = v.
  Proof. reflexivity. Qed.
  Lemma reshape_wf v s : length v = prod s -> wf (reshape v s).
  Proof. exact (fun H => H). Qed.

  (** block arrays / nested shapes: ravel concatenates the ravelled blocks, reshape to a
      nested shape cuts consecutive pieces of the block sizes *)
  Definition bravel (x : list (arr E)) : list E := concat (map (@adata E) x).
  Fixpoint breshape (v : list E) (ss : list (list nat)) : list (arr E) :=
    match ss with
    | [] => []
    | s :: r => mkarr s (firstn (prod s) v) :: breshape (skipn (prod s) v) r
    end.
  Definition bsize (ss : list (list nat)) : nat := fold_right (fun s n => prod s + n) 0 ss.

  Theorem breshape_bravel x : Forall wf x -> breshape (bravel x) (map (@ashape E) x) = x.
  Proof.
    unfold bravel. induction 1 as [|[s d] l Ha _ IH]; cbn; [reflexivity|].
    unfold wf in Ha; cbn in Ha.
    rewrite (firstn_app_exact _ _ (eq_sym Ha)), (skipn_app_exact _ _ (eq_sym Ha)).
    now rewrite IH.
  Qed.

  Lemma bsize_cons s r : bsize (s :: r) = prod s + bsize r.
  Proof. reflexivity. Qed.

  Theorem bravel_breshape ss : forall v, length v = bsize ss -> bravel (breshape v ss) = v.
  Proof.
    unfold bravel. induction ss as [|s r IH]; intros v H.
    - destruct v; [reflexivity | discriminate].
    - rewrite bsize_cons in H. cbn [breshape map concat adata].
      rewrite IH by (rewrite skipn_length; lia). apply firstn_skipn.
  Qed.

  Lemma breshape_shape ss : forall v, map (@ashape E) (breshape v ss) = ss.
  Proof. induction ss as [|s r IH]; intros v; cbn; [reflexivity | now rewrite IH]. Qed.

  Lemma breshape_wf ss : forall v, length v = bsize ss -> Forall wf (breshape v ss).
  Proof.
    induction ss as [|s r IH]; intros v H; cbn [breshape]; constructor;
      rewrite bsize_cons in H.
    - unfold wf; cbn [adata ashape]. rewrite firstn_length. lia.
    - apply IH. rewrite skipn_length. lia.
  Qed.

  Lemma bravel_length x : Forall wf x -> length (bravel x) = bsize (map (@ashape E) x).
  Proof.
    unfold bravel. induction 1 as [|a l Ha _ IH]; cbn; [reflexivity|].
    rewrite app_length, IH, Ha. reflexivity.
  Qed.
End Ravel.

(** ------------------------------------------------------------------ containers *)
Inductive cont (E : Type) := Plain (a : arr E) | Block (l : list (arr E)).
Inductive cshape := SPlain (s : list nat) | SBlock (ss : list (list nat)).

Section Cont.
  Variable E : Type.
  Definition cshape_of (c : cont E) : cshape :=
    match c with Plain a => SPlain (ashape a) | Block l => SBlock (map (@ashape E) l) end.
  Definition cwf (c : cont E) : Prop :=
    match c with Plain a => wf a | Block l => Forall wf l end.
  Definition csize (sh : cshape) : nat :=
    match sh with SPlain s => prod s | SBlock ss => bsize ss end.
  Definition cravel (c : cont E) : list E :=
    match c with Plain a => ravel a | Block l => bravel l end.
  Definition creshape (v : list E) (sh : cshape) : cont E :=
    match sh with SPlain s => Plain (reshape v s) | SBlock ss => Block (breshape v ss) end.

  Theorem creshape_cravel c : cwf c -> creshape (cravel c) (cshape_of c) = c.
  Proof.
    destruct c as [a|l]; cbn; intros H.
    - now rewrite reshape_ravel.
    - now rewrite breshape_bravel.
  Qed.

  Theorem cravel_creshape v sh : length v = csize sh -> cravel (creshape v sh) = v.
  Proof. destruct sh; cbn; intros H; [reflexivity | now apply bravel_breshape]. Qed.

  Lemma creshape_shape v sh : cshape_of (creshape v sh) = sh.
  Proof. destruct sh; cbn; [reflexivity | now rewrite breshape_shape]. Qed.

  Lemma creshape_wf v sh : length v = csize sh -> cwf (creshape v sh).
  Proof. destruct sh; cbn; intros H; [exact H | now apply breshape_wf]. Qed.

  Lemma cravel_length c : cwf c -> length (cravel c) = csize (cshape_of c).
  Proof. destruct c; cbn; intros H; [exact H | now apply bravel_length]. Qed.
End Cont.

Section ContSplit.
  Variable A : Type.
  Definition csplit (c : cont (A * A)) : cont A :=
    match c with Plain a => Plain (split a) | Block l => Block (bsplit l) end.
  Definition cjoin (c : cont A) : cont (A * A) :=
    match c with Plain a => Plain (join a) | Block l => Block (bjoin l) end.
  (** shape of the split array, and its inverse on shapes *)
  Definition split_shape_of (sh : cshape) : cshape :=
    match sh with SPlain s => SPlain (2 :: s) | SBlock ss => SBlock (map (cons 2) ss) end.

  Theorem cjoin_csplit c : cwf c -> cjoin (csplit c) = c.
  Proof.
    destruct c; cbn; intros H; [now rewrite join_split | now rewrite bjoin_bsplit].
  Qed.

  Lemma csplit_shape c : cshape_of (csplit c) = split_shape_of (cshape_of c).
  Proof.
    destruct c; cbn; [reflexivity|]. unfold bsplit. now rewrite !map_map.
  Qed.

  Lemma csplit_wf c : cwf c -> cwf (csplit c).
  Proof.
    destruct c; cbn; intros H; [now apply split_wf|].
    unfold bsplit. induction H; cbn; constructor; auto using split_wf.
  Qed.

  (** containers whose (block) shapes all have leading dimension 2 *)
  Theorem csplit_cjoin c sh :
    cshape_of c = split_shape_of sh -> cwf c -> csplit (cjoin c) = c /\ cshape_of (cjoin c) = sh
                                               /\ cwf (cjoin c).
  Proof.
    destruct c as [a|l], sh as [s|ss]; cbn [cshape_of cwf csplit cjoin split_shape_of];
      try discriminate; intros Hs H.
    - injection Hs as Hs. destruct (join_wf Hs H) as [W S].
      rewrite (split_join Hs H), S. auto.
    - injection Hs as Hs. revert ss Hs.
      induction H as [|a l Ha Hl IH]; intros [|s ss] Hs; cbn [map] in *; try discriminate.
      + repeat split; constructor.
      + injection Hs as Hs1 Hs2. destruct (join_wf Hs1 Ha) as [W S].
        destruct (IH _ Hs2) as (I1 & I2 & I3).
        injection I1 as I1. injection I2 as I2.
        unfold bsplit, bjoin in *. cbn [map]. rewrite (split_join Hs1 Ha), I1, S, I2.
        repeat split; auto.
  Qed.
End ContSplit.
