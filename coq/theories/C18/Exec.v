(** C18 -- executable instances (elements in Q) used by the correspondence harness: the
    implementation's _split_real_imag / _join_real_imag / ravel / reshape outputs are compared
    with the model inside Coq. *)
From Coq Require Import List Bool Arith QArith.
From SV Require Import C18.Containers.
Import ListNotations.

Fixpoint list_eqb {A} (eqb : A -> A -> bool) (a b : list A) : bool :=
  match a, b with
  | [], [] => true
  | x :: a', y :: b' => eqb x y && list_eqb eqb a' b'
  | _, _ => false
  end.

Definition arrq_eqb (a b : arr Q) : bool :=
  list_eqb Nat.eqb (ashape a) (ashape b) && list_eqb Qeq_bool (adata a) (adata b).
Definition qq_eqb (a b : Q * Q) : bool := Qeq_bool (fst a) (fst b) && Qeq_bool (snd a) (snd b).
Definition arrc_eqb (a b : arr (Q * Q)) : bool :=
  list_eqb Nat.eqb (ashape a) (ashape b) && list_eqb qq_eqb (adata a) (adata b).

(** one case: a complex block array x (a plain array is a 1-block list on the Python side,
    flagged), with the implementation's split(x), ravel of each split block, and
    join(split(x)); the model must agree on all of them and on the round trips *)
Definition sj_case_ok (c : list (arr (Q * Q)) * list (arr Q) * list (arr (Q * Q))) : bool :=
  let '(x, s_impl, j_impl) := c in
  list_eqb arrq_eqb (bsplit x) s_impl &&
  list_eqb arrc_eqb (bjoin s_impl) j_impl &&
  list_eqb arrc_eqb j_impl x &&
  list_eqb arrq_eqb (bsplit (bjoin s_impl)) s_impl.

(** ravel / reshape of a plain array: impl_flat = x.ravel(), impl_back = reshape(flat, shape) *)
Definition rr_case_ok (c : arr Q * list Q * arr Q) : bool :=
  let '(x, flat, back) := c in
  list_eqb Qeq_bool (ravel x) flat && arrq_eqb (reshape flat (ashape x)) back && arrq_eqb back x
  && Nat.eqb (length flat) (prod (ashape x)).

(** interval tuples (bracket / bounds) of minimize_scalar: what the caller passed vs what
    scipy.optimize.minimize_scalar received -- same arity, same numbers *)
Definition tuple_case_ok (c : list Q * list Q) : bool := list_eqb Qeq_bool (fst c) (snd c).

Fixpoint bad_idx {A} (f : A -> bool) (l : list A) (i : nat) : list nat :=
  match l with [] => [] | x :: r => if f x then bad_idx f r (S i) else i :: bad_idx f r (S i) end.
