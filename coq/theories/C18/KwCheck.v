(** C18 -- the generated keyword table satisfies the predicate: a finite check by
    [vm_compute] over the table of the current source (bound = the table: one entry per
    parameter accepted by minimize / minimize_scalar). *)
From Coq Require Import List Bool String.
From SV Require Import C18.KwTable.
From SVGen Require Import C18_kw.
Import ListNotations.

Lemma kw_table_ok : table_ok kw_table = true.
Proof. vm_compute. reflexivity. Qed.

Lemma kw_table_complete : table_complete kw_table = true.
Proof. vm_compute. reflexivity. Qed.

Lemma kw_table_bound : (List.length kw_table <= 64)%nat.
Proof. vm_compute. repeat constructor. Qed.

Theorem no_keyword_dropped :
  forall e, In e kw_table -> is_known e = false ->
    kw_disp e <> Dropped /\
    (forall ts, kw_disp e = Forwarded ts -> In (expected_target (kw_name e)) ts).
Proof. exact (table_ok_spec kw_table kw_table_ok). Qed.

Lemma kw_identity_ok : identity_ok kw_identity kw_table = true.
Proof. vm_compute. reflexivity. Qed.

Theorem forwarded_values_unmodified :
  forall e ts, In e kw_table -> kw_disp e = Forwarded ts ->
    kw_name e <> "func"%string -> kw_name e <> "x0"%string ->
    In (kw_fun e, kw_name e) kw_identity.
Proof. exact (identity_ok_spec kw_identity kw_table kw_identity_ok). Qed.
