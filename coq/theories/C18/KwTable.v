(** C18 -- keyword table of the scipy.optimize wrappers.
    The table itself ([SVGen.C18_kw.kw_table]) is regenerated from the current source of
    scico/solver.py on every run (inspect.signature for the accepted parameters, ast data
    flow for what happens to each).  This file fixes the vocabulary and the checked
    predicate. *)
From Coq Require Import List Bool String.
Import ListNotations.
Open Scope string_scope.

Inductive disp :=
| Forwarded (targets : list string)   (* reaches these parameters of the inner spopt.* call *)
| Rejected                            (* tested in a branch that raises *)
| Dropped.                            (* accepted, then never reaches SciPy nor a raise *)

Record kwent := mk_kw { kw_fun : string; kw_name : string; kw_disp : disp }.

(** the SciPy parameter that must receive a wrapper parameter for it to keep its SciPy
    meaning: the same name, except that the objective is called [fun] there *)
Definition expected_target (name : string) : string :=
  if String.eqb name "func" then "fun" else name.

Definition kw_ok (e : kwent) : bool :=
  match kw_disp e with
  | Forwarded ts => existsb (String.eqb (expected_target (kw_name e))) ts
  | Rejected => true
  | Dropped => false
  end.

(** Defects of the unchanged tree (DESIGN.md section 4, known_findings.d/C18.json): accepted
    by [minimize] and silently ignored.  The theorem is restricted to the other entries; the
    harness reports these as KNOWN-FINDING and anything else as a violation. *)
Definition known_dropped : list (string * string) :=
  [("minimize", "hess"); ("minimize", "hessp"); ("minimize", "bounds");
   ("minimize", "constraints"); ("minimize", "tol"); ("minimize", "callback")].

Definition is_known (e : kwent) : bool :=
  existsb (fun p => String.eqb (fst p) (kw_fun e) && String.eqb (snd p) (kw_name e)) known_dropped.

Definition table_ok (t : list kwent) : bool := forallb (fun e => is_known e || kw_ok e) t.

(** the wrapped functions must be present with their essential parameters *)
Definition has (t : list kwent) (f n : string) : bool :=
  existsb (fun e => String.eqb (kw_fun e) f && String.eqb (kw_name e) n) t.
Definition table_complete (t : list kwent) : bool :=
  forallb (has t "minimize") ["func"; "x0"; "args"; "method"; "options"] &&
  forallb (has t "minimize_scalar") ["func"; "args"; "method"].

(** Values handed over unmodified.  [idt] (generated: [SVGen.C18_kw.kw_identity]) lists the
    parameters whose argument expression at the SciPy call is the bare parameter, never re-bound
    in the wrapper: SciPy receives the very object the caller passed -- in particular a bracket
    or bounds tuple keeps its arity (a three-point bracket (xa, xb, xc) stays three-point).
    Only the objective and the starting point are legitimately re-expressed by the wrappers. *)
Definition transformed_by_design : list string := ["func"; "x0"].

Definition in_identity (idt : list (string * string)) (e : kwent) : bool :=
  existsb (fun p => String.eqb (fst p) (kw_fun e) && String.eqb (snd p) (kw_name e)) idt.

Definition ident_ok (idt : list (string * string)) (e : kwent) : bool :=
  match kw_disp e with
  | Forwarded _ => existsb (String.eqb (kw_name e)) transformed_by_design || in_identity idt e
  | _ => true
  end.

Definition identity_ok (idt : list (string * string)) (t : list kwent) : bool :=
  forallb (ident_ok idt) t.

Lemma identity_ok_spec idt t : identity_ok idt t = true ->
  forall e ts, In e t -> kw_disp e = Forwarded ts ->
    kw_name e <> "func" -> kw_name e <> "x0" -> In (kw_fun e, kw_name e) idt.
Proof.
  unfold identity_ok. rewrite forallb_forall. intros H e ts He D Nf Nx.
  specialize (H e He). unfold ident_ok in H. rewrite D in H.
  apply orb_true_iff in H. destruct H as [H|H].
  - cbn in H. apply orb_true_iff in H. destruct H as [H|H].
    + apply String.eqb_eq in H. congruence.
    + apply orb_true_iff in H. destruct H as [H|H]; [|discriminate].
      apply String.eqb_eq in H. congruence.
  - unfold in_identity in H. apply existsb_exists in H. destruct H as ([f n] & Hin & E).
    apply andb_true_iff in E. destruct E as [E1 E2]. cbn [fst snd] in *.
    apply String.eqb_eq in E1. apply String.eqb_eq in E2. subst. exact Hin.
Qed.

Lemma table_ok_spec t : table_ok t = true ->
  forall e, In e t -> is_known e = false ->
    kw_disp e <> Dropped /\
    (forall ts, kw_disp e = Forwarded ts -> In (expected_target (kw_name e)) ts).
Proof.
  unfold table_ok. rewrite forallb_forall. intros H e He Hk.
  specialize (H e He). rewrite Hk in H. cbn in H. unfold kw_ok in H.
  split.
  - intro D. rewrite D in H. discriminate.
  - intros ts D. rewrite D in H. apply existsb_exists in H. destruct H as (x & Hx & E).
    apply String.eqb_eq in E. now subst.
Qed.
