(** C18 -- keyword table of the scipy.optimize wrappers.
    The table itself ([SVGen.C18_kw.kw_table]) is regenerated from the current source of
    scico/solver.py on every run (inspect.signature for the accepted parameters, ast data
    flow for what happens to each).  This file fixes the vocabulary and the checked
    predicate. *)
From Coq Require Import List Bool String.
Import ListNotations.
Open Scope string_scope.

Inductive disp :=
| Forwarded (targets : list string)   (* reaches these parameters of the inner spopt.* call *)
| Rejected                            (* tested in a branch that raises *)
| Dropped.                            (* accepted, then never reaches SciPy nor a raise *)

Record kwent := mk_kw { kw_fun : string; kw_name : string; kw_disp : disp }.

(** the SciPy parameter that must receive a wrapper parameter for it to keep its SciPy
    meaning: the same name, except that the objective is called [fun] there *)
Definition expected_target (name : string) : string :=
  if String.eqb name "func" then "fun" else name.

Definition kw_ok (e : kwent) : bool :=
  match kw_disp e with
  | Forwarded ts => existsb (String.eqb (expected_target (kw_name e))) ts
  | Rejected => true
  | Dropped => false
  end.

(** Defects of the unchanged tree (DESIGN.md section 4, known_findings.d/C18.json): accepted
    by [minimize] and silently ignored.  The theorem is restricted to the other entries; the
    harness reports these as KNOWN-FINDING and anything else as a violation. *)
Definition known_dropped : list (string * string) :=
  [("minimize", "hess"); ("minimize", "hessp"); ("minimize", "bounds");
   ("minimize", "constraints"); ("minimize", "tol"); ("minimize", "callback")].

Definition is_known (e : kwent) : bool :=
  existsb (fun p => String.eqb (fst p) (kw_fun e) && String.eqb (snd p) (kw_name e)) known_dropped.

Definition table_ok (t : list kwent) : bool := forallb (fun e => is_known e || kw_ok e) t.

(** the wrapped functions must be present with their essential parameters *)
Definition has (t : list kwent) (f n : string) : bool :=
  existsb (fun e => String.eqb (kw_fun e) f && String.eqb (kw_name e) n) t.
Definition table_complete (t : list kwent) : bool :=
  forallb (has t "minimize") ["func"; "x0"; "args"; "method"; "options"] &&
  forallb (has t "minimize_scalar") ["func"; "args"; "method"].

Lemma table_ok_spec t : table_ok t = true ->
  forall e, In e t -> is_known e = false ->
    kw_disp e <> Dropped /\
    (forall ts, kw_disp e = Forwarded ts -> In (expected_target (kw_name e)) ts).
Proof.
  unfold table_ok. rewrite forallb_forall. intros H e He Hk.
  specialize (H e He). rewrite Hk in H. cbn in H. unfold kw_ok in H.
  split.
  - intro D. rewrite D in H. discriminate.
  - intros ts D. rewrite D in H. apply existsb_exists in H. destruct H as (x & Hx & E).
    apply String.eqb_eq in E. now subst.
Qed.
