(** C18 -- model of scico.solver.minimize as written in scico/solver.py:

      if complex: func_ = func o _join_real_imag ; x0 = _split_real_imag(x0)
      x0_shape, x0_dtype = x0.shape, x0.dtype ; x0 = x0.ravel()
      min_func(x, *args) = func_(reshape(x, x0_shape).astype(x0_dtype), *args)   [+ gradient]
      res = spopt.minimize(min_func, x0, args, jac, method, options)
      res.x = reshape(res.x.astype(x0_dtype), x0_shape) ; if complex: res.x = join(res.x)

    Deviations of the unchanged code from this model (known findings, reported by the
    harness): for a complex x0 the lambda [func_] does not take *args, so complex x0 together
    with non-empty args raises; for a BlockArray x0, x0.ravel() is block-wise and snp.reshape
    rejects nested shapes, so every call raises -- the nested ravel/reshape below is the
    behaviour the code comments intend.

    [spmin] (scipy.optimize.minimize), [rnd] (ndarray.astype), [grad] (jax.value_and_grad)
    and the objective are Section variables: arbitrary functions. *)
From Coq Require Import List Arith Lia Bool.
From SV Require Import C18.Containers.
Import ListNotations.

Set Implicit Arguments.

Inductive prec := F32 | F64.            (* float32/complex64 or float64/complex128 *)

Section Wrap.
  Variable A : Type.                    (* real scalars *)
  Variable V : Type.                    (* objective values *)
  Variable Args Meth Opts Rest : Type.  (* extra args, method, options, other result fields *)
  Variable rnd : prec -> A -> A.        (* astype(dtype) on float64 data *)

  (** a starting point / a result value: dtype tag + container *)
  Inductive xval :=
  | XR (p : prec) (c : cont A)               (* real N-d or block array *)
  | XC (p : prec) (c : cont (A * A)).        (* complex N-d or block array *)

  (** what the caller can observe about the container: kind, dtype, (nested) shape *)
  Definition xsig : Type := bool * prec * cshape.
  Definition sig_of (x : xval) : xsig :=
    match x with
    | XR p c => (false, p, cshape_of c)
    | XC p c => (true, p, cshape_of c)
    end.
  Definition xwf (x : xval) : Prop :=
    match x with XR _ c => cwf c | XC _ c => cwf c end.

  (** x0.ravel() after the optional split: the flat real start vector *)
  Definition flat_of (x : xval) : list A :=
    match x with XR _ c => cravel c | XC _ c => cravel (csplit c) end.
  (** number of real variables of the flattened problem *)
  Definition nvars (g : xsig) : nat :=
    let '(cx, _, sh) := g in if cx then csize (split_shape_of sh) else csize sh.
  (** reshape(.., x0_shape).astype(x0_dtype) and join: from a flat real vector back to a
      container of signature g *)
  Definition rebuild (g : xsig) (v : list A) : xval :=
    let '(cx, p, sh) := g in
    let w := map (rnd p) v in
    if cx then XC p (cjoin (creshape w (split_shape_of sh))) else XR p (creshape w sh).

  Record spres := mkres { sp_x : list A; sp_rest : Rest }.
  (** scipy.optimize.minimize(fun, x0, args, jac, method, options) *)
  Variable spmin : (list A -> Args -> V) -> option (list A -> Args -> list A) ->
                   list A -> Args -> Meth -> Opts -> spres.
  Variable uses_grad : Meth -> bool.
  (** gradient of a function of the flat real vector w.r.t. its first argument (JAX) *)
  Variable grad : (list A -> Args -> V) -> list A -> Args -> list A.

  Definition min_func (func : xval -> Args -> V) (g : xsig) : list A -> Args -> V :=
    fun v a => func (rebuild g v) a.

  Definition minimize (func : xval -> Args -> V) (x0 : xval) (args : Args) (m : Meth)
             (o : Opts) : xval * Rest :=
    let g := sig_of x0 in
    let f := min_func func g in
    let r := spmin f (if uses_grad m then Some (grad f) else None) (flat_of x0) args m o in
    (rebuild g (sp_x r), sp_rest r).

  (** ---- facts *)
  Lemma flat_length x : xwf x -> length (flat_of x) = nvars (sig_of x).
  Proof.
    destruct x as [p c|p c]; cbn [xwf flat_of sig_of nvars]; intros H.
    - now apply cravel_length.
    - rewrite cravel_length by now apply csplit_wf. now rewrite csplit_shape.
  Qed.

  Lemma rebuild_sig g v : length v = nvars g -> sig_of (rebuild g v) = g /\ xwf (rebuild g v).
  Proof.
    destruct g as [[cx p] sh]; cbn [nvars rebuild]; intros H. destruct cx; cbn [sig_of xwf].
    - destruct (@csplit_cjoin A (creshape (map (rnd p) v) (split_shape_of sh)) sh) as (_ & S & W).
      + apply creshape_shape.
      + apply creshape_wf. now rewrite map_length.
      + now rewrite S.
    - rewrite creshape_shape. split; [reflexivity|]. apply creshape_wf. now rewrite map_length.
  Qed.

  (** flatten after rebuild is the (cast of the) vector: the parametrisation is onto and
      one-to-one on vectors that are already in the working precision *)
  Theorem flat_rebuild g v : length v = nvars g -> flat_of (rebuild g v) = map (rnd (snd (fst g))) v.
  Proof.
    destruct g as [[cx p] sh]; cbn [nvars rebuild fst snd]; intros H. destruct cx; cbn [flat_of].
    - destruct (@csplit_cjoin A (creshape (map (rnd p) v) (split_shape_of sh)) sh) as (E & _ & _).
      + apply creshape_shape.
      + apply creshape_wf. now rewrite map_length.
      + rewrite E. apply cravel_creshape. now rewrite map_length.
    - apply cravel_creshape. now rewrite map_length.
  Qed.

  (** values unchanged by the cast to their own precision (what x0's data are) *)
  Definition in_prec (x : xval) : Prop :=
    match x with
    | XR p c => map (rnd p) (cravel c) = cravel c
    | XC p c => map (rnd p) (cravel (csplit c)) = cravel (csplit c)
    end.

  (** rebuild after flatten is the identity: the function SciPy gets, evaluated at SciPy's
      start vector, is func x0; and every container of x0's signature is reached *)
  Theorem rebuild_flat x : xwf x -> in_prec x -> rebuild (sig_of x) (flat_of x) = x.
  Proof.
    destruct x as [p c|p c]; cbn [xwf in_prec sig_of flat_of rebuild]; intros W P.
    - rewrite P. now rewrite creshape_cravel.
    - rewrite P, <- csplit_shape, creshape_cravel by now apply csplit_wf.
      now rewrite cjoin_csplit.
  Qed.

  (** the empty shape (): a 0-d real array is one real variable, a 0-d complex array two; the
      value rebuilt from SciPy's vector is again 0-d (shape [], not [1]) *)
  Theorem rank0_real p a :
    nvars (false, p, SPlain []) = 1 /\
    rebuild (false, p, SPlain []) [a] = XR p (Plain (mkarr [] [rnd p a])) /\
    flat_of (XR p (Plain (mkarr [] [a]))) = [a] /\
    sig_of (rebuild (false, p, SPlain []) [a]) = (false, p, SPlain []).
  Proof. repeat split; reflexivity. Qed.

  Theorem rank0_complex p a b :
    nvars (true, p, SPlain []) = 2 /\
    rebuild (true, p, SPlain []) [a; b] = XC p (Plain (mkarr [] [(rnd p a, rnd p b)])) /\
    flat_of (XC p (Plain (mkarr [] [(a, b)]))) = [a; b] /\
    sig_of (rebuild (true, p, SPlain []) [a; b]) = (true, p, SPlain []).
  Proof. repeat split; reflexivity. Qed.

  (** the function handed to SciPy is func o join o reshape (o astype); args untouched *)
  Theorem handed_function func x0 args m o :
    minimize func x0 args m o =
      let f := fun v a => func (rebuild (sig_of x0) v) a in
      let r := spmin f (if uses_grad m then Some (grad f) else None) (flat_of x0) args m o in
      (rebuild (sig_of x0) (sp_x r), sp_rest r).
  Proof. reflexivity. Qed.

  Theorem start_value func x0 a : xwf x0 -> in_prec x0 ->
    min_func func (sig_of x0) (flat_of x0) a = func x0 a.
  Proof. intros W P. unfold min_func. now rewrite rebuild_flat. Qed.

  (** S: SciPy returns a vector of the size of its start vector *)
  Definition sp_keeps_size : Prop :=
    forall f j v a m o, length (sp_x (spmin f j v a m o)) = length v.

  (** the value returned has the container type, dtype and shape of x0 *)
  Theorem result_signature func x0 args m o :
    sp_keeps_size -> xwf x0 ->
    sig_of (fst (minimize func x0 args m o)) = sig_of x0 /\ xwf (fst (minimize func x0 args m o)).
  Proof.
    intros S W. unfold minimize; cbn [fst]. apply rebuild_sig.
    rewrite S. now apply flat_length.
  Qed.

  (** all other result fields are SciPy's, from the flattened problem *)
  Theorem result_fields func x0 args m o :
    snd (minimize func x0 args m o) =
    sp_rest (spmin (min_func func (sig_of x0))
                   (if uses_grad m then Some (grad (min_func func (sig_of x0))) else None)
                   (flat_of x0) args m o).
  Proof. reflexivity. Qed.

  (** Equivalence of the two problems: if SciPy's answer minimises the flattened objective
      over all real vectors of the right length, the returned container minimises func over
      all containers with x0's type, shape and dtype (values in working precision). *)
  Variable le : V -> V -> Prop.
  Theorem minimiser_transfer func x0 args m o :
    sp_keeps_size -> xwf x0 ->
    let f := min_func func (sig_of x0) in
    let r := spmin f (if uses_grad m then Some (grad f) else None) (flat_of x0) args m o in
    (forall v, length v = nvars (sig_of x0) -> le (f (sp_x r) args) (f v args)) ->
    forall y, sig_of y = sig_of x0 -> xwf y -> in_prec y ->
      le (func (fst (minimize func x0 args m o)) args) (func y args).
  Proof.
    intros S W f r Hmin y Hy Wy Py.
    unfold minimize; cbn [fst]. fold f. fold r.
    assert (L : length (flat_of y) = nvars (sig_of x0)) by (rewrite <- Hy; now apply flat_length).
    specialize (Hmin (flat_of y) L).
    assert (E : f (flat_of y) args = func y args).
    { unfold f, min_func. rewrite <- Hy. now rewrite rebuild_flat. }
    rewrite E in Hmin.
    exact Hmin.
  Qed.
End Wrap.
