(** C19 -- cache transparency (abstract).

    An object is [(params, cache)] where the cache holds, per slot (one slot per cached
    attribute group, e.g. TVNorm.G and TVNorm.(WP,CWT,prox_ndims,prox_slice)), at most one
    [(key, value)] pair.  A call looks at the slot of its argument, compares the stored key
    with the key of the argument and rebuilds the value from the ARGUMENT ([buildA p a]:
    the constructor sees everything, e.g. [x.shape] and [x.dtype]) when the key differs.

    Theorem [cache_transparent]: if the key is sufficient on the admissible arguments
    (equal slot and key => equal built value) and the initial cache satisfies the invariant,
    then for EVERY history of admissible calls every result equals the result of the same
    call on an object with an empty cache (and on the initial object).  No axioms. *)
From Coq Require Import List Bool.
Import ListNotations.

Section Cache.
  Variables P A S K V R : Type.
  Variable slot : A -> S.
  Variable keyof : A -> K.
  Variable S_eqb : S -> S -> bool.
  Variable K_eqb : K -> K -> bool.
  Hypothesis S_eqb_spec : forall a b, S_eqb a b = true <-> a = b.
  Hypothesis K_eqb_spec : forall a b, K_eqb a b = true <-> a = b.
  Variable buildA : P -> A -> V.      (* what the constructor builds when called for argument a *)
  Variable use : P -> V -> A -> R.    (* the result computed with the cached value *)
  Variable ok : A -> Prop.            (* admissible arguments (the region of the statement) *)

  Definition cstate := S -> option (K * V).
  Definition empty : cstate := fun _ => None.
  Definition upd (s : cstate) (sl : S) (e : K * V) : cstate :=
    fun sl' => if S_eqb sl sl' then Some e else s sl'.

  (** one call: (result, rebuilt?, new state) *)
  Definition call (p : P) (a : A) (s : cstate) : R * bool * cstate :=
    match s (slot a) with
    | Some (k, v) =>
        if K_eqb k (keyof a) then (use p v a, false, s)
        else let v' := buildA p a in (use p v' a, true, upd s (slot a) (keyof a, v'))
    | None => let v' := buildA p a in (use p v' a, true, upd s (slot a) (keyof a, v'))
    end.

  Fixpoint run (p : P) (h : list A) (s : cstate) : list R * cstate :=
    match h with
    | [] => ([], s)
    | a :: r => let '(x, _, s1) := call p a s in
                let '(xs, s2) := run p r s1 in (x :: xs, s2)
    end.

  Definition fresh_result (p : P) (a : A) : R := use p (buildA p a) a.

  (** the key determines the built value (on admissible arguments) *)
  Definition key_sufficient (p : P) : Prop :=
    forall a b, ok a -> ok b -> slot a = slot b -> keyof a = keyof b -> buildA p a = buildA p b.

  (** cache invariant: a stored value is what would be built now *)
  Definition inv (p : P) (s : cstate) : Prop :=
    forall sl k v, s sl = Some (k, v) ->
      forall a, ok a -> slot a = sl -> keyof a = k -> v = buildA p a.

  Lemma inv_empty p : inv p empty.
  Proof. intros sl k v H. discriminate H. Qed.

  Lemma call_result p a s :
    key_sufficient p -> inv p s -> ok a ->
    fst (fst (call p a s)) = fresh_result p a /\ inv p (snd (call p a s)).
  Proof.
    intros KS I Oa. unfold call, fresh_result.
    assert (Hupd : inv p (upd s (slot a) (keyof a, buildA p a))).
    { intros sl k v H b Ob Hs Hk. unfold upd in H.
      destruct (S_eqb (slot a) sl) eqn:E.
      - injection H as Hk' Hv. subst k v. apply S_eqb_spec in E.
        apply KS; auto; congruence.
      - eapply I; eauto. }
    destruct (s (slot a)) as [[k v]|] eqn:E; cbn.
    - destruct (K_eqb k (keyof a)) eqn:EK; cbn.
      + apply K_eqb_spec in EK. split; [|exact I].
        rewrite (I _ _ _ E a Oa eq_refl (eq_sym EK)). reflexivity.
      + split; [reflexivity | exact Hupd].
    - split; [reflexivity | exact Hupd].
  Qed.

  (** THE theorem: every result of every history equals the fresh-object result *)
  Theorem cache_transparent p :
    key_sufficient p ->
    forall h s, inv p s -> Forall ok h ->
      fst (run p h s) = map (fresh_result p) h.
  Proof.
    intros KS h. induction h as [|a r IH]; intros s I F; cbn; [reflexivity|].
    inversion F as [|? ? Oa Fr]; subst.
    destruct (call_result p a s KS I Oa) as [Hr Hi].
    destruct (call p a s) as [[x b] s1] eqn:E. cbn in Hr, Hi.
    specialize (IH s1 Hi Fr).
    destruct (run p r s1) as [xs s2]. cbn in IH. cbn. congruence.
  Qed.

  (** n-th call of any history = the same call as the first call on a fresh object,
      and = the same call made at any other point of any other history *)
  Corollary cache_history_independent p :
    key_sufficient p ->
    forall h1 h2 s1 s2 a, inv p s1 -> inv p s2 -> Forall ok (h1 ++ [a]) -> Forall ok (h2 ++ [a]) ->
      last (fst (run p (h1 ++ [a]) s1)) (fresh_result p a)
      = last (fst (run p (h2 ++ [a]) s2)) (fresh_result p a).
  Proof.
    intros KS h1 h2 s1 s2 a I1 I2 F1 F2.
    rewrite (cache_transparent p KS _ _ I1 F1), (cache_transparent p KS _ _ I2 F2).
    rewrite !map_app. cbn. rewrite !last_last. reflexivity.
  Qed.

  (** rebuild pattern: a call rebuilds iff its slot is empty or holds another key *)
  Lemma call_rebuild_spec p a s :
    snd (fst (call p a s)) =
    match s (slot a) with Some (k, _) => negb (K_eqb k (keyof a)) | None => true end.
  Proof.
    unfold call. destruct (s (slot a)) as [[k v]|]; [|reflexivity].
    destruct (K_eqb k (keyof a)); reflexivity.
  Qed.
End Cache.
