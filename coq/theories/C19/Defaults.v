(** C19 / Defaults: a flow-insensitive "no writes to protected objects" checker
    (shared default arguments, objects attached from outside) for a mini object
    language, sound for EVERY execution path over the unit's statements. *)
From Coq Require Import List Bool Arith Lia PeanoNat.
Import ListNotations.

Definition loc := nat.
Definition var := nat.
Definition field := nat.

Record state := mkState { env : var -> loc; heap : loc -> field -> loc; next : nat }.

Inductive stmt :=
| SMove (x y : var)                   (* x = y *)
| SNew (x : var)                      (* x = <fresh object>, all fields None(0) *)
| SLoad (x y : var) (f : field)       (* x = y.f / x = y[k] *)
| SStore (x : var) (f : field) (y : var) (* x.f = y / x[k] = y / x.append(y) ... *)
| SCopy (x y : var).                  (* x = copy(y), shallow *)

Definition upd (m : nat -> nat) (k v : nat) : nat -> nat :=
  fun k' => if Nat.eqb k' k then v else m k'.
Definition updrow (h : loc -> field -> loc) (l : loc) (r : field -> loc) : loc -> field -> loc :=
  fun l' => if Nat.eqb l' l then r else h l'.

Definition exec1 (s : stmt) (st : state) : state :=
  match s with
  | SMove x y => mkState (upd (env st) x (env st y)) (heap st) (next st)
  | SNew x => mkState (upd (env st) x (next st))
                      (updrow (heap st) (next st) (fun _ => 0)) (S (next st))
  | SLoad x y f => mkState (upd (env st) x (heap st (env st y) f)) (heap st) (next st)
  | SStore x f y => mkState (env st)
                      (updrow (heap st) (env st x) (upd (heap st (env st x)) f (env st y)))
                      (next st)
  | SCopy x y => mkState (upd (env st) x (next st))
                      (updrow (heap st) (next st) (heap st (env st y))) (S (next st))
  end.

Definition run (tr : list stmt) (st : state) : state :=
  fold_left (fun st s => exec1 s st) tr st.

(** * Abstract domain: flow-insensitive taint *)
Definition mem (x : nat) (l : list nat) : bool := existsb (Nat.eqb x) l.

Record abs := mkAbs { tvl : list var;      (* variables that may hold a protected location *)
                      tfl : list field;    (* fields of UNprotected objects that may hold one *)
                      tall : bool }.       (* all fields tainted *)
Definition tv (a : abs) (x : var) : bool := mem x (tvl a).
Definition tf (a : abs) (f : field) : bool := tall a || mem f (tfl a).

Definition closed (a : abs) (s : stmt) : bool :=
  match s with
  | SMove x y => implb (tv a y) (tv a x)
  | SNew _ => true
  | SLoad x y f => implb (tv a y || tf a f) (tv a x)
  | SStore x f y => negb (tv a x) && implb (tv a y) (tf a f)
  | SCopy _ y => implb (tv a y) (tall a)
  end.

Definition check (a : abs) (prog : list stmt) : bool := forallb (closed a) prog.

(** Executable inference: least closed abstraction by fixpoint iteration. *)
Definition addv (x : var) (a : abs) : abs :=
  if tv a x then a else mkAbs (x :: tvl a) (tfl a) (tall a).
Definition addf (f : field) (a : abs) : abs :=
  if tf a f then a else mkAbs (tvl a) (f :: tfl a) (tall a).

Definition step (a : abs) (s : stmt) : abs :=
  match s with
  | SMove x y => if tv a y then addv x a else a
  | SNew _ => a
  | SLoad x y f => if tv a y || tf a f then addv x a else a
  | SStore _ f y => if tv a y then addf f a else a
  | SCopy _ y => if tv a y then mkAbs (tvl a) (tfl a) true else a
  end.

Fixpoint iter (prog : list stmt) (fuel : nat) (a : abs) : abs :=
  match fuel with
  | O => a
  | S k => iter prog k (fold_left step prog a)
  end.

Definition infer (vars0 : list var) (prog : list stmt) (fuel : nat) : abs :=
  iter prog fuel (mkAbs vars0 [] false).

(* every statement adds at most one fact, so [S (length prog)] passes suffice *)
Definition verdict (vars0 : list var) (prog : list stmt) : bool :=
  let a := infer vars0 prog (2 * S (length prog)) in
  check a prog && forallb (tv a) vars0.

(** * Soundness *)
Section Soundness.
  Variable prot : loc -> bool.

  Definition inv (a : abs) (st : state) : Prop :=
    (forall x, prot (env st x) = true -> tv a x = true) /\
    (forall l f, prot l = false -> prot (heap st l f) = true -> tf a f = true) /\
    (forall l f, prot l = true -> prot (heap st l f) = true) /\
    (forall l, next st <= l -> prot l = false) /\ prot 0 = false.

  Lemma prot_neq l l' : prot l = true -> prot l' = false -> Nat.eqb l l' = false.
  Proof.
    intros Hl Hl'. destruct (Nat.eqb l l') eqn:E; [|reflexivity].
    apply Nat.eqb_eq in E. subst l'. congruence.
  Qed.

  Lemma exec1_sound a s st :
    closed a s = true -> inv a st ->
    inv a (exec1 s st) /\
    (forall l f, prot l = true -> heap (exec1 s st) l f = heap st l f).
  Proof.
    intros Hc (Hv & Hf & Hp & Hn & H0).
    assert (Hfresh : prot (next st) = false) by (apply Hn; lia).
    destruct s as [x y | x | x y f | x f y | x y]; unfold inv; cbn in Hc |- *.
    - (* SMove *)
      split; [|reflexivity]. repeat split; auto.
      intros z Hz. unfold upd in Hz. destruct (Nat.eqb z x) eqn:E; auto.
      apply Nat.eqb_eq in E. subst z. apply Hv in Hz. rewrite Hz in Hc. exact Hc.
    - (* SNew *)
      assert (Hsame : forall l f, prot l = true ->
                updrow (heap st) (next st) (fun _ => 0) l f = heap st l f).
      { intros l f Hl. unfold updrow. rewrite (prot_neq _ _ Hl Hfresh). reflexivity. }
      split; [|exact Hsame]. repeat split; auto.
      + intros z Hz. unfold upd in Hz. destruct (Nat.eqb z x) eqn:E; auto. congruence.
      + intros l f Hl Hh. unfold updrow in Hh.
        destruct (Nat.eqb l (next st)) eqn:E; [congruence | eauto].
      + intros l f Hl. rewrite Hsame by exact Hl. auto.
      + intros l Hle. apply Hn. lia.
    - (* SLoad *)
      split; [|reflexivity]. repeat split; auto.
      intros z Hz. unfold upd in Hz. destruct (Nat.eqb z x) eqn:E; auto.
      apply Nat.eqb_eq in E. subst z.
      destruct (prot (env st y)) eqn:Ey.
      + apply Hv in Ey. rewrite Ey in Hc. exact Hc.
      + apply (Hf _ _ Ey) in Hz. rewrite Hz, orb_true_r in Hc. exact Hc.
    - (* SStore *)
      apply andb_true_iff in Hc. destruct Hc as [Hx Hy].
      assert (Ex : prot (env st x) = false).
      { destruct (prot (env st x)) eqn:Ex; [|reflexivity].
        apply Hv in Ex. rewrite Ex in Hx. discriminate. }
      assert (Hsame : forall l f', prot l = true ->
                updrow (heap st) (env st x) (upd (heap st (env st x)) f (env st y)) l f'
                = heap st l f').
      { intros l f' Hl. unfold updrow. rewrite (prot_neq _ _ Hl Ex). reflexivity. }
      split; [|exact Hsame]. repeat split; auto.
      + intros l f' Hl Hh. unfold updrow, upd in Hh.
        destruct (Nat.eqb l (env st x)) eqn:E; [|eauto].
        apply Nat.eqb_eq in E. subst l.
        destruct (Nat.eqb f' f) eqn:E'; [|eauto].
        apply Nat.eqb_eq in E'. subst f'. apply Hv in Hh. rewrite Hh in Hy. exact Hy.
      + intros l f' Hl. rewrite Hsame by exact Hl. auto.
    - (* SCopy *)
      assert (Hsame : forall l f, prot l = true ->
                updrow (heap st) (next st) (heap st (env st y)) l f = heap st l f).
      { intros l f Hl. unfold updrow. rewrite (prot_neq _ _ Hl Hfresh). reflexivity. }
      split; [|exact Hsame]. repeat split; auto.
      + intros z Hz. unfold upd in Hz. destruct (Nat.eqb z x) eqn:E; auto. congruence.
      + intros l f Hl Hh. unfold updrow in Hh.
        destruct (Nat.eqb l (next st)) eqn:E; [|eauto].
        destruct (prot (env st y)) eqn:Ey; [|eauto].
        apply Hv in Ey. rewrite Ey in Hc. cbn in Hc. unfold tf. rewrite Hc. reflexivity.
      + intros l f Hl. rewrite Hsame by exact Hl. auto.
      + intros l Hle. apply Hn. lia.
  Qed.

  Theorem no_write_to_protected :
    forall a prog, check a prog = true ->
    forall tr, (forall s, In s tr -> In s prog) ->
    forall st, inv a st ->
      inv a (run tr st) /\
      (forall l f, prot l = true -> heap (run tr st) l f = heap st l f).
  Proof.
    intros a prog Hck tr. unfold check in Hck. rewrite forallb_forall in Hck.
    induction tr as [|s tr IH]; intros Hsub st Hinv.
    - cbn. split; [exact Hinv | reflexivity].
    - assert (Hs : closed a s = true) by (apply Hck, Hsub; left; reflexivity).
      destruct (exec1_sound a s st Hs Hinv) as [Hinv1 Hheap1].
      assert (Hsub' : forall s', In s' tr -> In s' prog)
        by (intros s' Hin; apply Hsub; right; exact Hin).
      destruct (IH Hsub' _ Hinv1) as [Hinv2 Hheap2].
      cbn. split; [exact Hinv2|].
      intros l f Hl. unfold run in Hheap2. rewrite (Hheap2 l f Hl). apply Hheap1, Hl.
  Qed.

  (** Initial states: protected locations are held only by [vars0]; no unprotected
      object points into the protected set yet. *)
  Lemma inv_init a vars0 st :
    forallb (tv a) vars0 = true ->
    (forall x, prot (env st x) = true -> In x vars0) ->
    (forall l f, prot l = false -> prot (heap st l f) = false) ->
    (forall l f, prot l = true -> prot (heap st l f) = true) ->
    (forall l, next st <= l -> prot l = false) -> prot 0 = false ->
    inv a st.
  Proof.
    intros Hall Hv Hf Hp Hn H0. rewrite forallb_forall in Hall.
    repeat split; auto.
    intros l f Hl Hh. rewrite (Hf l f Hl) in Hh. discriminate.
  Qed.

  Corollary verdict_check vars0 prog :
    verdict vars0 prog = true ->
    let a := infer vars0 prog (2 * S (length prog)) in
    check a prog = true /\ forallb (tv a) vars0 = true.
  Proof. intros Hv. apply andb_true_iff in Hv. exact Hv. Qed.

  Corollary verdict_sound :
    forall vars0 prog, verdict vars0 prog = true ->
    forall tr, (forall s, In s tr -> In s prog) ->
    forall st,
      (forall x, prot (env st x) = true -> In x vars0) ->
      (forall l f, prot l = false -> prot (heap st l f) = false) ->
      (forall l f, prot l = true -> prot (heap st l f) = true) ->
      (forall l, next st <= l -> prot l = false) -> prot 0 = false ->
      forall l f, prot l = true -> heap (run tr st) l f = heap st l f.
  Proof.
    intros vars0 prog Hv tr Hsub st H1 H2 H3 H4 H5.
    destruct (verdict_check _ _ Hv) as [Hck Hall].
    apply (no_write_to_protected _ prog Hck tr Hsub st).
    eapply inv_init; eauto.
  Qed.
End Soundness.

(** * Examples: the checker is neither vacuous nor trivially rejecting *)
Definition ex_prot (l : loc) : bool := Nat.eqb l 5.
Definition ex_st : state :=
  mkState (fun x => match x with 0 => 5 | 2 => 3 | _ => 0 end)
          (fun l _ => if Nat.eqb l 5 then 5 else 0) 6.
Definition ex_alias : list stmt := [SMove 1 0; SStore 1 0 2].  (* t = default; t[k] = v *)

Example alias_store_rejected :
  verdict [0] ex_alias = false /\
  heap ex_st 5 0 = 5 /\ heap (run ex_alias ex_st) 5 0 = 3.
Proof. vm_compute. repeat split. Qed.

(* the initial state of the refutation satisfies the theorem's initial conditions *)
Example alias_store_init_ok : forall a, tv a 0 = true -> inv ex_prot a ex_st.
Proof.
  intros a Ha. apply (inv_init ex_prot a [0]); cbn; try reflexivity.
  - rewrite Ha. reflexivity.
  - intros [|[|[|x]]] Hx; cbn in Hx; try discriminate. left; reflexivity.
  - intros l f Hl. unfold ex_prot in *. rewrite Hl. reflexivity.
  - intros l f Hl. unfold ex_prot in *. rewrite Hl. reflexivity.
  - intros l Hle. apply Nat.eqb_neq. lia.
Qed.

Example fresh_copy_accepted :
  verdict [0] [SCopy 1 0; SStore 1 0 2] = true /\
  verdict [0] [SCopy 1 0; SLoad 3 1 0; SStore 3 0 2] = false.
Proof. vm_compute. split; reflexivity. Qed.
