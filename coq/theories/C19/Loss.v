(** C19 -- heap model of Loss.__mul__ / __rmul__ / __truediv__ / set_scale (scico/loss.py).

    Python facts written out (validated by the harness on the real classes):
      * [copy(self)] allocates a new object whose attribute table is a shallow copy: the
        new object's [_grad] is still [scico.grad(<original>.__call__)], a closure over the
        ORIGINAL object (bound method), reading the original's [scale] when it is called;
      * [new_loss._grad = scico.grad(new_loss.__call__)] re-binds the closure to the copy;
      * [new_loss.set_scale(s)] writes the attribute [scale] of the copy only;
      * [y], [A], [f] are shared references that none of these methods writes.
    An object is therefore (scale, bind) where [bind] is the location of the object whose
    [__call__] the gradient closure differentiates.  [body x] stands for [f(A x - y)] and
    [D] for [scico.grad] (= jax.grad): Section variables with the two facts used
    (extensionality, homogeneity). *)
From Coq Require Import List Bool Arith Lia.
Import ListNotations.

Section LossHeap.
  Variables K X : Type.
  Variable kone : K.
  Variables kmul kdiv : K -> K -> K.
  Variable smul : K -> X -> X.
  Variable body : X -> K.
  Variable D : (X -> K) -> X -> X.
  Hypothesis D_ext : forall f g x, (forall z, f z = g z) -> D f x = D g x.
  Hypothesis D_scale : forall c f x, D (fun z => kmul c (f z)) x = smul c (D f x).
  Hypothesis kmul_assoc : forall a b c, kmul a (kmul b c) = kmul (kmul a b) c.
  Hypothesis kmul_comm : forall a b, kmul a b = kmul b a.

  Record lobj := mkl { l_scale : K; l_bind : nat }.
  Definition heap := list lobj.
  Definition dflt := mkl kone 0.
  Definition obj (h : heap) (l : nat) : lobj := nth l h dflt.
  Definition scale_at h l : K := l_scale (obj h l).
  (** Loss.__call__: self.scale * self.f(self.A(x) - self.y) *)
  Definition call_at h l (x : X) : K := kmul (scale_at h l) (body x).
  (** Functional.grad: self._grad(x), the closure reads the heap when it is called *)
  Definition grad_at h l (x : X) : X := D (fun z => call_at h (l_bind (obj h l)) z) x.

  Fixpoint set_nth (h : heap) (l : nat) (o : lobj) : heap :=
    match h, l with
    | [], _ => []
    | _ :: r, 0 => o :: r
    | a :: r, S l' => a :: set_nth r l' o
    end.

  (** set_scale: writes [scale] of the object itself *)
  Definition set_scale h l s : heap := set_nth h l (mkl s (l_bind (obj h l))).

  (** the three candidate implementations of "return a rescaled loss" (new scale [s]);
      each returns the heap and the location of the returned object *)
  Inductive variant := Real | NoRebind | InPlace.
  Definition rescale (v : variant) h l s : heap * nat :=
    match v with
    | Real => (h ++ [mkl s (length h)], length h)              (* copy; re-bind; set_scale on the copy *)
    | NoRebind => (h ++ [mkl s (l_bind (obj h l))], length h)  (* copy; set_scale on the copy *)
    | InPlace => (set_scale h l s, l)                          (* set_scale on self, return self *)
    end.

  Inductive lop := OMul (l : nat) (c : K) | ODiv (l : nat) (c : K) | OSet (l : nat) (s : K).
  Definition exec (v : variant) (o : lop) (h : heap) : heap :=
    match o with
    | OMul l c => fst (rescale v h l (kmul (scale_at h l) c))
    | ODiv l c => fst (rescale v h l (kdiv (scale_at h l) c))
    | OSet l s => set_scale h l s
    end.
  Definition run v (ops : list lop) (h : heap) : heap := fold_left (fun h o => exec v o h) ops h.

  (** every gradient closure is bound to its own object (established by Functional.__init__) *)
  Definition wf (h : heap) : Prop := forall l, l < length h -> l_bind (obj h l) = l.
  Definition valid (h : heap) (o : lop) : Prop :=
    match o with OMul l _ | ODiv l _ | OSet l _ => l < length h end.
  Definition touches (l0 : nat) (o : lop) : Prop := match o with OSet l _ => l = l0 | _ => False end.

  Lemma set_nth_length h l o : length (set_nth h l o) = length h.
  Proof. revert l. induction h as [|a r IH]; intros [|l]; cbn; auto. Qed.
  Lemma nth_set_nth_same h l o : l < length h -> nth l (set_nth h l o) dflt = o.
  Proof. revert l. induction h as [|a r IH]; intros [|l] H; cbn in *; try lia; auto. apply IH. lia. Qed.
  Lemma nth_set_nth_other h l l' o : l <> l' -> nth l' (set_nth h l o) dflt = nth l' h dflt.
  Proof.
    revert l l'. induction h as [|a r IH]; intros [|l] [|l'] H; cbn; auto; try congruence.
  Qed.

  Lemma obj_app_old h t l : l < length h -> obj (h ++ t) l = obj h l.
  Proof. intro H. unfold obj. apply app_nth1. exact H. Qed.
  Lemma obj_app_new h o : obj (h ++ [o]) (length h) = o.
  Proof. unfold obj. rewrite app_nth2 by lia. rewrite Nat.sub_diag. reflexivity. Qed.

  (** (a) the real rescale leaves every existing object (scale and binding) as it was *)
  Theorem rescale_keeps_existing_objects :
    forall h l s l0, l0 < length h -> obj (fst (rescale Real h l s)) l0 = obj h l0.
  Proof. intros h l s l0 H. cbn. apply obj_app_old. exact H. Qed.

  Lemma grad_at_old h t l : wf h -> l < length h -> forall x, grad_at (h ++ t) l x = grad_at h l x.
  Proof.
    intros W H x. unfold grad_at. rewrite (obj_app_old h t l H). rewrite (W l H).
    apply D_ext. intro z. unfold call_at, scale_at. rewrite (obj_app_old h t l H). reflexivity.
  Qed.

  (** ... hence its value and its gradient closure give what they gave before *)
  Theorem rescale_original_unchanged :
    forall h l s l0 x, wf h -> l0 < length h ->
      let h' := fst (rescale Real h l s) in
      scale_at h' l0 = scale_at h l0 /\ call_at h' l0 x = call_at h l0 x /\ grad_at h' l0 x = grad_at h l0 x.
  Proof.
    intros h l s l0 x W H. cbn. unfold call_at, scale_at. rewrite (obj_app_old _ _ _ H).
    repeat split. apply grad_at_old; assumption.
  Qed.

  Lemma wf_rescale h l s : wf h -> wf (fst (rescale Real h l s)).
  Proof.
    intros W l0 H. cbn [rescale fst] in *. rewrite app_length in H. cbn [length] in H.
    destruct (Nat.eq_dec l0 (length h)) as [->|N].
    - rewrite obj_app_new. reflexivity.
    - rewrite obj_app_old by lia. apply W. lia.
  Qed.

  Lemma wf_set_scale h l s : wf h -> wf (set_scale h l s).
  Proof.
    intros W l0 H. unfold set_scale in *. rewrite set_nth_length in H. unfold obj at 1.
    destruct (Nat.eq_dec l l0) as [->|N].
    - rewrite nth_set_nth_same by exact H. cbn. apply W. exact H.
    - rewrite nth_set_nth_other by exact N. apply W. exact H.
  Qed.

  (** the gradient of a well-formed object reflects its OWN current scale *)
  Theorem grad_is_own_scale :
    forall h l x, wf h -> l < length h -> grad_at h l x = smul (scale_at h l) (D body x).
  Proof. intros h l x W H. unfold grad_at. rewrite (W l H). unfold call_at. apply D_scale. Qed.

  (** (b) grad (L * c) = c * grad L  (and the new object's scale is scale * c) *)
  Theorem grad_of_rescaled :
    forall h l c x, wf h -> l < length h ->
      let '(h', n) := rescale Real h l (kmul (scale_at h l) c) in
      scale_at h' n = kmul (scale_at h l) c /\
      grad_at h' n x = smul c (grad_at h l x).
  Proof.
    intros h l c x W H. cbn.
    assert (Hs : scale_at (h ++ [mkl (kmul (scale_at h l) c) (length h)]) (length h) = kmul (scale_at h l) c).
    { unfold scale_at. rewrite obj_app_new. reflexivity. }
    split; [exact Hs|].
    unfold grad_at at 1. rewrite obj_app_new. cbn [l_bind]. unfold call_at at 1. rewrite Hs.
    rewrite (grad_is_own_scale h l x W H). rewrite <- D_scale. rewrite <- D_scale.
    apply D_ext. intro z. rewrite (kmul_comm (scale_at h l) c). rewrite kmul_assoc. reflexivity.
  Qed.

  Lemma exec_length_ge v o h : length h <= length (exec v o h).
  Proof.
    destruct o as [l c|l c|l s]; destruct v; cbn; unfold set_scale;
      rewrite ?app_length, ?set_nth_length; cbn; lia.
  Qed.

  Lemma wf_exec o h : wf h -> wf (exec Real o h).
  Proof. destruct o; cbn; intro W; auto using wf_set_scale; apply (wf_rescale h l _ W). Qed.

  Lemma exec_keeps o h l0 : l0 < length h -> ~ touches l0 o -> obj (exec Real o h) l0 = obj h l0.
  Proof.
    intros H T. destruct o as [l c|l c|l s]; cbn.
    - apply obj_app_old; exact H.
    - apply obj_app_old; exact H.
    - unfold set_scale, obj. apply nth_set_nth_other. intro E. apply T. exact E.
  Qed.

  (** (c) every history of rescalings (and of set_scale calls on OTHER objects, e.g. on the
      returned copies) leaves an existing loss, its scale and its gradient unchanged *)
  Theorem history_keeps_original :
    forall ops h l0 x, wf h -> l0 < length h -> (forall o, In o ops -> ~ touches l0 o) ->
      let h' := run Real ops h in
      wf h' /\ obj h' l0 = obj h l0 /\ call_at h' l0 x = call_at h l0 x /\ grad_at h' l0 x = grad_at h l0 x.
  Proof.
    induction ops as [|o r IH]; intros h l0 x W H T.
    - cbn. repeat split; auto.
    - change (run Real (o :: r) h) with (run Real r (exec Real o h)). cbv zeta.
      assert (W1 := wf_exec o h W).
      assert (H1 : l0 < length (exec Real o h)) by (pose proof (exec_length_ge Real o h); lia).
      assert (E1 := exec_keeps o h l0 H (T o (or_introl eq_refl))).
      destruct (IH (exec Real o h) l0 x W1 H1 (fun o' Ho' => T o' (or_intror Ho'))) as [Wf [Eo [Ec Eg]]].
      split; [exact Wf|]. split; [rewrite Eo; exact E1|].
      assert (Hc : forall z, call_at (exec Real o h) l0 z = call_at h l0 z).
      { intro z. unfold call_at, scale_at. rewrite E1. reflexivity. }
      split; [rewrite Ec; apply Hc|].
      rewrite Eg. unfold grad_at. rewrite E1. rewrite (W l0 H). apply D_ext. exact Hc.
  Qed.
End LossHeap.

(** ---- the two mutations the theorems exclude, on a concrete instance ---- *)
From Coq Require Import ZArith.

Definition zD (f : Z -> Z) (_ : Z) : Z := (f 1 - f 0)%Z.   (* derivative of an affine function *)
Definition zheap0 : heap Z := [mkl Z 1%Z 0].

(** the instance meets the hypotheses (non-vacuity of the section) *)
Lemma zD_ext : forall f g x, (forall z, f z = g z) -> zD f x = zD g x.
Proof. intros f g x H. unfold zD. rewrite !H. reflexivity. Qed.
Lemma zD_scale : forall c f x, zD (fun z => Z.mul c (f z)) x = Z.mul c (zD f x).
Proof. intros c f x. unfold zD. ring. Qed.

(** without the re-binding the copy's gradient is the ORIGINAL's gradient: grad(3 L) = grad L *)
Definition zgrad := grad_at Z Z 1%Z Z.mul (fun z => z) zD.
Lemma norebind_refuted :
  let '(h', n) := rescale Z 1%Z NoRebind zheap0 0 3%Z in
  zgrad h' n 0%Z = 1%Z /\ Z.mul 3 (zgrad zheap0 0 0%Z) = 3%Z.
Proof. vm_compute. split; reflexivity. Qed.

(** without the copy the original's scale is overwritten *)
Lemma inplace_refuted :
  scale_at Z 1%Z (fst (rescale Z 1%Z InPlace zheap0 0 3%Z)) 0 = 3%Z /\ scale_at Z 1%Z zheap0 0 = 1%Z.
Proof. vm_compute. split; reflexivity. Qed.

(** the real variant on the same input *)
Example real_variant_example :
  let '(h', n) := rescale Z 1%Z Real zheap0 0 3%Z in
  zgrad h' n 0%Z = 3%Z /\ scale_at Z 1%Z h' 0 = 1%Z.
Proof. vm_compute. split; reflexivity. Qed.

(** ---- harness interface: scales in Q; observable per object = (scale, scale seen by its
    gradient closure) ---- *)
From Coq Require Import QArith.

Definition qop (t : nat * nat * Q) : lop Q :=
  let '(code, l, c) := t in
  match code with 0%nat => OMul Q l c | 1%nat => OMul Q l c | 2%nat => ODiv Q l c | _ => OSet Q l c end.

Definition qobs (h : heap Q) : list (Q * Q) :=
  map (fun o => (Qred (l_scale Q o), Qred (scale_at Q 1%Q h (l_bind Q o)))) h.

Definition loss_model (v : variant) (s0 : Q) (ops : list (nat * nat * Q)) : list (Q * Q) :=
  qobs (run Q 1%Q Qmult Qdiv v (map qop ops) [mkl Q s0 0%nat]).

Definition qq_eqb (a b : Q * Q) : bool := Qeq_bool (fst a) (fst b) && Qeq_bool (snd a) (snd b).
Definition loss_case_ok (c : Q * list (nat * nat * Q) * list (Q * Q)) : bool :=
  let '(s0, ops, obs) := c in
  let m := loss_model Real s0 ops in
  Nat.eqb (length m) (length obs) && forallb (fun p => qq_eqb (fst p) (snd p)) (combine m obs).
