(** C19 -- results are a function of the CURRENT object state, not of earlier calls.

    An object has a state [St] (Loss: scale, y, A, ...) that the public API may change between
    calls ([Loss.set_scale]).  A method ([__call__], [grad], [prox]) is [F state x].
      - the code as it is: [Functional.__init__] sets [self._grad = scico.grad(self.__call__)],
        a closure that reads the object when it is CALLED: every call sees the current state
        ([real_result_function_of_current_state], for every history of calls and updates);
      - a method wrapped in a trace cache ([jax.jit] of a closure over [self]): the first call
        for an argument signature (shape, dtype) bakes the state into the compiled function; a
        later call with the same signature re-uses it ([traced_refuted]).  The unchanged tree
        has one such closure (PGM.x_step, known finding); Functional._grad is not one. *)
From Coq Require Import List Bool.
Import ListNotations.

Section PS.
  Variables St X Sig R : Type.
  Variable F : St -> X -> R.
  Variable sig : X -> Sig.
  Variable Sig_eqb : Sig -> Sig -> bool.

  Inductive pop := PCall (x : X) | PSet (s : St).

  Fixpoint run_real (st : St) (h : list pop) : list R :=
    match h with
    | [] => []
    | PCall x :: r => F st x :: run_real st r
    | PSet s :: r => run_real s r
    end.

  Definition state_after (st : St) (h : list pop) : St :=
    fold_left (fun st o => match o with PSet s => s | PCall _ => st end) h st.

  (** every history: the last call returns what a fresh object in the current state returns *)
  Theorem real_result_function_of_current_state :
    forall h st x,
      run_real st (h ++ [PCall x]) = run_real st h ++ run_real (state_after st h) [PCall x].
  Proof.
    induction h as [|o r IH]; intros st x; [reflexivity|].
    destruct o as [x0|s]; cbn [app run_real state_after fold_left].
    - f_equal. apply IH.
    - apply IH.
  Qed.

  Corollary real_history_independent :
    forall h1 h2 st1 st2 x, state_after st1 h1 = state_after st2 h2 ->
      exists r1 r2, run_real st1 (h1 ++ [PCall x]) = r1 ++ [F (state_after st1 h1) x] /\
                    run_real st2 (h2 ++ [PCall x]) = r2 ++ [F (state_after st1 h1) x].
  Proof.
    intros h1 h2 st1 st2 x E. exists (run_real st1 h1), (run_real st2 h2).
    rewrite !real_result_function_of_current_state. cbn. rewrite E. split; reflexivity.
  Qed.

  (** the same method behind a trace cache keyed on the argument signature *)
  Fixpoint lookup (c : list (Sig * St)) (k : Sig) : option St :=
    match c with [] => None | (k', s) :: r => if Sig_eqb k' k then Some s else lookup r k end.

  Fixpoint run_traced (c : list (Sig * St)) (st : St) (h : list pop) : list R :=
    match h with
    | [] => []
    | PCall x :: r =>
        match lookup c (sig x) with
        | Some baked => F baked x :: run_traced c st r
        | None => F st x :: run_traced ((sig x, st) :: c) st r
        end
    | PSet s :: r => run_traced c s r
    end.
End PS.

(** witness: state = scale, F scale x = scale * x, one signature; grad(x); set_scale(2); grad(x) *)
From Coq Require Import ZArith.
Definition ps_witness : list (pop Z Z) := [PCall Z Z 3%Z; PSet Z Z 2%Z; PCall Z Z 3%Z].

Lemma traced_refuted :
  run_traced Z Z unit Z Z.mul (fun _ => tt) (fun _ _ => true) [] 1%Z ps_witness = [3%Z; 3%Z] /\
  run_real Z Z Z Z.mul 1%Z ps_witness = [3%Z; 6%Z].
Proof. vm_compute. split; reflexivity. Qed.

(** harness interface: state = scale (Q); every method observed through the scale it used
    (probe point chosen so that value = gradient entry = scale); ops: code 0/1 = call, 2 = set *)
From Coq Require Import QArith.
Definition ps_op (t : nat * Q) : pop Q unit :=
  match fst t with 2%nat => PSet Q unit (snd t) | _ => PCall Q unit tt end.
Definition ps_case_ok (c : Q * list (nat * Q) * list Q) : bool :=
  let '(s0, ops, obs) := c in
  let m := run_real Q unit Q (fun s _ => s) s0 (map ps_op ops) in
  Nat.eqb (length m) (length obs) && forallb (fun p => Qeq_bool (fst p) (snd p)) (combine m obs).
