(** C19 -- model of scico.random._add_seed / _wrap (scico/random.py) and of
    map_func_over_tuple_of_tuples (scico/numpy/_wrappers.py) as used there.

    jax.random is a Section variable: [prngkey : Seed -> Key], [split0 : Key -> Key]
    (= jax.random.split(key, 2)[0]) and [gen : Key -> Shape -> Dtype -> Arr] (the wrapped
    sampler) are PURE FUNCTIONS of their arguments -- that is the contract of jax.random
    assumed here and exercised by the harness.

    Transcription of [fun_alt(STAR args, key=None, seed=None)]:
      - [len(args) >= num_params]  => key := args[num_params-1]   (overrides the keyword)
      - [len(args) >  num_params]  => seed := args[num_params]
      - key and seed both not None => raise ValueError
      - key None => seed None => seed := 0;  key := PRNGKey(seed)
      - result := fun(key, ...);   returned key := split(key, 2)[0]
    and of the mapped sampler: nested shape => BlockArray(fun(key, shape=s_i) for s_i in shape)
    -- every block is drawn with the SAME key. *)
From Coq Require Import List Bool.
Import ListNotations.

Section Rnd.
  Variables Key Seed Shape Dtype Arr : Type.
  Variable prngkey : Seed -> Key.
  Variable split0 : Key -> Key.
  Variable seed0 : Seed.
  Variable gen : Key -> Shape -> Dtype -> Arr.

  Inductive nshape := Flat (s : Shape) | Nested (l : list Shape).
  Inductive out := OArr (a : Arr) | OBlock (l : list Arr).
  Inductive rres := Raise | Ret (o : out) (k : Key).

  (** positional value if given (it may be None), else the keyword value *)
  Definition eff {T} (pos : option (option T)) (kw : option T) : option T :=
    match pos with Some v => v | None => kw end.

  Definition sample (k : Key) (sh : nshape) (d : Dtype) : out :=
    match sh with
    | Flat s => OArr (gen k s d)
    | Nested l => OBlock (map (fun s => gen k s d) l)
    end.

  (** the key actually used *)
  Definition eff_key (key : option Key) (seed : option Seed) : Key :=
    match key with
    | Some k => k
    | None => prngkey (match seed with Some s => s | None => seed0 end)
    end.

  Definition fun_alt (sh : nshape) (d : Dtype)
             (pos_key : option (option Key)) (pos_seed : option (option Seed))
             (kw_key : option Key) (kw_seed : option Seed) : rres :=
    let key := eff pos_key kw_key in
    let seed := eff pos_seed kw_seed in
    match key, seed with
    | Some _, Some _ => Raise
    | _, _ => let k := eff_key key seed in Ret (sample k sh d) (split0 k)
    end.

  (** key and seed together raise *)
  Theorem key_and_seed_raise : forall sh d k s,
    fun_alt sh d None None (Some k) (Some s) = Raise.
  Proof. reflexivity. Qed.

  (** neither => seed 0 *)
  Theorem neither_is_seed0 : forall sh d,
    fun_alt sh d None None None None = fun_alt sh d None None None (Some seed0).
  Proof. reflexivity. Qed.

  (** a seed acts only through PRNGKey(seed) *)
  Theorem seed_is_key_of_seed : forall sh d s,
    fun_alt sh d None None None (Some s) = fun_alt sh d None None (Some (prngkey s)) None.
  Proof. reflexivity. Qed.

  (** the result is fun(key, ...) and the returned key is split(key)[0] *)
  Theorem result_and_key : forall sh d k,
    fun_alt sh d None None (Some k) None = Ret (sample k sh d) (split0 k).
  Proof. reflexivity. Qed.

  Theorem key_seed_rules : forall sh d k s,
    let F := fun_alt sh d None None in
    F (Some k) (Some s) = Raise /\
    F None None = F None (Some seed0) /\
    F None (Some s) = F (Some (prngkey s)) None /\
    F (Some k) None = Ret (sample k sh d) (split0 k).
  Proof. intros. repeat split. Qed.

  (** positional and keyword passing agree (scico.random.randn passes positionally) *)
  Theorem positional_agrees : forall sh d key seed,
    fun_alt sh d (Some key) (Some seed) None None = fun_alt sh d None None key seed.
  Proof. reflexivity. Qed.

  (** binder independence: key as the last positional argument (exactly num_params positional
      arguments, seed -- if any -- by keyword) = key by keyword; key and seed both positional =
      both by keyword; a positional None is the same as an absent argument *)
  Theorem binder_independent : forall sh d key seed,
    fun_alt sh d (Some key) None None seed = fun_alt sh d None None key seed /\
    fun_alt sh d (Some key) (Some seed) None None = fun_alt sh d None None key seed /\
    fun_alt sh d (Some None) (Some None) key seed = fun_alt sh d None None None None.
  Proof. intros. repeat split. Qed.

  (** outputs are a function of (shape, dtype, effective key) only: any two calls, however
      key/seed were supplied, that do not raise and have the same effective key agree *)
  Theorem output_function_of_shape_dtype_key :
    forall sh d pk1 ps1 kk1 ks1 pk2 ps2 kk2 ks2 o1 k1 o2 k2,
      fun_alt sh d pk1 ps1 kk1 ks1 = Ret o1 k1 ->
      fun_alt sh d pk2 ps2 kk2 ks2 = Ret o2 k2 ->
      eff_key (eff pk1 kk1) (eff ps1 ks1) = eff_key (eff pk2 kk2) (eff ps2 ks2) ->
      o1 = o2 /\ k1 = k2.
  Proof.
    intros sh d pk1 ps1 kk1 ks1 pk2 ps2 kk2 ks2 o1 k1 o2 k2 H1 H2 E.
    unfold fun_alt in H1, H2.
    destruct (eff pk1 kk1) as [a1|], (eff ps1 ks1) as [b1|]; try discriminate H1;
    destruct (eff pk2 kk2) as [a2|], (eff ps2 ks2) as [b2|]; try discriminate H2;
    injection H1 as <- <-; injection H2 as <- <-; cbn [eff_key] in *.
    all: try rewrite E; split; reflexivity.
  Qed.

  (** nested shape => block array with one block per inner shape; block i is the flat
      sample of shape s_i with the same key *)
  Theorem nested_gives_blocks : forall l d k,
    fun_alt (Nested l) d None None (Some k) None
    = Ret (OBlock (map (fun s => gen k s d) l)) (split0 k) /\
    length (map (fun s => gen k s d) l) = length l /\
    forall i s, nth_error l i = Some s ->
      nth_error (map (fun s => gen k s d) l) i = Some (gen k s d) /\
      fun_alt (Flat s) d None None (Some k) None = Ret (OArr (gen k s d)) (split0 k).
  Proof.
    intros l d k. split; [reflexivity|]. split; [apply map_length|].
    intros i s H. split; [|reflexivity]. rewrite nth_error_map, H. reflexivity.
  Qed.

  (** threading the returned key: the n-th draw depends on (shape, dtype, k0, n) only *)
  Fixpoint chain (n : nat) (k : Key) (sh : nshape) (d : Dtype) : list out :=
    match n with
    | 0 => []
    | S m => match fun_alt sh d None None (Some k) None with
             | Ret o k' => o :: chain m k' sh d
             | Raise => []
             end
    end.
  Fixpoint adv (n : nat) (k : Key) : Key := match n with 0 => k | S m => adv m (split0 k) end.

  Theorem chain_spec : forall n k sh d,
    chain n k sh d = map (fun i => sample (adv i k) sh d) (seq 0 n).
  Proof.
    induction n as [|n IH]; intros k sh d; [reflexivity|].
    cbn [chain]. rewrite result_and_key. rewrite IH. cbn [seq map adv]. f_equal.
    rewrite <- seq_shift, map_map. reflexivity.
  Qed.
End Rnd.

(** ---- harness interface: jax.random recorded as finite tables ----
    Key = pair of Z (uint32 words), Seed = Z, Shape = list nat, Dtype = nat, Arr = Z (digest) *)
From Coq Require Import ZArith.

Definition zkey : Type := Z * Z.
Definition zkey_eqb (a b : zkey) : bool := Z.eqb (fst a) (fst b) && Z.eqb (snd a) (snd b).
Definition shp_eqb (a b : list nat) : bool := if list_eq_dec Nat.eq_dec a b then true else false.

Fixpoint lookup {A B} (eqb : A -> A -> bool) (t : list (A * B)) (a : A) (dflt : B) : B :=
  match t with [] => dflt | (x, y) :: r => if eqb x a then y else lookup eqb r a dflt end.

Section Tab.
  Variable fn : nat.                                   (* index of the sampler *)
  Variable t_prng : list (Z * zkey).
  Variable t_split : list (zkey * zkey).
  Variable t_gen : list ((nat * zkey * list nat * nat) * Z).
  Definition tprng (s : Z) : zkey := lookup Z.eqb t_prng s (0%Z, (-1)%Z).
  Definition tsplit (k : zkey) : zkey := lookup zkey_eqb t_split k ((-1)%Z, (-1)%Z).
  Definition gen_eqb (a b : nat * zkey * list nat * nat) : bool :=
    let '(f1, k1, s1, d1) := a in let '(f2, k2, s2, d2) := b in
    Nat.eqb f1 f2 && zkey_eqb k1 k2 && shp_eqb s1 s2 && Nat.eqb d1 d2.
  Definition tgen (k : zkey) (s : list nat) (d : nat) : Z := lookup gen_eqb t_gen (fn, k, s, d) (-1)%Z.
  Definition tfun_alt := fun_alt zkey Z (list nat) nat Z tprng tsplit 0%Z tgen.
End Tab.

(** observed: None = raised ValueError; Some (is_block, digests, returned key) *)
Definition obs_t : Type := option (bool * list Z * zkey).
Definition code_rres (r : rres zkey Z) : obs_t :=
  match r with
  | Raise _ _ => None
  | Ret _ _ (OArr _ a) k => Some (false, [a], k)
  | Ret _ _ (OBlock _ l) k => Some (true, l, k)
  end.
Definition zl_eqb (a b : list Z) : bool := if list_eq_dec Z.eq_dec a b then true else false.
Definition obs_eqb (a b : obs_t) : bool :=
  match a, b with
  | None, None => true
  | Some (b1, l1, k1), Some (b2, l2, k2) => Bool.eqb b1 b2 && zl_eqb l1 l2 && zkey_eqb k1 k2
  | _, _ => false
  end.

(** a call: (sampler, nested?, shapes, dtype, passing mode, key, seed)
    mode 0: key / seed by keyword; 1: both positional; 2: key last positional, seed by keyword *)
Definition rcall : Type := nat * bool * list (list nat) * nat * nat * option zkey * option Z.
Definition run_rcall t_prng t_split t_gen (c : rcall) : obs_t :=
  let '(fn, nested, shs, d, mode, key, seed) := c in
  let sh := if nested then Nested (list nat) shs else Flat (list nat) (hd [] shs) in
  code_rres (match mode with
             | 0 => tfun_alt fn t_prng t_split t_gen sh d None None key seed
             | 1 => tfun_alt fn t_prng t_split t_gen sh d (Some key) (Some seed) None None
             | _ => tfun_alt fn t_prng t_split t_gen sh d (Some key) None None seed
             end).
