(** C19 -- re-attaching one sub-problem solver object to several ADMM objects.

    SubproblemSolver.internal_init(admm) (scico/optimize/_admmaux.py) derives solver data from
    the ADMM it is attached to (LinearSubproblemSolver: lhs_op; MatrixSubproblemSolver: the
    LU / Cholesky factor of 2 s A^H W A + sum_i rho_i C_i^H C_i; CircularConvolveSolver: A_lhs;
    block solvers: ConvATADSolver).  [solve] combines that data with a right-hand side taken
    from the CURRENT admm.

    An ADMM is (ops, par): [ops] the operator OBJECTS f.A, C_i (their identity) and [par]
    everything else the derived data depends on (rho_list, f.scale, f.W, ...).
      - the code as it is rebuilds on every attachment: the solver state after internal_init is
        a function of the ADMM attached now, for every attachment history
        ([real_state_function_of_current], [real_xstep_history_free]);
      - a solver that keeps its data when the operator objects are the same (a cache keyed on
        the identity of the operators) is an instance of Cache.v with an insufficient key:
        [idkeyed_refuted]; with a key that contains everything [build] depends on it is
        transparent again ([keyed_reattach_transparent], by Cache.cache_transparent). *)
From Coq Require Import List Bool ZArith.
From SV Require Import C19.Cache.
Import ListNotations.

Section Reattach.
  Variables Ops Par Fac Res : Type.
  Variable build : Ops -> Par -> Fac.            (* internal_init *)
  Variable solve : Fac -> Ops -> Par -> Res.     (* solve(): factor + rhs of the current admm *)
  Definition admm : Type := (Ops * Par)%type.

  Definition attach_real (_ : option Fac) (a : admm) : option Fac := Some (build (fst a) (snd a)).
  Definition attach_hist (st : option Fac) (h : list admm) : option Fac := fold_left attach_real h st.
  Definition xstep (st : option Fac) (a : admm) : option Res :=
    match st with Some f => Some (solve f (fst a) (snd a)) | None => None end.

  Theorem real_state_function_of_current :
    forall h st a, attach_hist st (h ++ [a]) = Some (build (fst a) (snd a)).
  Proof. intros h st a. unfold attach_hist. rewrite fold_left_app. reflexivity. Qed.

  Theorem real_xstep_history_free :
    forall h st a, xstep (attach_hist st (h ++ [a])) a = xstep (attach_hist None [a]) a.
  Proof. intros h st a. rewrite real_state_function_of_current. reflexivity. Qed.

  Theorem reattach_spec :
    forall h st a, attach_hist st (h ++ [a]) = Some (build (fst a) (snd a)) /\
                   xstep (attach_hist st (h ++ [a])) a = xstep (attach_hist None [a]) a.
  Proof. intros h st a. split; [apply real_state_function_of_current | apply real_xstep_history_free]. Qed.

  (** a solver that re-uses its data under a key: the abstract cache with one slot *)
  Variable K : Type.
  Variable keyof : admm -> K.
  Variable K_eqb : K -> K -> bool.
  Hypothesis K_eqb_spec : forall a b, K_eqb a b = true <-> a = b.

  Definition u_eqb (_ _ : unit) : bool := true.
  Lemma u_eqb_spec : forall a b : unit, u_eqb a b = true <-> a = b.
  Proof. intros [] []. split; reflexivity. Qed.

  Definition keyed_run :=
    Cache.run unit admm unit K Fac Res (fun _ => tt) keyof u_eqb K_eqb
              (fun _ a => build (fst a) (snd a)) (fun _ f a => solve f (fst a) (snd a)) tt.

  Theorem keyed_reattach_transparent :
    (forall a b : admm, keyof a = keyof b -> build (fst a) (snd a) = build (fst b) (snd b)) ->
    forall h, fst (keyed_run h (Cache.empty unit K Fac))
              = map (fun a => solve (build (fst a) (snd a)) (fst a) (snd a)) h.
  Proof.
    intros KS h. unfold keyed_run.
    rewrite (cache_transparent unit admm unit K Fac Res (fun _ => tt) keyof u_eqb K_eqb u_eqb_spec K_eqb_spec
               (fun _ a => build (fst a) (snd a)) (fun _ f a => solve f (fst a) (snd a)) (fun _ => True) tt).
    - reflexivity.
    - intros a b _ _ _ Hk. apply KS. exact Hk.
    - apply inv_empty.
    - apply Forall_forall. intros; exact I.
  Qed.
End Reattach.

(** witness: operators identified by a number, par = rho, the factor "is" rho, the x-step
    returns (factor used, rho of the current admm).  Key = identity of the operators only. *)
Definition w_build (_ : nat) (rho : Z) : Z := rho.
Definition w_solve (f : Z) (_ : nat) (rho : Z) : Z * Z := (f, rho).
Definition w_hist : list (nat * Z) := [(7, 1%Z); (7, 3%Z)].    (* same operator objects, rho 1 then rho 3 *)

Lemma idkeyed_refuted :
  fst (keyed_run nat Z Z (Z * Z) w_build w_solve nat fst Nat.eqb w_hist (Cache.empty unit nat Z))
    = [(1%Z, 1%Z); (1%Z, 3%Z)] /\
  map (fun a => w_solve (w_build (fst a) (snd a)) (fst a) (snd a)) w_hist = [(1%Z, 1%Z); (3%Z, 3%Z)] /\
  xstep nat Z Z (Z * Z) w_solve (attach_hist nat Z Z w_build None w_hist) (7, 3%Z) = Some (3%Z, 3%Z).
Proof. vm_compute. repeat split. Qed.
