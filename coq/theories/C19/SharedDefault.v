(** C19 -- default helper objects of optimisers: evaluated per call vs shared.

    PGM.__init__ (scico/optimize/_pgm.py):
        if step_size is None: step_size = PGMStepSize()      # a NEW object per constructor call
        self.step_size = step_size;  self.step_size.internal_init(self)   # back-reference .pgm
    PGMStepSize.update returns [self.pgm.L];  PGM.step does [self.L = self.step_size.update(x)].

    World: solver i has an [L] value and a policy location [pol i]; a policy location holds the
    back-reference [back p] (the solver it was last attached to).
      PerCall : every construction allocates a fresh policy location   (the code as it is)
      Shared  : every construction re-uses location 0                  (a module-level /
                default-argument object: what a shared default would do)
    Theorem [percall_no_interference]: with per-call defaults, for EVERY interleaving of
    constructions and steps of any solvers, no existing solver's L (its observable state here)
    is changed by the construction or the steps of another one.  [shared_interferes]: with a
    shared default the first solver steps with the L of the second. *)
From Coq Require Import List Arith Lia.
Import ListNotations.

Section SD.
  Variable K : Type.
  Variable k0 : K.

  Record world := mkw { Ls : list K; pol : list nat; back : list nat }.
  Inductive mode := PerCall | Shared.

  Fixpoint set_nth {A} (l : list A) (n : nat) (a : A) : list A :=
    match l, n with
    | [], _ => []
    | _ :: r, 0 => a :: r
    | x :: r, S n' => x :: set_nth r n' a
    end.

  Definition construct (m : mode) (w : world) (L0 : K) : world :=
    let i := length (Ls w) in
    match m with
    | PerCall => mkw (Ls w ++ [L0]) (pol w ++ [length (back w)]) (back w ++ [i])
    | Shared => mkw (Ls w ++ [L0]) (pol w ++ [0])
                    (match back w with [] => [i] | _ :: r => i :: r end)
    end.

  (** PGMStepSize.update of solver i's policy: self.pgm.L *)
  Definition update (w : world) (i : nat) : K :=
    nth (nth (nth i (pol w) 0) (back w) 0) (Ls w) k0.
  (** PGM.step, as far as L is concerned *)
  Definition step (w : world) (i : nat) : world :=
    mkw (set_nth (Ls w) i (update w i)) (pol w) (back w).

  Inductive op := Construct (L0 : K) | Step (i : nat).
  Definition exec (m : mode) (o : op) (w : world) : world :=
    match o with Construct L0 => construct m w L0 | Step i => step w i end.
  Definition run (m : mode) (ops : list op) (w : world) : world :=
    fold_left (fun w o => exec m o w) ops w.

  Definition empty : world := mkw [] [] [].

  (** every policy points back to the solver that owns it *)
  Definition wf (w : world) : Prop :=
    length (pol w) = length (Ls w) /\
    forall i, i < length (Ls w) ->
      nth i (pol w) 0 < length (back w) /\ nth (nth i (pol w) 0) (back w) 0 = i.

  Lemma set_nth_same {A} (l : list A) n d : set_nth l n (nth n l d) = l.
  Proof.
    revert n. induction l as [|x r IH]; intros [|n]; cbn; try reflexivity.
    rewrite IH. reflexivity.
  Qed.

  Lemma wf_empty : wf empty.
  Proof. split; [reflexivity|]. cbn. intros i H. lia. Qed.

  Lemma update_own w i : wf w -> i < length (Ls w) -> update w i = nth i (Ls w) k0.
  Proof. intros [_ W] H. unfold update. destruct (W i H) as [_ E]. rewrite E. reflexivity. Qed.

  Lemma step_id w i : wf w -> Ls (step w i) = Ls w.
  Proof.
    intros W. unfold step. cbn [Ls].
    destruct (Nat.lt_ge_cases i (length (Ls w))) as [H|H].
    - rewrite (update_own w i W H). apply set_nth_same.
    - generalize (update w i). intro a. revert i H. induction (Ls w) as [|x r IH]; intros i H; [reflexivity|].
      destruct i as [|i]; cbn in H; [lia|]. cbn. rewrite IH by lia. reflexivity.
  Qed.

  Lemma wf_step w i : wf w -> wf (step w i).
  Proof.
    intros W. pose proof (step_id w i W) as E. destruct W as [W1 W2].
    split; cbn [pol back]; rewrite E; assumption.
  Qed.

  Lemma wf_construct w L0 : wf w -> wf (construct PerCall w L0).
  Proof.
    intros [W1 W2]. split; cbn [construct Ls pol back].
    - rewrite !app_length. cbn. lia.
    - intros i H. rewrite app_length in H. cbn in H. rewrite app_length. cbn [length].
      destruct (Nat.eq_dec i (length (Ls w))) as [->|N].
      + assert (E : nth (length (Ls w)) (pol w ++ [length (back w)]) 0 = length (back w)).
        { rewrite <- W1. rewrite app_nth2 by apply le_n. rewrite Nat.sub_diag. reflexivity. }
        rewrite E. split; [lia|]. rewrite app_nth2 by apply le_n. rewrite Nat.sub_diag. reflexivity.
      + assert (Hi : i < length (Ls w)) by lia. destruct (W2 i Hi) as [B E].
        rewrite app_nth1 by lia. split; [lia|]. rewrite app_nth1 by exact B. exact E.
  Qed.

  (** no interference with per-call defaults, for every interleaving *)
  Theorem percall_no_interference :
    forall ops w, wf w ->
      wf (run PerCall ops w) /\
      forall i, i < length (Ls w) ->
        nth i (Ls (run PerCall ops w)) k0 = nth i (Ls w) k0 /\
        update (run PerCall ops w) i = nth i (Ls w) k0.
  Proof.
    induction ops as [|o r IH]; intros w W.
    - cbn. split; [exact W|]. intros i H. split; [reflexivity|]. apply update_own; assumption.
    - change (run PerCall (o :: r) w) with (run PerCall r (exec PerCall o w)).
      destruct o as [L0|j]; cbn [exec].
      + destruct (IH _ (wf_construct w L0 W)) as [W' H'].
        split; [exact W'|]. intros i H.
        assert (Hi : i < length (Ls (construct PerCall w L0))) by (cbn; rewrite app_length; cbn; lia).
        destruct (H' i Hi) as [E1 E2]. cbn [construct Ls] in E1, E2.
        rewrite app_nth1 in E1, E2 by exact H. split; assumption.
      + destruct (IH _ (wf_step w j W)) as [W' H'].
        split; [exact W'|]. intros i H.
        assert (Hi : i < length (Ls (step w j))) by (rewrite (step_id w j W); exact H).
        destruct (H' i Hi) as [E1 E2]. rewrite (step_id w j W) in E1, E2. split; assumption.
  Qed.
End SD.

(** interference witness for a shared default: PGM(L0=8); PGM(L0=20); first.step() *)
From Coq Require Import ZArith.
Definition witness_ops : list (op Z) := [Construct Z 8%Z; Construct Z 20%Z; Step Z 0].

Lemma shared_interferes :
  Ls Z (run Z 0%Z Shared witness_ops (empty Z)) = [20%Z; 20%Z] /\
  Ls Z (run Z 0%Z PerCall witness_ops (empty Z)) = [8%Z; 20%Z].
Proof. vm_compute. split; reflexivity. Qed.

(** harness interface: ops (code 0 = construct L0, 1 = step i), observed list of L *)
Definition sd_op (t : nat * Z) : op Z := match fst t with 0 => Construct Z (snd t) | _ => Step Z (Z.to_nat (snd t)) end.
Definition zlist_eqb (a b : list Z) : bool := if list_eq_dec Z.eq_dec a b then true else false.
Definition sd_case_ok (c : list (nat * Z) * list Z) : bool :=
  zlist_eqb (Ls Z (run Z 0%Z PerCall (map sd_op (fst c)) (empty Z))) (snd c).
