(** C19 -- default helper objects of optimisers: evaluated per call vs shared.

    PGM.__init__ (scico/optimize/_pgm.py):
        if step_size is None: step_size = PGMStepSize()      # a NEW object per constructor call
        self.step_size = step_size;  self.step_size.internal_init(self)   # back-reference .pgm
    PGMStepSize.update returns [self.pgm.L];  PGM.step does [self.L = self.step_size.update(x)].

    World: solver i has an [L] value and a policy location [pol i]; a policy location holds the
    back-reference [back p] (the solver it was last attached to).
      PerCall : every construction allocates a fresh policy location   (the code as it is)
      Shared  : every construction re-uses location 0                  (a module-level /
                default-argument object: what a shared default would do)
    Theorem [percall_no_interference]: with per-call defaults, for EVERY interleaving of
    constructions and steps of any solvers, no existing solver's L (its observable state here)
    is changed by the construction or the steps of another one.  [shared_interferes]: with a
    shared default the first solver steps with the L of the second.

    Second part (helper objects with contents, e.g. GenericSubproblemSolver.minimize_kwargs,
    which since 181f4c4 is created per instance: [if minimize_kwargs is None: minimize_kwargs =
    {"options": {"maxiter": 100}}]): with per-call defaults no two objects share a helper, and a
    write through one object's helper is invisible through every other object, for every history
    of constructions and writes ([percall_helpers_not_shared], [percall_write_invisible]).
    [shared_write_visible] documents why the shared form (a mutable default ARGUMENT, one object
    for all calls) is wrong; it is not a finding of the tree. *)
From Coq Require Import List Arith Lia.
Import ListNotations.

Section SD.
  Variable K : Type.
  Variable k0 : K.

  Record world := mkw { Ls : list K; pol : list nat; back : list nat }.
  Inductive mode := PerCall | Shared.

  Fixpoint set_nth {A} (l : list A) (n : nat) (a : A) : list A :=
    match l, n with
    | [], _ => []
    | _ :: r, 0 => a :: r
    | x :: r, S n' => x :: set_nth r n' a
    end.

  Definition construct (m : mode) (w : world) (L0 : K) : world :=
    let i := length (Ls w) in
    match m with
    | PerCall => mkw (Ls w ++ [L0]) (pol w ++ [length (back w)]) (back w ++ [i])
    | Shared => mkw (Ls w ++ [L0]) (pol w ++ [0])
                    (match back w with [] => [i] | _ :: r => i :: r end)
    end.

  (** PGMStepSize.update of solver i's policy: self.pgm.L *)
  Definition update (w : world) (i : nat) : K :=
    nth (nth (nth i (pol w) 0) (back w) 0) (Ls w) k0.
  (** PGM.step, as far as L is concerned *)
  Definition step (w : world) (i : nat) : world :=
    mkw (set_nth (Ls w) i (update w i)) (pol w) (back w).

  Inductive op := Construct (L0 : K) | Step (i : nat).
  Definition exec (m : mode) (o : op) (w : world) : world :=
    match o with Construct L0 => construct m w L0 | Step i => step w i end.
  Definition run (m : mode) (ops : list op) (w : world) : world :=
    fold_left (fun w o => exec m o w) ops w.

  Definition empty : world := mkw [] [] [].

  (** every policy points back to the solver that owns it *)
  Definition wf (w : world) : Prop :=
    length (pol w) = length (Ls w) /\
    forall i, i < length (Ls w) ->
      nth i (pol w) 0 < length (back w) /\ nth (nth i (pol w) 0) (back w) 0 = i.

  Lemma set_nth_same {A} (l : list A) n d : set_nth l n (nth n l d) = l.
  Proof.
    revert n. induction l as [|x r IH]; intros [|n]; cbn; try reflexivity.
    rewrite IH. reflexivity.
  Qed.

  Lemma wf_empty : wf empty.
  Proof. split; [reflexivity|]. cbn. intros i H. lia. Qed.

  Lemma update_own w i : wf w -> i < length (Ls w) -> update w i = nth i (Ls w) k0.
  Proof. intros [_ W] H. unfold update. destruct (W i H) as [_ E]. rewrite E. reflexivity. Qed.

  Lemma step_id w i : wf w -> Ls (step w i) = Ls w.
  Proof.
    intros W. unfold step. cbn [Ls].
    destruct (Nat.lt_ge_cases i (length (Ls w))) as [H|H].
    - rewrite (update_own w i W H). apply set_nth_same.
    - generalize (update w i). intro a. revert i H. induction (Ls w) as [|x r IH]; intros i H; [reflexivity|].
      destruct i as [|i]; cbn in H; [lia|]. cbn. rewrite IH by lia. reflexivity.
  Qed.

  Lemma wf_step w i : wf w -> wf (step w i).
  Proof.
    intros W. pose proof (step_id w i W) as E. destruct W as [W1 W2].
    split; cbn [pol back]; rewrite E; assumption.
  Qed.

  Lemma wf_construct w L0 : wf w -> wf (construct PerCall w L0).
  Proof.
    intros [W1 W2]. split; cbn [construct Ls pol back].
    - rewrite !app_length. cbn. lia.
    - intros i H. rewrite app_length in H. cbn in H. rewrite app_length. cbn [length].
      destruct (Nat.eq_dec i (length (Ls w))) as [->|N].
      + assert (E : nth (length (Ls w)) (pol w ++ [length (back w)]) 0 = length (back w)).
        { rewrite <- W1. rewrite app_nth2 by apply le_n. rewrite Nat.sub_diag. reflexivity. }
        rewrite E. split; [lia|]. rewrite app_nth2 by apply le_n. rewrite Nat.sub_diag. reflexivity.
      + assert (Hi : i < length (Ls w)) by lia. destruct (W2 i Hi) as [B E].
        rewrite app_nth1 by lia. split; [lia|]. rewrite app_nth1 by exact B. exact E.
  Qed.

  (** no interference with per-call defaults, for every interleaving *)
  Theorem percall_no_interference :
    forall ops w, wf w ->
      wf (run PerCall ops w) /\
      forall i, i < length (Ls w) ->
        nth i (Ls (run PerCall ops w)) k0 = nth i (Ls w) k0 /\
        update (run PerCall ops w) i = nth i (Ls w) k0.
  Proof.
    induction ops as [|o r IH]; intros w W.
    - cbn. split; [exact W|]. intros i H. split; [reflexivity|]. apply update_own; assumption.
    - change (run PerCall (o :: r) w) with (run PerCall r (exec PerCall o w)).
      destruct o as [L0|j]; cbn [exec].
      + destruct (IH _ (wf_construct w L0 W)) as [W' H'].
        split; [exact W'|]. intros i H.
        assert (Hi : i < length (Ls (construct PerCall w L0))) by (cbn; rewrite app_length; cbn; lia).
        destruct (H' i Hi) as [E1 E2]. cbn [construct Ls] in E1, E2.
        rewrite app_nth1 in E1, E2 by exact H. split; assumption.
      + destruct (IH _ (wf_step w j W)) as [W' H'].
        split; [exact W'|]. intros i H.
        assert (Hi : i < length (Ls (step w j))) by (rewrite (step_id w j W); exact H).
        destruct (H' i Hi) as [E1 E2]. rewrite (step_id w j W) in E1, E2. split; assumption.
  Qed.
End SD.

(** interference witness for a shared default: PGM(L0=8); PGM(L0=20); first.step() *)
From Coq Require Import ZArith.
Definition witness_ops : list (op Z) := [Construct Z 8%Z; Construct Z 20%Z; Step Z 0].

Lemma shared_interferes :
  Ls Z (run Z 0%Z Shared witness_ops (empty Z)) = [20%Z; 20%Z] /\
  Ls Z (run Z 0%Z PerCall witness_ops (empty Z)) = [8%Z; 20%Z].
Proof. vm_compute. split; reflexivity. Qed.

(** ---- helper objects with contents ---- *)
Section HC.
  Variable V : Type.
  Variable d0 : V.                      (* the default content, e.g. {"options": {"maxiter": 100}} *)

  Record hworld := mkh { hloc : list nat; hval : list V }.   (* helper location of object i; heap *)
  Definition hempty : hworld := mkh [] [].

  Definition hconstruct (m : mode) (w : hworld) : hworld :=
    match m with
    | PerCall => mkh (hloc w ++ [length (hval w)]) (hval w ++ [d0])
    | Shared => mkh (hloc w ++ [0]) (match hval w with [] => [d0] | _ => hval w end)
    end.
  Definition hwrite (w : hworld) (i : nat) (v : V) : hworld :=
    mkh (hloc w) (set_nth (hval w) (nth i (hloc w) 0) v).
  Definition hread (w : hworld) (i : nat) : V := nth (nth i (hloc w) 0) (hval w) d0.

  Inductive hop := HConstruct | HWrite (i : nat) (v : V).
  Definition hexec (m : mode) (o : hop) (w : hworld) : hworld :=
    match o with HConstruct => hconstruct m w | HWrite i v => hwrite w i v end.
  Definition hrun (m : mode) (ops : list hop) (w : hworld) : hworld :=
    fold_left (fun w o => hexec m o w) ops w.

  (** every object has its helper, and no two objects have the same one *)
  Definition hwf (w : hworld) : Prop :=
    (forall i, i < length (hloc w) -> nth i (hloc w) 0 < length (hval w)) /\
    (forall i j, i < length (hloc w) -> j < length (hloc w) ->
                 nth i (hloc w) 0 = nth j (hloc w) 0 -> i = j).

  Lemma set_nth_length {A} (l : list A) n a : length (set_nth l n a) = length l.
  Proof. revert n. induction l as [|x r IH]; intros [|n]; cbn; auto. Qed.
  Lemma nth_set_nth_eq {A} (l : list A) n a d : n < length l -> nth n (set_nth l n a) d = a.
  Proof. revert n. induction l as [|x r IH]; intros [|n] H; cbn in *; try lia; auto. apply IH. lia. Qed.
  Lemma nth_set_nth_neq {A} (l : list A) n m a d : n <> m -> nth m (set_nth l n a) d = nth m l d.
  Proof. revert n m. induction l as [|x r IH]; intros [|n] [|m] H; cbn; auto; try congruence. Qed.

  Lemma hwf_empty : hwf hempty.
  Proof. split; cbn; intros; lia. Qed.

  Lemma hwf_construct w : hwf w -> hwf (hconstruct PerCall w).
  Proof.
    intros [W1 W2]. unfold hconstruct. split; cbn [hloc hval].
    - intros i H. rewrite app_length in *. cbn [length] in *.
      destruct (Nat.eq_dec i (length (hloc w))) as [->|N].
      + rewrite app_nth2 by apply le_n. rewrite Nat.sub_diag. cbn. lia.
      + rewrite app_nth1 by lia. specialize (W1 i ltac:(lia)). lia.
    - intros i j Hi Hj. rewrite app_length in Hi, Hj. cbn [length] in Hi, Hj.
      destruct (Nat.eq_dec i (length (hloc w))) as [->|Ni];
      destruct (Nat.eq_dec j (length (hloc w))) as [->|Nj]; intro E; auto.
      + rewrite app_nth2 in E by apply le_n. rewrite Nat.sub_diag in E. cbn [nth] in E.
        rewrite app_nth1 in E by lia. specialize (W1 j ltac:(lia)). lia.
      + rewrite (app_nth2 _ _ _ (le_n _)) in E. rewrite Nat.sub_diag in E. cbn [nth] in E.
        rewrite app_nth1 in E by lia. specialize (W1 i ltac:(lia)). lia.
      + rewrite !app_nth1 in E by lia. apply W2; auto; lia.
  Qed.

  Lemma hwf_write w i v : hwf w -> hwf (hwrite w i v).
  Proof. intros [W1 W2]. split; cbn [hwrite hloc hval]; [|exact W2]. intros k H. rewrite set_nth_length. auto. Qed.

  (** for every history of constructions and writes: helpers are never shared *)
  Theorem percall_helpers_not_shared :
    forall ops w, hwf w -> hwf (hrun PerCall ops w).
  Proof.
    induction ops as [|o r IH]; intros w W; [exact W|].
    change (hrun PerCall (o :: r) w) with (hrun PerCall r (hexec PerCall o w)).
    apply IH. destruct o; cbn [hexec]; auto using hwf_construct, hwf_write.
  Qed.

  (** a write through object i is seen through i and through no other object *)
  Theorem percall_write_invisible :
    forall w i j v, hwf w -> i < length (hloc w) -> j < length (hloc w) -> i <> j ->
      hread (hwrite w i v) i = v /\ hread (hwrite w i v) j = hread w j.
  Proof.
    intros w i j v [W1 W2] Hi Hj N. unfold hread, hwrite. cbn [hloc hval]. split.
    - apply nth_set_nth_eq. auto.
    - apply nth_set_nth_neq. intro E. apply N. apply W2; auto.
  Qed.
End HC.

(** why a shared default object is wrong: a = K(); b = K(); a.kw["maxiter"] = 1 changes b.kw *)
Lemma shared_write_visible :
  let ops := [HConstruct Z; HConstruct Z; HWrite Z 0 1%Z] in
  hread Z 100%Z (hrun Z 100%Z Shared ops (hempty Z)) 1 = 1%Z /\
  hread Z 100%Z (hrun Z 100%Z PerCall ops (hempty Z)) 1 = 100%Z /\
  hread Z 100%Z (hrun Z 100%Z PerCall ops (hempty Z)) 0 = 1%Z.
Proof. vm_compute. repeat split. Qed.

(** harness interface: ops (code 0 = construct L0, 1 = step i), observed list of L *)
Definition sd_op (t : nat * Z) : op Z := match fst t with 0 => Construct Z (snd t) | _ => Step Z (Z.to_nat (snd t)) end.
Definition zlist_eqb (a b : list Z) : bool := if list_eq_dec Z.eq_dec a b then true else false.
Definition sd_case_ok (c : list (nat * Z) * list Z) : bool :=
  zlist_eqb (Ls Z (run Z 0%Z PerCall (map sd_op (fst c)) (empty Z))) (snd c).

(** helper-content histories: ops (code 0 = construct, 1 = write object i value v), observed
    content read through every object at the end *)
Definition hc_op (t : nat * nat * Z) : hop Z :=
  let '(c, i, v) := t in match c with 0 => HConstruct Z | _ => HWrite Z i v end.
Definition hc_case_ok (c : Z * list (nat * nat * Z) * list Z) : bool :=
  let '(d0, ops, obs) := c in
  let w := hrun Z d0 PerCall (map hc_op ops) (hempty Z) in
  zlist_eqb (map (hread Z d0 w) (seq 0 (length (hloc Z w)))) obs.
