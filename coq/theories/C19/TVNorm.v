(** C19 -- executable model of the cached-operator logic of scico/functional/_tvnorm.py
    (class TVNorm: __init__, __call__, prox) and its cache-transparency theorems.

    What is cached (transcribed from the source):
      * [self.G]  (FiniteDifference)            -- used by __call__; rebuilt iff
            [self.G is None or self.G.shape[1] != x.shape]
      * [self.WP, self.CWT, self.prox_ndims, self.prox_slice] (Haar transform (+pad), its
            adjoint (+crop), ...) -- one group, used by prox; rebuilt iff
            [self.WP is None or self.WP.shape[1] != v.shape]
      * __init__(input_shape, input_dtype) pre-fills both groups when input_shape is given.
    The operators are BUILT from (x.shape, x.dtype) but the cache test looks at the shape only.
    How a cached operator is used:
      * __call__: [norm(G @ x)]: forward application, Operator.__call__ checks the shape only;
      * prox: [CWT(...WP(v)...)]: forward, then the adjoint, and LinearOperator.adj raises
        ValueError when the array dtype differs from the operator's declared dtype.
    Numerical values are not modelled here (they are compared with a fresh object by the
    harness); the model carries what the cache can influence: the operator descriptor used,
    ok/raise, and when a rebuild happens.  [full = false] is the code as it is;
    [full = true] is the code with the dtype added to the cache test. *)
From Coq Require Import List Bool Arith.
From SV Require Import C19.Cache.
Import ListNotations.

Inductive dt := F32 | F64 | C64 | C128.
Definition shape := list nat.
Inductive meth := MCall | MProx.
Record opd := mkop { o_shape : shape; o_dt : dt }.
Record tvobj := mktv { tv_G : option opd; tv_WP : option opd }.
Inductive res := RVal (sh : shape) (d : dt) | RRaise.
Definition arg : Type := meth * shape * dt.

Definition dt_eqb (a b : dt) : bool :=
  match a, b with F32, F32 | F64, F64 | C64, C64 | C128, C128 => true | _, _ => false end.
Definition shape_eqb (a b : shape) : bool := if list_eq_dec Nat.eq_dec a b then true else false.
Definition meth_eqb (a b : meth) : bool :=
  match a, b with MCall, MCall | MProx, MProx => true | _, _ => false end.

Lemma dt_eqb_spec a b : dt_eqb a b = true <-> a = b.
Proof. destruct a, b; cbn; split; intro H; try reflexivity; try discriminate H. Qed.
Lemma shape_eqb_spec a b : shape_eqb a b = true <-> a = b.
Proof. unfold shape_eqb. destruct (list_eq_dec Nat.eq_dec a b); split; intro H; auto; try discriminate; contradiction. Qed.
Lemma meth_eqb_spec a b : meth_eqb a b = true <-> a = b.
Proof. destruct a, b; cbn; split; intro H; try reflexivity; try discriminate H. Qed.
Lemma shape_eqb_refl a : shape_eqb a a = true.
Proof. apply shape_eqb_spec. reflexivity. Qed.
Lemma dt_eqb_refl a : dt_eqb a a = true.
Proof. destruct a; reflexivity. Qed.

(** __init__ *)
Definition tv_init (decl : option (shape * dt)) : tvobj :=
  match decl with
  | None => mktv None None
  | Some (sh, d) => mktv (Some (mkop sh d)) (Some (mkop sh d))
  end.

(** the cache test *)
Definition same_key (full : bool) (g : opd) (sh : shape) (d : dt) : bool :=
  shape_eqb (o_shape g) sh && (if full then dt_eqb (o_dt g) d else true).

(** forward application (shape check only) and forward-then-adjoint (dtype check in adj) *)
Definition fwd (g : opd) (sh : shape) (d : dt) : res :=
  if shape_eqb (o_shape g) sh then RVal sh d else RRaise.
Definition fwd_adj (g : opd) (sh : shape) (d : dt) : res :=
  if shape_eqb (o_shape g) sh then (if dt_eqb (o_dt g) d then RVal sh d else RRaise) else RRaise.

Definition apply_m (m : meth) := match m with MCall => fwd | MProx => fwd_adj end.
Definition get_m (m : meth) (o : tvobj) := match m with MCall => tv_G o | MProx => tv_WP o end.
Definition set_m (m : meth) (o : tvobj) (g : opd) :=
  match m with MCall => mktv (Some g) (tv_WP o) | MProx => mktv (tv_G o) (Some g) end.

(** one public call: (result, rebuilt?, object afterwards) *)
Definition tv_call (full : bool) (a : arg) (o : tvobj) : res * bool * tvobj :=
  let '(m, sh, d) := a in
  match get_m m o with
  | Some g => if same_key full g sh d then (apply_m m g sh d, false, o)
              else let g' := mkop sh d in (apply_m m g' sh d, true, set_m m o g')
  | None => let g' := mkop sh d in (apply_m m g' sh d, true, set_m m o g')
  end.

Fixpoint tv_run (full : bool) (h : list arg) (o : tvobj) : list (res * bool) * tvobj :=
  match h with
  | [] => ([], o)
  | a :: r => let '(x, b, o1) := tv_call full a o in
              let '(xs, o2) := tv_run full r o1 in ((x, b) :: xs, o2)
  end.

Definition tv_results full decl h : list res := map fst (fst (tv_run full h (tv_init decl))).
Definition tv_rebuilds full decl h : list bool := map snd (fst (tv_run full h (tv_init decl))).
(** the same call as the only call on a freshly constructed object *)
Definition tv_fresh full decl (a : arg) : res := fst (fst (tv_call full a (tv_init decl))).

(** ---- instance of the abstract cache ---- *)
Definition key : Type := shape * option dt.
Definition key_eqb (a b : key) : bool :=
  shape_eqb (fst a) (fst b) &&
  match snd a, snd b with Some x, Some y => dt_eqb x y | None, None => true | _, _ => false end.
Lemma key_eqb_spec a b : key_eqb a b = true <-> a = b.
Proof.
  destruct a as [s1 d1], b as [s2 d2]. unfold key_eqb. cbn. split.
  - intro H. apply andb_true_iff in H. destruct H as [H1 H2]. apply shape_eqb_spec in H1. subst.
    destruct d1, d2; try discriminate H2; [apply dt_eqb_spec in H2; subst|]; reflexivity.
  - intro H. injection H as -> ->. rewrite shape_eqb_refl. destruct d2; [apply dt_eqb_refl|reflexivity].
Qed.

Definition a_slot (a : arg) : meth := fst (fst a).
Definition a_key (full : bool) (a : arg) : key := (snd (fst a), if full then Some (snd a) else None).
Definition g_key (full : bool) (g : opd) : key := (o_shape g, if full then Some (o_dt g) else None).
Definition a_build (_ : unit) (a : arg) : opd := mkop (snd (fst a)) (snd a).
Definition a_use (_ : unit) (g : opd) (a : arg) : res := apply_m (a_slot a) g (snd (fst a)) (snd a).

Definition acall full := call unit arg meth key opd res a_slot (a_key full) meth_eqb key_eqb a_build a_use tt.
Definition arun full := run unit arg meth key opd res a_slot (a_key full) meth_eqb key_eqb a_build a_use tt.

Definition sim (full : bool) (s : cstate meth key opd) (o : tvobj) : Prop :=
  forall m, s m = option_map (fun g => (g_key full g, g)) (get_m m o).

Lemma same_key_key full g sh d m :
  same_key full g sh d = key_eqb (g_key full g) (a_key full (m, sh, d)).
Proof. unfold same_key, key_eqb, g_key, a_key. cbn. destruct full; reflexivity. Qed.

Lemma sim_set full s o m g :
  sim full s o -> sim full (upd meth key opd meth_eqb s m (g_key full g, g)) (set_m m o g).
Proof.
  intros H m'. unfold upd. destruct (meth_eqb m m') eqn:E.
  - apply meth_eqb_spec in E. subst m'. destruct m; reflexivity.
  - rewrite H. destruct m, m'; try discriminate E; reflexivity.
Qed.

Lemma sim_call full a s o :
  sim full s o ->
  fst (acall full a s) = fst (tv_call full a o) /\
  sim full (snd (acall full a s)) (snd (tv_call full a o)).
Proof.
  intros H. destruct a as [[m sh] d]. unfold acall, call, tv_call, a_slot. cbn [fst snd].
  rewrite (H m). destruct (get_m m o) as [g|] eqn:E; cbn [option_map].
  - rewrite <- (same_key_key full g sh d m).
    destruct (same_key full g sh d); cbn [fst snd].
    + split; [reflexivity | exact H].
    + split; [reflexivity|]. apply (sim_set full s o m (mkop sh d) H).
  - cbn [fst snd]. split; [reflexivity|]. apply (sim_set full s o m (mkop sh d) H).
Qed.

Lemma sim_run full h : forall s o, sim full s o ->
  fst (arun full h s) = map fst (fst (tv_run full h o)).
Proof.
  induction h as [|a r IH]; intros s o H; cbn; [reflexivity|].
  destruct (sim_call full a s o H) as [H1 H2]. unfold acall in H1, H2.
  destruct (call unit arg meth key opd res a_slot (a_key full) meth_eqb key_eqb a_build a_use tt a s)
    as [[x b] s1] eqn:E1.
  destruct (tv_call full a o) as [[x' b'] o1] eqn:E2. cbn [fst snd] in H1, H2.
  specialize (IH s1 o1 H2).
  destruct (arun full r s1) as [xs s2].
  destruct (tv_run full r o1) as [ys o2]. cbn [fst snd map] in *. injection H1 as -> _. congruence.
Qed.

Definition abs_of (full : bool) (o : tvobj) : cstate meth key opd :=
  fun m => option_map (fun g => (g_key full g, g)) (get_m m o).
Lemma sim_abs full o : sim full (abs_of full o) o.
Proof. intro m. reflexivity. Qed.

Lemma fresh_is_use full (a : arg) :
  fresh_result unit arg opd res a_build a_use tt a = tv_fresh full None a.
Proof. destruct a as [[m sh] d]. unfold fresh_result, tv_fresh, tv_call. destruct m; reflexivity. Qed.

Lemma tv_results_single full decl a : tv_results full decl [a] = [tv_fresh full decl a].
Proof.
  unfold tv_results, tv_fresh. cbn [tv_run].
  destruct (tv_call full a (tv_init decl)) as [[x b] o1]. reflexivity.
Qed.

(** generic statement: admissible arguments [ok], key sufficient on them, invariant on the
    constructed object => every history of admissible calls returns the fresh results *)
Lemma tv_transparent_gen full (ok : arg -> Prop) decl :
  key_sufficient unit arg meth key opd a_slot (a_key full) a_build ok tt ->
  inv unit arg meth key opd a_slot (a_key full) a_build ok tt (abs_of full (tv_init decl)) ->
  forall h, Forall ok h -> tv_results full decl h = map (tv_fresh full None) h.
Proof.
  intros KS I h F. unfold tv_results.
  rewrite <- (sim_run full h _ _ (sim_abs full (tv_init decl))).
  unfold arun. rewrite (cache_transparent unit arg meth key opd res a_slot (a_key full) meth_eqb key_eqb
             meth_eqb_spec key_eqb_spec a_build a_use ok tt KS h _ I F).
  apply map_ext. intro a. apply fresh_is_use.
Qed.

(** (1) with the dtype in the cache test: transparent for EVERY history and every constructor
    declaration; results equal those of a fresh object built with the same arguments *)
Theorem tv_fullkey_transparent :
  forall decl h, tv_results true decl h = map (tv_fresh true decl) h.
Proof.
  intros decl h.
  assert (KS : key_sufficient unit arg meth key opd a_slot (a_key true) a_build (fun _ => True) tt).
  { intros [[m1 s1] d1] [[m2 s2] d2] _ _ _ Hk. unfold a_key in Hk. cbn in Hk. unfold a_build. cbn. congruence. }
  assert (I : forall dc, inv unit arg meth key opd a_slot (a_key true) a_build (fun _ => True) tt (abs_of true (tv_init dc))).
  { intros dc sl k v H [[m s] d] _ Hs Hk. unfold abs_of in H. destruct dc as [[sh0 d0]|]; cbn in H.
    - destruct sl; cbn in H; injection H as Hk' Hv; subst k v; unfold a_key in Hk; cbn in Hk;
        unfold g_key in Hk; cbn in Hk;
        unfold a_build; cbn; congruence.
    - destruct sl; discriminate H. }
  assert (Fa : forall l : list arg, Forall (fun _ => True) l) by (intro l; apply Forall_forall; auto).
  rewrite (tv_transparent_gen true _ decl KS (I decl) h (Fa h)).
  apply map_ext_in. intros a _.
  pose proof (tv_transparent_gen true _ decl KS (I decl) [a] (Fa [a])) as H1.
  rewrite tv_results_single in H1. cbn [map] in H1. congruence.
Qed.

(** (2) the code as it is (shape-only test): transparent on histories that use ONE dtype
    (the declared one if the constructor was given a shape) *)
Definition decl_dt_ok (decl : option (shape * dt)) (d : dt) : Prop :=
  match decl with None => True | Some (_, d0) => d0 = d end.

Theorem tv_shapekey_transparent_one_dtype :
  forall d decl h, decl_dt_ok decl d -> Forall (fun a : arg => snd a = d) h ->
    tv_results false decl h = map (tv_fresh false decl) h.
Proof.
  intros d decl h Hd F.
  set (ok := fun a : arg => snd a = d).
  assert (KS : key_sufficient unit arg meth key opd a_slot (a_key false) a_build ok tt).
  { intros [[m1 s1] d1] [[m2 s2] d2] O1 O2 _ Hk. unfold ok in O1, O2. cbn in O1, O2.
    unfold a_key in Hk. cbn in Hk. unfold a_build. cbn. congruence. }
  assert (I : inv unit arg meth key opd a_slot (a_key false) a_build ok tt (abs_of false (tv_init decl))).
  { intros sl k v H [[m s] d1] O Hs Hk. unfold ok in O. cbn in O. unfold abs_of in H.
    destruct decl as [[sh0 d0]|]; cbn in H, Hd.
    - destruct sl; cbn in H; injection H as Hk' Hv; subst k v; unfold a_key, g_key in Hk; cbn in Hk;
        unfold a_build; cbn; congruence.
    - destruct sl; discriminate H. }
  rewrite (tv_transparent_gen false ok decl KS I h F).
  apply map_ext_in. intros a Ha.
  assert (Oa : Forall ok [a]). { constructor; [|constructor]. rewrite Forall_forall in F. apply F. exact Ha. }
  pose proof (tv_transparent_gen false ok decl KS I [a] Oa) as H1.
  rewrite tv_results_single in H1. cbn [map] in H1. congruence.
Qed.

(** (3) __call__ never depends on the cache (forward application has no dtype check) *)
Theorem tv_call_method_history_free :
  forall full o sh d, fst (fst (tv_call full (MCall, sh, d) o)) = RVal sh d.
Proof.
  intros full o sh d. unfold tv_call. cbn [get_m apply_m].
  destruct (tv_G o) as [g|].
  - destruct (same_key full g sh d) eqn:E; cbn [fst].
    + unfold same_key in E. apply andb_true_iff in E. destruct E as [E _].
      unfold fwd. rewrite E. reflexivity.
    + unfold fwd. cbn. rewrite shape_eqb_refl. reflexivity.
  - cbn [fst]. unfold fwd. cbn. rewrite shape_eqb_refl. reflexivity.
Qed.

(** (4) the code as it is: NOT transparent.  Witness history: prox on a float64 array, then
    prox on a complex128 array of the same shape: the second call raises, a fresh object
    returns a value. *)
Definition witness_hist : list arg := [(MProx, [3; 4], F64); (MProx, [3; 4], C128)].

Lemma tv_shapekey_refuted :
  exists decl h, tv_results false decl h <> map (tv_fresh false decl) h.
Proof. exists None, witness_hist. vm_compute. intro H. discriminate H. Qed.

Lemma tv_shapekey_refuted_values :
  tv_results false None witness_hist = [RVal [3; 4] F64; RRaise] /\
  map (tv_fresh false None) witness_hist = [RVal [3; 4] F64; RVal [3; 4] C128] /\
  tv_rebuilds false None witness_hist = [true; false] /\
  tv_rebuilds true None witness_hist = [true; true].
Proof. vm_compute. repeat split. Qed.

(** rebuild pattern of the real code: a call rebuilds its group iff the group is empty or
    was built for another shape *)
Theorem tv_rebuild_iff_shape_changes :
  forall a o, snd (fst (tv_call false a o)) =
    match get_m (a_slot a) o with
    | Some g => negb (shape_eqb (o_shape g) (snd (fst a)))
    | None => true
    end.
Proof.
  intros [[m sh] d] o. unfold tv_call, a_slot. cbn [fst snd].
  destruct (get_m m o) as [g|]; [|reflexivity].
  unfold same_key. rewrite andb_true_r. destruct (shape_eqb (o_shape g) sh); reflexivity.
Qed.

(** ---- harness interface (evaluated by vm_compute in generated case files) ---- *)
Definition res_code (r : res) : nat := match r with RVal _ _ => 0 | RRaise => 1 end.
Definition dt_of_nat (n : nat) : dt :=
  match n with 0 => F32 | 1 => F64 | 2 => C64 | _ => C128 end.
Definition meth_of_nat (n : nat) : meth := match n with 0 => MCall | _ => MProx end.
Definition mk_arg (t : nat * list nat * nat) : arg :=
  let '(m, sh, d) := t in (meth_of_nat m, sh, dt_of_nat d).
Definition mk_decl (t : option (list nat * nat)) : option (shape * dt) :=
  option_map (fun p => (fst p, dt_of_nat (snd p))) t.

(** case = (decl, history, observed (raise code, rebuilt?) per call) *)
Definition tv_case_ok_gen (full : bool)
           (c : option (list nat * nat) * list (nat * list nat * nat) * list (nat * bool)) : bool :=
  let '(decl, h, obs) := c in
  let r := fst (tv_run full (map mk_arg h) (tv_init (mk_decl decl))) in
  Nat.eqb (length r) (length obs) &&
  forallb (fun p => Nat.eqb (res_code (fst (fst p))) (fst (snd p)) && Bool.eqb (snd (fst p)) (snd (snd p)))
          (combine r obs).

Definition tv_case_ok := tv_case_ok_gen false.      (* the code as it is *)
Definition tv_case_ok_fixed := tv_case_ok_gen true. (* the code with the dtype in the cache test *)

Fixpoint bad_idx {A} (f : A -> bool) (l : list A) (i : nat) : list nat :=
  match l with [] => [] | x :: r => if f x then bad_idx f r (S i) else i :: bad_idx f r (S i) end.
