(** C20 (c) -- checkpoint store specification for scico/flax/train/checkpoints.py
    (orbax CheckpointManager(max_to_keep=3, create=True); restore of latest_step) and the
    resume arithmetic of scico/flax/train/trainer.py. *)
From Coq Require Import List Arith Lia Bool.
Import ListNotations.
Set Implicit Arguments.

Section Ckpt.
  Variable S : Type.              (* a train state *)
  Variable step_of : S -> nat.    (* state.step *)

  (** directory contents: step |-> state, kept sorted by decreasing step *)
  Definition store := list (nat * S).
  Definition ent (v : S) : nat * S := (step_of v, v).

  Fixpoint insert (k : nat) (v : S) (l : store) : store :=
    match l with
    | [] => [(k, v)]
    | (k', v') :: r =>
        if k' <? k then (k, v) :: l
        else if k' =? k then l                     (* step already saved: save is skipped *)
        else (k', v') :: insert k v r
    end.

  (** checkpoint_save: create the directory if needed, add step state.step, keep the 3
      largest steps.  [None] = the directory does not exist. *)
  Definition save (v : S) (d : option store) : option store :=
    Some (firstn 3 (insert (step_of v) v (match d with Some l => l | None => [] end))).

  (** latest_step(): the largest step present (independent of the order of the list) *)
  Fixpoint latest (l : store) : option (nat * S) :=
    match l with
    | [] => None
    | e :: r => match latest r with
                | Some e' => if fst e <? fst e' then Some e' else Some e
                | None => Some e
                end
    end.

  Inductive result := Restored (v : S) | FileNotFound.

  (** checkpoint_restore(state, workdir, ok_no_ckpt) *)
  Definition restore (input : S) (d : option store) (ok_no_ckpt : bool) : result :=
    match d with
    | Some l => match latest l with Some (_, v) => Restored v | None => Restored input end
    | None => if ok_no_ckpt then Restored input else FileNotFound
    end.

  Definition saves (vs : list S) (d : option store) : option store :=
    fold_left (fun d v => save v d) vs d.

  (** strictly increasing steps *)
  Fixpoint increasing (v0 : S) (vs : list S) : Prop :=
    match vs with [] => True | v1 :: r => step_of v0 < step_of v1 /\ increasing v1 r end.

  Definition above (k : nat) (l : store) : Prop := Forall (fun e => fst e < k) l.
  Definition dir_above (k : nat) (d : option store) : Prop :=
    match d with Some l => above k l | None => True end.
  Definition contents (d : option store) : store := match d with Some l => l | None => [] end.

  Lemma insert_above k v l : above k l -> insert k v l = (k, v) :: l.
  Proof.
    destruct l as [|[k' v'] r]; [reflexivity|]. intros H. inversion H as [|? ? Hk _]; subst.
    cbn [fst] in Hk. cbn [insert]. apply Nat.ltb_lt in Hk. now rewrite Hk.
  Qed.

  Lemma save_above v d : dir_above (step_of v) d ->
    save v d = Some (ent v :: firstn 2 (contents d)).
  Proof.
    unfold save. intros H. destruct d as [l|]; cbn [contents dir_above] in *.
    - now rewrite insert_above.
    - reflexivity.
  Qed.

  Lemma above_firstn k n l : above k l -> above k (firstn n l).
  Proof.
    unfold above. revert n; induction l; intros [|n] H; cbn; auto.
    inversion H; subst. constructor; auto.
  Qed.

  Lemma above_lt k k' l : above k l -> k < k' -> above k' l.
  Proof. unfold above. intros H L. eapply Forall_impl; [|exact H]. cbn; intros; lia. Qed.

  Lemma latest_in l : forall e, latest l = Some e -> In e l.
  Proof.
    induction l as [|a r IH]; intros e E; [discriminate|]. cbn [latest] in E.
    destruct (latest r) as [e''|].
    - destruct (fst a <? fst e''); inversion E; subst; [right; now apply IH | now left].
    - inversion E; subst. now left.
  Qed.

  Lemma latest_above k v l : above k l -> latest ((k, v) :: l) = Some (k, v).
  Proof.
    intros H. cbn [latest]. destruct (latest l) as [e'|] eqn:E; [|reflexivity].
    apply latest_in in E. unfold above in H. rewrite Forall_forall in H. specialize (H _ E).
    cbn [fst]. destruct (k <? fst e') eqn:L; [apply Nat.ltb_lt in L; lia | reflexivity].
  Qed.

  Lemma firstn_app_firstn {A} n m (a b : list A) :
    n <= length a + m -> firstn n (a ++ firstn m b) = firstn n (a ++ b).
  Proof.
    intros H. rewrite !firstn_app. f_equal. rewrite firstn_firstn. f_equal. lia.
  Qed.

  Lemma saves_cons v vs d : saves (v :: vs) d = saves vs (save v d).
  Proof. reflexivity. Qed.
  Lemma saves_nil d : saves [] d = d.
  Proof. reflexivity. Qed.

  (** After any non-empty sequence of saves at strictly increasing steps (all above what the
      directory already held) the directory holds exactly the last three states saved. *)
  Theorem saves_contents vs : forall v0 d,
    increasing v0 vs -> dir_above (step_of v0) d ->
    saves (v0 :: vs) d = Some (firstn 3 (rev (map ent (v0 :: vs)) ++ contents d)).
  Proof.
    induction vs as [|v1 r IH]; intros v0 d Hi Ha.
    - rewrite saves_cons, saves_nil, save_above by assumption. cbn [map rev app firstn]. reflexivity.
    - destruct Hi as [L Hi]. rewrite saves_cons, (@save_above v0 d) by assumption.
      rewrite IH; [| assumption |].
      + cbn [contents]. f_equal.
        set (A := rev (map ent (v1 :: r))).
        assert (EA : rev (map ent (v0 :: v1 :: r)) = A ++ [ent v0]) by reflexivity.
        rewrite EA, <- app_assoc. cbn [app].
        change (A ++ ent v0 :: firstn 2 (contents d)) with (A ++ [ent v0] ++ firstn 2 (contents d)).
        change (A ++ ent v0 :: contents d) with (A ++ [ent v0] ++ contents d).
        rewrite !app_assoc. apply firstn_app_firstn. rewrite app_length. cbn. lia.
      + cbn [dir_above]. constructor; [exact L|].
        apply above_firstn. destruct d as [l|]; cbn [contents dir_above] in *.
        * eapply above_lt; eauto.
        * constructor.
  Qed.

  Lemma last_indep {A} (l : list A) : forall a d d', last (a :: l) d = last (a :: l) d'.
  Proof.
    induction l as [|b l IH]; intros a d d'; [reflexivity|].
    change (last (b :: l) d = last (b :: l) d'). apply IH.
  Qed.
  Lemma last_cons_shift {A} (r : list A) v1 v0 : last (v1 :: r) v0 = last r v1.
  Proof. destruct r as [|b r]; [reflexivity|]. change (last (b :: r) v0 = last (b :: r) v1). apply last_indep. Qed.

  Lemma saves_head vs : forall v0 d,
    increasing v0 vs -> dir_above (step_of v0) d ->
    exists l, saves (v0 :: vs) d = Some (ent (last vs v0) :: l) /\ above (step_of (last vs v0)) l.
  Proof.
    induction vs as [|v1 r IH]; intros v0 d Hi Ha.
    - rewrite saves_cons, saves_nil, save_above by assumption. cbn [last]. eexists; split; [reflexivity|].
      apply above_firstn. destruct d; cbn in *; [assumption | constructor].
    - destruct Hi as [L Hi]. rewrite saves_cons, (@save_above v0 d) by assumption.
      destruct (IH v1 (Some (ent v0 :: firstn 2 (contents d))) Hi) as (l & E & A).
      + cbn [dir_above]. constructor; [exact L|]. apply above_firstn.
        destruct d as [l|]; cbn [contents dir_above] in *; [eapply above_lt; eauto | constructor].
      + rewrite (last_cons_shift r v1 v0). exists l. split; [exact E | exact A].
  Qed.

  (** ... and restore returns the state of the largest step = the last one saved *)
  Theorem restore_latest vs v0 d input ok :
    increasing v0 vs -> dir_above (step_of v0) d ->
    restore input (saves (v0 :: vs) d) ok = Restored (last vs v0).
  Proof.
    intros Hi Ha. destruct (saves_head vs v0 d Hi Ha) as (l & E & A).
    rewrite E. unfold restore, ent. now rewrite latest_above.
  Qed.

  (** missing directory: the input state iff ok_no_ckpt, else FileNotFoundError;
      existing directory without any step: the input state *)
  Theorem restore_missing input ok :
    restore input None ok = if ok then Restored input else FileNotFound.
  Proof. reflexivity. Qed.
  Theorem restore_empty input ok : restore input (Some []) ok = Restored input.
  Proof. reflexivity. Qed.

  (** trainer: the state is restored with ok_no_ckpt = True; step_offset = int(state.step);
      the loop runs over range(step_offset, num_steps) *)
  Definition resume_offset (input : S) (d : option store) : nat :=
    match restore input d true with Restored v => step_of v | FileNotFound => 0 end.
  Definition loop_steps (input : S) (d : option store) (num_steps : nat) : list nat :=
    seq (resume_offset input d) (num_steps - resume_offset input d).

  Theorem resume_after_saves vs v0 d input num_steps :
    increasing v0 vs -> dir_above (step_of v0) d ->
    let d' := saves (v0 :: vs) d in
    resume_offset input d' = step_of (last vs v0) /\
    length (loop_steps input d' num_steps) = num_steps - step_of (last vs v0) /\
    (forall k, In k (loop_steps input d' num_steps) <-> step_of (last vs v0) <= k < num_steps).
  Proof.
    intros Hi Ha d'. unfold loop_steps, resume_offset, d'.
    rewrite (restore_latest vs v0 d input true Hi Ha).
    split; [reflexivity|]. split; [apply seq_length|].
    intros k. rewrite in_seq. lia.
  Qed.

  Theorem resume_fresh input : resume_offset input None = step_of input.
  Proof. reflexivity. Qed.
End Ckpt.

(** The full training-state record of scico/flax/train/state.py (flax TrainState + batch_stats):
    everything the trainer needs to continue.  The store keeps *states* (the theorems above are
    over an arbitrary state type), so restoring returns every field of the saved record -- in
    particular [opt_state] (momentum trace, Adam moments, schedule / step counts) -- and any
    function of the state, such as the next training step [apply_gradients], gives the same
    result as in the uninterrupted run. *)
Section FullState.
  Variables P B O G : Type.      (* params, batch_stats, opt_state trees; gradients *)
  Record tstate := mkts { ts_step : nat; ts_params : P; ts_batch_stats : B; ts_opt_state : O }.
  Variable apply_gradients : tstate -> G -> tstate.

  Theorem restore_full_state (vs : list tstate) (v0 : tstate) (d : option (store tstate))
          (fresh : tstate) (ok : bool) :
    increasing ts_step v0 vs -> dir_above (ts_step v0) d ->
    exists r, restore fresh (saves ts_step (v0 :: vs) d) ok = Restored r /\
      let s := last vs v0 in
      ts_step r = ts_step s /\ ts_params r = ts_params s /\
      ts_batch_stats r = ts_batch_stats s /\ ts_opt_state r = ts_opt_state s /\
      forall g, apply_gradients r g = apply_gradients s g.
  Proof.
    intros Hi Ha. exists (last vs v0). split.
    - now apply restore_latest.
    - cbn. repeat split; reflexivity.
  Qed.
End FullState.
