(** C20 -- executable instances used by the correspondence harness. *)
From Coq Require Import List Arith Bool.
From SV Require Import C20.FlaxMap C20.IterateData C20.Checkpoint C20.Sharding.
Import ListNotations.

Fixpoint list_eqb {A} (eqb : A -> A -> bool) (a b : list A) : bool :=
  match a, b with
  | [], [] => true
  | x :: a', y :: b' => eqb x y && list_eqb eqb a' b'
  | _, _ => false
  end.
Definition shape_eqb := list_eqb Nat.eqb.

Fixpoint bad_idx {A} (f : A -> bool) (l : list A) (i : nat) : list nat :=
  match l with [] => [] | x :: r => if f x then bad_idx f r (S i) else i :: bad_idx f r (S i) end.

(** FlaxMap: (input shape, shape model.apply received, shape it returned, shape of FlaxMap(x)) *)
Definition flax_case_ok (c : list nat * list nat * list nat * list nat) : bool :=
  let '(sin, srecv, snet, sout) := c in
  let r := call (fun _ : tens unit => mkt snet []) (mkt sin []) in
  shape_eqb (tshape (snd r)) srecv &&
  match fst r with Ok t => shape_eqb (tshape t) sout | SqueezeError _ => false end.

(** IterateData: keys are epoch numbers, the e-th reset draws the e-th recorded permutation *)
Definition is_perm (n : nat) (p : list nat) : bool :=
  Nat.eqb (length p) n && forallb (fun i => existsb (Nat.eqb i) p) (seq 0 n).

Definition iter_case_ok (c : nat * nat * bool * list (list nat) * list (list nat)) : bool :=
  let '(n, b, train, perms, batches) := c in
  let split := fun k : nat => (S k, k) in
  let perm := fun (k : nat) (_ : nat) => nth k perms [] in
  (1 <=? b) && (b <=? n) && forallb (is_perm n) perms &&
  list_eqb shape_eqb
    (fst (nexts split perm n b train (length batches) (init split perm n b train 0)))
    batches.

(** checkpoints: states are (step, payload id); saves into a fresh directory, then the
    directory listing (steps, decreasing) and the restored state *)
Definition ckpt_case_ok (c : list (nat * nat) * list nat * (nat * nat)) : bool :=
  let '(vs, listing, restored) := c in
  let d := saves (@fst nat nat) vs None in
  shape_eqb (map fst (contents d)) listing &&
  match restore (0, 0) d false with
  | Restored v => Nat.eqb (fst v) (fst restored) && Nat.eqb (snd v) (snd restored)
  | FileNotFound _ => false
  end.

(** prepare_data on D devices: (D, rows of the host batch, rows held by each device) *)
Definition shard_case_ok (c : nat * list nat * list (list nat)) : bool :=
  let '(D, rows, shards) := c in
  (1 <=? D) && Nat.eqb (D * (length rows / D)) (length rows) &&
  list_eqb shape_eqb (shard D (length rows / D) rows) shards &&
  shape_eqb (unshard shards) rows.
