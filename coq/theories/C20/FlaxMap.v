(** C20 (a) -- FlaxMap.__call__ (scico/flax/_flax.py): axis bookkeeping around model.apply.
    Arrays are shape + flat data (reshape with added unit axes and squeeze keep the data).
    The network ([apply]) is a Section variable. *)
From Coq Require Import List Arith Lia Bool.
Import ListNotations.
Set Implicit Arguments.

Record tens (E : Type) := mkt { tshape : list nat; tdata : list E }.

(** numpy squeeze(axis=axes): remove the listed positions, ValueError unless they are 1 *)
Fixpoint squeeze_from (i : nat) (axes : list nat) (s : list nat) : option (list nat) :=
  match s with
  | [] => Some []
  | d :: r =>
      if existsb (Nat.eqb i) axes
      then (if d =? 1 then squeeze_from (S i) axes r else None)
      else option_map (cons d) (squeeze_from (S i) axes r)
  end.
(** squeeze(axis=None): remove every unit axis *)
Definition squeeze_all (s : list nat) : list nat := filter (fun d => negb (d =? 1)) s.

Section Call.
  Variable E : Type.
  Variable apply : tens E -> tens E.   (* model.apply(variables, . , train=False, mutable=False) *)

  (** the reshape before the call and the value of [axsqueeze] *)
  Definition prep (s : list nat) : list nat * option (list nat) :=
    match s with
    | [h; w] => ([1; h; w; 1], Some [0; 3])
    | [h; w; c] => ([1; h; w; c], Some [0])
    | _ => (s, None)
    end.

  Inductive outcome := Ok (t : tens E) | SqueezeError.

  (** result, and the array the network received *)
  Definition call (x : tens E) : outcome * tens E :=
    let (s', ax) := prep (tshape x) in
    let xin := mkt s' (tdata x) in
    let y := apply xin in
    if length (tshape y) =? length (tshape x) then (Ok y, xin)
    else match ax with
         | Some a =>
             match squeeze_from 0 a (tshape y) with
             | Some s'' => (Ok (mkt s'' (tdata y)), xin)
             | None => (SqueezeError, xin)
             end
         | None => (Ok (mkt (squeeze_all (tshape y)) (tdata y)), xin)
         end.

  (** (H,W): the network receives the (1,H,W,1) batch with the same data; if it returns a
      (1,H',W',1) array (rank and batch axis preserved, one channel) exactly the two added
      axes are removed, data untouched *)
  Theorem call_rank2 d h w :
    let x := mkt [h; w] d in
    let xin := mkt [1; h; w; 1] d in
    snd (call x) = xin /\
    forall h' w', tshape (apply xin) = [1; h'; w'; 1] ->
                  fst (call x) = Ok (mkt [h'; w'] (tdata (apply xin))).
  Proof.
    cbn [call prep tshape tdata]. split.
    - destruct (_ =? _); [reflexivity|]. destruct (squeeze_from _ _ _); reflexivity.
    - intros h' w' Hs. rewrite Hs. cbn. reflexivity.
  Qed.

  (** (H,W,C): the network receives (1,H,W,C); the batch axis alone is removed *)
  Theorem call_rank3 d h w c :
    let x := mkt [h; w; c] d in
    let xin := mkt [1; h; w; c] d in
    snd (call x) = xin /\
    forall h' w' c', tshape (apply xin) = [1; h'; w'; c'] ->
                     fst (call x) = Ok (mkt [h'; w'; c'] (tdata (apply xin))).
  Proof.
    cbn [call prep tshape tdata]. split.
    - destruct (_ =? _); [reflexivity|]. destruct (squeeze_from _ _ _); reflexivity.
    - intros h' w' c' Hs. rewrite Hs. cbn. reflexivity.
  Qed.

  (** (K,H,W,C): passed as is, result returned as is (network preserves the rank) *)
  Theorem call_rank4 d k h w c :
    let x := mkt [k; h; w; c] d in
    snd (call x) = x /\
    (length (tshape (apply x)) = 4 -> fst (call x) = Ok (apply x)).
  Proof.
    cbn [call prep tshape tdata]. split.
    - destruct (_ =? _); reflexivity.
    - intros H. rewrite H. reflexivity.
  Qed.

  (** rank-2 input and a network that returns more than one channel: squeeze raises *)
  Theorem call_rank2_multichannel d h w h' w' c' :
    let x := mkt [h; w] d in
    tshape (apply (mkt [1; h; w; 1] d)) = [1; h'; w'; c'] -> c' <> 1 ->
    fst (call x) = SqueezeError.
  Proof.
    cbn [call prep tshape tdata]. intros Hs Hc. rewrite Hs. cbn.
    destruct (c' =? 1) eqn:Ec; [apply Nat.eqb_eq in Ec; contradiction | reflexivity].
  Qed.
End Call.
