(** C20 (b) -- IterateData (scico/flax/train/input_pipeline.py) as a state machine.
    [split] = jax.random.split (returns (new key, subkey)), [perm] = jax.random.permutation
    are Section variables; [perm k n] is assumed to be a permutation of 0..n-1. *)
From Coq Require Import List Arith Lia Bool Permutation.
Import ListNotations.
Set Implicit Arguments.

(** ---------------------------------------------------------------- list facts *)
Lemma skipn_nth_cons {A} (d : A) : forall n (l : list A),
  n < length l -> skipn n l = nth n l d :: skipn (S n) l.
Proof.
  induction n as [|n IH]; intros [|a l] H; cbn in *; try lia; [reflexivity|].
  apply IH. lia.
Qed.

Lemma firstn_seq_le a n m : m <= n -> firstn m (seq a n) = seq a m.
Proof.
  revert a n; induction m as [|m IH]; intros a [|n] H; cbn; try reflexivity; try lia.
  f_equal. apply IH. lia.
Qed.

Lemma firstn_In {A} (x : A) : forall n l, In x (firstn n l) -> In x l.
Proof.
  induction n as [|n IH]; intros [|a l] H; cbn in *; try contradiction.
  destruct H as [->|H]; [now left | right; now apply IH].
Qed.

Lemma NoDup_firstn {A} n (l : list A) : NoDup l -> NoDup (firstn n l).
Proof.
  revert n; induction l as [|a l IH]; intros [|n] H; cbn; try constructor.
  - inversion H; subst. intro I. apply firstn_In in I. contradiction.
  - inversion H; subst. auto.
Qed.

Lemma NoDup_app_r {A} (a b : list A) : NoDup (a ++ b) -> NoDup b.
Proof. induction a as [|x a IH]; cbn; intros H; [exact H|]. inversion H; subst. auto. Qed.

Lemma NoDup_app_disj {A} (a b : list A) x : NoDup (a ++ b) -> In x a -> In x b -> False.
Proof.
  induction a as [|y a IH]; cbn; intros H Ha Hb; [contradiction|].
  inversion H; subst. destruct Ha as [->|Ha].
  - apply H2. apply in_or_app. now right.
  - now apply IH.
Qed.

Lemma NoDup_concat_disjoint {A} (L : list (list A)) :
  NoDup (concat L) ->
  forall i j x, i < j -> In x (nth i L []) -> In x (nth j L []) -> False.
Proof.
  induction L as [|r L IH]; intros H i j x Hij Hi Hj.
  - destruct i; cbn in Hi; contradiction.
  - cbn [concat] in H. destruct j as [|j]; [lia|]. cbn [nth] in Hj.
    destruct i as [|i]; cbn [nth] in Hi.
    + assert (In x (concat L)).
      { apply in_concat. exists (nth j L []). split; [|exact Hj].
        destruct (Nat.lt_ge_cases j (length L)) as [Lt|Ge].
        - now apply nth_In.
        - rewrite nth_overflow in Hj by exact Ge. contradiction. }
      eapply NoDup_app_disj; eauto.
    + apply NoDup_app_r in H. eapply (IH H i j x); eauto. lia.
Qed.

Section Iter.
  Variable Key : Type.
  Variable split : Key -> Key * Key.
  Variable perm : Key -> nat -> list nat.
  Hypothesis perm_ok : forall k n, Permutation (perm k n) (seq 0 n).

  Variables n b : nat.                  (* dataset size, batch size *)
  Hypothesis b_pos : 1 <= b.
  Hypothesis b_le_n : b <= n.
  Variable train : bool.

  Definition steps : nat := n / b.      (* steps_per_epoch *)

  (** perms[: steps*b].reshape((steps, b)) *)
  Fixpoint chunk (k : nat) (l : list nat) : list (list nat) :=
    match k with 0 => [] | S k' => firstn b l :: chunk k' (skipn b l) end.

  Record st := mkst { s_key : Key; s_perms : list (list nat); s_ns : nat }.

  Definition reset (s : st) : st :=
    if train
    then let (k', sub) := split (s_key s) in
         mkst k' (chunk steps (firstn (steps * b) (perm sub n))) 0
    else mkst (s_key s) (chunk steps (firstn (steps * b) (seq 0 n))) 0.

  Definition init (k : Key) : st := reset (mkst k [] 0).

  (** __next__: the index vector of the batch, and the new state *)
  Definition next (s : st) : list nat * st :=
    let s1 := if steps <=? s_ns s
              then (if train then reset s else mkst (s_key s) (s_perms s) 0)
              else s in
    (nth (s_ns s1) (s_perms s1) [], mkst (s_key s1) (s_perms s1) (S (s_ns s1))).

  Fixpoint nexts (k : nat) (s : st) : list (list nat) * st :=
    match k with
    | 0 => ([], s)
    | S k' => let (o, s1) := next s in let (os, s2) := nexts k' s1 in (o :: os, s2)
    end.

  (** ---- arithmetic *)
  Lemma steps_pos : 1 <= steps.
  Proof. unfold steps. apply Nat.div_le_lower_bound; lia. Qed.
  Lemma steps_b_le : steps * b <= n.
  Proof. unfold steps. rewrite Nat.mul_comm. apply Nat.mul_div_le. lia. Qed.

  (** ---- chunk *)
  Lemma chunk_length k l : length (chunk k l) = k.
  Proof. revert l; induction k; intros l; cbn; auto. Qed.

  Lemma chunk_concat k : forall l, length l = k * b -> concat (chunk k l) = l.
  Proof.
    induction k as [|k IH]; intros l H; cbn in *.
    - destruct l; [reflexivity | discriminate].
    - rewrite IH by (rewrite skipn_length; lia). apply firstn_skipn.
  Qed.

  Lemma chunk_rows k : forall l, length l = k * b -> Forall (fun r => length r = b) (chunk k l).
  Proof.
    induction k as [|k IH]; intros l H; cbn in *; constructor.
    - rewrite firstn_length. lia.
    - apply IH. rewrite skipn_length. lia.
  Qed.

  (** ---- the closed form: key sequence and rows of epoch e *)
  Fixpoint keyseq (k0 : Key) (e : nat) : Key :=
    match e with 0 => k0 | S e' => fst (split (keyseq k0 e')) end.
  Definition subkey (k0 : Key) (e : nat) : Key := snd (split (keyseq k0 e)).
  Definition source (k0 : Key) (e : nat) : list nat :=
    if train then perm (subkey k0 e) n else seq 0 n.
  Definition rows (k0 : Key) (e : nat) : list (list nat) :=
    chunk steps (firstn (steps * b) (source k0 e)).

  Lemma source_perm k0 e : Permutation (source k0 e) (seq 0 n).
  Proof. unfold source. destruct train; [apply perm_ok | apply Permutation_refl]. Qed.

  Lemma source_length k0 e : length (source k0 e) = n.
  Proof. rewrite (Permutation_length (source_perm k0 e)). apply seq_length. Qed.

  Lemma rows_src_length k0 e : length (firstn (steps * b) (source k0 e)) = steps * b.
  Proof. rewrite firstn_length, source_length. pose proof steps_b_le. lia. Qed.

  (** each epoch: floor(n/b) batches, each of b indices; all distinct (hence the batches are
      pairwise disjoint: sampling without replacement), all < n; covers floor(n/b)*b samples *)
  Theorem epoch_structure k0 e :
    length (rows k0 e) = n / b /\
    Forall (fun r => length r = b) (rows k0 e) /\
    NoDup (concat (rows k0 e)) /\
    Forall (fun i => i < n) (concat (rows k0 e)) /\
    length (concat (rows k0 e)) = (n / b) * b /\
    (forall i j x, i < j -> In x (nth i (rows k0 e) []) -> In x (nth j (rows k0 e) []) -> False).
  Proof.
    pose proof (rows_src_length k0 e) as HL.
    assert (HC : concat (rows k0 e) = firstn (steps * b) (source k0 e))
      by (unfold rows; now apply chunk_concat).
    assert (ND : NoDup (concat (rows k0 e))).
    { rewrite HC. apply NoDup_firstn.
      apply (Permutation_NoDup (Permutation_sym (source_perm k0 e))). apply seq_NoDup. }
    repeat split.
    - unfold rows. apply chunk_length.
    - unfold rows. now apply chunk_rows.
    - exact ND.
    - rewrite HC. apply Forall_forall. intros i Hi. apply firstn_In in Hi.
      apply (Permutation_in _ (source_perm k0 e)) in Hi. apply in_seq in Hi. lia.
    - rewrite HC. exact HL.
    - now apply NoDup_concat_disjoint.
  Qed.

  (** evaluation iterator: every epoch is 0 .. floor(n/b)*b-1 in order *)
  Theorem eval_order k0 e : train = false -> concat (rows k0 e) = seq 0 ((n / b) * b).
  Proof.
    intros T. pose proof (rows_src_length k0 e) as HL.
    unfold rows. rewrite chunk_concat by exact HL. unfold source. rewrite T.
    apply firstn_seq_le. apply steps_b_le.
  Qed.

  (** ---- the machine follows the closed form *)
  Definition sa (k0 : Key) (e ns : nat) : st :=
    mkst (if train then keyseq k0 (S e) else k0) (rows k0 e) ns.

  Lemma rows_eval_const k0 e e' : train = false -> rows k0 e = rows k0 e'.
  Proof. intros T. unfold rows, source. now rewrite T. Qed.

  Lemma init_sa k0 : init k0 = sa k0 0 0.
  Proof.
    unfold init, reset, sa, rows, source, subkey. cbn [s_key keyseq].
    destruct train; [|reflexivity]. now destruct (split k0).
  Qed.

  Lemma reset_sa k0 e ns : reset (sa k0 e ns) = sa k0 (S e) 0 \/ train = false.
  Proof.
    unfold reset, sa, rows, source, subkey. destruct train; [left | now right].
    cbn [s_key]. change (fst (split (keyseq k0 e))) with (keyseq k0 (S e)).
    cbn [keyseq]. now destruct (split (fst (split (keyseq k0 e)))).
  Qed.

  Lemma next_inside k0 e ns : ns < steps ->
    next (sa k0 e ns) = (nth ns (rows k0 e) [], sa k0 e (S ns)).
  Proof.
    intros H. unfold next. cbn [s_ns sa].
    destruct (steps <=? ns) eqn:E; [apply Nat.leb_le in E; lia|]. reflexivity.
  Qed.

  Lemma next_wrap k0 e :
    next (sa k0 e steps) = (nth 0 (rows k0 (S e)) [], sa k0 (S e) 1).
  Proof.
    unfold next. cbn [s_ns sa]. rewrite Nat.leb_refl.
    destruct (reset_sa k0 e steps) as [R|T].
    - fold (sa k0 e steps). destruct train eqn:T.
      + rewrite R. reflexivity.
      + unfold sa. rewrite T. cbn [s_ns s_perms s_key].
        now rewrite (rows_eval_const k0 e (S e) T).
    - fold (sa k0 e steps). rewrite T. unfold sa. rewrite T. cbn [s_ns s_perms s_key].
      now rewrite (rows_eval_const k0 e (S e) T).
  Qed.

  Lemma nexts_inside k0 e : forall j ns, ns + j <= steps ->
    nexts j (sa k0 e ns) = (firstn j (skipn ns (rows k0 e)), sa k0 e (ns + j)).
  Proof.
    induction j as [|j IH]; intros ns H.
    - cbn. now rewrite Nat.add_0_r.
    - cbn [nexts]. rewrite next_inside by lia. rewrite IH by lia.
      rewrite (@skipn_nth_cons _ [] ns (rows k0 e)) by (unfold rows; rewrite chunk_length; lia).
      cbn [firstn]. replace (S ns + j) with (ns + S j) by lia. reflexivity.
  Qed.

  Lemma nexts_app a : forall c s,
    nexts (a + c) s =
    let (o1, s1) := nexts a s in let (o2, s2) := nexts c s1 in (o1 ++ o2, s2).
  Proof.
    induction a as [|a IH]; intros c s.
    - cbn. now destruct (nexts c s).
    - cbn [Nat.add nexts]. destruct (next s) as [o s1]. rewrite IH.
      destruct (nexts a s1) as [o1 s2]. destruct (nexts c s2) as [o2 s3]. reflexivity.
  Qed.

  Lemma first_epoch k0 : nexts steps (init k0) = (rows k0 0, sa k0 0 steps).
  Proof.
    rewrite init_sa, nexts_inside by lia. cbn [skipn Nat.add].
    f_equal. apply firstn_all2. unfold rows. rewrite chunk_length. lia.
  Qed.

  Lemma later_epoch k0 e : nexts steps (sa k0 e steps) = (rows k0 (S e), sa k0 (S e) steps).
  Proof.
    pose proof steps_pos as P. destruct steps as [|m] eqn:Es; [lia|].
    cbn [nexts]. rewrite <- Es at 1. rewrite next_wrap.
    assert (H := nexts_inside k0 (S e) m 1). rewrite Es in H. rewrite H by lia.
    f_equal.
    - assert (LR : length (rows k0 (S e)) = S m) by (unfold rows; rewrite chunk_length; exact Es).
      destruct (rows k0 (S e)) as [|r0 rs]; [discriminate|]. cbn [nth skipn]. f_equal.
      apply firstn_all2. cbn in LR. lia.
  Qed.

  (** E+1 whole epochs: the concatenation of the epochs' rows *)
  Theorem whole_epochs k0 E :
    nexts (S E * steps) (init k0) = (concat (map (rows k0) (seq 0 (S E))), sa k0 E steps).
  Proof.
    induction E as [|E IH].
    - cbn [Nat.mul]. rewrite Nat.add_0_r, first_epoch. cbn. now rewrite app_nil_r.
    - replace (S (S E) * steps) with (S E * steps + steps) by lia.
      rewrite nexts_app, IH, later_epoch.
      rewrite (seq_S (S E) 0), map_app, concat_app. cbn [Nat.add map concat]. now rewrite app_nil_r.
  Qed.

  Lemma nexts_length k : forall s, length (fst (nexts k s)) = k.
  Proof.
    induction k as [|k IH]; intros s; [reflexivity|]. cbn [nexts].
    destruct (next s) as [o s']. specialize (IH s'). destruct (nexts k s') as [os s''].
    cbn [fst length] in *. now rewrite IH.
  Qed.

  Lemma nexts_prefix k : forall m s, k <= m -> fst (nexts k s) = firstn k (fst (nexts m s)).
  Proof.
    intros m s H. replace m with (k + (m - k)) by lia. rewrite nexts_app.
    destruct (nexts k s) as [o1 s1] eqn:E1. destruct (nexts (m - k) s1) as [o2 s2]. cbn [fst].
    assert (L : length o1 = k) by (rewrite <- (nexts_length k s), E1; reflexivity).
    rewrite firstn_app, L, Nat.sub_diag, firstn_all2 by lia. cbn. now rewrite app_nil_r.
  Qed.

  (** any number k of __next__ calls after construction: the first k batches of the
      concatenated epochs (a function of the initial key, n, b only) *)
  Theorem batches_closed_form k0 k E : k <= S E * steps ->
    fst (nexts k (init k0)) = firstn k (concat (map (rows k0) (seq 0 (S E)))).
  Proof.
    intros H. rewrite (nexts_prefix (init k0) H), whole_epochs. reflexivity.
  Qed.

  (** pairing: every array of the dataset is indexed with the same vector *)
  Definition select {X} (d : X) (data : list X) (idx : list nat) : list X :=
    map (fun i => nth i data d) idx.

  Theorem pairing {X Y} (g : X -> Y) (dx : X) (images : list X) (idx : list nat) :
    Forall (fun i => i < length images) idx ->
    select (g dx) (map g images) idx = map g (select dx images idx).
  Proof.
    unfold select. rewrite map_map. intros H. apply map_ext_in. intros i Hi.
    rewrite Forall_forall in H. specialize (H i Hi). now rewrite map_nth.
  Qed.
End Iter.
