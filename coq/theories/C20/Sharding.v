(** C20 -- prepare_data (scico/flax/train/input_pipeline.py): a host batch of D*m rows is
    reshaped to (D, m, ...): device d receives the contiguous block of rows d*m .. d*m+m-1.
    Un-sharding (concatenating the device shards in device order) gives the batch back, so
    the order of the rows -- dataset order for the evaluation iterator -- is preserved. *)
From Coq Require Import List Arith Lia.
Import ListNotations.
Set Implicit Arguments.

Section Shard.
  Variable A : Type.

  Lemma skipn_add : forall b a (l : list A), skipn a (skipn b l) = skipn (b + a) l.
  Proof.
    induction b as [|b IH]; intros a l; [reflexivity|]. destruct l as [|x l]; cbn [skipn Nat.add].
    - now rewrite skipn_nil.
    - apply IH.
  Qed.
  Lemma nth_firstn_lt : forall m i (l : list A) d, i < m -> nth i (firstn m l) d = nth i l d.
  Proof.
    induction m as [|m IH]; intros i l d H; [lia|]. destruct l as [|x l]; [now destruct i|].
    destruct i as [|i]; [reflexivity|]. cbn. apply IH. lia.
  Qed.
  Lemma nth_skipn_add : forall k i (l : list A) d, nth i (skipn k l) d = nth (k + i) l d.
  Proof.
    induction k as [|k IH]; intros i l d; [reflexivity|]. destruct l as [|x l]; cbn [skipn Nat.add nth].
    - now destruct i.
    - apply IH.
  Qed.

  Fixpoint shard (D m : nat) (l : list A) : list (list A) :=
    match D with 0 => [] | S D' => firstn m l :: shard D' m (skipn m l) end.
  Definition unshard (s : list (list A)) : list A := concat s.

  Theorem unshard_shard D m : forall l, length l = D * m -> unshard (shard D m l) = l.
  Proof.
    unfold unshard. induction D as [|D IH]; intros l H; cbn [shard concat].
    - destruct l; [reflexivity | discriminate].
    - rewrite IH by (rewrite skipn_length; lia). apply firstn_skipn.
  Qed.

  Theorem shard_count D m l : length (shard D m l) = D.
  Proof. revert l; induction D; intros l; cbn; auto. Qed.

  Theorem shard_sizes D m : forall l, length l = D * m -> Forall (fun s => length s = m) (shard D m l).
  Proof.
    induction D as [|D IH]; intros l H; cbn [shard]; constructor.
    - rewrite firstn_length. lia.
    - apply IH. rewrite skipn_length. lia.
  Qed.

  (** device d holds the contiguous block starting at row d*m *)
  Theorem shard_block D m : forall l d, d < D ->
    nth d (shard D m l) [] = firstn m (skipn (d * m) l).
  Proof.
    induction D as [|D IH]; intros l d H; [lia|]. cbn [shard].
    destruct d as [|d]; [reflexivity|]. cbn [nth]. rewrite IH by lia.
    rewrite skipn_add. reflexivity.
  Qed.

  (** row i of the host batch is row (i mod m) of device (i / m) *)
  Corollary shard_row D m l (dflt : A) i : 0 < m -> length l = D * m -> i < D * m ->
    nth (i mod m) (nth (i / m) (shard D m l) []) dflt = nth i l dflt.
  Proof.
    intros Hm HL Hi.
    assert (Hd : i / m < D) by (apply Nat.div_lt_upper_bound; lia).
    rewrite shard_block by exact Hd.
    assert (Hr : i mod m < m) by (apply Nat.mod_upper_bound; lia).
    rewrite nth_firstn_lt by exact Hr. rewrite nth_skipn_add. f_equal.
    rewrite (Nat.div_mod i m) at 3 by lia. lia.
  Qed.
End Shard.
