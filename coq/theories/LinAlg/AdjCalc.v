(** Operator calculus over abstract inner-product spaces with a complex structure.

    A space carries multiplication by i ([J]) and entrywise conjugation ([Cj]); the inner
    product is the real one, Re<.,.>.  Real spaces are the special case in which only real
    scalars occur.  An operator is the pair (forward closure, adjoint closure) exactly as
    [scico.linop.LinearOperator] stores them; the combinators below are the closures that
    `+ - * / @ .T .H .conj() .gram_op` create in scico/linop/_linop.py.  Theorems: every
    combinator preserves "linear, complex-linear and adjoint pair", hence so does every
    expression tree (induction); and the forward map of the tree is the pointwise construction. *)
From Coq Require Import Reals Lra.
From SV Require Import Base.InnerSpace.
Open Scope R_scope.

Class CSpace := {
  csp :> InnerSpace;
  J : E -> E;
  Cj : E -> E;
  J_add : forall x y, J (vadd x y) = vadd (J x) (J y);
  J_scale : forall a x, J (vscale a x) = vscale a (J x);
  J_J : forall x, J (J x) = vopp x;
  J_iso : forall x y, ip (J x) (J y) = ip x y;
  Cj_add : forall x y, Cj (vadd x y) = vadd (Cj x) (Cj y);
  Cj_scale : forall a x, Cj (vscale a x) = vscale a (Cj x);
  Cj_Cj : forall x, Cj (Cj x) = x;
  Cj_iso : forall x y, ip (Cj x) (Cj y) = ip x y;
  Cj_J : forall x, Cj (J x) = vopp (J (Cj x))
}.

(** complex scalar (a + i b) acting on a vector *)
Definition cscale {X : CSpace} (a b : R) (x : E) : E := vadd (vscale a x) (vscale b (J x)).

Definition Lin {X Y : CSpace} (f : @E (@csp X) -> @E (@csp Y)) : Prop :=
  (forall x y, f (vadd x y) = vadd (f x) (f y)) /\ (forall a x, f (vscale a x) = vscale a (f x)).
Definition JLin {X Y : CSpace} (f : @E (@csp X) -> @E (@csp Y)) : Prop := forall x, f (J x) = J (f x).


Section Basic.
  Context {X : CSpace}.

  Lemma vopp_add (x y : E) : vopp (vadd x y) = vadd (vopp x) (vopp y).
  Proof. rewrite !vopp_scale. apply vscale_add_r. Qed.
  Lemma vopp_vopp (x : E) : vopp (vopp x) = x.
  Proof. rewrite !vopp_scale, vscale_scale. replace (-1 * -1) with 1 by lra. apply vscale_1. Qed.
  Lemma vscale_opp a (x : E) : vscale a (vopp x) = vopp (vscale a x).
  Proof. rewrite !vopp_scale, !vscale_scale. f_equal. lra. Qed.
  Lemma J_opp (x : E) : J (vopp x) = vopp (J x).
  Proof. rewrite !vopp_scale. apply J_scale. Qed.
  Lemma Cj_opp (x : E) : Cj (vopp x) = vopp (Cj x).
  Proof. rewrite !vopp_scale. apply Cj_scale. Qed.
  Lemma ip_J_l (x y : E) : ip (J x) y = - ip x (J y).
  Proof.
    rewrite <- (J_iso x (J y)), J_J, ip_opp_r. lra.
  Qed.
  Lemma ip_Cj_l (x y : E) : ip (Cj x) y = ip x (Cj y).
  Proof. rewrite <- (Cj_iso x (Cj y)), Cj_Cj. reflexivity. Qed.
  Lemma J_Cj (x : E) : J (Cj x) = vopp (Cj (J x)).
  Proof. rewrite Cj_J, vopp_vopp. reflexivity. Qed.
  Lemma Lin_cscale a b : Lin (fun x : @E (@csp X) => cscale a b x).
  Proof.
    split; intros; unfold cscale.
    - rewrite J_add, !vscale_add_r.
      rewrite <- !vadd_assoc. f_equal. rewrite !vadd_assoc. rewrite (vadd_comm (vscale a y)). reflexivity.
    - rewrite J_scale, vscale_add_r, !vscale_scale. f_equal; f_equal; lra.
  Qed.

  Lemma JLin_cscale a b (x : @E (@csp X)) : cscale a b (J x) = J (cscale a b x).
  Proof. unfold cscale. rewrite J_add, !J_scale. reflexivity. Qed.

  Lemma ip_cscale_l a b (x y : @E (@csp X)) : ip (cscale a b x) y = a * ip x y - b * ip x (J y).
  Proof. unfold cscale. rewrite ip_add_l, !ip_scale_l, ip_J_l. lra. Qed.
  Lemma ip_cscale_r a b (x y : @E (@csp X)) : ip x (cscale a b y) = a * ip x y + b * ip x (J y).
  Proof. unfold cscale. rewrite ip_add_r, !ip_scale_r. lra. Qed.

End Basic.

Record Op (X Y : CSpace) := mkOp { fwd : @E (@csp X) -> @E (@csp Y); adj : @E (@csp Y) -> @E (@csp X) }.
Arguments fwd {X Y}. Arguments adj {X Y}. Arguments mkOp {X Y}.

(** "good" = real-linear, complex-linear (commutes with i) in both directions, adjoint pair *)
Definition Good {X Y : CSpace} (A : Op X Y) : Prop :=
  Lin (fwd A) /\ Lin (adj A) /\ JLin (fwd A) /\ JLin (adj A) /\
  forall x y, ip (fwd A x) y = ip x (adj A y).

(** the closures of scico/linop/_linop.py *)
Definition op_add {X Y} (A B : Op X Y) : Op X Y :=
  mkOp (fun x => vadd (fwd A x) (fwd B x)) (fun y => vadd (adj A y) (adj B y)).
Definition op_sub {X Y} (A B : Op X Y) : Op X Y :=
  mkOp (fun x => vsub (fwd A x) (fwd B x)) (fun y => vsub (adj A y) (adj B y)).
(** other * self(x);  adjoint conj(other) * self.adj(x) *)
Definition op_scale {X Y} (a b : R) (A : Op X Y) : Op X Y :=
  mkOp (fun x => cscale a b (fwd A x)) (fun y => cscale a (- b) (adj A y)).
Definition op_comp {X Y Z} (A : Op Y Z) (B : Op X Y) : Op X Z :=
  mkOp (fun x => fwd A (fwd B x)) (fun z => adj B (adj A z)).
Definition op_H {X Y} (A : Op X Y) : Op Y X := mkOp (adj A) (fwd A).
(** A.T: eval conj(adj(conj x)), adjoint conj(A(conj y)) *)
Definition op_T {X Y} (A : Op X Y) : Op Y X :=
  mkOp (fun y => Cj (adj A (Cj y))) (fun x => Cj (fwd A (Cj x))).
Definition op_conj {X Y} (A : Op X Y) : Op X Y :=
  mkOp (fun x => Cj (fwd A (Cj x))) (fun y => Cj (adj A (Cj y))).
Definition op_gram {X Y} (A : Op X Y) : Op X X :=
  mkOp (fun x => adj A (fwd A x)) (fun x => adj A (fwd A x)).

Lemma Lin_vopp_compose {X Y : CSpace} (f : @E (@csp X) -> @E (@csp Y)) :
  Lin f -> forall x, f (vopp x) = vopp (f x).
Proof. intros [_ H] x. rewrite !vopp_scale. apply H. Qed.

Section Lemmas.
  Context {X Y : CSpace}.

  Lemma good_add (A B : Op X Y) : Good A -> Good B -> Good (op_add A B).
  Proof.
    intros ([A1 A2] & [A3 A4] & A5 & A6 & A7) ([B1 B2] & [B3 B4] & B5 & B6 & B7).
    unfold Good, Lin, JLin, op_add; cbn [fwd adj]. repeat split; intros.
    - rewrite A1, B1, <- !vadd_assoc. f_equal. rewrite !vadd_assoc, (vadd_comm (fwd A y)). reflexivity.
    - rewrite A2, B2, vscale_add_r. reflexivity.
    - rewrite A3, B3, <- !vadd_assoc. f_equal. rewrite !vadd_assoc, (vadd_comm (adj A y)). reflexivity.
    - rewrite A4, B4, vscale_add_r. reflexivity.
    - rewrite A5, B5, J_add. reflexivity.
    - rewrite A6, B6, J_add. reflexivity.
    - rewrite ip_add_l, ip_add_r, A7, B7. reflexivity.
  Qed.

  Lemma good_scale a b (A : Op X Y) : Good A -> Good (op_scale a b A).
  Proof.
    intros ([A1 A2] & [A3 A4] & A5 & A6 & A7).
    destruct (@Lin_cscale Y a b) as [S1 S2]. destruct (@Lin_cscale X a (- b)) as [T1 T2].
    unfold Good, Lin, JLin, op_scale; cbn [fwd adj]. repeat split; intros.
    - rewrite A1. apply S1.
    - rewrite A2. apply S2.
    - rewrite A3. apply T1.
    - rewrite A4. apply T2.
    - rewrite A5. apply JLin_cscale.
    - rewrite A6. apply JLin_cscale.
    - rewrite ip_cscale_l, ip_cscale_r, !A7, A6. lra.
  Qed.

  Lemma good_H (A : Op X Y) : Good A -> Good (op_H A).
  Proof.
    intros (A1 & A3 & A5 & A6 & A7). unfold Good, op_H; cbn [fwd adj]. repeat split; auto; try apply A1; try apply A3.
    intros x y. rewrite ip_sym, <- A7, ip_sym. reflexivity.
  Qed.

  Lemma good_conj (A : Op X Y) : Good A -> Good (op_conj A).
  Proof.
    intros ([A1 A2] & [A3 A4] & A5 & A6 & A7).
    unfold Good, Lin, JLin, op_conj; cbn [fwd adj]. repeat split; intros.
    - rewrite Cj_add, A1, Cj_add. reflexivity.
    - rewrite Cj_scale, A2, Cj_scale. reflexivity.
    - rewrite Cj_add, A3, Cj_add. reflexivity.
    - rewrite Cj_scale, A4, Cj_scale. reflexivity.
    - rewrite Cj_J, (Lin_vopp_compose (fwd A) (conj A1 A2)), A5, Cj_opp, Cj_J, vopp_vopp. reflexivity.
    - rewrite Cj_J, (Lin_vopp_compose (adj A) (conj A3 A4)), A6, Cj_opp, Cj_J, vopp_vopp. reflexivity.
    - rewrite ip_Cj_l, A7, ip_Cj_l. reflexivity.
  Qed.
End Lemmas.

Lemma good_ext {X Y : CSpace} (A B : Op X Y) :
  (forall x, fwd A x = fwd B x) -> (forall y, adj A y = adj B y) -> Good B -> Good A.
Proof.
  intros Hf Ha ([B1 B2] & [B3 B4] & B5 & B6 & B7).
  unfold Good, Lin, JLin. repeat split; intros; rewrite ?Hf, ?Ha; auto.
Qed.

Section Lemmas2.
  Context {X Y : CSpace}.

  Lemma good_neg (A : Op X Y) : Good A -> Good (op_scale (-1) 0 A).
  Proof. apply good_scale. Qed.

  Lemma op_sub_as_add (A B : Op X Y) x y :
    fwd (op_sub A B) x = fwd (op_add A (op_scale (-1) 0 B)) x /\
    adj (op_sub A B) y = adj (op_add A (op_scale (-1) 0 B)) y.
  Proof.
    unfold op_sub, op_add, op_scale, cscale, vsub; cbn [fwd adj]. split; f_equal.
    - rewrite vscale_0_l, vadd_0_r. apply vopp_scale.
    - replace (- 0) with 0 by lra. rewrite vscale_0_l, vadd_0_r. apply vopp_scale.
  Qed.

  Lemma good_sub (A B : Op X Y) : Good A -> Good B -> Good (op_sub A B).
  Proof.
    intros HA HB. apply (good_ext _ (op_add A (op_scale (-1) 0 B))).
    - intros x. apply (op_sub_as_add A B x (fwd A x)).
    - intros y. apply (op_sub_as_add A B (adj A y) y).
    - apply good_add; auto. apply good_scale; auto.
  Qed.

  Lemma good_T (A : Op X Y) : Good A -> Good (op_T A).
  Proof.
    intros HA. pose proof (good_H _ (good_conj A HA)) as H.
    apply (good_ext _ (op_H (op_conj A))); auto.
  Qed.

  Lemma good_gram (A : Op X Y) : Good A -> Good (op_gram A).
  Proof.
    intros ([A1 A2] & [A3 A4] & A5 & A6 & A7).
    unfold Good, Lin, JLin, op_gram; cbn [fwd adj]. repeat split; intros.
    - rewrite A1, A3. reflexivity.
    - rewrite A2, A4. reflexivity.
    - rewrite A1, A3. reflexivity.
    - rewrite A2, A4. reflexivity.
    - rewrite A5, A6. reflexivity.
    - rewrite A5, A6. reflexivity.
    - rewrite <- (A7 x (fwd A y)), (ip_sym (adj A (fwd A x)) y), <- (A7 y (fwd A x)). apply ip_sym.
  Qed.

  (** for a real operator (one that commutes with conjugation) transpose and adjoint coincide *)
  Lemma T_eq_H_real (A : Op X Y) :
    (forall y, adj A (Cj y) = Cj (adj A y)) -> forall y, fwd (op_T A) y = fwd (op_H A) y.
  Proof. intros H y. unfold op_T, op_H; cbn [fwd]. rewrite H, Cj_Cj. reflexivity. Qed.
End Lemmas2.

Lemma good_comp {X Y Z : CSpace} (A : Op Y Z) (B : Op X Y) : Good A -> Good B -> Good (op_comp A B).
Proof.
  intros ([A1 A2] & [A3 A4] & A5 & A6 & A7) ([B1 B2] & [B3 B4] & B5 & B6 & B7).
  unfold Good, Lin, JLin, op_comp; cbn [fwd adj]. repeat split; intros.
  - rewrite B1, A1. reflexivity.
  - rewrite B2, A2. reflexivity.
  - rewrite A3, B3. reflexivity.
  - rewrite A4, B4. reflexivity.
  - rewrite B5, A5. reflexivity.
  - rewrite A6, B6. reflexivity.
  - rewrite A7, B7. reflexivity.
Qed.

(** ** Expression trees (the "programs" quantifier): typed deep embedding *)
Inductive lexpr : CSpace -> CSpace -> Type :=
| ELeaf {X Y} (A : Op X Y) : lexpr X Y
| EAdd {X Y} (a b : lexpr X Y) : lexpr X Y
| ESub {X Y} (a b : lexpr X Y) : lexpr X Y
| EScale {X Y} (re im : R) (a : lexpr X Y) : lexpr X Y
| EComp {X Y Z} (a : lexpr Y Z) (b : lexpr X Y) : lexpr X Z
| EH {X Y} (a : lexpr X Y) : lexpr Y X
| ET {X Y} (a : lexpr X Y) : lexpr Y X
| EConj {X Y} (a : lexpr X Y) : lexpr X Y
| EGram {X Y} (a : lexpr X Y) : lexpr X X.

Fixpoint denote {X Y} (e : lexpr X Y) : Op X Y :=
  match e with
  | ELeaf A => A
  | EAdd a b => op_add (denote a) (denote b)
  | ESub a b => op_sub (denote a) (denote b)
  | EScale re im a => op_scale re im (denote a)
  | EComp a b => op_comp (denote a) (denote b)
  | EH a => op_H (denote a)
  | ET a => op_T (denote a)
  | EConj a => op_conj (denote a)
  | EGram a => op_gram (denote a)
  end.

Fixpoint leaves_good {X Y} (e : lexpr X Y) : Prop :=
  match e with
  | ELeaf A => Good A
  | EAdd a b | ESub a b => leaves_good a /\ leaves_good b
  | EComp a b => leaves_good a /\ leaves_good b
  | EScale _ _ a | EH a | ET a | EConj a | EGram a => leaves_good a
  end.

(** Every expression over good leaves denotes a good operator: linear, complex-linear, and
    its stored adjoint closure satisfies <A x, y> = <x, A^H y> for all x, y. *)
Theorem expr_good : forall X Y (e : lexpr X Y), leaves_good e -> Good (denote e).
Proof.
  intros X Y e. induction e; cbn [leaves_good denote]; intros H.
  - exact H.
  - destruct H. apply good_add; auto.
  - destruct H. apply good_sub; auto.
  - apply good_scale; auto.
  - destruct H. apply good_comp; auto.
  - apply good_H; auto.
  - apply good_T; auto.
  - apply good_conj; auto.
  - apply good_gram; auto.
Qed.

Corollary expr_adjoint_identity X Y (e : lexpr X Y) :
  leaves_good e -> forall x y, ip (fwd (denote e) x) y = ip x (adj (denote e) y).
Proof. intros H. apply (expr_good X Y e H). Qed.

Corollary expr_linear X Y (e : lexpr X Y) :
  leaves_good e -> forall a b x y,
    fwd (denote e) (vadd (cscale a b x) y) = vadd (cscale a b (fwd (denote e) x)) (fwd (denote e) y).
Proof.
  intros H a b x y. destruct (expr_good X Y e H) as ([L1 L2] & _ & L5 & _).
  rewrite L1. f_equal. unfold cscale. rewrite L1, !L2, L5. reflexivity.
Qed.

(** the Hermitian view of the Hermitian view is the operator; the Gram operator is self-adjoint *)
Lemma H_H {X Y} (A : Op X Y) x : fwd (op_H (op_H A)) x = fwd A x.
Proof. reflexivity. Qed.
Lemma gram_selfadjoint {X Y} (A : Op X Y) x : adj (op_gram A) x = fwd (op_gram A) x.
Proof. reflexivity. Qed.
