(** Stacking operators in the operator calculus: product of spaces with complex structure,
    vertical and diagonal stacks (scico/linop/_stack.py: VerticalStack._adj sums the adjoints
    of the blocks, DiagonalStack._adj applies the adjoint of each block). *)
From Coq Require Import Reals Lra.
From SV Require Import Base.InnerSpace Prox.ProxTheory LinAlg.AdjCalc.
Open Scope R_scope.

Section ProdC.
  Variables X Y : CSpace.

  Local Obligation Tactic := idtac.
  Program Definition ProdCSpace : CSpace := {|
    csp := ProdSpace (@csp X) (@csp Y);
    J := fun p => (J (fst p), J (snd p));
    Cj := fun p => (Cj (fst p), Cj (snd p)) |}.
  Next Obligation. intros [a b] [c d]; cbn. now rewrite !J_add. Qed.
  Next Obligation. intros r [a b]; cbn. now rewrite !J_scale. Qed.
  Next Obligation. intros [a b]; cbn. now rewrite !J_J. Qed.
  Next Obligation. intros [a b] [c d]; cbn. now rewrite !J_iso. Qed.
  Next Obligation. intros [a b] [c d]; cbn. now rewrite !Cj_add. Qed.
  Next Obligation. intros r [a b]; cbn. now rewrite !Cj_scale. Qed.
  Next Obligation. intros [a b]; cbn. now rewrite !Cj_Cj. Qed.
  Next Obligation. intros [a b] [c d]; cbn. now rewrite !Cj_iso. Qed.
  Next Obligation. intros [a b]; cbn. now rewrite !Cj_J. Qed.
End ProdC.

(** vertical stack: x |-> (A x, B x); adjoint (y1, y2) |-> A^H y1 + B^H y2 *)
Definition op_vstack {X Y1 Y2 : CSpace} (A : Op X Y1) (B : Op X Y2) : Op X (ProdCSpace Y1 Y2) :=
  mkOp (X := X) (Y := ProdCSpace Y1 Y2)
       (fun x => (fwd A x, fwd B x))
       (fun y => vadd (adj A (fst y)) (adj B (snd y))).

(** diagonal stack: (x1, x2) |-> (A x1, B x2); adjoint (y1, y2) |-> (A^H y1, B^H y2) *)
Definition op_dstack {X1 X2 Y1 Y2 : CSpace} (A : Op X1 Y1) (B : Op X2 Y2) :
  Op (ProdCSpace X1 X2) (ProdCSpace Y1 Y2) :=
  mkOp (X := ProdCSpace X1 X2) (Y := ProdCSpace Y1 Y2)
       (fun x => (fwd A (fst x), fwd B (snd x)))
       (fun y => (adj A (fst y), adj B (snd y))).

Lemma good_vstack {X Y1 Y2 : CSpace} (A : Op X Y1) (B : Op X Y2) :
  Good A -> Good B -> Good (op_vstack A B).
Proof.
  intros ([A1 A2] & [A3 A4] & A5 & A6 & A7) ([B1 B2] & [B3 B4] & B5 & B6 & B7).
  unfold Good, Lin, JLin, op_vstack; cbn [fwd adj]. repeat split.
  - intros x y; cbn. now rewrite A1, B1.
  - intros a x; cbn. now rewrite A2, B2.
  - intros [y1 y2] [z1 z2]; cbn. rewrite A3, B3.
    rewrite <- !vadd_assoc. f_equal. rewrite !vadd_assoc. f_equal. apply vadd_comm.
  - intros a [y1 y2]; cbn. now rewrite A4, B4, vscale_add_r.
  - intros x; cbn. now rewrite A5, B5.
  - intros [y1 y2]; cbn. now rewrite A6, B6, J_add.
  - intros x [y1 y2]; cbn. rewrite ip_add_r, A7, B7. reflexivity.
Qed.

Lemma good_dstack {X1 X2 Y1 Y2 : CSpace} (A : Op X1 Y1) (B : Op X2 Y2) :
  Good A -> Good B -> Good (op_dstack A B).
Proof.
  intros ([A1 A2] & [A3 A4] & A5 & A6 & A7) ([B1 B2] & [B3 B4] & B5 & B6 & B7).
  unfold Good, Lin, JLin, op_dstack; cbn [fwd adj]. repeat split.
  - intros [x1 x2] [z1 z2]; cbn. now rewrite A1, B1.
  - intros a [x1 x2]; cbn. now rewrite A2, B2.
  - intros [y1 y2] [z1 z2]; cbn. now rewrite A3, B3.
  - intros a [y1 y2]; cbn. now rewrite A4, B4.
  - intros [x1 x2]; cbn. now rewrite A5, B5.
  - intros [y1 y2]; cbn. now rewrite A6, B6.
  - intros [x1 x2] [y1 y2]; cbn. now rewrite A7, B7.
Qed.

(** replicated operator: the same block on every component (DiagonalReplicated with 2 replicates;
    n replicates by iterating) *)
Corollary good_replicated {X Y : CSpace} (A : Op X Y) : Good A -> Good (op_dstack A A).
Proof. intros H. now apply good_dstack. Qed.
