(** Non-vacuity: the complex numbers (as R^2 with Re<.,.>) form a CSpace, and multiplication
    by a fixed complex number is a Good operator whose adjoint is multiplication by its conjugate. *)
From Coq Require Import Reals Lra.
From SV Require Import Base.InnerSpace LinAlg.AdjCalc.
Open Scope R_scope.

Local Obligation Tactic := idtac.
Program Definition C_ips : InnerSpace := {|
  E := (R * R)%type;
  vzero := (0, 0);
  vadd := fun x y => (fst x + fst y, snd x + snd y);
  vopp := fun x => (- fst x, - snd x);
  vscale := fun a x => (a * fst x, a * snd x);
  ip := fun x y => fst x * fst y + snd x * snd y |}.
Next Obligation. intros [a b] [c d]; cbn; f_equal; lra. Qed.
Next Obligation. intros [a b] [c d] [e f]; cbn; f_equal; lra. Qed.
Next Obligation. intros [a b]; cbn; f_equal; lra. Qed.
Next Obligation. intros [a b]; cbn; f_equal; lra. Qed.
Next Obligation. intros [a b]; cbn; f_equal; lra. Qed.
Next Obligation. intros u v [a b]; cbn; f_equal; lra. Qed.
Next Obligation. intros u [a b] [c d]; cbn; f_equal; lra. Qed.
Next Obligation. intros u v [a b]; cbn; f_equal; lra. Qed.
Next Obligation. intros [a b] [c d]; cbn; lra. Qed.
Next Obligation. intros [a b] [c d] [e f]; cbn; lra. Qed.
Next Obligation. intros u [a b] [c d]; cbn; lra. Qed.
Next Obligation. intros [a b]; cbn. nra. Qed.
Next Obligation. intros [a b]; cbn. intros H. f_equal; nra. Qed.

Program Definition C_csp : CSpace := {|
  csp := C_ips;
  J := fun x => (- snd x, fst x);
  Cj := fun x => (fst x, - snd x) |}.
Next Obligation. intros [a b] [c d]; cbn; f_equal; lra. Qed.
Next Obligation. intros u [a b]; cbn; f_equal; lra. Qed.
Next Obligation. intros [a b]; cbn; f_equal; lra. Qed.
Next Obligation. intros [a b] [c d]; cbn; lra. Qed.
Next Obligation. intros [a b] [c d]; cbn; f_equal; lra. Qed.
Next Obligation. intros u [a b]; cbn; f_equal; lra. Qed.
Next Obligation. intros [a b]; cbn; f_equal; lra. Qed.
Next Obligation. intros [a b] [c d]; cbn; lra. Qed.
Next Obligation. intros [a b]; cbn; f_equal; lra. Qed.

(** multiplication by p + i q, adjoint = multiplication by p - i q *)
Definition mulc (p q : R) : Op C_csp C_csp :=
  mkOp (X := C_csp) (Y := C_csp)
       (fun x => (p * fst x - q * snd x, q * fst x + p * snd x))
       (fun y => (p * fst y + q * snd y, p * snd y - q * fst y)).

Lemma mulc_good p q : Good (mulc p q).
Proof.
  unfold Good, Lin, JLin, mulc; cbn. repeat split.
  - intros [a b] [c d]; cbn; f_equal; lra.
  - intros u [a b]; cbn; f_equal; lra.
  - intros [a b] [c d]; cbn; f_equal; lra.
  - intros u [a b]; cbn; f_equal; lra.
  - intros [a b]; cbn; f_equal; lra.
  - intros [a b]; cbn; f_equal; lra.
  - intros [a b] [c d]; cbn; lra.
Qed.

(** a non-trivial tree over good leaves *)
Example tree_example :
  leaves_good (EAdd (ET (EComp (ELeaf (mulc 1 2)) (EConj (ELeaf (mulc 0 1)))))
                    (EScale 3 (-1) (EGram (ELeaf (mulc 2 5))))).
Proof. cbn. repeat split; apply mulc_good. Qed.
