(** Gaussian rationals Qc[i] as an executable commutative ring with involution, and the
    reflection lemmas that turn a matrix comparison (done by vm_compute for one operator
    configuration) into the adjoint identity for ALL vectors x, y. *)
From Coq Require Import List Arith Lia Ring QArith Qcanon Bool.
From SV Require Import LinAlg.Mat.
Import ListNotations.

Definition CQ := (Qc * Qc)%type.
Definition c0 : CQ := (0%Qc, 0%Qc).
Definition c1 : CQ := (1%Qc, 0%Qc).
Definition cadd (a b : CQ) : CQ := ((fst a + fst b)%Qc, (snd a + snd b)%Qc).
Definition cmul (a b : CQ) : CQ :=
  ((fst a * fst b - snd a * snd b)%Qc, (fst a * snd b + snd a * fst b)%Qc).
Definition copp (a : CQ) : CQ := ((- fst a)%Qc, (- snd a)%Qc).
Definition csub (a b : CQ) : CQ := cadd a (copp b).
Definition cconj (a : CQ) : CQ := (fst a, (- snd a)%Qc).
Definition ceqb (a b : CQ) : bool :=
  Qeq_bool (this (fst a)) (this (fst b)) && Qeq_bool (this (snd a)) (this (snd b)).

Lemma CQ_ring : ring_theory c0 c1 cadd cmul csub copp (@eq CQ).
Proof.
  constructor; intros; unfold csub, cadd, cmul, copp, c0, c1;
    repeat match goal with x : CQ |- _ => destruct x end; cbn [fst snd]; f_equal; ring.
Qed.

Lemma cconj_add a b : cconj (cadd a b) = cadd (cconj a) (cconj b).
Proof. destruct a, b; unfold cconj, cadd; cbn [fst snd]; f_equal; ring. Qed.
Lemma cconj_mul a b : cconj (cmul a b) = cmul (cconj a) (cconj b).
Proof. destruct a, b; unfold cconj, cmul; cbn [fst snd]; f_equal; ring. Qed.
Lemma cconj_conj a : cconj (cconj a) = a.
Proof. destruct a; unfold cconj; cbn [fst snd]; f_equal; ring. Qed.
Lemma cconj_0 : cconj c0 = c0.
Proof. unfold cconj, c0; cbn [fst snd]; f_equal; ring. Qed.

Lemma ceqb_eq a b : ceqb a b = true -> a = b.
Proof.
  destruct a as [a1 a2], b as [b1 b2]. unfold ceqb; cbn [fst snd].
  intros H. apply andb_prop in H as [H1 H2].
  apply Qeq_bool_iff in H1, H2. apply Qc_is_canon in H1, H2. now subst.
Qed.

Notation cvec := (vec CQ).
Notation cmat := (mat CQ).
Definition c_mv := mv CQ c0 cadd cmul.
Definition c_cdot := cdot CQ c0 cadd cmul cconj.
Definition c_dot := dot CQ c0 cadd cmul.
Definition c_mH := mH CQ cconj.
Definition c_mtrans := mtrans CQ.
Definition c_mconj := mconj CQ cconj.
Definition c_wf := wf CQ.

Fixpoint list_eqb {A} (f : A -> A -> bool) (a b : list A) : bool :=
  match a, b with
  | [], [] => true
  | x :: r, y :: s => f x y && list_eqb f r s
  | _, _ => false
  end.
Lemma list_eqb_eq {A} (f : A -> A -> bool) :
  (forall x y, f x y = true -> x = y) -> forall a b, list_eqb f a b = true -> a = b.
Proof.
  intros Hf. induction a as [|x a IH]; intros [|y b] H; cbn in H; try discriminate; auto.
  apply andb_prop in H as [H1 H2]. f_equal; auto.
Qed.
Definition mat_eqb (A B : cmat) : bool := list_eqb (list_eqb ceqb) A B.
Lemma mat_eqb_eq A B : mat_eqb A B = true -> A = B.
Proof. apply list_eqb_eq, list_eqb_eq, ceqb_eq. Qed.

Definition wfb (m n : nat) (M : cmat) : bool :=
  Nat.eqb (length M) m && forallb (fun r => Nat.eqb (length r) n) M.
Lemma wfb_wf m n M : wfb m n M = true -> c_wf m n M.
Proof.
  unfold wfb. intros H. apply andb_prop in H as [H1 H2]. split.
  - now apply Nat.eqb_eq.
  - apply Forall_forall. intros r Hr. rewrite forallb_forall in H2. now apply Nat.eqb_eq, H2.
Qed.

(** Reflection: the boolean check [adj_ok m n M N] (vm_compute on the matrices extracted
    from the implementation at one configuration) implies the adjoint identity for all x, y. *)
Definition adj_ok (m n : nat) (M N : cmat) : bool := wfb m n M && mat_eqb N (c_mH n M).

Theorem adj_ok_sound m n M N :
  adj_ok m n M N = true ->
  forall x y, length x = n -> length y = m ->
    c_cdot (c_mv M x) y = c_cdot x (c_mv N y).
Proof.
  unfold adj_ok. intros H x y Hx Hy. apply andb_prop in H as [Hw He].
  apply mat_eqb_eq in He. subst N. apply wfb_wf in Hw.
  apply (cdot_mv_adjoint CQ c0 c1 cadd cmul csub copp CQ_ring cconj cconj_add cconj_mul cconj_conj cconj_0 m n); auto.
Qed.

(** plain transpose: <M x, y>_bilinear = <x, N y>_bilinear when N = M^T *)
Definition trans_ok (m n : nat) (M N : cmat) : bool := wfb m n M && mat_eqb N (c_mtrans n M).
Theorem trans_ok_sound m n M N :
  trans_ok m n M N = true ->
  forall x y, length x = n -> length y = m -> c_dot (c_mv M x) y = c_dot x (c_mv N y).
Proof.
  unfold trans_ok. intros H x y Hx Hy. apply andb_prop in H as [Hw He].
  apply mat_eqb_eq in He. subst N. apply wfb_wf in Hw.
  apply (dot_mv_transpose CQ c0 c1 cadd cmul csub copp CQ_ring m n); auto.
Qed.

(** helpers for case files *)
Definition cq (a b : Q) : CQ := (Q2Qc a, Q2Qc b).
Fixpoint bad_idx {A} (f : A -> bool) (l : list A) (i : nat) : list nat :=
  match l with [] => [] | x :: r => if f x then bad_idx f r (S i) else i :: bad_idx f r (S i) end.
