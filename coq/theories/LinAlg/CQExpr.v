(** Executable instance (Gaussian rationals) of the expression calculus, block-matrix forms of
    the stacking operators, and the checkers evaluated by the C05 / C04 harnesses. *)
From Coq Require Import List Arith Lia Ring QArith Qabs Qcanon Bool.
From SV Require Import LinAlg.Mat LinAlg.CQ LinAlg.MExpr.
Import ListNotations.

Definition c_mexpr := mexpr CQ.
Definition c_mden2 (n : nat) (e : c_mexpr) : cmat * cmat := mden2 CQ c0 c1 cadd cmul copp cconj n e.
Definition c_fden (n : nat) (e : c_mexpr) (x : cvec) : cvec := fden CQ c0 cadd cmul copp cconj n e x.

(** closed instance of the main theorem at Q[i] *)
Theorem c_expression_denotes_matrix n e x :
  wfe CQ n e -> length x = n -> c_fden n e x = c_mv (fst (c_mden2 n e)) x.
Proof.
  apply (expression_denotes_matrix_construction CQ c0 c1 cadd cmul csub copp CQ_ring cconj
           cconj_add cconj_mul cconj_conj cconj_0).
Qed.

Definition cclose (tol : Q) (a b : CQ) : bool :=
  Qle_bool (Qabs (this (fst a) - this (fst b))) tol && Qle_bool (Qabs (this (snd a) - this (snd b))) tol.
Definition cmat_close (tol : Q) (A B : cmat) : bool := list_eqb (list_eqb (cclose tol)) A B.
Definition cmat_cmp (tol : option Q) (A B : cmat) : bool :=
  match tol with None => mat_eqb A B | Some t => cmat_close t A B end.
Definition cvec_cmp (tol : option Q) (a b : cvec) : bool :=
  match tol with None => list_eqb ceqb a b | Some t => list_eqb (cclose t) a b end.

(** one expression case: (n, tolerance, tree with the leaf matrices taken from the
    implementation, matrix of the implementation's result) *)
Definition expr_case_ok (c : nat * option Q * c_mexpr * cmat) : bool :=
  let '(n, tol, e, R) := c in cmat_cmp tol (fst (c_mden2 n e)) R.

(** forward and adjoint closures: result matrix and matrix of result.adj *)
Definition expr_case_ok2 (c : nat * option Q * c_mexpr * cmat * cmat) : bool :=
  let '(n, tol, e, R, Radj) := c in
  cmat_cmp tol (fst (c_mden2 n e)) R && cmat_cmp tol (snd (c_mden2 n e)) Radj.

(** ** stacking operators as block matrices *)
Definition c_zeros (n : nat) : cvec := repeat c0 n.
Definition vstack (Ms : list cmat) : cmat := concat Ms.
Fixpoint blockdiag (Ms : list (nat * cmat)) (before : nat) (total : nat) : cmat :=
  match Ms with
  | [] => []
  | (n, M) :: rest =>
      map (fun r => c_zeros before ++ r ++ c_zeros (total - before - n)%nat) M
      ++ blockdiag rest (before + n)%nat total
  end.

(** vertical stack: (A; B) x = (A x ; B x) *)
Lemma mv_vstack Ms x : c_mv (vstack Ms) x = concat (map (fun M => c_mv M x) Ms).
Proof.
  unfold vstack, c_mv, mv. induction Ms as [|M Ms IH]; cbn; auto.
  rewrite map_app, IH. reflexivity.
Qed.

Lemma c_dot_app : forall (a b x y : cvec), length a = length x ->
  c_dot (a ++ b) (x ++ y) = cadd (c_dot a x) (c_dot b y).
Proof.
  unfold c_dot. induction a as [|p a IH]; intros b [|q x] y H; cbn in *; try discriminate.
  - destruct (dot CQ c0 cadd cmul b y) as [u v]. unfold cadd, c0; cbn. f_equal; ring.
  - rewrite IH by lia.
    generalize (dot CQ c0 cadd cmul a x) (dot CQ c0 cadd cmul b y) (cmul p q).
    intros [a1 a2] [b1 b2] [c1' c2]. unfold cadd; cbn. f_equal; ring.
Qed.
Lemma c_dot_zeros_l n x : c_dot (c_zeros n) x = c0.
Proof.
  unfold c_dot, c_zeros. revert x; induction n; intros [|q x]; cbn; auto.
  rewrite IHn. destruct q as [q1 q2]. unfold cmul, cadd, c0; cbn. f_equal; ring.
Qed.

Lemma cadd_c0_r a : cadd a c0 = a.
Proof. destruct a; unfold cadd, c0; cbn. f_equal; ring. Qed.
Lemma cadd_c0_l a : cadd c0 a = a.
Proof. destruct a; unfold cadd, c0; cbn. f_equal; ring. Qed.

(** diagonal stack of two blocks: diag(A, B) (x ; y) = (A x ; B y) *)
Theorem mv_blockdiag2 (A B : cmat) n1 n2 x y :
  length x = n1 -> length y = n2 ->
  Forall (fun r => length r = n1) A -> Forall (fun r => length r = n2) B ->
  c_mv (blockdiag [(n1, A); (n2, B)] 0 (n1 + n2)%nat) (x ++ y) = c_mv A x ++ c_mv B y.
Proof.
  intros Hx Hy HA HB. cbn [blockdiag]. rewrite app_nil_r.
  unfold c_mv, mv. rewrite map_app, !map_map. f_equal.
  - apply map_ext_in. intros r Hr. rewrite Forall_forall in HA. cbn [c_zeros repeat app].
    replace (n1 + n2 - 0 - n1)%nat with n2 by lia.
    change (c_dot (r ++ c_zeros n2) (x ++ y) = c_dot r x).
    rewrite c_dot_app by (rewrite HA; auto). rewrite c_dot_zeros_l. apply cadd_c0_r.
  - apply map_ext_in. intros r Hr. rewrite Forall_forall in HB.
    replace (n1 + n2 - (0 + n1) - n2)%nat with 0%nat by lia. cbn [c_zeros repeat]. rewrite app_nil_r.
    cbn [plus]. change (c_dot (repeat c0 n1 ++ r) (x ++ y) = c_dot r y).
    rewrite c_dot_app by (rewrite repeat_length; auto).
    change (repeat c0 n1) with (c_zeros n1). rewrite c_dot_zeros_l. apply cadd_c0_l.
Qed.

(** checker for the stacks: (kind, tolerance, blocks with their column counts, total columns, R)
    kind 0 = vertical stack, 1 = diagonal stack *)
Definition stack_case_ok (c : nat * option Q * list (nat * cmat) * nat * cmat) : bool :=
  let '(kind, tol, Ms, total, R) := c in
  match kind with
  | 0%nat => cmat_cmp tol (vstack (map snd Ms)) R
  | _ => cmat_cmp tol (blockdiag Ms 0 total) R
  end.

(** pointwise relations between evaluated vectors (generic Operator algebra, freeze, Function):
    code 0: r = u + v ; 1: r = u - v ; 2: r = c * u ; 3: r = u / c (given as c' = 1/c) ; 4: r = u ; 5: r = -u *)
Definition c_vadd := vadd CQ cadd.
Definition c_vscale := vscale CQ cmul.
Definition c_vopp := vopp CQ copp.
Definition pt_case_ok (c : nat * option Q * CQ * cvec * cvec * cvec) : bool :=
  let '(code, tol, s, u, v, r) := c in
  match code with
  | 0%nat => cvec_cmp tol (c_vadd u v) r
  | 1%nat => cvec_cmp tol (c_vadd u (c_vopp v)) r
  | 2%nat => cvec_cmp tol (c_vscale s u) r
  | 3%nat => cvec_cmp tol (c_vscale s u) r
  | 4%nat => cvec_cmp tol u r
  | _ => cvec_cmp tol (c_vopp u) r
  end.
