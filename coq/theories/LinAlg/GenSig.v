(** Abstract signature for the code generated from scico/linop/_linop.py (modules
    SVGen.C05_Linop, C05_LinopComp, C05_LinopNeg): a linear operator is the pair of closures
    (eval_fn, adj_fn) the class stores; vectors come with + - scalar multiplication / division
    and entrywise conjugation, scalars with conjugation. *)
From SV Require Import Base.Num C11.Overload.

Record lop (X Y : Type) := mklop { l_eval : X -> Y; l_adj : Y -> X }.
Arguments mklop {X Y}. Arguments l_eval {X Y}. Arguments l_adj {X Y}.

Class ScSig (Sc : Type) := {
  l_sconj : Sc -> Sc;            (* snp.conj(c) *)
  l_m1 : Sc }.                   (* the literal -1.0 *)
Class LinSig (Sc V : Type) := {
  l_add : V -> V -> V; l_sub : V -> V -> V;
  l_smul : Sc -> V -> V;         (* c * v *)
  l_sdiv : V -> Sc -> V;         (* v / c *)
  l_conj : V -> V }.             (* v.conj() *)
#[global] Hint Mode LinSig - ! : typeclass_instances.

#[global] Instance HCall_lop {X Y} : HCall (lop X Y) X Y := l_eval.
Section LinInstances.
  Context {Sc V : Type} {LS : LinSig Sc V}.
  #[global] Instance HAdd_lin : HAdd V V V := l_add.
  #[global] Instance HSub_lin : HSub V V V := l_sub.
  #[global] Instance HMul_lin : HMul Sc V V := l_smul.
  #[global] Instance HDiv_lin : HDiv V Sc V := l_sdiv.
End LinInstances.

(** the diagonal family (scico/linop/_diag.py): a Diagonal is its diagonal array [V], a
    ScaledIdentity its scalar [Sc]; element-wise + - * / conj on arrays, array with scalar,
    scalar with array, and the scalar operations. *)
Class DiagSig (Sc V : Type) := {
  dg_add : V -> V -> V; dg_sub : V -> V -> V; dg_mul : V -> V -> V;
  dg_muls : V -> Sc -> V; dg_divs : V -> Sc -> V; dg_smul : Sc -> V -> V; dg_conj : V -> V;
  sc_add : Sc -> Sc -> Sc; sc_sub : Sc -> Sc -> Sc; sc_mul : Sc -> Sc -> Sc; sc_div : Sc -> Sc -> Sc;
  sc_conj : Sc -> Sc }.
Class HConj (A : Type) := hconj : A -> A.                  (* a.conj() *)
#[global] Hint Mode HConj ! : typeclass_instances.
Section DiagInstances.
  Context {Sc V : Type} {DS : DiagSig Sc V}.
  #[global] Instance HAdd_dgV : HAdd V V V := dg_add.
  #[global] Instance HSub_dgV : HSub V V V := dg_sub.
  #[global] Instance HMul_dgV : HMul V V V := dg_mul.
  #[global] Instance HMul_dgVS : HMul V Sc V := dg_muls.
  #[global] Instance HDiv_dgVS : HDiv V Sc V := dg_divs.
  #[global] Instance HMul_dgSV : HMul Sc V V := dg_smul.
  #[global] Instance HAdd_dgS : HAdd Sc Sc Sc := sc_add.
  #[global] Instance HSub_dgS : HSub Sc Sc Sc := sc_sub.
  #[global] Instance HMul_dgS : HMul Sc Sc Sc := sc_mul.
  #[global] Instance HDiv_dgS : HDiv Sc Sc Sc := sc_div.
  #[global] Instance HConj_dgV : HConj V := dg_conj.
  #[global] Instance HConj_dgS : HConj Sc := sc_conj.
End DiagInstances.

(** Convolve / ConvolveByX (scico/linop/_convolve.py): the kernel and the stored adjoint closure *)
Record kop (Hk X Y : Type) := mkkop { k_ker : Hk; k_adj : Y -> X }.
Arguments mkkop {Hk X Y}. Arguments k_ker {Hk X Y}. Arguments k_adj {Hk X Y}.
