(** A linearity type system for traced JAX programs (jaxprs) and its soundness.

    The harness dumps the jaxpr of an operator's forward (or adjoint) map at one configuration
    as a list of single-output equations over SSA variables.  [lin_check] classifies every
    variable as
      KC  constant: independent of the operator's input,
      KZ  identically zero,
      KL  linear in the input (over the scalar field fixed by the rule table),
      KA  conjugate-linear (antilinear) in the input -- arises inside automatically derived
          adjoints of complex operators, which compute conj(transpose(conj(y))),
    using a table [rule] of per-primitive typing rows.  Soundness, proved once for an abstract
    value module and abstract primitive semantics that respect the table: if the check
    accepts, the program's output is linear in its input, for ALL inputs and scalars. *)
From Coq Require Import List Arith Lia String Bool.
Import ListNotations.

Inductive kind := KC | KZ | KL | KA.
Definition kind_eqb (a b : kind) : bool :=
  match a, b with KC, KC | KZ, KZ | KL, KL | KA, KA => true | _, _ => false end.

Inductive arg := AVar (n : nat) | ALitZero | ALit.
Record eqn := mkeqn { prim : string; args : list arg }.
Definition jaxpr := list eqn.      (* equation i defines variable (number of inputs) + i *)

Section Sound.
  Variable V : Type.                         (* values (arrays of any shape / dtype) *)
  Variable S : Type.                         (* scalars of the field in question *)
  Variable vzero : V.
  Variable vadd : V -> V -> V.
  Variable vscale : S -> V -> V.
  Variable lit : V.                          (* what a non-zero literal denotes (irrelevant) *)
  Variables a b : S.                         (* the two coefficients of the linear combination *)
  Variables a' b' : S.                       (* their conjugates *)
  Hypothesis comb_zero : vadd (vscale a vzero) (vscale b vzero) = vzero.

  Variable sem : string -> list V -> V.      (* XLA semantics of a primitive application *)
  Variable rule : string -> list kind -> option kind.

  (** relation between the values of one variable in the three runs x, y, a x + b y *)
  Definition relk (k : kind) (x y s : V) : Prop :=
    match k with
    | KC => x = s /\ y = s
    | KZ => x = vzero /\ y = vzero /\ s = vzero
    | KL => s = vadd (vscale a x) (vscale b y)
    | KA => s = vadd (vscale a' x) (vscale b' y)
    end.

  Inductive Rel : list kind -> list V -> list V -> list V -> Prop :=
  | Rel_nil : Rel [] [] [] []
  | Rel_cons k ks x y s lx ly ls :
      relk k x y s -> Rel ks lx ly ls -> Rel (k :: ks) (x :: lx) (y :: ly) (s :: ls).

  (** THE TRUSTED TABLE: every row the rule function accepts is respected by the semantics. *)
  Hypothesis sem_respects_rule :
    forall p ks k lx ly ls, rule p ks = Some k -> Rel ks lx ly ls ->
      relk k (sem p lx) (sem p ly) (sem p ls).

  Definition lookup (env : list V) (x : arg) : V :=
    match x with AVar n => nth n env vzero | ALitZero => vzero | ALit => lit end.
  Definition kind_of (kenv : list kind) (x : arg) : kind :=
    match x with AVar n => nth n kenv KZ | ALitZero => KZ | ALit => KC end.

  Definition step (env : list V) (e : eqn) : list V :=
    env ++ [sem (prim e) (map (lookup env) (args e))].
  Definition run (eqs : jaxpr) (env : list V) : list V := fold_left step eqs env.

  (** variables referenced must be defined *)
  Definition arg_ok (n : nat) (x : arg) : bool :=
    match x with AVar i => Nat.ltb i n | _ => true end.

  Fixpoint lin_check (eqs : jaxpr) (kenv : list kind) : option (list kind) :=
    match eqs with
    | [] => Some kenv
    | e :: rest =>
        if forallb (arg_ok (List.length kenv)) (args e) then
          match rule (prim e) (map (kind_of kenv) (args e)) with
          | Some k => lin_check rest (kenv ++ [k])
          | None => None
          end
        else None
    end.

  Lemma Rel_length ks lx ly ls : Rel ks lx ly ls ->
    List.length lx = List.length ks /\ List.length ly = List.length ks /\ List.length ls = List.length ks.
  Proof. induction 1; cbn; intuition lia. Qed.

  Lemma Rel_nth ks lx ly ls n : Rel ks lx ly ls -> n < List.length ks ->
    relk (nth n ks KZ) (nth n lx vzero) (nth n ly vzero) (nth n ls vzero).
  Proof.
    intros H; revert n; induction H as [|k ks x y s lx ly ls Hk H IH]; intros n Hn; cbn in *.
    - lia.
    - destruct n as [|n]; [exact Hk | apply IH; lia].
  Qed.

  Lemma Rel_args kenv e1 e2 e12 l : Rel kenv e1 e2 e12 ->
    forallb (arg_ok (List.length kenv)) l = true ->
    Rel (map (kind_of kenv) l) (map (lookup e1) l) (map (lookup e2) l) (map (lookup e12) l).
  Proof.
    intros H; induction l as [|x l IH]; cbn; intros Hok; constructor.
    - apply andb_prop in Hok as [Hx _]. destruct x as [n| |]; cbn.
      + apply Rel_nth; auto. cbn in Hx. now apply Nat.ltb_lt.
      + repeat split; reflexivity.
      + split; reflexivity.
    - apply IH. apply andb_prop in Hok as [_ Hl]. exact Hl.
  Qed.

  Lemma Rel_app ks lx ly ls k x y s : Rel ks lx ly ls -> relk k x y s ->
    Rel (ks ++ [k]) (lx ++ [x]) (ly ++ [y]) (ls ++ [s]).
  Proof. intros H Hk; induction H; cbn; repeat constructor; auto. Qed.

  Theorem lin_check_sound eqs : forall kenv kenv' e1 e2 e12,
    lin_check eqs kenv = Some kenv' -> Rel kenv e1 e2 e12 ->
    Rel kenv' (run eqs e1) (run eqs e2) (run eqs e12).
  Proof.
    induction eqs as [|e rest IH]; intros kenv kenv' e1 e2 e12 Hc HR; cbn in *.
    - injection Hc as <-; exact HR.
    - destruct (forallb (arg_ok (List.length kenv)) (args e)) eqn:Hok; [|discriminate].
      destruct (rule (prim e) (map (kind_of kenv) (args e))) as [k|] eqn:Hr; [|discriminate].
      apply (IH _ _ _ _ _ Hc). unfold step. apply Rel_app; [exact HR|].
      eapply sem_respects_rule; eauto. apply Rel_args; auto.
  Qed.

  (** top level: one input variable; the program's output is variable [o] *)
  Definition out (eqs : jaxpr) (o : nat) (x : V) : V := nth o (run eqs [x]) vzero.

  Definition accepts (eqs : jaxpr) (o : nat) : bool :=
    match lin_check eqs [KL] with
    | Some kenv' => Nat.ltb o (List.length kenv') &&
                    (kind_eqb (nth o kenv' KC) KL || kind_eqb (nth o kenv' KC) KZ)
    | None => false
    end.

  Lemma relk_KZ_is_KL x y s : relk KZ x y s -> relk KL x y s.
  Proof. intros (-> & -> & ->). cbn. symmetry. exact comb_zero. Qed.

  Theorem accepts_linear eqs o x y :
    accepts eqs o = true ->
    out eqs o (vadd (vscale a x) (vscale b y)) = vadd (vscale a (out eqs o x)) (vscale b (out eqs o y)).
  Proof.
    unfold accepts. destruct (lin_check eqs [KL]) as [kenv'|] eqn:Hc; [|discriminate].
    intros H. apply andb_prop in H as [Ho Hk]. apply Nat.ltb_lt in Ho.
    assert (HR : Rel [KL] [x] [y] [vadd (vscale a x) (vscale b y)]) by (repeat constructor).
    pose proof (lin_check_sound eqs _ _ _ _ _ Hc HR) as H.
    pose proof (Rel_nth _ _ _ _ o H Ho) as Hn. unfold out.
    destruct (nth o kenv' KZ) eqn:Hkind.
    - exfalso. replace (nth o kenv' KC) with KC in Hk; [discriminate|].
      rewrite (nth_indep kenv' KC KZ Ho). now rewrite Hkind.
    - apply relk_KZ_is_KL in Hn. exact Hn.
    - exact Hn.
    - exfalso. replace (nth o kenv' KC) with KA in Hk; [discriminate|].
      rewrite (nth_indep kenv' KC KZ Ho). now rewrite Hkind.
  Qed.
End Sound.

(** ** The concrete rule table (the per-primitive facts trusted about XLA)

    [cplx = true]: linear means complex-linear, so [real imag conj complex] and
    complex->real conversion are rejected on linear values; [cplx = false]: real-linear. *)
Open Scope string_scope.

Definition all_const (ks : list kind) : bool :=
  forallb (fun k => match k with KL => false | _ => true end) ks.
Definition all_zero (ks : list kind) : bool :=
  negb (Nat.eqb (List.length ks) 0) && forallb (fun k => kind_eqb k KZ) ks.
Definition no_const (ks : list kind) : bool :=
  forallb (fun k => match k with KC => false | _ => true end) ks.
Definition mem (s : string) (l : list string) : bool := existsb (String.eqb s) l.
Definition is_constk (k : kind) : bool := match k with KC | KZ => true | _ => false end.

(** value-preserving / linear primitives of one array operand (further operands, if any, are
    handled below) *)
Definition unary_linear : list string :=
  ["neg"; "reshape"; "transpose"; "rev"; "squeeze"; "expand_dims"; "broadcast_in_dim";
   "reduce_sum"; "convert_element_type"; "copy"; "copy_p"; "slice"; "fft"; "cumsum";
   "reduce_precision"; "real_to_complex"; "split"; "squeeze"].
Definition unary_real_linear : list string := ["real"; "imag"; "conj"; "complex_to_real"].
Definition nary_additive : list string := ["add"; "sub"; "add_any"; "concatenate"; "complex"].
(** first operand linear (or zero), all others constant *)
Definition first_linear_rest_const : list string :=
  ["div"; "gather"; "dynamic_slice"; "pad_const"; "select_and_gather"; "reduce_window_sum"].
(** exactly one of two operands linear, the other constant *)
Definition bilinear : list string := ["mul"; "dot_general"; "conv_general_dilated"].

Definition rule_core (cplx : bool) (p : string) (ks : list kind) : option kind :=
  if all_zero ks && (mem p unary_linear || mem p nary_additive || mem p bilinear || mem p ["pad"; "pad_const"]) then Some KZ
  else if all_const ks then Some KC                 (* does not depend on the input at all *)
  else if mem p unary_linear then
    match ks with [KL] => Some KL | _ => None end
  else if mem p unary_real_linear then
    if cplx then None else match ks with [KL] => Some KL | _ => None end
  else if mem p nary_additive then
    if String.eqb p "complex" && cplx then None
    else if no_const ks then Some KL else None
  else if mem p bilinear then
    match ks with
    | [KL; KC] | [KC; KL] => Some KL
    | [KL; KZ] | [KZ; KL] | [KZ; KC] | [KC; KZ] | [KZ; KZ] => Some KZ
    | _ => None
    end
  else if mem p first_linear_rest_const then
    match ks with
    | KL :: rest => if forallb is_constk rest then Some KL else None
    | KZ :: rest => if forallb is_constk rest then Some KZ else None
    | _ => None
    end
  else if String.eqb p "pad" then                   (* operand, padding value (must be zero) *)
    match ks with [KL; KZ] => Some KL | [KZ; KZ] => Some KZ | _ => None end
  else if String.eqb p "select_n" then              (* predicate constant, cases linear or zero *)
    match ks with
    | KC :: rest | KZ :: rest => if no_const rest then Some KL else None
    | _ => None
    end
  else if mem p ["scatter-add"; "scatter_add"; "scatter"; "dynamic_update_slice"] then
    (* operand, indices, updates  /  operand, update, indices...  : array operands linear or zero,
       index operands constant *)
    match ks with
    | [o; i; u] => if no_const [o; u] && is_constk i then Some KL
                   else if no_const [o; i] && is_constk u then Some KL   (* dynamic_update_slice o u idx *)
                   else None
    | o :: u :: idx => if no_const [o; u] && forallb is_constk idx then Some KL else None
    | _ => None
    end
  else None.

(** Conjugate-linear values (complex mode only): [conj] exchanges KL and KA; every other row
    applies unchanged when ALL its linear operands are antilinear (a complex-linear primitive
    maps antilinear functions of the input to antilinear functions); mixing KL and KA is rejected. *)
Definition is_lin (k : kind) : bool := match k with KL | KA => true | _ => false end.
Definition norm_kind (k : kind) : kind := match k with KA => KL | k => k end.
Definition uniform_lin (ks : list kind) : option kind :=
  match filter is_lin ks with
  | [] => Some KL
  | k :: r => if forallb (kind_eqb k) r then Some k else None
  end.

Definition rule_tbl (cplx : bool) (p : string) (ks : list kind) : option kind :=
  if cplx && String.eqb p "conj" then
    match ks with [KL] => Some KA | [KA] => Some KL | [KZ] => Some KZ | [KC] => Some KC | _ => None end
  else
    match uniform_lin ks with
    | None => None
    | Some lk =>
        match rule_core cplx p (map norm_kind ks) with
        | Some KL => Some lk
        | r => r
        end
    end.

(** diagnostics for the harness: index of the first rejected equation (None = accepted) *)
Fixpoint first_reject (rule : string -> list kind -> option kind) (eqs : jaxpr)
         (kenv : list kind) (i : nat) : option nat :=
  match eqs with
  | [] => None
  | e :: rest =>
      if forallb (arg_ok (List.length kenv)) (args e) then
        match rule (prim e) (map (kind_of kenv) (args e)) with
        | Some k => first_reject rule rest (kenv ++ [k]) (S i)
        | None => Some i
        end
      else Some i
  end.

(** result code of one program: 0 = accepted (output linear), 1 + i = equation i rejected,
    (1 + number of equations) = all equations typed but the output is constant *)
Definition check_code (cplx : bool) (c : jaxpr * nat) : nat :=
  let '(eqs, o) := c in
  if accepts (rule_tbl cplx) eqs o then 0
  else match first_reject (rule_tbl cplx) eqs [KL] 0 with
       | Some i => S i
       | None => S (List.length eqs)
       end.

(** kinds assigned to all variables (0 = constant, 1 = zero, 2 = linear, 3 = conjugate-linear);
    [] when the program is rejected.  Used by the harness to validate the table on the primitive
    instances it meets. *)
Definition kind_code (k : kind) : nat := match k with KC => 0 | KZ => 1 | KL => 2 | KA => 3 end.
Definition kinds_of (cplx : bool) (eqs : jaxpr) : list nat :=
  match lin_check (rule_tbl cplx) eqs [KL] with Some ks => map kind_code ks | None => [] end.

(** closed instance of soundness for the concrete table: linearity of the traced program
    under the single hypothesis that the primitive semantics respects the table *)
Theorem jaxpr_linear_if_accepted :
  forall (cplx : bool) (V S : Type) (vzero : V) (vadd : V -> V -> V) (vscale : S -> V -> V) (lit : V)
         (a b a' b' : S), vadd (vscale a vzero) (vscale b vzero) = vzero ->
  forall (sem : string -> list V -> V),
    (forall p ks k lx ly ls, rule_tbl cplx p ks = Some k ->
       Rel V S vzero vadd vscale a b a' b' ks lx ly ls ->
       relk V S vzero vadd vscale a b a' b' k (sem p lx) (sem p ly) (sem p ls)) ->
  forall eqs o x y,
    accepts (rule_tbl cplx) eqs o = true ->
    out V vzero lit sem eqs o (vadd (vscale a x) (vscale b y)) =
    vadd (vscale a (out V vzero lit sem eqs o x)) (vscale b (out V vzero lit sem eqs o y)).
Proof.
  intros cplx V S vzero vadd vscale lit a b a' b' Hz sem Hsem eqs o x y Hacc.
  eapply accepts_linear; eauto.
Qed.
