(** C05: operator expressions denote the matrix construction.

    [mexpr] is the syntax of operator expressions over square operators on K^n (K any
    commutative ring with involution: R, C, Q, Q[i]).  [fden]/[fadj] are the forward and adjoint
    closures that scico builds (pointwise constructions); [mden2] applies the same construction
    to the operands' matrices (and to the matrices of their adjoints).  Theorem
    [fden_is_matrix]: for every expression tree and every vector, closure = matrix. *)
From Coq Require Import List Arith Lia Ring.
From SV Require Import LinAlg.Mat.
Import ListNotations.

Section MExpr.
  Variable K : Type.
  Variables (r0 r1 : K) (radd rmul rsub : K -> K -> K) (ropp : K -> K).
  Variable RT : ring_theory r0 r1 radd rmul rsub ropp (@eq K).
  Add Ring Kring2 : RT.
  Variable cj : K -> K.
  Hypothesis cj_add : forall a b, cj (radd a b) = radd (cj a) (cj b).
  Hypothesis cj_mul : forall a b, cj (rmul a b) = rmul (cj a) (cj b).
  Hypothesis cj_cj : forall a, cj (cj a) = a.
  Hypothesis cj_0 : cj r0 = r0.

  Notation vec := (vec K).
  Notation mat := (mat K).
  Notation mv := (mv K r0 radd rmul).
  Notation vadd := (vadd K radd).
  Notation vscale := (vscale K rmul).
  Notation vopp := (vopp K ropp).
  Notation vconj := (vconj K cj).
  Notation madd := (madd K radd).
  Notation mscale := (mscale K rmul).
  Notation mconj := (mconj K cj).
  Notation mmul := (mmul K r0 radd rmul).
  Notation mtrans := (mtrans K).
  Notation mH := (mH K cj).
  Notation wf := (wf K).

  Inductive mexpr :=
  | MLeaf (M : mat)
  | MAdd (a b : mexpr) | MSub (a b : mexpr)
  | MScale (c : K) (a : mexpr)
  | MComp (a b : mexpr)
  | MT (a : mexpr) | MH (a : mexpr) | MConj (a : mexpr) | MGram (a : mexpr).

  Variable n : nat.

  (** the closures scico creates (scico/linop/_linop.py) *)
  Fixpoint fden (e : mexpr) (x : vec) : vec :=
    match e with
    | MLeaf M => mv M x
    | MAdd a b => vadd (fden a x) (fden b x)
    | MSub a b => vadd (fden a x) (vopp (fden b x))
    | MScale c a => vscale c (fden a x)
    | MComp a b => fden a (fden b x)
    | MT a => vconj (fadj a (vconj x))
    | MH a => fadj a x
    | MConj a => vconj (fden a (vconj x))
    | MGram a => fadj a (fden a x)
    end
  with fadj (e : mexpr) (y : vec) : vec :=
    match e with
    | MLeaf M => mv (mH n M) y
    | MAdd a b => vadd (fadj a y) (fadj b y)
    | MSub a b => vadd (fadj a y) (vopp (fadj b y))
    | MScale c a => vscale (cj c) (fadj a y)
    | MComp a b => fadj b (fadj a y)
    | MT a => vconj (fden a (vconj y))
    | MH a => fden a y
    | MConj a => vconj (fadj a (vconj y))
    | MGram a => fadj a (fden a y)
    end.

  (** the same construction on matrices: (matrix, matrix of the adjoint) *)
  Definition mneg (A : mat) : mat := mscale (ropp r1) A.
  Fixpoint mden2 (e : mexpr) : mat * mat :=
    match e with
    | MLeaf M => (M, mH n M)
    | MAdd a b => (madd (fst (mden2 a)) (fst (mden2 b)), madd (snd (mden2 a)) (snd (mden2 b)))
    | MSub a b => (madd (fst (mden2 a)) (mneg (fst (mden2 b))), madd (snd (mden2 a)) (mneg (snd (mden2 b))))
    | MScale c a => (mscale c (fst (mden2 a)), mscale (cj c) (snd (mden2 a)))
    | MComp a b => (mmul n (fst (mden2 a)) (fst (mden2 b)), mmul n (snd (mden2 b)) (snd (mden2 a)))
    | MT a => (mconj (snd (mden2 a)), mconj (fst (mden2 a)))
    | MH a => (snd (mden2 a), fst (mden2 a))
    | MConj a => (mconj (fst (mden2 a)), mconj (snd (mden2 a)))
    | MGram a => (mmul n (snd (mden2 a)) (fst (mden2 a)), mmul n (snd (mden2 a)) (fst (mden2 a)))
    end.

  Fixpoint wfe (e : mexpr) : Prop :=
    match e with
    | MLeaf M => wf n n M
    | MAdd a b | MSub a b | MComp a b => wfe a /\ wfe b
    | MScale _ a | MT a | MH a | MConj a | MGram a => wfe a
    end.

  (** well-formedness is preserved by the matrix constructions *)
  Lemma wf_madd A B : wf n n A -> wf n n B -> wf n n (madd A B).
  Proof.
    intros [HA1 HA2] [HB1 HB2]. unfold Mat.madd. split.
    - rewrite map_length, combine_length. lia.
    - apply Forall_forall. intros r Hr. apply in_map_iff in Hr as ((a & b) & <- & Hin).
      cbn. rewrite Forall_forall in HA2, HB2.
      pose proof (in_combine_l _ _ _ _ Hin). pose proof (in_combine_r _ _ _ _ Hin).
      rewrite (vadd_length K radd); auto. rewrite HA2, HB2; auto.
  Qed.
  Lemma wf_mscale c A : wf n n A -> wf n n (mscale c A).
  Proof.
    intros [HA1 HA2]. unfold Mat.mscale. split; [now rewrite map_length|].
    apply Forall_forall. intros r Hr. apply in_map_iff in Hr as (a & <- & Hin).
    unfold Mat.vscale. rewrite map_length. rewrite Forall_forall in HA2. auto.
  Qed.
  Lemma wf_mconj A : wf n n A -> wf n n (mconj A).
  Proof.
    intros [HA1 HA2]. unfold Mat.mconj. split; [now rewrite map_length|].
    apply Forall_forall. intros r Hr. apply in_map_iff in Hr as (a & <- & Hin).
    unfold Mat.vconj. rewrite map_length. rewrite Forall_forall in HA2. auto.
  Qed.
  Lemma mtrans_row_length : forall (M : mat), Forall (fun r => length r = n) M ->
    Forall (fun r => length r = length M) (mtrans n M).
  Proof.
    induction M as [|r M IH]; intros H; cbn.
    - apply Forall_forall. intros x Hx. apply repeat_spec in Hx. subst. reflexivity.
    - apply Forall_cons_iff in H as [Hr HM]. specialize (IH HM).
      apply Forall_forall. intros x Hx. apply in_map_iff in Hx as ((a & c) & <- & Hin). cbn.
      rewrite Forall_forall in IH. f_equal. apply IH. eapply in_combine_r; eauto.
  Qed.
  Lemma wf_mtrans A : wf n n A -> wf n n (mtrans n A).
  Proof.
    intros [HA1 HA2]. split.
    - now apply mtrans_rows.
    - pose proof (mtrans_row_length A HA2) as H. rewrite HA1 in H. exact H.
  Qed.
  Lemma wf_mH A : wf n n A -> wf n n (mH n A).
  Proof. intros H. unfold Mat.mH. apply wf_mconj, wf_mtrans, H. Qed.
  Lemma wf_mmul A B : wf n n A -> wf n n B -> wf n n (mmul n A B).
  Proof.
    intros [HA1 HA2] HB. unfold Mat.mmul. split; [now rewrite map_length|].
    apply Forall_forall. intros r Hr. apply in_map_iff in Hr as (a & <- & Hin).
    rewrite mv_length. apply wf_mtrans in HB. apply HB.
  Qed.

  Lemma mv_len A x : wf n n A -> length (mv A x) = n.
  Proof. intros [H _]. now rewrite mv_length. Qed.
  Lemma vconj_len (x : vec) : length (vconj x) = length x.
  Proof. unfold Mat.vconj. apply map_length. Qed.

  Lemma mv_mneg A x : mv (mneg A) x = vopp (mv A x).
  Proof.
    unfold mneg. rewrite (mv_mscale K r0 r1 radd rmul rsub ropp RT).
    unfold Mat.vscale, Mat.vopp. apply map_ext. intros a. ring.
  Qed.

  Lemma mv_madd_n A B x : wf n n A -> wf n n B -> mv (madd A B) x = vadd (mv A x) (mv B x).
  Proof.
    intros [A1 A2] [B1 B2]. apply (mv_madd K r0 r1 radd rmul rsub ropp RT n); auto. transitivity n; [exact A1 | symmetry; exact B1].
  Qed.
  Lemma mv_mscale_n c A x : mv (mscale c A) x = vscale c (mv A x).
  Proof. apply (mv_mscale K r0 r1 radd rmul rsub ropp RT). Qed.
  Lemma mv_mmul_n A B x : wf n n A -> wf n n B -> length x = n -> mv (mmul n A B) x = mv A (mv B x).
  Proof. intros. apply (mv_mmul K r0 r1 radd rmul rsub ropp RT n n n); auto. Qed.
  Lemma mv_mconj_n A x : mv (mconj A) x = vconj (mv A (vconj x)).
  Proof. apply Mat.mv_mconj; auto. Qed.

  (** main theorem, with the invariants needed for the induction *)
  Theorem fden_is_matrix : forall e, wfe e ->
    wf n n (fst (mden2 e)) /\ wf n n (snd (mden2 e)) /\
    (forall x, length x = n -> fden e x = mv (fst (mden2 e)) x) /\
    (forall y, length y = n -> fadj e y = mv (snd (mden2 e)) y).
  Proof.
    induction e as [M|a IHa b IHb|a IHa b IHb|c a IHa|a IHa b IHb|a IHa|a IHa|a IHa|a IHa];
      cbn [wfe mden2 fden fadj fst snd]; intros H.
    - split; [exact H|]. split; [apply wf_mH, H|]. split; reflexivity.
    - destruct H as [Ha Hb]. destruct (IHa Ha) as (A1 & A2 & A3 & A4). destruct (IHb Hb) as (B1 & B2 & B3 & B4).
      split; [apply wf_madd; auto|]. split; [apply wf_madd; auto|]. split; intros x Hx.
      + rewrite A3, B3, mv_madd_n; auto.
      + rewrite A4, B4, mv_madd_n; auto.
    - destruct H as [Ha Hb]. destruct (IHa Ha) as (A1 & A2 & A3 & A4). destruct (IHb Hb) as (B1 & B2 & B3 & B4).
      assert (N1 : wf n n (mneg (fst (mden2 b)))) by (apply wf_mscale; auto).
      assert (N2 : wf n n (mneg (snd (mden2 b)))) by (apply wf_mscale; auto).
      split; [apply wf_madd; auto|]. split; [apply wf_madd; auto|]. split; intros x Hx.
      + rewrite A3, B3, mv_madd_n, mv_mneg; auto.
      + rewrite A4, B4, mv_madd_n, mv_mneg; auto.
    - destruct (IHa H) as (A1 & A2 & A3 & A4).
      split; [apply wf_mscale; auto|]. split; [apply wf_mscale; auto|]. split; intros x Hx.
      + rewrite A3, mv_mscale_n; auto.
      + rewrite A4, mv_mscale_n; auto.
    - destruct H as [Ha Hb]. destruct (IHa Ha) as (A1 & A2 & A3 & A4). destruct (IHb Hb) as (B1 & B2 & B3 & B4).
      split; [apply wf_mmul; auto|]. split; [apply wf_mmul; auto|]. split; intros x Hx.
      + rewrite B3 by auto. rewrite A3 by (apply mv_len; auto). rewrite mv_mmul_n; auto.
      + rewrite A4 by auto. rewrite B4 by (apply mv_len; auto). rewrite mv_mmul_n; auto.
    - destruct (IHa H) as (A1 & A2 & A3 & A4).
      split; [apply wf_mconj; auto|]. split; [apply wf_mconj; auto|]. split; intros x Hx.
      + rewrite A4 by (rewrite vconj_len; auto). rewrite mv_mconj_n. reflexivity.
      + rewrite A3 by (rewrite vconj_len; auto). rewrite mv_mconj_n. reflexivity.
    - destruct (IHa H) as (A1 & A2 & A3 & A4). split; [exact A2|]. split; [exact A1|]. split; auto.
    - destruct (IHa H) as (A1 & A2 & A3 & A4).
      split; [apply wf_mconj; auto|]. split; [apply wf_mconj; auto|]. split; intros x Hx.
      + rewrite A3 by (rewrite vconj_len; auto). rewrite mv_mconj_n. reflexivity.
      + rewrite A4 by (rewrite vconj_len; auto). rewrite mv_mconj_n. reflexivity.
    - destruct (IHa H) as (A1 & A2 & A3 & A4).
      split; [apply wf_mmul; auto|]. split; [apply wf_mmul; auto|]. split; intros x Hx.
      + rewrite A3 by auto. rewrite A4 by (apply mv_len; auto). rewrite mv_mmul_n; auto.
      + rewrite A3 by auto. rewrite A4 by (apply mv_len; auto). rewrite mv_mmul_n; auto.
  Qed.

  Corollary expression_denotes_matrix_construction e x :
    wfe e -> length x = n -> fden e x = mv (fst (mden2 e)) x.
  Proof. intros H Hx. apply (fden_is_matrix e H); auto. Qed.

  (** ** class-specific closed forms equal the generic construction *)
  (** a diagonal operator: pointwise product *)
  Fixpoint vmul (d x : vec) : vec :=
    match d, x with a :: d', b :: x' => rmul a b :: vmul d' x' | _, _ => [] end.

  (** Diagonal(d1) + Diagonal(d2) is Diagonal(d1 + d2); Diagonal(d1)(Diagonal(d2)) is
      Diagonal(d1 * d2); c * Diagonal(d) is Diagonal(c d)  (scico/linop/_diag.py overrides) *)
  Lemma diag_add d1 : forall d2 x, length d1 = length d2 ->
    vmul (vadd d1 d2) x = vadd (vmul d1 x) (vmul d2 x).
  Proof.
    induction d1 as [|a d1 IH]; intros [|b d2] [|c x] H; cbn in *; try discriminate; auto.
    rewrite IH by lia. f_equal. ring.
  Qed.
  Lemma diag_comp d1 : forall d2 x, vmul (vmul d1 d2) x = vmul d1 (vmul d2 x).
  Proof.
    induction d1 as [|a d1 IH]; intros [|b d2] [|c x]; cbn; auto. rewrite IH. f_equal. ring.
  Qed.
  Lemma diag_scale c d : forall x, vmul (vscale c d) x = vscale c (vmul d x).
  Proof.
    induction d as [|a d IH]; intros [|b x]; cbn; auto. rewrite IH. f_equal. ring.
  Qed.
  (** ScaledIdentity(c) is Diagonal(c, ..., c) *)
  Lemma scaled_identity_is_diag c : forall x, vmul (repeat c (length x)) x = vscale c x.
  Proof. induction x as [|b x IH]; cbn; auto. now rewrite IH. Qed.
  (** Diagonal adjoint: pointwise product with the conjugate; <d.x, y> = <x, conj(d).y> *)
  Lemma diag_adjoint d : forall x y,
    cdot K r0 radd rmul cj (vmul d x) y = cdot K r0 radd rmul cj x (vmul (vconj d) y).
  Proof.
    unfold cdot, Mat.vconj. induction d as [|a d IH]; intros [|b x] [|c y]; cbn; auto.
    rewrite IH. rewrite cj_mul, cj_cj. ring.
  Qed.
End MExpr.

Arguments MLeaf {K} M.
Arguments MAdd {K} a b.
Arguments MSub {K} a b.
Arguments MScale {K} c a.
Arguments MComp {K} a b.
Arguments MT {K} a.
Arguments MH {K} a.
Arguments MConj {K} a.
Arguments MGram {K} a.
