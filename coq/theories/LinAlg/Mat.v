(** Vectors and matrices over an arbitrary commutative ring with involution ([conj]):
    covers R, C, Q and the Gaussian rationals used for execution.  All theorems are
    closed (no axioms). *)
From Coq Require Import List Arith Lia Ring Setoid.
Import ListNotations.

Section Mat.
  Variable K : Type.
  Variables (r0 r1 : K) (radd rmul rsub : K -> K -> K) (ropp : K -> K).
  Variable RT : ring_theory r0 r1 radd rmul rsub ropp (@eq K).
  Add Ring Kring : RT.
  Variable cj : K -> K.
  Hypothesis cj_add : forall a b, cj (radd a b) = radd (cj a) (cj b).
  Hypothesis cj_mul : forall a b, cj (rmul a b) = rmul (cj a) (cj b).
  Hypothesis cj_cj : forall a, cj (cj a) = a.
  Hypothesis cj_0 : cj r0 = r0.

  Notation "a + b" := (radd a b).
  Notation "a * b" := (rmul a b).
  Notation "a - b" := (rsub a b).
  Notation "- a" := (ropp a).

  Definition vec := list K.
  Definition mat := list vec.      (* list of rows *)

  Fixpoint dot (x y : vec) : K :=       (* bilinear *)
    match x, y with
    | a :: x', b :: y' => a * b + dot x' y'
    | _, _ => r0
    end.
  Definition vconj (x : vec) : vec := map cj x.
  Definition cdot (x y : vec) : K := dot x (vconj y).   (* sesquilinear: sum x_i conj(y_i) *)

  Fixpoint vadd (x y : vec) : vec :=
    match x, y with
    | a :: x', b :: y' => (a + b) :: vadd x' y'
    | _, _ => []
    end.
  Definition vscale (c : K) (x : vec) : vec := map (rmul c) x.
  Definition vopp (x : vec) : vec := map ropp x.
  Definition vsub (x y : vec) : vec := vadd x (vopp y).
  Definition vzero (n : nat) : vec := repeat r0 n.

  Definition mv (M : mat) (x : vec) : vec := map (fun r => dot r x) M.
  Arguments mv : simpl never.
  Lemma mv_cons r M x : mv (r :: M) x = dot r x :: mv M x.
  Proof. reflexivity. Qed.
  Lemma mv_nil x : mv [] x = [].
  Proof. reflexivity. Qed.

  (** transpose of a matrix with [n] columns *)
  Fixpoint mtrans (n : nat) (M : mat) : mat :=
    match M with
    | [] => repeat [] n
    | r :: M' => map (fun p => fst p :: snd p) (combine r (mtrans n M'))
    end.
  Definition mconj (M : mat) : mat := map vconj M.
  Definition mH (n : nat) (M : mat) : mat := mconj (mtrans n M).

  Definition wf (m n : nat) (M : mat) : Prop := length M = m /\ Forall (fun r => length r = n) M.

  (** ** dot-product algebra *)
  Lemma dot_nil_r x : dot x [] = r0.
  Proof. destruct x; reflexivity. Qed.

  Lemma dot_comm x : forall y, dot x y = dot y x.
  Proof.
    induction x as [|a x IH]; intros [|b y]; cbn; auto. rewrite IH. ring.
  Qed.

  Lemma dot_vadd_l x : forall y z, length x = length y ->
    dot (vadd x y) z = dot x z + dot y z.
  Proof.
    induction x as [|a x IH]; intros [|b y] z H; cbn in *; try discriminate.
    - ring.
    - destruct z as [|c z]; [ring|]. rewrite IH by lia. ring.
  Qed.

  Lemma dot_vscale_l c x : forall y, dot (vscale c x) y = c * dot x y.
  Proof.
    induction x as [|a x IH]; intros [|b y]; cbn; try ring. rewrite IH. ring.
  Qed.

  Lemma dot_vscale_r c x y : dot x (vscale c y) = c * dot x y.
  Proof. rewrite dot_comm, dot_vscale_l, dot_comm. reflexivity. Qed.

  Lemma dot_vadd_r x y z : length y = length z -> dot x (vadd y z) = dot x y + dot x z.
  Proof. intros H. rewrite dot_comm, dot_vadd_l, (dot_comm y), (dot_comm z); auto. Qed.

  Lemma vadd_length x : forall y, length x = length y -> length (vadd x y) = length x.
  Proof. induction x as [|a x IH]; intros [|b y] H; cbn in *; try discriminate; auto. Qed.

  Lemma cj_dot x : forall y, cj (dot x y) = dot (vconj x) (vconj y).
  Proof.
    induction x as [|a x IH]; intros [|b y]; cbn; auto.
    rewrite cj_add, cj_mul, IH. reflexivity.
  Qed.

  Lemma vconj_vconj x : vconj (vconj x) = x.
  Proof. unfold vconj. rewrite map_map. rewrite <- (map_id x) at 2. apply map_ext, cj_cj. Qed.

  (** ** linearity of the matrix-vector product *)
  Lemma mv_vadd M x y : length x = length y -> mv M (vadd x y) = vadd (mv M x) (mv M y).
  Proof.
    intros H. unfold mv. induction M as [|r M IH]; cbn; auto. rewrite IH, dot_vadd_r; auto.
  Qed.
  Lemma mv_vscale M c x : mv M (vscale c x) = vscale c (mv M x).
  Proof.
    unfold mv. induction M as [|r M IH]; cbn; auto. rewrite IH, dot_vscale_r. reflexivity.
  Qed.

  (** ** the transpose identity: <M x, y> = <x, M^T y> (bilinear form) *)
  Lemma mv_cons_col : forall (c : vec) (N : mat) x0 x,
    length c = length N ->
    mv (map (fun p => fst p :: snd p) (combine c N)) (x0 :: x) = vadd (vscale x0 c) (mv N x).
  Proof.
    unfold mv. induction c as [|a c IH]; intros [|r N] x0 x H; cbn in *; try discriminate; auto.
    rewrite IH by lia. f_equal. ring.
  Qed.

  Lemma mtrans_rows n M : Forall (fun r => length r = n) M -> length (mtrans n M) = n.
  Proof.
    induction M as [|r M IH]; intros H; cbn.
    - apply repeat_length.
    - inversion H; subst. rewrite map_length, combine_length, IH; auto. lia.
  Qed.

  Lemma mv_repeat_nil n x : mv (repeat [] n) x = vzero n.
  Proof. induction n; cbn [repeat vzero]; [reflexivity|]. rewrite mv_cons. f_equal; auto. Qed.

  Lemma dot_vzero_l n y : dot (vzero n) y = r0.
  Proof.
    revert y; induction n; intros [|b y]; cbn; auto. rewrite IHn. ring.
  Qed.

  Lemma mv_length M x : length (mv M x) = length M.
  Proof. apply map_length. Qed.

  (** <M x, y> = <x, M^T y> for an m x n matrix, x of length n, y of length m *)
  Theorem dot_mv_transpose : forall m n (M : mat) x y,
    wf m n M -> length x = n -> length y = m ->
    dot (mv M x) y = dot x (mv (mtrans n M) y).
  Proof.
    intros m n M. revert m. induction M as [|r M IH]; intros m x y [Hm Hr] Hx Hy.
    - cbn [length] in Hm. subst m. destruct y; [|discriminate].
      rewrite mv_nil. cbn [mtrans dot].
      rewrite mv_repeat_nil. rewrite dot_comm, dot_vzero_l. reflexivity.
    - cbn [length] in Hm. destruct m as [|m]; [discriminate|]. destruct y as [|y0 y]; [discriminate|].
      apply Forall_cons_iff in Hr as [Hr1 Hr2].
      assert (Hw : wf m n M) by (split; auto; lia).
      assert (Hy' : length y = m) by (cbn [length] in Hy; lia).
      rewrite mv_cons. cbn [dot mtrans].
      rewrite mv_cons_col by (rewrite mtrans_rows; auto).
      rewrite dot_vadd_r.
      2:{ unfold vscale. rewrite map_length, mv_length, mtrans_rows; auto. }
      rewrite dot_vscale_r.
      rewrite (IH m x y Hw Hx Hy').
      rewrite (dot_comm x r). ring.
  Qed.

  Lemma mv_mconj M x : mv (mconj M) x = vconj (mv M (vconj x)).
  Proof.
    unfold mv, mconj, vconj. rewrite !map_map. apply map_ext. intros r.
    rewrite cj_dot. fold (vconj x). fold (vconj (vconj x)). rewrite vconj_vconj. reflexivity.
  Qed.

  (** The adjoint identity: <M x, y> = <x, M^H y> in the sesquilinear inner product.
      "matrix of the adjoint = conjugate transpose of the matrix" => adjoint identity for all x, y. *)
  Theorem cdot_mv_adjoint : forall m n (M : mat) x y,
    wf m n M -> length x = n -> length y = m ->
    cdot (mv M x) y = cdot x (mv (mH n M) y).
  Proof.
    intros m n M x y HM Hx Hy. unfold cdot, mH.
    rewrite mv_mconj, vconj_vconj.
    apply dot_mv_transpose with (m := m); auto. unfold vconj. now rewrite map_length.
  Qed.

  (** ** operator calculus on matrices (used by the expression denotation) *)
  Definition madd (A B : mat) : mat := map (fun p => vadd (fst p) (snd p)) (combine A B).
  Definition mscale (c : K) (A : mat) : mat := map (vscale c) A.
  Definition mopp (A : mat) : mat := map vopp A.
  (** A (m x k) times B (k x n): rows of A against columns of B *)
  Definition mmul (n : nat) (A B : mat) : mat := map (fun r => mv (mtrans n B) r) A.

  Lemma dot_vadd_l_gen : forall x y z, dot (vadd x y) z = dot x z + dot y z \/ length x <> length y.
  Proof.
    intros x y z. destruct (Nat.eq_dec (length x) (length y)) as [H|H]; [left|right]; auto.
    now apply dot_vadd_l.
  Qed.

  Lemma mv_madd n : forall A B x,
    length A = length B -> Forall (fun r => length r = n) A -> Forall (fun r => length r = n) B ->
    mv (madd A B) x = vadd (mv A x) (mv B x).
  Proof.
    unfold madd, mv.
    induction A as [|a A IH]; intros [|b B] x HL HA HB; cbn in *; try discriminate; auto.
    apply Forall_cons_iff in HA as [Ha HA]. apply Forall_cons_iff in HB as [Hb HB].
    rewrite IH by (auto; lia). f_equal. apply dot_vadd_l. congruence.
  Qed.

  Lemma mv_mscale c A x : mv (mscale c A) x = vscale c (mv A x).
  Proof.
    unfold mv, mscale, vscale. rewrite !map_map. apply map_ext. intros r. apply dot_vscale_l.
  Qed.

  Lemma dot_mv_assoc : forall m n (B : mat) r x,
    wf m n B -> length r = m -> length x = n ->
    dot (mv (mtrans n B) r) x = dot r (mv B x).
  Proof.
    intros m n B r x HB Hr Hx.
    rewrite (dot_comm r), (dot_mv_transpose m n B x r HB Hx Hr). apply dot_comm.
  Qed.

  (** (A B) x = A (B x) *)
  Theorem mv_mmul : forall m k n (A B : mat) x,
    wf m k A -> wf k n B -> length x = n ->
    mv (mmul n A B) x = mv A (mv B x).
  Proof.
    intros m k n A B x [HA1 HA2] HB Hx. unfold mmul, mv at 1. rewrite map_map.
    unfold mv at 2. apply map_ext_in. intros r Hr.
    rewrite Forall_forall in HA2. apply dot_mv_assoc with (m := k); auto.
  Qed.
End Mat.
