(** Real (rational) matrices: executable instance of [Mat] at Qc with trivial conjugation.
    Complex spaces are "realified": C^n = R^(2n) ordered [re...; im...], inner product Re<.,.>
    = the plain dot product of the realified vectors.  The boolean checks below are run by
    vm_compute on the matrices extracted from the implementation at one configuration; the
    soundness theorems turn them into statements for ALL vectors. *)
From Coq Require Import List Arith Lia Ring QArith Qabs Qcanon Bool.
From SV Require Import LinAlg.Mat.
Import ListNotations.

Lemma Qc_ring : ring_theory 0%Qc 1%Qc Qcplus Qcmult Qcminus Qcopp (@eq Qc).
Proof. exact Qcrt. Qed.

Definition idq (a : Qc) : Qc := a.
Lemma idq_add a b : idq (a + b)%Qc = (idq a + idq b)%Qc. Proof. reflexivity. Qed.
Lemma idq_mul a b : idq (a * b)%Qc = (idq a * idq b)%Qc. Proof. reflexivity. Qed.
Lemma idq_idq a : idq (idq a) = a. Proof. reflexivity. Qed.
Lemma idq_0 : idq 0%Qc = 0%Qc. Proof. reflexivity. Qed.

Notation rvec := (vec Qc).
Notation rmat := (mat Qc).
Definition r_dot := dot Qc 0%Qc Qcplus Qcmult.
Definition r_mv := mv Qc 0%Qc Qcplus Qcmult.
Definition r_mtrans := mtrans Qc.
Definition r_madd := madd Qc Qcplus.
Definition r_mscale := mscale Qc Qcmult.
Definition r_mmul := mmul Qc 0%Qc Qcplus Qcmult.
Definition r_vadd := vadd Qc Qcplus.
Definition r_vscale := vscale Qc Qcmult.
Definition r_wf := wf Qc.

Definition qeqb (a b : Qc) : bool := Qeq_bool (this a) (this b).
Lemma qeqb_eq a b : qeqb a b = true -> a = b.
Proof. unfold qeqb. intros H. apply Qeq_bool_iff in H. now apply Qc_is_canon. Qed.

Fixpoint list_eqb {A} (f : A -> A -> bool) (a b : list A) : bool :=
  match a, b with
  | [], [] => true
  | x :: r, y :: s => f x y && list_eqb f r s
  | _, _ => false
  end.
Lemma list_eqb_eq {A} (f : A -> A -> bool) :
  (forall x y, f x y = true -> x = y) -> forall a b, list_eqb f a b = true -> a = b.
Proof.
  intros Hf. induction a as [|x a IH]; intros [|y b] H; cbn in H; try discriminate; auto.
  apply andb_prop in H as [H1 H2]. f_equal; auto.
Qed.
Definition rmat_eqb (A B : rmat) : bool := list_eqb (list_eqb qeqb) A B.
Lemma rmat_eqb_eq A B : rmat_eqb A B = true -> A = B.
Proof. apply list_eqb_eq, list_eqb_eq, qeqb_eq. Qed.

Definition wfb (m n : nat) (M : rmat) : bool :=
  Nat.eqb (length M) m && forallb (fun r => Nat.eqb (length r) n) M.
Lemma wfb_wf m n M : wfb m n M = true -> r_wf m n M.
Proof.
  unfold wfb. intros H. apply andb_prop in H as [H1 H2]. split.
  - now apply Nat.eqb_eq.
  - apply Forall_forall. intros r Hr. rewrite forallb_forall in H2. now apply Nat.eqb_eq, H2.
Qed.

(** [radj_ok m n M N]: N is exactly the transpose of the (m x n) matrix M *)
Definition radj_ok (m n : nat) (M N : rmat) : bool := wfb m n M && rmat_eqb N (r_mtrans n M).

Theorem radj_ok_sound m n M N :
  radj_ok m n M N = true ->
  forall x y, length x = n -> length y = m -> r_dot (r_mv M x) y = r_dot x (r_mv N y).
Proof.
  unfold radj_ok. intros H x y Hx Hy. apply andb_prop in H as [Hw He].
  apply rmat_eqb_eq in He. subst N. apply wfb_wf in Hw.
  apply (dot_mv_transpose Qc 0%Qc 1%Qc Qcplus Qcmult Qcminus Qcopp Qc_ring m n); auto.
Qed.

(** a linear map given by its matrix is additive and homogeneous (so an implementation that is
    linear and agrees with M on the basis agrees with M everywhere) *)
Theorem r_mv_linear M a x y : length x = length y ->
  r_mv M (r_vadd (r_vscale a x) y) = r_vadd (r_vscale a (r_mv M x)) (r_mv M y).
Proof.
  intros H. unfold r_mv, r_vadd, r_vscale.
  rewrite (mv_vadd Qc 0%Qc 1%Qc Qcplus Qcmult Qcminus Qcopp Qc_ring).
  - now rewrite (mv_vscale Qc 0%Qc 1%Qc Qcplus Qcmult Qcminus Qcopp Qc_ring).
  - unfold vscale. now rewrite map_length.
Qed.

(** approximate comparison for classes whose arithmetic is not exact (FFT, trigonometry) *)
Definition qclose (tol : Q) (a b : Qc) : bool := Qle_bool (Qabs (this a - this b)) tol.
Definition rmat_close (tol : Q) (A B : rmat) : bool := list_eqb (list_eqb (qclose tol)) A B.

(** conjugation on a realified complex space of complex dimension n: diag(I_n, -I_n) *)
Definition sconj_vec (n : nat) (x : rvec) : rvec := firstn n x ++ map Qcopp (skipn n x).
(** S_out * M * S_in: negate the rows >= mo and the columns >= ni *)
Definition neg_cols (ni : nat) (r : rvec) : rvec := sconj_vec ni r.
Definition sconj_mat (mo ni : nat) (M : rmat) : rmat :=
  let M1 := map (neg_cols ni) M in
  firstn mo M1 ++ map (map Qcopp) (skipn mo M1).

(** multiplication by i on a realified complex space: (re, im) -> (-im, re) *)
Definition jmul_vec (n : nat) (x : rvec) : rvec := map Qcopp (skipn n x) ++ firstn n x.

Definition qc (a : Q) : Qc := Q2Qc a.
Fixpoint bad_idx {A} (f : A -> bool) (l : list A) (i : nat) : list nat :=
  match l with [] => [] | x :: r => if f x then bad_idx f r (S i) else i :: bad_idx f r (S i) end.
