(** The per-configuration matrix relations evaluated by the harness (C01, C05). *)
From Coq Require Import List Arith QArith Qcanon Bool.
From SV Require Import LinAlg.Mat LinAlg.RQ.
Import ListNotations.

(** (relation, rows, cols, split_rows, split_cols, tolerance, M, N) with M of size rows x cols.
    relation 0: N = M^T                       (adjoint / Hermitian view, real inner product)
             1: N = S_x M^T S_y               (plain transpose view)
             2: N = S_y M S_x                 (conjugate view)
             3: N = M^T M                     (Gram operator)
             4: N = M                         (same operator)
    S negates the coordinates >= split (the imaginary parts of a realified complex space;
    split = dimension for a real space). *)
Definition rel_expect (rel m n sr sc : nat) (M : rmat) : rmat :=
  match rel with
  | 0%nat => r_mtrans n M
  | 1%nat => sconj_mat sc sr (r_mtrans n M)
  | 2%nat => sconj_mat sr sc M
  | 3%nat => r_mmul n (r_mtrans n M) M
  | _ => M
  end.

Definition rel_ok (c : nat * nat * nat * nat * nat * option Q * rmat * rmat) : bool :=
  let '(rel, m, n, sr, sc, tol, M, N) := c in
  wfb m n M &&
  match tol with
  | None => rmat_eqb N (rel_expect rel m n sr sc M)
  | Some t => rmat_close t N (rel_expect rel m n sr sc M)
  end.

(** exact relation 0 is exactly the hypothesis of [radj_ok_sound] *)
Lemma rel_ok_adj m n sr sc M N :
  rel_ok (0%nat, m, n, sr, sc, None, M, N) = true -> radj_ok m n M N = true.
Proof. unfold rel_ok, radj_ok; cbn. auto. Qed.

Theorem rel_ok_adjoint_identity m n sr sc M N :
  rel_ok (0%nat, m, n, sr, sc, None, M, N) = true ->
  forall x y, length x = n -> length y = m -> r_dot (r_mv M x) y = r_dot x (r_mv N y).
Proof. intros H. apply radj_ok_sound. eapply rel_ok_adj; eauto. Qed.
