(** Replicated stack (scico.linop.DiagonalReplicated) as a matrix, and the checker evaluated by the C05 harness.

    DiagonalReplicated(A, replicates = k, input_axis = ia, output_axis = oa) for A : C^n -> C^m maps an array
    that carries the replicate axis at position ia (shape (k, n) for ia = 0, (n, k) for ia = 1) to an array that
    carries it at position oa (shape (k, m) or (m, k)); slice r of the output is A applied to slice r of the
    input.  Rows / columns of the matrix are the row-major flattenings of the output / input arrays. *)
From Coq Require Import List Arith Lia QArith Qcanon Bool.
From SV Require Import LinAlg.Mat LinAlg.CQ LinAlg.MExpr LinAlg.CQExpr.
Import ListNotations.

(** (replicate index, index inside the slice) of flat position p of an array whose replicate axis (length k)
    is axis [ax] and whose other axis has length [len] *)
Definition rep_split (k len ax p : nat) : nat * nat :=
  if Nat.eqb ax 0 then (p / len, p mod len)%nat else (p mod k, p / k)%nat.

Definition rep_entry (k m n ia oa : nat) (A : cmat) (o i : nat) : CQ :=
  let '(ro, j) := rep_split k m oa o in
  let '(ri, c) := rep_split k n ia i in
  if Nat.eqb ro ri then nth c (nth j A []) c0 else c0.

Definition rep_mat (k m n ia oa : nat) (A : cmat) : cmat :=
  map (fun o => map (fun i => rep_entry k m n ia oa A o i) (seq 0 (k * n))) (seq 0 (k * m)).

(** case: (k, m, n, ia, oa, tolerance, A, matrix of the implementation's operator, matrix of its adjoint) *)
Definition rep_case_ok (c : nat * nat * nat * nat * nat * option Q * cmat * cmat * cmat) : bool :=
  let '(k, m, n, ia, oa, tol, A, R, Radj) := c in
  cmat_cmp tol (rep_mat k m n ia oa A) R && cmat_cmp tol (c_mH (k * n) (rep_mat k m n ia oa A)) Radj.

(** ** The action of the replicated stack

    [rep_mat_acts]: entry o of (rep_mat k m n ia oa A) x, with (r, j) the (replicate, row) coordinates of o, is
    row j of A against slice r of x -- no other entry of x contributes.  Axis 0 is [ax = 0], any other value of
    [ia] / [oa] is read as axis 1 (exactly as [rep_split] does). *)
Local Open Scope nat_scope.
Add Ring CQring_rep : CQ_ring.

Fixpoint csum (l : list CQ) : CQ :=
  match l with [] => c0 | p :: l' => cadd p (csum l') end.

Lemma csum_app a b : csum (a ++ b) = cadd (csum a) (csum b).
Proof. induction a as [|p a IH]; cbn [app csum]; [|rewrite IH]; ring. Qed.

Lemma csum_map_c0 {T} (g : T -> CQ) l : (forall q, In q l -> g q = c0) -> csum (map g l) = c0.
Proof.
  induction l as [|q l IH]; intros H; cbn [map csum]; auto.
  rewrite H by (left; auto). rewrite IH by (intros; apply H; right; auto). ring.
Qed.

(** a sum with a single selected index *)
Lemma csum_delta (h : nat -> CQ) r : forall b s, s <= r < s + b ->
  csum (map (fun q => if Nat.eqb r q then h q else c0) (seq s b)) = h r.
Proof.
  induction b as [|b IH]; intros s H; [lia|]. cbn [seq map csum].
  destruct (Nat.eqb r s) eqn:E.
  - apply Nat.eqb_eq in E. subst s. rewrite csum_map_c0; [ring|].
    intros q Hq. apply in_seq in Hq. destruct (Nat.eqb r q) eqn:E2; auto.
    apply Nat.eqb_eq in E2. lia.
  - apply Nat.eqb_neq in E. rewrite IH by lia. ring.
Qed.

Lemma seq_as_map s : forall b, seq s b = map (fun q => s + q) (seq 0 b).
Proof.
  intros b. revert s. induction b as [|b IH]; intros s; cbn [seq map]; auto. f_equal; [lia|].
  rewrite <- (seq_shift b 0), map_map, IH. apply map_ext. intros; lia.
Qed.

(** a sum over a (a x b) row-major index range is the iterated sum *)
Lemma csum_block (g : nat -> CQ) b : forall a,
  csum (map g (seq 0 (a * b))) =
  csum (map (fun p => csum (map (fun q => g (p * b + q)) (seq 0 b))) (seq 0 a)).
Proof.
  induction a as [|a IH]; [reflexivity|].
  replace (S a * b) with (a * b + b) by lia.
  rewrite seq_app, seq_S, !map_app, !csum_app, IH. cbn [plus map csum]. f_equal.
  rewrite (seq_as_map (a * b)), map_map. ring.
Qed.

Lemma nth_map_seq {T} (F : nat -> T) N o d : o < N -> nth o (map F (seq 0 N)) d = F o.
Proof.
  intros H. rewrite nth_indep with (d' := F 0) by (rewrite map_length, seq_length; auto).
  rewrite map_nth, seq_nth; auto.
Qed.

(** the dot product as an indexed sum *)
Lemma c_dot_csum : forall a b : cvec, length a = length b ->
  c_dot a b = csum (map (fun q => cmul (nth q a c0) (nth q b c0)) (seq 0 (length a))).
Proof.
  induction a as [|p a IH]; intros [|q b] H; cbn [length] in H; try discriminate; [reflexivity|].
  cbn [length seq map csum nth]. rewrite <- seq_shift, map_map. cbn [nth].
  rewrite <- IH by lia. reflexivity.
Qed.

Lemma c_dot_map_seq_l (f : nat -> CQ) N (x : cvec) : length x = N ->
  c_dot (map f (seq 0 N)) x = csum (map (fun i => cmul (f i) (nth i x c0)) (seq 0 N)).
Proof.
  intros H. rewrite c_dot_csum by (rewrite map_length, seq_length; auto).
  rewrite map_length, seq_length. f_equal. apply map_ext_in. intros i Hi. apply in_seq in Hi.
  rewrite nth_map_seq by lia. reflexivity.
Qed.

Lemma c_dot_map_seq_r (a : cvec) (h : nat -> CQ) n : length a = n ->
  c_dot a (map h (seq 0 n)) = csum (map (fun q => cmul (nth q a c0) (h q)) (seq 0 n)).
Proof.
  intros H. rewrite c_dot_csum by (rewrite map_length, seq_length; auto). rewrite H.
  f_equal. apply map_ext_in. intros i Hi. apply in_seq in Hi.
  rewrite nth_map_seq by lia. reflexivity.
Qed.

Lemma firstn_skipn_seq (x : cvec) : forall s n, s + n <= length x ->
  firstn n (skipn s x) = map (fun c => nth (s + c) x c0) (seq 0 n).
Proof.
  intros s. revert x. induction s as [|s IH]; intros x n H.
  - cbn [skipn plus]. revert x H. induction n as [|n IHn]; intros x H; [reflexivity|].
    destruct x as [|p x]; cbn [length] in H; [lia|].
    cbn [firstn seq map nth]. f_equal. rewrite <- seq_shift, map_map. cbn [nth]. apply IHn. lia.
  - destruct x as [|p x]; cbn [length] in H; [lia|]. cbn [skipn]. rewrite IH by lia.
    apply map_ext. intros c. reflexivity.
Qed.

Lemma divmod_block p n q : q < n -> (p * n + q) / n = p /\ (p * n + q) mod n = q.
Proof.
  intros H. split.
  - rewrite Nat.div_add_l by lia. rewrite Nat.div_small by auto. lia.
  - rewrite Nat.add_comm, Nat.mod_add by lia. apply Nat.mod_small; auto.
Qed.

(** slice r (the n entries belonging to replicate r) of an input whose replicate axis is [ia] *)
Definition rep_slice (k n ia r : nat) (x : cvec) : cvec :=
  if Nat.eqb ia 0 then firstn n (skipn (r * n) x)
  else map (fun c => nth (c * k + r) x c0) (seq 0 n).

(** one row of the replicated operator: only slice r of x contributes, through the row a of A *)
Lemma rep_row_acts k n ia (a : cvec) (x : cvec) r :
  0 < k -> 0 < n -> r < k -> length a = n -> length x = k * n ->
  c_dot (map (fun i => let '(ri, c) := rep_split k n ia i in
                        if Nat.eqb r ri then nth c a c0 else c0) (seq 0 (k * n))) x
  = c_dot a (rep_slice k n ia r x).
Proof.
  intros Hk Hn Hr Ha Hx. unfold rep_split, rep_slice.
  rewrite c_dot_map_seq_l by auto. destruct (Nat.eqb ia 0); cbv beta iota.
  - rewrite firstn_skipn_seq by nia. rewrite c_dot_map_seq_r by auto.
    rewrite csum_block.
    transitivity (csum (map (fun p => if Nat.eqb r p
        then csum (map (fun q => cmul (nth q a c0) (nth (p * n + q) x c0)) (seq 0 n)) else c0) (seq 0 k))).
    + f_equal. apply map_ext_in. intros p _. destruct (Nat.eqb r p) eqn:E.
      * f_equal. apply map_ext_in. intros q Hq. apply in_seq in Hq.
        destruct (divmod_block p n q) as [-> ->]; [lia|]. rewrite E. reflexivity.
      * apply csum_map_c0. intros q Hq. apply in_seq in Hq.
        destruct (divmod_block p n q) as [-> ->]; [lia|]. rewrite E. ring.
    + apply (csum_delta (fun p => csum (map (fun q => cmul (nth q a c0) (nth (p * n + q) x c0)) (seq 0 n)))).
      lia.
  - rewrite c_dot_map_seq_r by auto. rewrite (Nat.mul_comm k n), csum_block.
    f_equal. apply map_ext_in. intros p _.
    transitivity (csum (map (fun q => if Nat.eqb r q
        then cmul (nth p a c0) (nth (p * k + q) x c0) else c0) (seq 0 k))).
    + f_equal. apply map_ext_in. intros q Hq. apply in_seq in Hq.
      destruct (divmod_block p k q) as [-> ->]; [lia|]. destruct (Nat.eqb r q); [reflexivity|ring].
    + apply (csum_delta (fun q => cmul (nth p a c0) (nth (p * k + q) x c0))). lia.
Qed.

Lemma rep_split_bounds k m oa o : 0 < k -> 0 < m -> o < k * m ->
  fst (rep_split k m oa o) < k /\ snd (rep_split k m oa o) < m.
Proof.
  intros Hk Hm Ho. unfold rep_split. destruct (Nat.eqb oa 0); cbn [fst snd]; split.
  - apply Nat.div_lt_upper_bound; lia.
  - apply Nat.mod_upper_bound; lia.
  - apply Nat.mod_upper_bound; lia.
  - apply Nat.div_lt_upper_bound; lia.
Qed.

(** Row o of the replicated operator is row j of A applied to slice r of x, where (r, j) are the
    (replicate, row-of-A) coordinates of o; nothing else contributes. *)
Theorem rep_mat_acts k m n ia oa (A : cmat) (x : cvec) o :
  0 < k -> 0 < m -> 0 < n ->
  length A = m -> Forall (fun row => length row = n) A -> length x = k * n -> o < k * m ->
  let '(r, j) := rep_split k m oa o in
  nth o (c_mv (rep_mat k m n ia oa A) x) c0 = c_dot (nth j A []) (rep_slice k n ia r x).
Proof.
  intros Hk Hm Hn HA HR Hx Ho.
  unfold c_mv, mv, rep_mat. rewrite map_map, nth_map_seq by auto. fold c_dot.
  unfold rep_entry. pose proof (rep_split_bounds k m oa o Hk Hm Ho) as [Hr Hj].
  destruct (rep_split k m oa o) as [r j]. cbn [fst snd] in Hr, Hj.
  apply rep_row_acts; auto.
  rewrite Forall_forall in HR. apply HR, nth_In. lia.
Qed.

(** ** corollary: replicate axis first on both sides = block-diagonal action on the list of slices *)
Lemma concat_length_uniform {T} (ls : list (list T)) m :
  Forall (fun l => length l = m) ls -> length (concat ls) = length ls * m.
Proof.
  induction 1 as [|l ls Hl _ IH]; [reflexivity|]. cbn [concat length]. rewrite app_length, IH. lia.
Qed.

Lemma nth_concat_uniform {T} (ls : list (list T)) m d :
  Forall (fun l => length l = m) ls ->
  forall r j, j < m -> nth (r * m + j) (concat ls) d = nth j (nth r ls []) d.
Proof.
  induction 1 as [|l ls Hl _ IH]; intros r j Hj.
  - cbn [concat]. destruct (r * m + j), r, j; reflexivity.
  - cbn [concat]. destruct r as [|r]; cbn [nth].
    + apply app_nth1. lia.
    + rewrite app_nth2 by lia. replace (S r * m + j - length l) with (r * m + j) by lia. apply IH; auto.
Qed.

Lemma map_nth_seq_id {T} (l : list T) d : map (fun c => nth c l d) (seq 0 (length l)) = l.
Proof.
  induction l as [|p l IH]; [reflexivity|]. cbn [length seq map nth]. f_equal.
  rewrite <- seq_shift, map_map. exact IH.
Qed.

Lemma rep_slice0_concat k n (xs : list cvec) r :
  Forall (fun v => length v = n) xs -> r < length xs ->
  rep_slice k n 0 r (concat xs) = nth r xs [].
Proof.
  intros Hxs Hr. unfold rep_slice. cbn [Nat.eqb].
  assert (Hb : S r * n <= length xs * n) by (apply Nat.mul_le_mono_r; lia).
  rewrite firstn_skipn_seq
    by (rewrite (concat_length_uniform xs n) by auto; apply Nat.le_trans with (S r * n); [lia | exact Hb]).
  assert (Hl : length (nth r xs []) = n) by (rewrite Forall_forall in Hxs; apply Hxs, nth_In; auto).
  rewrite <- (map_nth_seq_id (nth r xs []) c0). rewrite Hl.
  apply map_ext_in. intros c Hc. apply in_seq in Hc. apply nth_concat_uniform; auto. lia.
Qed.

Lemma nth_c_mv (A : cmat) (x : cvec) j : j < length A -> nth j (c_mv A x) c0 = c_dot (nth j A []) x.
Proof.
  intros H. unfold c_mv, mv, c_dot.
  rewrite nth_indep with (d' := dot CQ c0 cadd cmul [] x) by (rewrite map_length; auto).
  apply (map_nth (fun r => dot CQ c0 cadd cmul r x)).
Qed.

Theorem rep_mat_blockdiag k m n (A : cmat) (xs : list cvec) :
  0 < k -> 0 < m -> 0 < n ->
  length A = m -> Forall (fun row => length row = n) A ->
  length xs = k -> Forall (fun v => length v = n) xs ->
  c_mv (rep_mat k m n 0 0 A) (concat xs) = concat (map (c_mv A) xs).
Proof.
  intros Hk Hm Hn HA HR Hxs Hv.
  assert (HF : Forall (fun l => length l = m) (map (c_mv A) xs)).
  { apply Forall_forall. intros l Hl. apply in_map_iff in Hl as [v [<- _]].
    unfold c_mv. rewrite mv_length. auto. }
  assert (HL : length (c_mv (rep_mat k m n 0 0 A) (concat xs)) = k * m).
  { unfold c_mv. rewrite mv_length. unfold rep_mat. rewrite map_length, seq_length. auto. }
  apply nth_ext with (d := c0) (d' := c0).
  - rewrite HL, (concat_length_uniform _ m) by auto. rewrite map_length. unfold vec in *. lia.
  - intros o Ho. rewrite HL in Ho.
    assert (Hx : length (concat xs) = k * n) by (rewrite (concat_length_uniform xs n) by auto; unfold vec in *; lia).
    pose proof (rep_mat_acts k m n 0 0 A (concat xs) o Hk Hm Hn HA HR Hx Ho) as H.
    pose proof (rep_split_bounds k m 0 o Hk Hm Ho) as [Hr Hj].
    unfold rep_split in H, Hr, Hj. cbn [Nat.eqb fst snd] in H, Hr, Hj.
    rewrite H, rep_slice0_concat by (auto; unfold vec in *; lia).
    assert (Ho' : o / m * m + o mod m = o) by (rewrite (Nat.mul_comm _ m); symmetry; apply Nat.div_mod; lia).
    transitivity (nth (o / m * m + o mod m) (concat (map (c_mv A) xs)) c0); [|rewrite Ho'; reflexivity].
    rewrite (nth_concat_uniform _ m) by auto.
    rewrite (nth_indep (map (c_mv A) xs) [] (c_mv A [])) by (rewrite map_length; unfold vec in *; lia).
    rewrite map_nth. symmetry. apply nth_c_mv. lia.
Qed.

Print Assumptions rep_mat_blockdiag.
Print Assumptions rep_mat_acts.

(** vertical / diagonal stacks, forward and adjoint matrices: (kind, tolerance, blocks with their column counts,
    total columns, matrix of the stack, matrix of its adjoint) *)
Definition stack_case_ok2 (c : nat * option Q * list (nat * cmat) * nat * cmat * cmat) : bool :=
  let '(kind, tol, Ms, total, R, Radj) := c in
  let M := match kind with 0%nat => vstack (map snd Ms) | _ => blockdiag Ms 0 total end in
  cmat_cmp tol M R && cmat_cmp tol (c_mH total M) Radj.
