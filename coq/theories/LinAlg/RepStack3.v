(** Replicated stack with the replicate axis at an arbitrary position of multi-dimensional operand shapes.

    DiagonalReplicated(A, replicates = k, input_axis, output_axis) for A : C^(ai*bi) -> C^(ao*bo), where the input
    slice shape splits at the replicate axis into an outer part of ai entries and an inner part of bi entries (so the
    input array has shape outer x k x inner), and likewise (ao, bo) for the output.  Flat (row-major) position
    p = (a*k + r)*b_ + b  <->  replicate r, position a*b_ + b inside the slice.  (ai = 1: axis first; bi = 1: axis last.) *)
From Coq Require Import List Arith Lia QArith Qcanon Bool.
From SV Require Import LinAlg.Mat LinAlg.CQ LinAlg.MExpr LinAlg.CQExpr LinAlg.RepStack.
Import ListNotations.

Definition rep_split3 (k b_ p : nat) : nat * nat :=
  ((p / b_) mod k, (p / (k * b_)) * b_ + p mod b_)%nat.

Definition rep_entry3 (k bo bi : nat) (A : cmat) (o i : nat) : CQ :=
  let '(ro, j) := rep_split3 k bo o in
  let '(ri, c) := rep_split3 k bi i in
  if Nat.eqb ro ri then nth c (nth j A []) c0 else c0.

(** m = ao*bo rows and n = ai*bi columns of A *)
Definition rep_mat3 (k m n bo bi : nat) (A : cmat) : cmat :=
  map (fun o => map (fun i => rep_entry3 k bo bi A o i) (seq 0 (k * n))) (seq 0 (k * m)).

(** slice r of a flat input: position c = a*bi + b of the slice is flat position (a*k + r)*bi + b *)
Definition rep_slice3 (k n bi r : nat) (x : cvec) : cvec :=
  map (fun c => nth (((c / bi) * k + r) * bi + c mod bi) x c0) (seq 0 n).

(** case: (k, m, n, bo, bi, tolerance, A, matrix of the implementation's operator, matrix of its adjoint) *)
Definition rep3_case_ok (c : nat * nat * nat * nat * nat * option Q * cmat * cmat * cmat) : bool :=
  let '(k, m, n, bo, bi, tol, A, R, Radj) := c in
  cmat_cmp tol (rep_mat3 k m n bo bi A) R && cmat_cmp tol (c_mH (k * n) (rep_mat3 k m n bo bi A)) Radj.

(** ** The action of the general-position replicated stack

    [rep_mat3_acts]: entry o of (rep_mat3 k m n bo bi A) x, with (r, j) the (replicate, row-of-A) coordinates of o,
    is row j of A against slice r of x; no other entry of x contributes. *)
Local Open Scope nat_scope.

(** flat position (a*k + ri)*b_ + b  <->  replicate ri, slice position a*b_ + b *)
Lemma rep_split3_block k b_ a ri b : ri < k -> b < b_ ->
  rep_split3 k b_ ((a * k + ri) * b_ + b) = (ri, a * b_ + b).
Proof.
  intros Hr Hb. unfold rep_split3.
  rewrite (Nat.mul_comm k b_), <- Nat.div_div by lia.
  destruct (divmod_block (a * k + ri) b_ b Hb) as [-> ->].
  destruct (divmod_block a k ri Hr) as [-> ->]. reflexivity.
Qed.

Lemma rep_split3_bounds k ao bo o : 0 < k -> 0 < bo -> o < k * (ao * bo) ->
  fst (rep_split3 k bo o) < k /\ snd (rep_split3 k bo o) < ao * bo.
Proof.
  intros Hk Hb Ho. unfold rep_split3. cbn [fst snd]. split.
  - apply Nat.mod_upper_bound. lia.
  - assert (Hq : o / (k * bo) < ao) by (apply Nat.div_lt_upper_bound; lia).
    assert (Ht : o mod bo < bo) by (apply Nat.mod_upper_bound; lia).
    assert (Hs : S (o / (k * bo)) * bo <= ao * bo) by (apply Nat.mul_le_mono_r; lia).
    lia.
Qed.

(** one row of the operator: only slice r of x contributes, through the row a of A *)
Lemma rep_row3_acts k ai bi (a : cvec) (x : cvec) r :
  0 < k -> 0 < ai -> 0 < bi -> r < k -> length a = ai * bi -> length x = k * (ai * bi) ->
  c_dot (map (fun i => let '(ri, c) := rep_split3 k bi i in
                        if Nat.eqb r ri then nth c a c0 else c0) (seq 0 (k * (ai * bi)))) x
  = c_dot a (rep_slice3 k (ai * bi) bi r x).
Proof.
  intros Hk Hai Hbi Hr Ha Hx. unfold rep_slice3.
  rewrite c_dot_map_seq_l by auto. rewrite c_dot_map_seq_r by auto.
  replace (k * (ai * bi)) with (ai * k * bi) by lia.
  rewrite !csum_block.
  f_equal. apply map_ext_in. intros p _.
  transitivity (csum (map (fun q => if Nat.eqb r q
      then csum (map (fun b => cmul (nth (p * bi + b) a c0) (nth ((p * k + q) * bi + b) x c0)) (seq 0 bi))
      else c0) (seq 0 k))).
  - f_equal. apply map_ext_in. intros q Hq. apply in_seq in Hq. destruct (Nat.eqb r q) eqn:E.
    + f_equal. apply map_ext_in. intros b Hb. apply in_seq in Hb.
      rewrite rep_split3_block by lia. rewrite E. reflexivity.
    + apply csum_map_c0. intros b Hb. apply in_seq in Hb.
      rewrite rep_split3_block by lia. rewrite E. ring.
  - rewrite (csum_delta (fun q => csum (map (fun b =>
        cmul (nth (p * bi + b) a c0) (nth ((p * k + q) * bi + b) x c0)) (seq 0 bi)))) by lia.
    f_equal. apply map_ext_in. intros b Hb. apply in_seq in Hb.
    destruct (divmod_block p bi b) as [-> ->]; [lia|]. reflexivity.
Qed.

(** Row o of the replicated operator is row j of A applied to slice r of x, where (r, j) are the
    (replicate, row-of-A) coordinates of o; nothing else contributes. *)
Theorem rep_mat3_acts k m n ao bo ai bi (A : cmat) (x : cvec) o :
  0 < k -> 0 < ao -> 0 < bo -> 0 < ai -> 0 < bi -> m = ao * bo -> n = ai * bi ->
  length A = m -> Forall (fun row => length row = n) A -> length x = k * n -> o < k * m ->
  let '(r, j) := rep_split3 k bo o in
  nth o (c_mv (rep_mat3 k m n bo bi A) x) c0 = c_dot (nth j A []) (rep_slice3 k n bi r x).
Proof.
  intros Hk Hao Hbo Hai Hbi Hm Hn HA HR Hx Ho. subst m n.
  unfold c_mv, mv, rep_mat3. rewrite map_map, nth_map_seq by auto. fold c_dot.
  unfold rep_entry3. pose proof (rep_split3_bounds k ao bo o Hk Hbo Ho) as [Hr Hj].
  destruct (rep_split3 k bo o) as [r j]. cbn [fst snd] in Hr, Hj.
  apply rep_row3_acts; auto.
  rewrite Forall_forall in HR. apply HR, nth_In. lia.
Qed.

(** ** specialisations: replicate axis first *)
Lemma rep_slice3_first k n r (x : cvec) : 0 < n -> r * n + n <= length x ->
  rep_slice3 k n n r x = firstn n (skipn (r * n) x).
Proof.
  intros Hn Hl. rewrite firstn_skipn_seq by auto. unfold rep_slice3.
  apply map_ext_in. intros c Hc. apply in_seq in Hc.
  rewrite Nat.div_small, Nat.mod_small by lia. f_equal.
Qed.

Lemma rep_split3_first k b_ p : p < k * b_ -> rep_split3 k b_ p = (p / b_, p mod b_).
Proof.
  intros Hp. assert (Hb : 0 < b_) by (destruct b_; lia).
  unfold rep_split3. rewrite (Nat.div_small p (k * b_)) by auto.
  rewrite Nat.mod_small by (apply Nat.div_lt_upper_bound; lia). reflexivity.
Qed.

(** the general-position model extends the axis-0 / axis-0 model of [RepStack] *)
Theorem rep_mat3_first k m n (A : cmat) : rep_mat3 k m n m n A = rep_mat k m n 0 0 A.
Proof.
  unfold rep_mat3, rep_mat. apply map_ext_in. intros o Ho. apply in_seq in Ho.
  apply map_ext_in. intros i Hi. apply in_seq in Hi.
  unfold rep_entry3, rep_entry, rep_split. cbn [Nat.eqb].
  rewrite !rep_split3_first by lia. reflexivity.
Qed.

Print Assumptions rep_mat3_first.
Print Assumptions rep_slice3_first.
Print Assumptions rep_mat3_acts.
