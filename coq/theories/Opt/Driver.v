(** Model of [Optimizer.solve] (scico/optimize/_common.py) and of
    [IterationStats.insert/history] (scico/diagnostics.py).

    [step], the accessor tuple, the callback, the finiteness predicate and the clock are
    arbitrary (Section variables), so the theorems hold for every optimiser, every
    statistics option, every callback and every clock. *)
From Coq Require Import List Bool Arith ZArith Lia.
From SV Require Import Opt.Timer.
Import ListNotations.
Open Scope Z_scope.

Section Driver.
  Variable T : Type.
  Variable tzero : T.
  Variable tadd tsub : T -> T -> T.

  Variable S : Type.                 (* the working variables changed by step() *)
  Variable U : Type.                 (* the user part of a statistics row *)
  Variable step : S -> S.
  Variable finite : S -> bool.       (* _working_vars_finite *)
  Variable user : S -> U.            (* accessor values other than Iter / Time *)
  Variable cb : Z -> S -> S.         (* callback(self); it may change the working variables *)
  Variable clk : nat -> T.           (* successive readings of timeit.default_timer *)

  Notation cent := (cent T).
  Notation c_start := (c_start T).
  Notation c_stop := (c_stop T tadd tsub).
  Notation c_elapsed := (c_elapsed T tzero tadd tsub).

  Inductive ev := EStep (k : Z) | EStats (k : Z) | ECb (k : Z) | ETStart | ETStop | ETElapsed.

  Definition row := (Z * T * U)%type.

  Record res := mkres {
    r_raised : bool;       (* ValueError raised by the NaN stop *)
    r_k : Z;               (* value of the loop variable self.itnum when the loop ended *)
    r_w : S;
    r_tm : cent;
    r_tick : nat;
    r_rows : list row;     (* rows inserted, oldest first *)
    r_evs : list ev        (* observable events, oldest first *)
  }.

  Definition cons_out (rw : list row) (es : list ev) (r : res) : res :=
    mkres (r_raised r) (r_k r) (r_w r) (r_tm r) (r_tick r) (rw ++ r_rows r) (es ++ r_evs r).

  (** [loop m k klast ...]: [m] iterations remain, the next is numbered [k];
      [klast] is the current value of the attribute [itnum]. *)
  Fixpoint loop (nanstop usecb : bool) (m : nat) (k klast : Z) (w : S) (e : cent) (tk : nat) : res :=
    match m with
    | O => mkres false klast w e tk [] []
    | Datatypes.S m' =>
        let w1 := step w in
        if nanstop && negb (finite w1) then mkres true k w1 e tk [] [EStep k]
        else
          let el := c_elapsed (clk tk) true e in
          let r := (k, el, user w1) in
          if usecb then
            cons_out [r] [EStep k; ETElapsed; EStats k; ETStop; ECb k; ETStart]
              (loop nanstop usecb m' (k + 1) k (cb k w1)
                    (c_start (clk (tk + 2)) (c_stop (clk (tk + 1)) e)) (tk + 3)%nat)
          else
            cons_out [r] [EStep k; ETElapsed; EStats k]
              (loop nanstop usecb m' (k + 1) k w1 e (tk + 1)%nat)
    end.

  (** Public driver state between calls. *)
  Record dst := mkd {
    d_w : S; d_itnum : Z; d_rows : list row; d_tm : cent; d_tick : nat; d_log : list ev }.

  (** [solve] with [maxiter]; [bump0] = does an empty loop still increment the counter
      (the unrepaired code did: [self.itnum += 1] unconditionally). *)
  Definition solve_gen (bump0 : bool) (nanstop usecb : bool) (maxiter : Z) (d : dst) : dst * bool :=
    let e0 := c_start (clk (d_tick d)) (d_tm d) in
    let r := loop nanstop usecb (Z.to_nat maxiter) (d_itnum d) (d_itnum d) (d_w d) e0 (Datatypes.S (d_tick d)) in
    if r_raised r then
      (mkd (r_w r) (r_k r) (d_rows d ++ r_rows r) (r_tm r) (r_tick r) (d_log d ++ ETStart :: r_evs r), true)
    else
      let itn := if (0 <? maxiter) || bump0 then r_k r + 1 else r_k r in
      (mkd (r_w r) itn (d_rows d ++ r_rows r) (c_stop (clk (r_tick r)) (r_tm r))
           (Datatypes.S (r_tick r)) (d_log d ++ ETStart :: r_evs r ++ [ETStop]), false).

  Definition solve := solve_gen false.

  (** ** Specification objects *)

  (** working variables after [j] iterations (step then callback) from [w], numbering from [k] *)
  Fixpoint wstate (usecb : bool) (j : nat) (k : Z) (w : S) : S :=
    match j with
    | O => w
    | Datatypes.S j' => wstate usecb j' (k + 1) (if usecb then cb k (step w) else step w)
    end.

  (** index of the first iteration whose step produces non-finite working variables *)
  Fixpoint first_bad (usecb : bool) (m : nat) (k : Z) (w : S) : option Z :=
    match m with
    | O => None
    | Datatypes.S m' =>
        if negb (finite (step w)) then Some k
        else first_bad usecb m' (k + 1) (if usecb then cb k (step w) else step w)
    end.

  (** expected events of [m] complete iterations *)
  Fixpoint exp_evs (usecb : bool) (m : nat) (k : Z) : list ev :=
    match m with
    | O => []
    | Datatypes.S m' =>
        ([EStep k; ETElapsed; EStats k] ++ (if usecb then [ETStop; ECb k; ETStart] else []))
          ++ exp_evs usecb m' (k + 1)
    end.

  (** expected (Iter, user fields) of the rows *)
  Fixpoint exp_rows (usecb : bool) (m : nat) (k : Z) (w : S) : list (Z * U) :=
    match m with
    | O => []
    | Datatypes.S m' =>
        (k, user (step w)) :: exp_rows usecb m' (k + 1) (if usecb then cb k (step w) else step w)
    end.

  Definition notime (r : row) : Z * U := (fst (fst r), snd r).

  (** ** Theorems about the loop *)

  Lemma loop_no_raise usecb m : forall k kl w e tk,
    r_raised (loop false usecb m k kl w e tk) = false.
  Proof.
    induction m as [|m IH]; cbn; intros; auto.
    destruct usecb; cbn; apply IH.
  Qed.

  Lemma loop_ok nanstop usecb m : forall k kl w e tk,
    (nanstop = true -> first_bad usecb m k w = None) ->
    let r := loop nanstop usecb m k kl w e tk in
    r_raised r = false /\
    r_k r = (if (0 <? Z.of_nat m) then k + Z.of_nat m - 1 else kl) /\
    r_w r = wstate usecb m k w /\
    r_evs r = exp_evs usecb m k /\
    map notime (r_rows r) = exp_rows usecb m k w /\
    length (r_rows r) = m.
  Proof.
    induction m as [|m IH]; intros k kl w e tk Hfb.
    - cbn. repeat split; auto.
    - cbn [loop first_bad] in *.
      assert (Hn : nanstop && negb (finite (step w)) = false).
      { destruct nanstop; cbn; auto. specialize (Hfb eq_refl).
        destruct (negb (finite (step w))); auto. discriminate. }
      rewrite Hn.
      assert (Hfb' : nanstop = true ->
                first_bad usecb m (k + 1) (if usecb then cb k (step w) else step w) = None).
      { intros Hs. specialize (Hfb Hs). destruct (negb (finite (step w))); auto. discriminate. }
      destruct usecb; cbn zeta.
      + specialize (IH (k + 1) k (cb k (step w))
                      (c_start (clk (tk + 2)) (c_stop (clk (tk + 1)) e)) (tk + 3)%nat Hfb').
        cbn zeta in IH. destruct IH as (H1 & H2 & H3 & H4 & H5 & H6).
        unfold cons_out; cbn [r_raised r_k r_w r_evs r_rows wstate exp_evs exp_rows].
        repeat split; auto.
        * rewrite H2. destruct m; [cbn; lia|].
          replace (0 <? Z.of_nat (Datatypes.S m)) with true by (symmetry; apply Z.ltb_lt; lia).
          replace (0 <? Z.of_nat (Datatypes.S (Datatypes.S m))) with true by (symmetry; apply Z.ltb_lt; lia).
          lia.
        * rewrite H4. reflexivity.
        * cbn. rewrite H5. reflexivity.
        * cbn. rewrite H6. reflexivity.
      + specialize (IH (k + 1) k (step w) e (tk + 1)%nat Hfb').
        cbn zeta in IH. destruct IH as (H1 & H2 & H3 & H4 & H5 & H6).
        unfold cons_out; cbn [r_raised r_k r_w r_evs r_rows wstate exp_evs exp_rows].
        repeat split; auto.
        * rewrite H2. destruct m; [cbn; lia|].
          replace (0 <? Z.of_nat (Datatypes.S m)) with true by (symmetry; apply Z.ltb_lt; lia).
          replace (0 <? Z.of_nat (Datatypes.S (Datatypes.S m))) with true by (symmetry; apply Z.ltb_lt; lia).
          lia.
        * rewrite H4. reflexivity.
        * cbn. rewrite H5. reflexivity.
        * cbn. rewrite H6. reflexivity.
  Qed.

  (** NaN stop: the exception is raised in the first bad iteration [kb]; rows exist exactly
      for the earlier iterations; [itnum] is left at [kb]. *)
  Lemma loop_nanstop usecb m : forall k kl w e tk kb,
    first_bad usecb m k w = Some kb ->
    let r := loop true usecb m k kl w e tk in
    r_raised r = true /\ r_k r = kb /\ k <= kb < k + Z.of_nat m /\
    map notime (r_rows r) = exp_rows usecb (Z.to_nat (kb - k)) k w /\
    r_evs r = exp_evs usecb (Z.to_nat (kb - k)) k ++ [EStep kb].
  Proof.
    induction m as [|m IH]; intros k kl w e tk kb Hfb; [discriminate|].
    cbn [loop first_bad] in *. cbn [andb].
    destruct (negb (finite (step w))) eqn:Hf.
    - inversion Hfb; subst kb. cbn. replace (k - k) with 0 by lia. cbn.
      repeat split; auto; lia.
    - destruct usecb; cbn zeta.
      + specialize (IH (k + 1) k (cb k (step w))
                      (c_start (clk (tk + 2)) (c_stop (clk (tk + 1)) e)) (tk + 3)%nat kb Hfb).
        cbn zeta in IH. destruct IH as (H1 & H2 & H3 & H4 & H5).
        unfold cons_out; cbn [r_raised r_k r_w r_evs r_rows].
        replace (Z.to_nat (kb - k)) with (Datatypes.S (Z.to_nat (kb - (k + 1)))) by lia.
        cbn [exp_rows exp_evs]. repeat split; auto; try lia.
        * cbn. rewrite H4. reflexivity.
        * rewrite H5. cbn. reflexivity.
      + specialize (IH (k + 1) k (step w) e (tk + 1)%nat kb Hfb).
        cbn zeta in IH. destruct IH as (H1 & H2 & H3 & H4 & H5).
        unfold cons_out; cbn [r_raised r_k r_w r_evs r_rows].
        replace (Z.to_nat (kb - k)) with (Datatypes.S (Z.to_nat (kb - (k + 1)))) by lia.
        cbn [exp_rows exp_evs]. repeat split; auto; try lia.
        * cbn. rewrite H4. reflexivity.
        * rewrite H5. cbn. reflexivity.
  Qed.

  (** composition facts used for resumption *)
  Lemma wstate_add usecb a : forall b k w,
    wstate usecb (a + b) k w = wstate usecb b (k + Z.of_nat a) (wstate usecb a k w).
  Proof.
    induction a as [|a IH]; intros b k w.
    - cbn. f_equal. lia.
    - cbn [plus wstate]. rewrite IH. f_equal. lia.
  Qed.

  Lemma exp_evs_add usecb a : forall b k,
    exp_evs usecb (a + b) k = exp_evs usecb a k ++ exp_evs usecb b (k + Z.of_nat a).
  Proof.
    induction a as [|a IH]; intros b k.
    - cbn. f_equal. lia.
    - replace (k + Z.of_nat (Datatypes.S a)) with (k + 1 + Z.of_nat a) by lia.
      cbn [plus exp_evs]. rewrite IH, <- !app_assoc. reflexivity.
  Qed.
  Lemma exp_rows_add usecb a : forall b k w,
    exp_rows usecb (a + b) k w =
    exp_rows usecb a k w ++ exp_rows usecb b (k + Z.of_nat a) (wstate usecb a k w).
  Proof.
    induction a as [|a IH]; intros b k w.
    - cbn. f_equal. lia.
    - replace (k + Z.of_nat (Datatypes.S a)) with (k + 1 + Z.of_nat a) by lia.
      cbn [plus exp_rows wstate app]. rewrite IH. reflexivity.
  Qed.

  (** ** Theorems about [solve] (repaired counter) *)

  Definition is_timer_ev (e : ev) : bool :=
    match e with ETStart | ETStop | ETElapsed => true | _ => false end.
  Definition core (l : list ev) : list ev := filter (fun e => negb (is_timer_ev e)) l.

  Theorem solve_spec nanstop usecb maxiter d :
    (nanstop = true -> first_bad usecb (Z.to_nat maxiter) (d_itnum d) (d_w d) = None) ->
    let '(d', raised) := solve nanstop usecb maxiter d in
    let m := Z.to_nat maxiter in
    raised = false /\
    d_itnum d' = d_itnum d + Z.of_nat m /\
    d_w d' = wstate usecb m (d_itnum d) (d_w d) /\
    d_log d' = d_log d ++ ETStart :: exp_evs usecb m (d_itnum d) ++ [ETStop] /\
    map notime (d_rows d') = map notime (d_rows d) ++ exp_rows usecb m (d_itnum d) (d_w d) /\
    length (d_rows d') = (length (d_rows d) + m)%nat.
  Proof.
    intros Hfb. unfold solve, solve_gen.
    pose proof (loop_ok nanstop usecb (Z.to_nat maxiter) (d_itnum d) (d_itnum d) (d_w d)
                  (c_start (clk (d_tick d)) (d_tm d)) (Datatypes.S (d_tick d)) Hfb) as H.
    cbn zeta in H. destruct H as (H1 & H2 & H3 & H4 & H5 & H6).
    rewrite H1. cbn [d_itnum d_w d_log d_rows].
    repeat split; auto.
    - rewrite H2, orb_false_r. destruct (0 <? maxiter) eqn:E.
      + apply Z.ltb_lt in E.
        replace (0 <? Z.of_nat (Z.to_nat maxiter)) with true by (symmetry; apply Z.ltb_lt; lia). lia.
      + apply Z.ltb_ge in E.
        replace (Z.to_nat maxiter) with 0%nat by lia. cbn. lia.
    - rewrite H4. reflexivity.
    - rewrite map_app, H5. reflexivity.
    - rewrite app_length, H6. reflexivity.
  Qed.

  (** Resumption: [solve n1; solve n2] = [solve (n1+n2)] on everything but clock values. *)
  Theorem solve_resume usecb n1 n2 d :
    0 <= n1 -> 0 <= n2 ->
    let d1 := fst (solve false usecb n1 d) in
    let d2 := fst (solve false usecb n2 d1) in
    let d3 := fst (solve false usecb (n1 + n2) d) in
    d_itnum d2 = d_itnum d3 /\ d_w d2 = d_w d3 /\
    map notime (d_rows d2) = map notime (d_rows d3) /\
    core (d_log d2) = core (d_log d3).
  Proof.
    intros H1 H2.
    pose proof (solve_spec false usecb n1 d) as S1.
    destruct (solve false usecb n1 d) as [d1 r1] eqn:E1.
    pose proof (solve_spec false usecb n2 d1) as S2.
    destruct (solve false usecb n2 d1) as [d2 r2] eqn:E2.
    pose proof (solve_spec false usecb (n1 + n2) d) as S3.
    destruct (solve false usecb (n1 + n2) d) as [d3 r3] eqn:E3.
    cbn zeta in *. cbn [fst]. rewrite ?E2. cbn [fst].
    destruct S1 as (_ & A2 & A3 & A4 & A5 & _); [discriminate|].
    destruct S2 as (_ & B2 & B3 & B4 & B5 & _); [discriminate|].
    destruct S3 as (_ & C2 & C3 & C4 & C5 & _); [discriminate|].
    replace (Z.to_nat (n1 + n2)) with (Z.to_nat n1 + Z.to_nat n2)%nat in * by lia.
    repeat split.
    - lia.
    - rewrite B3, C3, A3, A2, wstate_add. reflexivity.
    - rewrite B5, C5, A5, A3, A2, exp_rows_add, app_assoc. reflexivity.
    - rewrite B4, C4, A4, A2, exp_evs_add. unfold core.
      rewrite !filter_app. cbn [filter is_timer_ev negb]. rewrite !filter_app. cbn [filter is_timer_ev negb].
      rewrite !app_nil_r, <- !app_assoc. reflexivity.
  Qed.

  Theorem solve_nanstop usecb maxiter d kb :
    first_bad usecb (Z.to_nat maxiter) (d_itnum d) (d_w d) = Some kb ->
    let '(d', raised) := solve true usecb maxiter d in
    raised = true /\ d_itnum d' = kb /\ d_itnum d <= kb < d_itnum d + maxiter /\
    map notime (d_rows d') =
      map notime (d_rows d) ++ exp_rows usecb (Z.to_nat (kb - d_itnum d)) (d_itnum d) (d_w d).
  Proof.
    intros Hfb. unfold solve, solve_gen.
    pose proof (loop_nanstop usecb (Z.to_nat maxiter) (d_itnum d) (d_itnum d) (d_w d)
                  (c_start (clk (d_tick d)) (d_tm d)) (Datatypes.S (d_tick d)) kb Hfb) as H.
    cbn zeta in H. destruct H as (H1 & H2 & H3 & H4 & H5).
    rewrite H1. cbn [d_itnum d_rows]. repeat split; auto; try lia.
    rewrite map_app, H4. reflexivity.
  Qed.

  (** first_bad really is the first: the iteration it names produces non-finite working
      variables and all earlier iterations produce finite ones *)
  Lemma first_bad_spec usecb m : forall k w kb,
    first_bad usecb m k w = Some kb ->
    exists j : nat, kb = k + Z.of_nat j /\ (j < m)%nat /\
      finite (step (wstate usecb j k w)) = false /\
      forall i, (i < j)%nat -> finite (step (wstate usecb i k w)) = true.
  Proof.
    induction m as [|m IH]; intros k w kb H; [discriminate|].
    cbn [first_bad] in H. destruct (finite (step w)) eqn:Hf; cbn [negb] in H.
    - apply IH in H. destruct H as (j & -> & Hj & Ha & Hb).
      exists (Datatypes.S j). repeat split; try lia.
      + cbn [wstate]. exact Ha.
      + intros [|i] Hi; cbn [wstate]; auto. apply Hb. lia.
    - inversion H; subst. exists 0%nat. repeat split; try lia.
      + cbn. now rewrite Hf.
  Qed.

  Lemma first_bad_none usecb m : forall k w,
    first_bad usecb m k w = None ->
    forall i, (i < m)%nat -> finite (step (wstate usecb i k w)) = true.
  Proof.
    induction m as [|m IH]; intros k w H i Hi; [lia|].
    cbn [first_bad] in H. destruct (finite (step w)) eqn:Hf; cbn [negb] in H; [|discriminate].
    destruct i as [|i]; cbn [wstate]; auto. apply IH; auto. lia.
  Qed.
End Driver.
