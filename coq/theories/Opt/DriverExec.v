(** Executable instances of the Timer and Driver models (times in Qc) used by the
    correspondence harness, plus closed instances of the refinement theorem. *)
From Coq Require Import List Bool Arith ZArith QArith Qcanon.
From SV Require Import Opt.Timer Opt.Driver.
Import ListNotations.

Definition q (n : Z) (d : positive) : Qc := Q2Qc (n # d).

Lemma Qc_add_0_l a : (0 + a = a)%Qc. Proof. ring. Qed.
Lemma Qc_add_0_r a : (a + 0 = a)%Qc. Proof. ring. Qed.
Lemma Qc_add_assoc a b c : (a + (b + c) = a + b + c)%Qc. Proof. ring. Qed.
Lemma Qc_add_comm a b : (a + b = b + a)%Qc. Proof. ring. Qed.

(** Timer at Qc; labels are numbered, default_label = 0, all_label = 1 (as in the harness). *)
Definition qcrun := crun Qc 0%Qc Qcplus Qcminus 0%nat 1%nat.
Definition qirun := irun Qc 0%Qc Qcplus Qcminus 0%nat 1%nat.

Theorem timer_refines_stopwatch_Qc :
  forall h, snd (qcrun [] h) = snd (qirun [] h).
Proof. intros h. apply timer_fresh_refines. Qed.

(** outputs as comparable data *)
Definition out_code (o : out Qc) : Z * Q * list nat :=
  match o with
  | ONone _ => (0%Z, 0%Q, [])
  | OKeyErr _ => (1%Z, 0%Q, [])
  | OVal _ t => (2%Z, this t, [])
  | OLabels _ ls => (3%Z, 0%Q, ls)
  end.

Definition out_eqb (a b : Z * Q * list nat) : bool :=
  let '(c1, v1, l1) := a in let '(c2, v2, l2) := b in
  Z.eqb c1 c2 && Qeq_bool v1 v2 && (if list_eq_dec Nat.eq_dec l1 l2 then true else false).

(** indices of the histories on which model and implementation disagree *)
Fixpoint bad_idx {A} (f : A -> bool) (l : list A) (i : nat) : list nat :=
  match l with [] => [] | x :: r => if f x then bad_idx f r (S i) else i :: bad_idx f r (S i) end.

Definition timer_case_ok (c : list (op * Qc) * list (Z * Q * list nat)) : bool :=
  let outs := map out_code (snd (qcrun [] (fst c))) in
  (Nat.eqb (length outs) (length (snd c))) &&
  forallb (fun p => out_eqb (fst p) (snd p)) (combine outs (snd c)).

(** Driver at: working variable = Z counter; step adds 1; callback adds [cbinc];
    finite iff the counter is not in [bad]; user field = the counter. *)
Section DExec.
  Variable bad : list Z.
  Variable cbinc : Z.
  Variable clkl : list Qc.
  Definition x_step (w : Z) : Z := (w + 1)%Z.
  Definition x_finite (w : Z) : bool := negb (existsb (Z.eqb w) bad).
  Definition x_cb (k : Z) (w : Z) : Z := (w + cbinc)%Z.
  Definition x_clk (n : nat) : Qc := nth n clkl 0%Qc.
  Definition x_solve (bump0 : bool) :=
    solve_gen Qc 0%Qc Qcplus Qcminus Z Z x_step x_finite (fun w => w) x_cb x_clk bump0.
End DExec.

(** one scripted history: list of solve calls (nanstop, usecb, maxiter) *)
Fixpoint run_solves (bump0 : bool) (bad : list Z) (cbinc : Z) (clkl : list Qc)
         (calls : list (bool * bool * Z)) (d : dst Qc Z Z) : dst Qc Z Z * list bool :=
  match calls with
  | [] => (d, [])
  | (ns, uc, mi) :: r =>
      let '(d1, raised) := x_solve bad cbinc clkl bump0 ns uc mi d in
      (* after an exception the Python timer is left running; the model state carries that *)
      let '(d2, rs) := run_solves bump0 bad cbinc clkl r d1 in (d2, raised :: rs)
  end.

Definition ev_code (e : ev) : Z * Z :=
  match e with
  | EStep k => (0, k) | EStats k => (1, k) | ECb k => (2, k)
  | ETStart => (3, 0) | ETStop => (4, 0) | ETElapsed => (5, 0) end%Z.

Definition drv_obs (r : dst Qc Z Z * list bool) :=
  let d := fst r in
  (d_itnum _ _ _ d, d_w _ _ _ d,
   map (fun rw : row Qc Z => (fst (fst rw), this (snd (fst rw)), snd rw)) (d_rows _ _ _ d),
   map ev_code (d_log _ _ _ d), snd r).

Definition row_eqb (a b : Z * Q * Z) : bool :=
  Z.eqb (fst (fst a)) (fst (fst b)) && Qeq_bool (snd (fst a)) (snd (fst b)) && Z.eqb (snd a) (snd b).
Definition zz_eqb (a b : Z * Z) : bool := Z.eqb (fst a) (fst b) && Z.eqb (snd a) (snd b).
Fixpoint list_eqb {A} (f : A -> A -> bool) (a b : list A) : bool :=
  match a, b with
  | [], [] => true
  | x :: r, y :: s => f x y && list_eqb f r s
  | _, _ => false
  end.

Definition drv_case_ok
  (c : (list Z * Z * list Qc * Z * Z * list (bool * bool * Z)) *
       (Z * Z * list (Z * Q * Z) * list (Z * Z) * list bool)) (bump0 : bool) : bool :=
  let '(bad, cbinc, clkl, it0, w0, calls) := fst c in
  let d0 := mkd Qc Z Z w0 it0 [] (None, 0%Qc) 0%nat [] in
  let '(itn, w, rows, evs, rs) := drv_obs (run_solves bump0 bad cbinc clkl calls d0) in
  let '(itn', w', rows', evs', rs') := snd c in
  Z.eqb itn itn' && Z.eqb w w' && list_eqb row_eqb rows rows' && list_eqb zz_eqb evs evs'
  && list_eqb Bool.eqb rs rs'.

(** _working_vars_finite: the specification -- every entry of every block of every
    working variable is finite.  Values are coded 0 = finite, 1 = nan, 2 = +-inf. *)
Definition vars_finite (vars : list (list (list Z))) : bool :=
  forallb (forallb (forallb (Z.eqb 0))) vars.
