(** Abstract signature of an Optimizer object for the code generated from
    scico/optimize/_common.py (module SVGen.C15_Solve): the object is one value [s : W];
    attribute reads / writes and the effectful calls of [solve] are the operations below. *)
From Coq Require Import ZArith Bool.
From SV Require Import Base.Num C11.Overload.

Class OptSig (W CB V : Type) := {
  get_itnum : W -> Z; set_itnum : Z -> W -> W;          (* self.itnum *)
  get_maxiter : W -> Z; get_nanstop : W -> bool;        (* self.maxiter, self.nanstop *)
  do_timer_start : W -> W; do_timer_stop : W -> W;      (* self.timer.start() / .stop() *)
  do_step : W -> W;                                     (* self.step() *)
  is_finite : W -> bool;                                (* self._working_vars_finite() *)
  do_stats : W -> W;          (* self.itstat_object.insert(self.itstat_insert_func(self)) *)
  do_callback : CB -> W -> W;                           (* callback(self) *)
  do_itstat_end : W -> W;                               (* self.itstat_object.end() *)
  get_minimizer : W -> V }.                             (* self.minimizer() *)

#[global] Instance HAdd_Z : HAdd Z Z Z := Z.add.
#[global] Instance HSub_Z : HSub Z Z Z := Z.sub.
#[global] Instance HLt_Z : HLt Z Z := Z.ltb.
#[global] Instance HLe_Z : HLe Z Z := Z.leb.

(** _working_vars_finite: a working variable [Var] (array or block array), its boolean arrays
    [BV]; snp.isfinite / snp.logical_not act element-wise (block-wise on block arrays),
    snp.any reduces over every entry of every block. *)
Class FinSig (Var BV : Type) := {
  f_isfinite : Var -> BV; f_not : BV -> BV; f_any : BV -> bool }.
#[global] Instance HAdd_list {A : Type} : HAdd (list A) (list A) (list A) := @app A.

(** dictionaries with string keys (itstat_func_and_object): literal, in-place update by another
    dict, lookup / removal (the two halves of d.pop(key, None)), truthiness, the boolean values
    stored in them, and the IterationStats constructor applied to the dict (keyword expansion) as an oracle. *)
From Coq Require Import String List.
Class DictSig (D Val Obj : Type) := {
  d_of : list (string * Val) -> D;
  d_update : D -> D -> D;
  d_get : D -> string -> option Val;
  d_remove : D -> string -> D;
  d_nonempty : D -> bool;
  v_bool : bool -> Val;
  mk_stats : D -> Obj }.

(** scico.util.Timer: labels [L], times [T] (timer() readings), the two dictionaries
    t0 : label -> start time or None, td : label -> accumulated time; method outcomes. *)
Inductive pyout (V : Type) := PyNone | PyRaise | PyVal (v : V).
Arguments PyNone {V}. Arguments PyRaise {V}. Arguments PyVal {V}.
Class DMem (D L : Type) := dmem_ : D -> L -> bool.              (* k in d *)
Class DGet (D L V : Type) := dget_ : D -> L -> V.               (* d[k] *)
Class DPut (D L V : Type) := dput_ : D -> L -> V -> D.          (* d[k] = v *)
Class DKeys (D L : Type) := dkeys_ : D -> list L.               (* list(d.keys()) *)
#[global] Hint Mode DMem ! - : typeclass_instances.
#[global] Hint Mode DGet ! - - : typeclass_instances.
#[global] Hint Mode DPut ! - - : typeclass_instances.
#[global] Hint Mode DKeys ! - : typeclass_instances.
Class TimerSig (L T D0 D1 : Type) := {
  l_eqb : L -> L -> bool;
  t_zero : T; t_add : T -> T -> T; t_sub : T -> T -> T;
  d0_mem :> DMem D0 L; d0_get :> DGet D0 L (option T); d0_put :> DPut D0 L (option T); d0_keys :> DKeys D0 L;
  d1_mem :> DMem D1 L; d1_get :> DGet D1 L T; d1_put :> DPut D1 L T }.
Section TimerArith.
  Context {L T D0 D1 : Type} {TS : TimerSig L T D0 D1}.
  #[global] Instance HAdd_time : HAdd T T T := t_add.
  #[global] Instance HSub_time : HSub T T T := t_sub.
End TimerArith.
