(** Model of [scico.util.Timer] (scico/util.py) and of an ideal multi-label stopwatch.

    The machine is written once, generically over the per-label entry type; the
    *concrete* entry is the pair ([t0], [td]) the Python class stores, the *ideal*
    entry is the history of running intervals.  The refinement theorem says that for
    every sequence of calls and every sequence of clock readings the two machines
    produce the same outputs. *)
From Coq Require Import List Bool Arith.
Import ListNotations.

Section Timer.
  (** Times form an abelian group (instantiated at Qc for execution). *)
  Variable T : Type.
  Variable tzero : T.
  Variable tadd tsub : T -> T -> T.
  Hypothesis tadd_0_l : forall a, tadd tzero a = a.
  Hypothesis tadd_0_r : forall a, tadd a tzero = a.
  Hypothesis tadd_assoc : forall a b c, tadd a (tadd b c) = tadd (tadd a b) c.
  Hypothesis tadd_comm : forall a b, tadd a b = tadd b a.

  Definition label := nat.
  Variable dflt allb : label.          (* default_label, all_label *)

  (** How a method argument selects labels: [None], a single label, a list/tuple. *)
  Inductive lsel := SelNone | SelOne (l : label) | SelList (ls : list label).

  Inductive op :=
  | Start (s : lsel) | Stop (s : lsel) | Reset (s : lsel)
  | Elapsed (l : option label) (total : bool) | Labels.

  Inductive out := ONone | OKeyErr | OVal (t : T) | OLabels (ls : list label).

  (** Generic machine over an entry type [E]. *)
  Section Machine.
    Variable E : Type.
    Variable e_init : E.
    Variable e_start : T -> E -> E.
    Variable e_stop : T -> E -> E.
    Variable e_elapsed : T -> bool -> E -> T.

    Definition st := list (label * E).      (* dict in insertion order *)

    Fixpoint find (l : label) (s : st) : option E :=
      match s with
      | [] => None
      | (k, e) :: r => if Nat.eqb k l then Some e else find l r
      end.

    Fixpoint upd (l : label) (f : E -> E) (s : st) : st :=
      match s with
      | [] => []
      | (k, e) :: r => if Nat.eqb k l then (k, f e) :: r else (k, e) :: upd l f r
      end.

    Definition keys (s : st) : list label := map fst s.

    Definition sel_start (x : lsel) : list label :=
      match x with SelNone => [dflt] | SelOne l => [l] | SelList ls => ls end.

    (** stop/reset: [labels == all_label] selects every key (only for a non-list argument). *)
    Definition sel_stop (x : lsel) (s : st) : list label :=
      match x with
      | SelNone => if Nat.eqb dflt allb then keys s else [dflt]
      | SelOne l => if Nat.eqb l allb then keys s else [l]
      | SelList ls => ls
      end.

    Fixpoint do_start (t : T) (ls : list label) (s : st) : st :=
      match ls with
      | [] => s
      | l :: r =>
          let s1 := match find l s with None => s ++ [(l, e_init)] | Some _ => s end in
          do_start t r (upd l (e_start t) s1)
      end.

    (** iterate [f] over the labels; an unknown label raises [KeyError] after the
        earlier labels have already been processed (partial effect, as in Python). *)
    Fixpoint do_each (f : E -> E) (ls : list label) (s : st) : st * out :=
      match ls with
      | [] => (s, ONone)
      | l :: r =>
          match find l s with
          | None => (s, OKeyErr)
          | Some _ => do_each f r (upd l f s)
          end
      end.

    Definition tstep (s : st) (o : op) (t : T) : st * out :=
      match o with
      | Start x => (do_start t (sel_start x) s, ONone)
      | Stop x => do_each (e_stop t) (sel_stop x s) s
      | Reset x => do_each (fun _ => e_init) (sel_stop x s) s
      | Elapsed None total =>
          match find dflt s with
          | None => (s, OVal tzero)
          | Some e => (s, OVal (e_elapsed t total e))
          end
      | Elapsed (Some l) total =>
          match find l s with
          | None => (s, OKeyErr)
          | Some e => (s, OVal (e_elapsed t total e))
          end
      | Labels => (s, OLabels (keys s))
      end.

    (** run a history: every call consumes one clock reading *)
    Fixpoint trun (s : st) (h : list (op * T)) : st * list out :=
      match h with
      | [] => (s, [])
      | (o, t) :: r =>
          let '(s1, x) := tstep s o t in
          let '(s2, xs) := trun s1 r in (s2, x :: xs)
      end.
  End Machine.

  (** Concrete entry: ([t0], [td]) exactly as the Python class. *)
  Definition cent := (option T * T)%type.
  Definition c_init : cent := (None, tzero).
  Definition c_start (t : T) (e : cent) : cent :=
    match fst e with None => (Some t, snd e) | Some _ => e end.
  Definition c_stop (t : T) (e : cent) : cent :=
    match fst e with None => e | Some t0 => (None, tadd (snd e) (tsub t t0)) end.
  Definition c_elapsed (t : T) (total : bool) (e : cent) : T :=
    let te := match fst e with None => tzero | Some t0 => tsub t t0 end in
    if total then tadd te (snd e) else te.

  (** Ideal entry: closed running intervals since the last reset (most recent first)
      and the start of the open one. *)
  Definition ient := (option T * list (T * T))%type.
  Definition i_init : ient := (None, []).
  Definition i_start (t : T) (e : ient) : ient :=
    match fst e with None => (Some t, snd e) | Some _ => e end.
  Definition i_stop (t : T) (e : ient) : ient :=
    match fst e with None => e | Some a => (None, (a, t) :: snd e) end.
  Fixpoint total_len (l : list (T * T)) : T :=
    match l with [] => tzero | (a, b) :: r => tadd (total_len r) (tsub b a) end.
  Definition i_elapsed (t : T) (total : bool) (e : ient) : T :=
    let cur := match fst e with None => tzero | Some a => tsub t a end in
    if total then tadd cur (total_len (snd e)) else cur.

  Definition crun := trun cent c_init c_start c_stop c_elapsed.
  Definition irun := trun ient i_init i_start i_stop i_elapsed.

  (** Simulation relation *)
  Definition erel (c : cent) (i : ient) : Prop := fst c = fst i /\ snd c = total_len (snd i).
  Fixpoint srel (c : st cent) (i : st ient) : Prop :=
    match c, i with
    | [], [] => True
    | (k, e) :: r, (k', e') :: r' => k = k' /\ erel e e' /\ srel r r'
    | _, _ => False
    end.

  Lemma srel_keys c i : srel c i -> keys _ c = keys _ i.
  Proof.
    revert i; induction c as [|[k e] r IH]; intros [|[k' e'] r']; cbn; try tauto.
    intros (-> & _ & H). f_equal. apply IH, H.
  Qed.

  Lemma srel_find c i l : srel c i ->
    match find _ l c, find _ l i with
    | None, None => True | Some e, Some e' => erel e e' | _, _ => False end.
  Proof.
    revert i; induction c as [|[k e] r IH]; intros [|[k' e'] r']; cbn; try tauto.
    intros (-> & He & H). destruct (Nat.eqb k' l); cbn; auto. apply IH, H.
  Qed.

  Lemma srel_upd c i l (f : cent -> cent) (g : ient -> ient) :
    (forall e e', erel e e' -> erel (f e) (g e')) ->
    srel c i -> srel (upd _ l f c) (upd _ l g i).
  Proof.
    intros Hfg. revert i; induction c as [|[k e] r IH]; intros [|[k' e'] r']; cbn; try tauto.
    intros (-> & He & H). destruct (Nat.eqb k' l); cbn; auto.
  Qed.

  Lemma srel_app c i c' i' : srel c i -> srel c' i' -> srel (c ++ c') (i ++ i').
  Proof.
    revert i; induction c as [|[k e] r IH]; intros [|[k' e'] r']; cbn; try tauto.
    intros (-> & He & H) H'. auto.
  Qed.

  Lemma erel_init : erel c_init i_init.
  Proof. split; reflexivity. Qed.
  Lemma erel_start t e e' : erel e e' -> erel (c_start t e) (i_start t e').
  Proof.
    destruct e as [a b], e' as [a' b']. unfold erel, c_start, i_start; cbn.
    intros [-> ->]. destruct a'; split; reflexivity.
  Qed.
  Lemma erel_stop t e e' : erel e e' -> erel (c_stop t e) (i_stop t e').
  Proof.
    destruct e as [a b], e' as [a' b']. unfold erel, c_stop, i_stop; cbn.
    intros [-> ->]. destruct a'; split; reflexivity.
  Qed.
  Lemma erel_elapsed t b e e' : erel e e' -> c_elapsed t b e = i_elapsed t b e'.
  Proof.
    destruct e as [a x], e' as [a' x']. unfold erel, c_elapsed, i_elapsed; cbn.
    intros [-> ->]. reflexivity.
  Qed.

  Lemma do_start_sim t ls : forall c i, srel c i ->
    srel (do_start _ c_init c_start t ls c) (do_start _ i_init i_start t ls i).
  Proof.
    induction ls as [|l r IH]; cbn; auto.
    intros c i H. apply IH.
    pose proof (srel_find c i l H) as Hf.
    apply srel_upd; [apply erel_start|].
    destruct (find _ l c), (find _ l i); try tauto.
    apply srel_app; auto. cbn. auto using erel_init.
  Qed.

  Lemma do_each_sim (f : cent -> cent) (g : ient -> ient) ls :
    (forall e e', erel e e' -> erel (f e) (g e')) ->
    forall c i, srel c i ->
      srel (fst (do_each _ f ls c)) (fst (do_each _ g ls i)) /\
      snd (do_each _ f ls c) = snd (do_each _ g ls i).
  Proof.
    intros Hfg. induction ls as [|l r IH]; cbn; auto.
    intros c i H. pose proof (srel_find c i l H) as Hf.
    destruct (find _ l c), (find _ l i); try tauto; cbn; auto.
    apply IH. apply srel_upd; auto.
  Qed.

  Lemma tstep_sim c i o t : srel c i ->
    srel (fst (tstep _ c_init c_start c_stop c_elapsed c o t))
         (fst (tstep _ i_init i_start i_stop i_elapsed i o t)) /\
    snd (tstep _ c_init c_start c_stop c_elapsed c o t) =
    snd (tstep _ i_init i_start i_stop i_elapsed i o t).
  Proof.
    intros H. destruct o as [x|x|x|[l|] total|]; cbn.
    - split; auto using do_start_sim.
    - unfold sel_stop. rewrite (srel_keys c i H).
      apply do_each_sim; auto using erel_stop.
    - unfold sel_stop. rewrite (srel_keys c i H).
      apply do_each_sim; auto using erel_init.
    - pose proof (srel_find c i l H) as Hf.
      destruct (find _ l c), (find _ l i); try tauto; cbn; auto.
      split; auto. f_equal. now apply erel_elapsed.
    - pose proof (srel_find c i dflt H) as Hf.
      destruct (find _ dflt c), (find _ dflt i); try tauto; cbn; auto.
      split; auto. f_equal. now apply erel_elapsed.
    - split; auto. f_equal. now apply srel_keys.
  Qed.

  (** Refinement: every history of calls, every clock, same outputs. *)
  Theorem timer_refines_stopwatch :
    forall (h : list (op * T)) c i, srel c i ->
      snd (crun c h) = snd (irun i h) /\ srel (fst (crun c h)) (fst (irun i h)).
  Proof.
    unfold crun, irun.
    induction h as [|[o t] r IH]; cbn; intros c i H; auto.
    pose proof (tstep_sim c i o t H) as [Hs Ho].
    destruct (tstep _ c_init c_start c_stop c_elapsed c o t) as [c1 x].
    destruct (tstep _ i_init i_start i_stop i_elapsed i o t) as [i1 y].
    cbn in *. subst y.
    specialize (IH c1 i1 Hs).
    destruct (trun _ c_init c_start c_stop c_elapsed c1 r) as [c2 xs].
    destruct (trun _ i_init i_start i_stop i_elapsed i1 r) as [i2 ys].
    cbn in *. destruct IH as [-> ?]. auto.
  Qed.

  Corollary timer_fresh_refines :
    forall h, snd (crun [] h) = snd (irun [] h).
  Proof. intros h. apply (timer_refines_stopwatch h [] []). exact I. Qed.

  (** What the ideal stopwatch reports: a timer that is stopped reports the summed length
      of its closed intervals; a running one adds the open interval. *)
  Lemma ideal_elapsed_running a l t :
    i_elapsed t true (Some a, l) = tadd (tsub t a) (total_len l).
  Proof. reflexivity. Qed.
  Lemma ideal_elapsed_stopped l t : i_elapsed t true (None, l) = total_len l.
  Proof. unfold i_elapsed; cbn. apply tadd_0_l. Qed.

  (** start on a running timer and stop on a stopped timer are no-ops *)
  Lemma start_running_noop t a td : c_start t (Some a, td) = (Some a, td).
  Proof. reflexivity. Qed.
  Lemma stop_stopped_noop t td : c_stop t (None, td) = (None, td).
  Proof. reflexivity. Qed.
End Timer.
