(** Proximal maps in an abstract real inner-product space.

    An extended-real-valued functional is a pair ([dom], [f]): [f] is its value on [dom],
    and it is +infinity outside.  [IsProx dom f lam v p] says that [p] minimises
    [lam*f(x) + 1/2 ||x - v||^2] over all [x] (so in particular [p] is in the domain). *)
From Coq Require Import Reals Lra Psatz.
From SV Require Import Base.InnerSpace.
Open Scope R_scope.

Section Prox.
  Context {S : InnerSpace}.
  Variable dom : E -> Prop.
  Variable f : E -> R.

  Definition obj (lam : R) (v x : E) : R := lam * f x + / 2 * nsq (vsub x v).

  Definition IsProx (lam : R) (v p : E) : Prop :=
    dom p /\ forall x, dom x -> obj lam v p <= obj lam v x.

  (** subgradient certificate: (v - p)/lam is a subgradient of f at p *)
  Definition SubCert (lam : R) (v p : E) : Prop :=
    dom p /\ forall z, dom z -> lam * f p + ip (vsub v p) (vsub z p) <= lam * f z.

  Definition Convex : Prop :=
    forall x y t, dom x -> dom y -> 0 <= t <= 1 ->
      dom (vadd x (vscale t (vsub y x))) /\
      f (vadd x (vscale t (vsub y x))) <= (1 - t) * f x + t * f y.

  Lemma lim_step a b : (forall t, 0 < t <= 1 -> 0 <= a + t * b) -> 0 <= a.
  Proof.
    intros H. destruct (Rle_dec 0 a) as [|Ha]; auto. exfalso. apply Rnot_le_lt in Ha.
    destruct (Rle_dec b 0) as [Hb|Hb].
    - specialize (H 1). lra.
    - apply Rnot_le_lt in Hb.
      destruct (Rle_dec 1 (- a / (2 * b))) as [H1|H1].
      + specialize (H 1 ltac:(lra)).
        assert (H2 : 2 * b * 1 <= 2 * b * (- a / (2 * b))) by (apply Rmult_le_compat_l; lra).
        replace (2 * b * (- a / (2 * b))) with (- a) in H2 by (field; lra).
        lra.
      + apply Rnot_le_lt in H1.
        assert (Ht : 0 < - a / (2 * b)).
        { unfold Rdiv. apply Rmult_lt_0_compat; [lra|apply Rinv_0_lt_compat; lra]. }
        specialize (H (- a / (2 * b)) ltac:(lra)).
        replace (a + - a / (2 * b) * b) with (a / 2) in H by (field; lra). lra.
  Qed.

  (** Certificate => prox (no convexity needed): the direction used by every closed form. *)
  Lemma subcert_prox lam v p : SubCert lam v p -> IsProx lam v p.
  Proof.
    intros [Hp H]. split; auto. intros x Hx. specialize (H x Hx).
    unfold obj. pose proof (nsq_pos (vsub x p)) as Hn.
    revert H Hn. ip_expand.
    rewrite ?(ip_sym v p), ?(ip_sym x p), ?(ip_sym v x).
    generalize (ip p p) (ip p v) (ip p x) (ip x x) (ip x v) (ip v v) (f p) (f x).
    intros. lra.
  Qed.

  (** Prox of a convex functional => certificate. *)
  Lemma prox_subcert lam v p : 0 < lam -> Convex -> IsProx lam v p -> SubCert lam v p.
  Proof.
    intros Hlam Hc [Hp H]. split; auto. intros z Hz.
    cut (0 <= lam * f z - (lam * f p + ip (vsub v p) (vsub z p))); [lra|].
    apply lim_step with (b := / 2 * nsq (vsub z p)).
    intros t Ht.
    destruct (Hc p z t Hp Hz ltac:(lra)) as [Hd Hf].
    specialize (H _ Hd). unfold obj in H.
    assert (Hkey : 0 <= t * (lam * f z - (lam * f p + ip (vsub v p) (vsub z p)) + t * (/ 2 * nsq (vsub z p)))).
    { revert H Hf. ip_expand.
      rewrite ?(ip_sym v p), ?(ip_sym z p), ?(ip_sym v z).
      generalize (ip p p) (ip p v) (ip p z) (ip z z) (ip z v) (ip v v) (f p) (f z)
                 (f (vadd p (vscale t (vadd z (vopp p))))).
      intros a b c d e g fp fz ft H Hf.
      assert (lam * ft <= lam * ((1 - t) * fp + t * fz)) by (apply Rmult_le_compat_l; lra).
      nra. }
    destruct Ht as [Ht0 Ht1].
    apply Rmult_le_reg_l with t; auto. lra.
  Qed.

  (** Uniqueness and firm non-expansiveness, from two certificates *)
  Lemma cert_firm lam v1 v2 p1 p2 :
    SubCert lam v1 p1 -> SubCert lam v2 p2 ->
    nsq (vsub p1 p2) <= ip (vsub p1 p2) (vsub v1 v2).
  Proof.
    intros [H1 C1] [H2 C2]. specialize (C1 p2 H2). specialize (C2 p1 H1).
    revert C1 C2. ip_expand.
    rewrite ?(ip_sym p2 p1), ?(ip_sym v1 p1), ?(ip_sym v2 p1), ?(ip_sym v1 p2), ?(ip_sym v2 p2).
    generalize (ip p1 p1) (ip p1 p2) (ip p2 p2) (ip p1 v1) (ip p1 v2) (ip p2 v1) (ip p2 v2) (f p1) (f p2).
    intros. lra.
  Qed.

  Lemma cert_unique lam v p1 p2 : SubCert lam v p1 -> SubCert lam v p2 -> p1 = p2.
  Proof.
    intros H1 H2. pose proof (cert_firm lam v v p1 p2 H1 H2) as H.
    rewrite vsub_self, ip_0_r in H.
    apply vsub_eq_0, nsq_0. pose proof (nsq_pos (vsub p1 p2)). lra.
  Qed.

  Theorem prox_unique lam v p1 p2 : 0 < lam -> Convex ->
    IsProx lam v p1 -> IsProx lam v p2 -> p1 = p2.
  Proof. intros; eapply cert_unique; eapply prox_subcert; eauto. Qed.

  Theorem prox_firmly_nonexpansive lam v1 v2 p1 p2 : 0 < lam -> Convex ->
    IsProx lam v1 p1 -> IsProx lam v2 p2 ->
    nsq (vsub p1 p2) <= ip (vsub p1 p2) (vsub v1 v2).
  Proof. intros; eapply cert_firm; eapply prox_subcert; eauto. Qed.

  Theorem prox_iff_subcert lam v p : 0 < lam -> Convex -> (IsProx lam v p <-> SubCert lam v p).
  Proof. intros; split; [apply prox_subcert; auto | apply subcert_prox]. Qed.
End Prox.

(** ** Calculus rules (C08) *)
Section Calculus.
  Context {S : InnerSpace}.

  (** prox of c*f at lam = prox of f at c*lam *)
  Theorem prox_scale dom (f : E -> R) c lam v p :
    IsProx dom (fun x => c * f x) lam v p <-> IsProx dom f (c * lam) v p.
  Proof.
    unfold IsProx, obj. split; intros [H1 H2]; split; auto; intros x Hx; specialize (H2 x Hx); lra.
  Qed.

  (** prox of alpha*f(. - y) at lam is the translated prox of f at alpha*lam *)
  Theorem prox_translate dom (f : E -> R) alpha y lam v p :
    IsProx (fun x => dom (vsub x y)) (fun x => alpha * f (vsub x y)) lam v p <->
    IsProx dom f (alpha * lam) (vsub v y) (vsub p y).
  Proof.
    assert (Hs : forall a b, nsq (vsub (vsub a y) (vsub b y)) = nsq (vsub a b)).
    { intros a b. ip_expand. rewrite ?(ip_sym y a), ?(ip_sym y b), ?(ip_sym b a).
      generalize (ip a a) (ip a b) (ip a y) (ip b b) (ip b y) (ip y y). intros. lra. }
    assert (Hy : forall x, vsub (vadd x y) y = x).
    { intros x. unfold vsub. rewrite <- vadd_assoc, vadd_opp_r. apply vadd_0_r. }
    assert (Hs2 : forall x, nsq (vsub (vadd x y) v) = nsq (vsub x (vsub v y))).
    { intros x. ip_expand. rewrite ?(ip_sym y x), ?(ip_sym v x), ?(ip_sym v y).
      generalize (ip x x) (ip x y) (ip x v) (ip y y) (ip y v) (ip v v). intros. lra. }
    unfold IsProx, obj. split; intros [H1 H2]; split; auto.
    - intros x Hx. specialize (H2 (vadd x y)). cbn beta in H2. rewrite Hy in H2.
      specialize (H2 Hx). rewrite Hs2 in H2. rewrite Hs. lra.
    - intros x Hx. specialize (H2 (vsub x y) Hx). rewrite !Hs in H2. lra.
  Qed.

  (** Moreau decomposition, certificate form: if q is the prox of f at (v, lam) then
      v - q satisfies the certificate of the conjugate f* scaled by lam at v, where f* is
      used only through the Fenchel-Young (in)equalities it is characterised by. *)
  Variable dom : E -> Prop.
  Variable f : E -> R.
  Variable domc : E -> Prop.          (* domain of the conjugate *)
  Variable fc : E -> R.               (* conjugate f* *)
  Hypothesis fenchel_young : forall x s, dom x -> domc s -> ip x s <= f x + fc s.
  Hypothesis fenchel_eq : forall x s, dom x ->
    (forall z, dom z -> f x + ip s (vsub z x) <= f z) -> domc s /\ ip x s = f x + fc s.

  (** [conj_prox]: prox_{lam f*}(v) = v - lam * prox_{f/lam}(v/lam).  With q the inner prox
      (certificate form) the returned point is a prox of f* . *)
  Theorem moreau lam v q :
    0 < lam ->
    SubCert dom f (/ lam) (vscale (/ lam) v) q ->
    IsProx domc fc lam v (vsub v (vscale lam q)).
  Proof.
    intros Hlam [Hq Hc].
    set (s := vsub v (vscale lam q)).
    assert (Hsub : forall z, dom z -> f q + ip s (vsub z q) <= f z).
    { intros z Hz. specialize (Hc z Hz). unfold s. revert Hc. ip_expand.
      rewrite ?(ip_sym v q), ?(ip_sym z q), ?(ip_sym v z).
      generalize (ip q q) (ip q v) (ip q z) (ip z v) (f q) (f z). intros a b c d fq fz H.
      match type of H with ?L <= ?R =>
        assert (H' : lam * L <= lam * R) by (apply Rmult_le_compat_l; lra);
        replace (lam * L) with (fq + (d - b) + lam * (a - c)) in H' by (field; lra);
        replace (lam * R) with fz in H' by (field; lra)
      end.
      lra. }
    destruct (fenchel_eq q s Hq Hsub) as [Hds Heq].
    apply subcert_prox. split; auto.
    intros w Hw. pose proof (fenchel_young q w Hq Hw) as Hfy.
    unfold s in *. revert Heq Hfy. ip_expand.
    rewrite ?(ip_sym v q), ?(ip_sym w q), ?(ip_sym v w).
    generalize (ip q q) (ip q v) (ip q w) (ip w v) (fc (vadd v (vopp (vscale lam q)))) (fc w) (f q).
    intros. nra.
  Qed.
End Calculus.

(** ** Separable sums on a product space *)
Section Product.
  Variables S1 S2 : InnerSpace.

  Local Obligation Tactic := idtac.
  Program Definition ProdSpace : InnerSpace := {|
    E := (@E S1 * @E S2)%type;
    vzero := (vzero, vzero);
    vadd := fun x y => (vadd (fst x) (fst y), vadd (snd x) (snd y));
    vopp := fun x => (vopp (fst x), vopp (snd x));
    vscale := fun a x => (vscale a (fst x), vscale a (snd x));
    ip := fun x y => ip (fst x) (fst y) + ip (snd x) (snd y) |}.
  Next Obligation. intros [a1 a2] [b1 b2]; cbn. now rewrite (vadd_comm a1), (vadd_comm a2). Qed.
  Next Obligation. intros [a1 a2] [b1 b2] [c1 c2]; cbn. now rewrite !vadd_assoc. Qed.
  Next Obligation. intros [a1 a2]; cbn. now rewrite !vadd_0_r. Qed.
  Next Obligation. intros [a1 a2]; cbn. now rewrite !vadd_opp_r. Qed.
  Next Obligation. intros [a1 a2]; cbn. now rewrite !vscale_1. Qed.
  Next Obligation. intros a b [a1 a2]; cbn. now rewrite !vscale_scale. Qed.
  Next Obligation. intros a [a1 a2] [b1 b2]; cbn. now rewrite !vscale_add_r. Qed.
  Next Obligation. intros a b [a1 a2]; cbn. now rewrite !vscale_add_l. Qed.
  Next Obligation. intros [a1 a2] [b1 b2]; cbn. rewrite (ip_sym a1), (ip_sym a2). reflexivity. Qed.
  Next Obligation. intros [a1 a2] [b1 b2] [c1 c2]; cbn. rewrite !ip_add_l. lra. Qed.
  Next Obligation. intros a [a1 a2] [b1 b2]; cbn. rewrite !ip_scale_l. lra. Qed.
  Next Obligation. intros [a1 a2]; cbn. pose proof (ip_pos a1). pose proof (ip_pos a2). lra. Qed.
  Next Obligation.
    intros [a1 a2]; cbn. intros H. pose proof (ip_pos a1). pose proof (ip_pos a2).
    f_equal; apply ip_def; lra.
  Qed.

  (** prox of a separable sum acts block by block *)
  Theorem prox_separable dom1 (f1 : @E S1 -> R) dom2 (f2 : @E S2 -> R) lam v1 v2 p1 p2 :
    IsProx dom1 f1 lam v1 p1 -> IsProx dom2 f2 lam v2 p2 ->
    @IsProx ProdSpace (fun x => dom1 (fst x) /\ dom2 (snd x)) (fun x => f1 (fst x) + f2 (snd x))
            lam (v1, v2) (p1, p2).
  Proof.
    intros [Hd1 H1] [Hd2 H2]. split; [split; auto|].
    intros [x1 x2] [Hx1 Hx2]. specialize (H1 x1 Hx1). specialize (H2 x2 Hx2).
    unfold obj, nsq, vsub in *. cbn in *. lra.
  Qed.
End Product.
