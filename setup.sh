#!/bin/bash
# Build the whole Coq development from files on disk (offline).  Run once after a fresh restore.
cd "$(dirname "$0")"
set -e
mkdir -p build evidence replays coq/gen coq/Findings
export PYTHONPATH=/repo:/verif PYTHONHASHSEED=0 JAX_PLATFORMS=cpu
# regenerate the source-derived Coq files (py2coq) from /repo's working tree
/venv/bin/python -W ignore tools/regen.py 2>&1 | grep -v -i conda | tail -3
/venv/bin/python - <<'PY'
from vf.common import ensure_makefile
ensure_makefile()
PY
timeout 3000 make -C coq -j16 --no-print-directory -k 2>&1 | grep -v -i conda | tail -5
echo setup done
