#!/venv/bin/python
"""Run (part of) the pinned test-suite and compare with /root/.vp/BASELINE.json.
usage: tools/basecheck.py [pytest paths...]   (default: whole suite)  -- prints stable-pass tests that did not pass."""
import json, os, subprocess, sys, xml.etree.ElementTree as ET
base = json.load(open("/root/.vp/BASELINE.json"))
stable = set(base["stable_pass"])
out = "/verif/build/junit_%d.xml" % os.getpid()
args = sys.argv[1:]
nproc = os.environ.get("NPROC", "8")
cmd = ["/venv/bin/python", "-m", "pytest", "-q", "-p", "no:cacheprovider", "--timeout=900",
       "--continue-on-collection-errors", "-n", nproc, "--junitxml=" + out] + args
env = dict(os.environ)
env.pop("SCICO_VERIF", None)
env["PYTHONHASHSEED"] = "0"   # xdist workers must collect parametrised tests in the same order
subprocess.run(cmd, cwd="/repo", env=env, stdout=subprocess.DEVNULL, stderr=subprocess.DEVNULL)
t = ET.parse(out)
passed, seen = set(), set()
for tc in t.iter("testcase"):
    tid = tc.get("classname") + "::" + tc.get("name")
    seen.add(tid)
    if not any(c.tag in ("failure", "error", "skipped") for c in tc):
        passed.add(tid)
bad = sorted((stable & seen) - passed)
missing = sorted(stable - seen) if not args else []
print(f"ran {len(seen)} tests, passed {len(passed)}, stable-pass tests in this selection: {len(stable & seen)}")
print("stable-pass tests that did NOT pass:", len(bad))
for b in bad: print("  ", b)
if missing: print("stable-pass tests not run:", len(missing), missing[:10])
os.remove(out)
sys.exit(1 if bad or missing else 0)
