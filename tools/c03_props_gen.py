"""Regenerates coq/Properties/C03.v from the lemma statements of coq/theories/C03 (run from /verif/coq after\nbuilding theories/C03/*.vo).  The property file is committed; this is a maintenance helper."""
import subprocess, re, sys
LEMS = [
 ("Fix_LADMM","ladmm_fixed_point","LinearizedADMM: a KKT triple (zs = C xs, us/nu in dg(zs), -(1/nu) C^H us in df(xs)) is unchanged by one documented step"),
 ("Fix_LADMM","ladmm_fixed_point_gen","... and by the step generated from the source (via C11)"),
 ("Fix_LADMM","ladmm_fixed_point_iter","... and by any number of generated steps"),
 ("Fix_LADMM","ladmm_minimizer","minimizer() then returns xs"),
 ("Fix_PADMM","padmm_fixed_point","ProximalADMM with any B, c: A xs + B zs = c, -rho A^H us in df(xs), -rho B^H us in dg(zs) is a fixed point (u_old = u)"),
 ("Fix_PADMM","padmm_fixed_point_gen","... for the generated step"),
 ("Fix_PADMM","padmm_fixed_point_iter","... for any number of generated steps"),
 ("Fix_PADMM","nlpadmm_fixed_point","NonLinearPADMM: H(xs, zs) = 0 with the Jacobian adjoints at the point (vjp oracles of H)"),
 ("Fix_PADMM","nlpadmm_fixed_point_gen","... for the generated step"),
 ("Fix_PADMM","nlpadmm_fixed_point_iter","... for any number of generated steps"),
 ("Fix_PADMM","pdhg_fixed_point","PDHG, linear or non-linear C, any extrapolation alpha: zs in dg(C xs), -C^H zs (adjoint Jacobian for non-linear C) in df(xs)"),
 ("Fix_PADMM","pdhg_fixed_point_gen","... for the generated step"),
 ("Fix_PADMM","pdhg_fixed_point_iter","... for any number of generated steps"),
 ("Fix_PADMM","conj_prox_is_prox_of_conjugate","Moreau: the generated Functional.conj_prox is the prox of the convex conjugate (characterised by Fenchel-Young)"),
 ("Fix_ADMM","admm_fixed_point","ADMM, any number of blocks, any relaxation alpha, x-update = unique sub-problem minimiser: a saddle point is a fixed point"),
 ("Fix_ADMM","admm_fixed_point_gen","... for the generated step (in-place loop over blocks)"),
 ("Fix_ADMM","admm_fixed_point_iter","... for any number of generated steps"),
 ("Fix_ADMM","admm_minimizer","minimizer() then returns xs"),
 ("PGM","pgstep_fixed_point","PGM: -grad f(xs) in dg(xs) implies the proximal-gradient point of xs is xs"),
 ("PGM","pgm_fixed_point_gen","PGM generated step keeps the optimum (fixed policy), residual 0"),
 ("PGM","apgm_fixed_point_gen","AcceleratedPGM generated step keeps v = x = xs for every momentum t"),
 ("PGM","pgm_objective_decreases","PGM with the descent lemma for L: F(x+) + (L/2)||x - x+||^2 <= F(x) (no convexity of f needed)"),
 ("PGM","pgm_contraction","strong convexity m >= 0: ||x+ - xs||^2 <= (1 - m/L) ||x - xs||^2"),
 ("PGM","pgm_nonexpansive","||x+ - xs|| <= ||x - xs||"),
 ("PGM","pgm_linear_rate","||x_k - xs||^2 <= (1 - m/L)^k ||x_0 - xs||^2 for ALL k and x_0"),
 ("PGM","pgm_solver_rate","the same for minimizer() of the generated solver after k generated steps"),
 ("PGM","pgm_solver_monotone","the objective at minimizer() never increases along generated steps"),
 ("Lyap_ADMM","step_establishes_inv","ADMM (one block): every step establishes the invariant rho u in dg(z)"),
 ("Lyap_ADMM","admm_lyapunov_one_step","ADMM (one block) Lyapunov decrease under the invariant: V+ <= V - rho ||r+||^2 - rho ||z+ - z||^2"),
 ("Lyap_ADMM","admm_residual_summable_partial","hence sum of rho(||r||^2 + ||dz||^2) over n steps + V_n <= V_0, all n"),
 ("Lyap_ADMM","admm_residual_sum_bounded","from the first iterate on the residuals are square-summable, bounded by V(s_1)"),
 ("Lyap_ADMM","admm_lyapunov_monotone","V never increases from iteration 1 on"),
 ("Lyap_ADMM","step_gen_is_admm1","the generated ADMM step on a one-block state is the map the Lyapunov theorems are about"),
 ("Lyap_ADMM","submin_first_order","a minimiser of the x-sub-problem (convex f, linear C) satisfies the first-order condition assumed of the x-update"),
]
hdr = """From Coq Require Import Reals Lra List.
From SV Require Import Base.Num Base.InnerSpace Prox.ProxTheory C11.Overload C11.SpecBase C03.Setup.
From SV Require C11.Spec_LADMM C11.Spec_PADMM C11.Spec_NLPADMM C11.Spec_PDHG C11.Spec_PGM C11.Spec_ADMM.
From SV Require C03.Fix_LADMM C03.Fix_PADMM C03.Fix_ADMM C03.PGM C03.Lyap_ADMM.
From SVGen Require C11_Functional C11_Ladmm C11_Padmm C11_Nlpadmm C11_Pdhg C11_Pgm C11_Apgm C11_Admm.
Import ListNotations.
Open Scope R_scope.
"""
q = hdr + "Set Printing Implicit. Set Printing Width 100000. Set Printing Depth 100000.\n" + "\n".join(f"Check @{m}.{l}." for m,l,_ in LEMS)
open("/verif/build/C03_q.v","w").write(q)
out = subprocess.run(["coqc","-Q","theories","SV","-Q","gen","SVGen","/verif/build/C03_q.v"],capture_output=True,text=True).stdout
items = re.split(r"^@", out, flags=re.M)[1:]
txt = ['(** C03 -- optimisers keep an optimal point fixed and converge to the true minimiser.\n    Only statements (printed from the lemmas of coq/theories/C03 and closed by them).  All are\n    over abstract real inner-product spaces (real, complex as R^2n with Re<.,.>, block arrays),\n    arbitrary operators / convex functionals with prox oracles, parameters and iteration counts. *)\n' + hdr]
for (m,l,doc), it in zip(LEMS, items):
    name, ty = it.split("\n     : ",1) if "\n     : " in it else it.split(" : ",1)
    ty = ty.strip()
    txt.append(f"(** {doc} *)\nTheorem C03_{l} :\n  {ty}.\nProof. exact (@{m}.{l}). Qed.\nPrint Assumptions C03_{l}.\n")
open("Properties/C03.v","w").write("\n".join(txt))
open("Properties/C03.v","a").write('''
(** Non-vacuity: on the real line with f = g = 0 and C = identity every hypothesis of the
    LinearizedADMM fixed-point theorem holds (so the hypotheses are jointly satisfiable). *)
Example C03_hypotheses_satisfiable :
  Spec_LADMM.step_spec (Fix_LADMM.s_opt (SX:=R_space) (SZ:=R_space) zero_func zero_func (fun x => x) (fun y => y) (fun _ y => y) true 1 1 0 0 0 0)
  = Fix_LADMM.s_opt (SX:=R_space) (SZ:=R_space) zero_func zero_func (fun x => x) (fun y => y) (fun _ y => y) true 1 1 0 0 0 0.
Proof.
  apply (@Fix_LADMM.ladmm_fixed_point R_space R_space (fun _ => True) (fun _ => 0) (fun _ => True) (fun _ => 0));
    try exact zero_prox_oracle; try exact zero_convex; try lra; try reflexivity.
  - intros x y. reflexivity.
  - replace (@vscale R_space (/ 1) 0) with (0 : @E R_space) by (cbn; lra). apply zero_subgrad.
  - replace (@vscale R_space (- / 1) 0) with (0 : @E R_space) by (cbn; lra). apply zero_subgrad.
Qed.
''')
