#!/bin/bash
# tools/fullpass.sh [tier] [seed] [parallel]  -- run every check on /repo, summarise exits; evidence/*.json is rewritten by the checks
tier=${1:-quick}; seed=${2:-0}; par=${3:-4}
cd /verif; mkdir -p build/fullpass
for i in $(seq -w 1 20); do case " $SKIP " in *" C$i "*) ;; *) echo C$i;; esac; done | VERIF_SEED=$seed xargs -P $par -I{} sh -c "VERIF_SEED=$seed ./check {} --tier $tier > build/fullpass/{}.$tier.$seed.log 2>&1; echo \"{} exit \$?\" >> build/fullpass/{}.$tier.$seed.log"
grep -h "exit\|VIOLATION\|BROKEN" build/fullpass/C*.$tier.$seed.log | grep -v "exit 0" ; echo "non-zero exits: $(grep -h ' exit ' build/fullpass/C*.$tier.$seed.log | grep -vc 'exit 0')"
