#!/usr/bin/env python3
"""Merge known_findings.d/*.json into the single committed known_findings.json.
  tools/merge_known.py            merge everything
  tools/merge_known.py --prune    keep only entries whose `what` was reported (KNOWN-FINDING line) in the
                                  evidence files or in build/known_hits.log (the union over all runs since that log was started)
"""
import json, sys, glob, os
V = "/verif"
base = json.load(open(f"{V}/known_findings.json"))
known = list(base.get("known", []))
for f in sorted(glob.glob(f"{V}/known_findings.d/*.json")):
    e = json.load(open(f))
    known += e if isinstance(e, list) else e.get("known", [])
# de-duplicate
seen, out = set(), []
for k in known:
    key = (k["property"], k["unit"], k["what"], k.get("when"))
    if key not in seen:
        seen.add(key); out.append(k)
if "--prune" in sys.argv:
    hits = set()
    for f in glob.glob(f"{V}/evidence/*.json"):
        hits |= set(json.load(open(f))["coverage"].get("known_findings_reported", []))
    if os.path.exists(f"{V}/build/known_hits.log"):
        hits |= set(l.rstrip("\n") for l in open(f"{V}/build/known_hits.log"))
    kept = [k for k in out if f"KNOWN-FINDING: property={k['property']} {k['what']}" in hits]
    print("pruned", len(out) - len(kept), "entries that no longer reproduce; kept", len(kept))
    out = kept
base["known"] = out
json.dump(base, open(f"{V}/known_findings.json", "w"), indent=1)
print("known_findings.json:", len(out), "known,", len(base.get("fixed", [])), "fixed")
