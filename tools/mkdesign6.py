#!/usr/bin/env python3
"""(Re)generate section 6 of DESIGN.md from tools/design6_head.md, known_findings.json and seeded/*/meta.json."""
import json, glob, os, re
V = "/verif"
head = open(f"{V}/tools/design6_head.md").read()
kf = json.load(open(f"{V}/known_findings.json"))
known = kf.get("known", [])
frag = sorted(glob.glob(f"{V}/known_findings.d/*.json"))
for f in frag:
    e = json.load(open(f)); known += e if isinstance(e, list) else e.get("known", [])
seen = set(); ku = []
for k in known:
    key = (k["property"], k["what"])
    if key not in seen:
        seen.add(key); ku.append(k)
out = [head.rstrip(), "", "### 6.4 Defects of lanl/scico found by the checks", "",
       "**Repaired** (one `fix:` commit each in /repo; the unedited test-suite passes with all of them; listed as",
       "`fixed:` entries in `known_findings.json`; the models/theorems of the affected properties were updated to the",
       "repaired code and the restricted theorems replaced by the full statements):", ""]
for f in kf.get("fixed", []):
    out.append("* " + f.replace("fixed: ", ""))
out += ["", "**Recorded as known findings** (`known_findings.json`; each entry has a predicate on the replay input, so a",
        "different violation of the same property is still reported; entries that stop reproducing are pruned with",
        "`tools/merge_known.py --prune`). They were not repaired because the repair is not a few-line patch, would change",
        "documented behaviour that an existing test pins down (e.g. `DFT.inv`, the `L0Norm` threshold), or needs a design",
        "decision by the maintainers. Number of entries per property and the distinct defects:", ""]
byp = {}
for k in ku:
    byp.setdefault(k["property"], []).append(k)
for p in sorted(byp):
    ents = byp[p]
    out.append(f"* **{p}** ({len(ents)} entries)")
    shown = 0
    for k in ents:
        if shown >= 12:
            out.append(f"  * ... and {len(ents) - shown} more (see known_findings.json)")
            break
        w = k["what"]
        out.append("  * " + (w if len(w) < 330 else w[:327] + "..."))
        shown += 1
out += ["", "### 6.5 Seeded changes: which checks catch which", "",
        "Each change was written by a fresh sub-agent that saw only the property text and a scratch worktree; it passes the",
        "existing tests and comes with a demonstration that fails with the change and passes without it (all re-confirmed with",
        "`tools/seedtest.py`, which also runs the quick tier of the named checks against the changed tree).", "",
        "| seed | property | change (needs ... to manifest) | detected by (quick tier) | remark |", "|---|---|---|---|---|"]
notes = {}
if os.path.exists(f"{V}/seeded/NOTES.json"):
    notes = json.load(open(f"{V}/seeded/NOTES.json"))
for f in sorted(glob.glob(f"{V}/seeded/*/meta.json")):
    d = json.load(open(f)); name = f.split("/")[-2]
    title = d.get("title", "").replace("|", "/")
    need = str(d.get("needs_to_manifest", "")).replace("|", "/").replace("\n", " ")
    if len(need) > 220: need = need[:217] + "..."
    det = ", ".join(d.get("detected_by") or []) or "**none**"
    out.append(f"| {name} | {d.get('property')} | {title} ({need}) | {det} | {notes.get(name, '')} |")
out.append("")
# 6.6 per-property numbers from the evidence files of the last run
out += ["### 6.6 Per-property numbers (from evidence/*.json of the last committed run)", "",
        "| property | tier | obligations discharged | theorems in the property file | cases evaluated (distinct non-trivial) | traces against the implementation | wall s |",
        "|---|---|---|---|---|---|---|"]
for f in sorted(glob.glob(f"{V}/evidence/C*.json")):
    try:
        e = json.load(open(f)); c = e["coverage"]
        out.append(f"| {e['property_id']} | {e['tier']} | {c['discharged']}/{c['obligations']} | {len(c.get('theorems', []))} | "
                   f"{c.get('evaluations', '')} ({c.get('distinct_nontrivial', '')}) | {c.get('traces_validated_against_impl', '')} | {e.get('wall_s', '')} |")
    except Exception:
        pass
out.append("")
text = "\n".join(out)
p = f"{V}/DESIGN.md"
s = open(p).read()
B, E = "<!-- SECTION6 BEGIN -->", "<!-- SECTION6 END -->"
if B in s:
    s = s[:s.index(B)] + B + "\n" + text + "\n" + E + s[s.index(E) + len(E):]
else:
    k = s.index("## Appendix A. Worked example")
    s = s[:k] + B + "\n" + text + "\n" + E + "\n\n---------------------------------------------------------------------------\n\n" + s[k:]
open(p, "w").write(s)
print("section 6 written:", len(text), "chars")
