#!/usr/bin/env python3
"""Regenerate /verif/MANIFEST.json from tools/manifest_src.json (per-property texts)."""
import json, sys
from pathlib import Path
V = Path(__file__).resolve().parent.parent
src = json.load(open(V / "tools/manifest_src.json"))
props = [json.loads(l) for l in open(V / "properties.jsonl")]
checks, na = [], []
for p in props:
    pid = p["id"]
    if pid in src["claimed"]:
        c = src["claimed"][pid]
        checks.append({
            "property_id": pid,
            "quick_cmd": f"./check {pid} --tier quick",
            "thorough_cmd": f"./check {pid} --tier thorough",
            "evidence_file": f"/verif/evidence/{pid}.json",
            "replay_cmd_template": f"./check {pid} --replay {{path}}",
            "engine": "coq-proof+correspondence",
            "level_claimed": {"category": "proof", "text": c["text"], "design_ref": c.get("design_ref", f"DESIGN.md section 3 ({pid})")},
            "level_note": c["note"],
            "technique": c["technique"],
        })
    else:
        na.append({"property_id": pid, "reason": src["not_applicable"].get(pid, "check not built yet in this round")})
m = {
    "version": 1,
    "setup_cmd": "./setup.sh",
    "hooks": {"guard": "SCICO_VERIF", "enable": "no source hooks are needed; checks monkey-patch the clock / PRNG keys from the harness process (env SCICO_VERIF=1 is set by ./check but nothing in /repo reads it)",
              "baseline_off_cmd": "cd /repo && /venv/bin/python -m pytest -ra -q -p no:cacheprovider --timeout=900 --continue-on-collection-errors",
              "source_commits": [], "add_only": True},
    "engines": [{"name": "coq-proof+correspondence", "path": "/verif/check",
                 "serves_properties": [c["property_id"] for c in checks],
                 "kind_free_text": "Coq 8.16 theorems over executable models (coq/theories, coq/Properties), models generated from the source by tools/py2coq.py into coq/gen on every run, and a differential correspondence harness (vf/props/*.py) that evaluates the models by vm_compute on the inputs the implementation was run on"}],
    "checks": checks,
    "notes": src.get("notes", ""),
    "not_applicable": na,
}
(V / "MANIFEST.json").write_text(json.dumps(m, indent=1))
print(len(checks), "claimed,", len(na), "not claimed")
