#!/venv/bin/python
"""py2coq -- fail-closed Python-ast -> shallow Coq translator for the scico optimiser classes.

    python tools/py2coq.py --all                regenerate every unit into coq/gen/C11_*.v
    python tools/py2coq.py --unit LADMM         one unit
    python tools/py2coq.py --unit LADMM --src FILE --out DIR    translate a scratch copy

Statement-by-statement translation of the methods listed in UNITS.  Every `self.attr`
assignment becomes a `let self_attr := ...`, locals become `let v_name := ...`, the method
ends by rebuilding the state record.  Optional[...] = None parameters are specialised
statically (one Coq definition per subset of supplied arguments; a variant that raises
becomes `<name>__raises : unit`).  Typing is left to Coq: the overloaded operations of
coq/theories/C11/Overload.v are emitted.  ANY construct outside the tables below raises
Unsupported(file:line); the generated file then contains a definition that cannot type-check,
and the exit status is non-zero.
"""
from __future__ import annotations

import argparse
import ast
import itertools
import re
import os
import sys
from fractions import Fraction
from pathlib import Path

sys.path.insert(0, str(Path(__file__).resolve().parent.parent))
from vf.common import write_if_changed, GEN  # noqa: E402

VERIF = Path(__file__).resolve().parent.parent
REPO = Path(os.environ.get("SCICO_REPO", "/repo"))


class Unsupported(Exception):
    def __init__(self, fn, node, msg):
        super().__init__(f"{fn}:{getattr(node, 'lineno', '?')}: unsupported: {msg}")


class Raises(Exception):
    """The statically selected path ends in `raise`."""


# ------------------------------------------------------------------ unit table (typing context)
# fields: (python attribute, Coq type).  methods: name -> dict(params={name: type}, locals={},
#   kind='state'|'value', slice=(start_prefix, end_prefix) on the unparsed statements,
#   coqname=...).  Field projections are <prefix>_<attr>.
OPT = "scico/optimize/"
SHAPE_ATTRS = {"input_shape", "output_shape", "input_dtype", "output_dtype", "shape", "dtype",
               "input_shapes", "input_dtypes"}

SHP = {k: "unit" for k in ("xshape", "zshape", "ushape", "xdtype", "zdtype", "udtype")}

UNITS = {
    "Functional": dict(
        out="C11_Functional", file="scico/functional/_functional.py", classes=["Functional"],
        spaces=["V"], self_is_func="Func K V", fields=[],
        methods={"conj_prox": dict(params={"v": "V", "lam": "K"}, kind="value", allow_kwargs=True)}),
    "LADMM": dict(
        out="C11_Ladmm", file=OPT + "_ladmm.py", classes=["LinearizedADMM"], prefix="la",
        spaces=["X", "Z"],
        fields=[("x", "X"), ("z", "Z"), ("z_old", "Z"), ("u", "Z"), ("f", "Func K X"),
                ("g", "Func K Z"), ("C", "Op X Z"), ("mu", "K"), ("nu", "K")],
        methods={
            "z_init": dict(params={"x0": "X"}, kind="value"),
            "u_init": dict(params={"x0": "X"}, kind="value"),
            "__init__": dict(params={"f": "Func K X", "g": "Func K Z", "C": "Op X Z", "mu": "K",
                                     "nu": "K", "x0": "X"}, kind="state", coqname="init"),
            "step": dict(kind="state"),
            "objective": dict(params={"x": "X", "z": "Z"}, kind="value"),
            "norm_primal_residual": dict(params={"x": "X"}, kind="value"),
            "norm_dual_residual": dict(kind="value"),
            "minimizer": dict(kind="value")}),
    "PADMM": dict(
        out="C11_Padmm", file=OPT + "_padmm.py", classes=["ProximalADMM", "ProximalADMMBase"],
        prefix="pa", spaces=["X", "Z"],
        fields=[("x", "X"), ("z", "Z"), ("z_old", "Z"), ("u", "Z"), ("u_old", "Z"),
                ("f", "Func K X"), ("g", "Func K Z"), ("A", "Op X Z"), ("B", "Op Z Z"), ("c", "Z"),
                ("rho", "K"), ("mu", "K"), ("nu", "K"), ("fast_dual_residual", "bool")],
        methods={
            "ProximalADMM.__init__": dict(params={"A": "Op X Z", "B": "Op Z Z", "c": "Z"},
                                          kind="state", coqname="init_ABc",
                                          slice=("self.A", "super().__init__(")),
            "ProximalADMMBase.__init__": dict(
                params={"f": "Func K X", "g": "Func K Z", "rho": "K", "mu": "K", "nu": "K",
                        "x0": "X", "z0": "Z", "u0": "Z", "fast_dual_residual": "bool", **SHP},
                kind="state", coqname="init_base", slice=("self.f", "super().__init__(")),
            "step": dict(kind="state"),
            "objective": dict(params={"x": "X", "z": "Z"}, kind="value"),
            "norm_primal_residual": dict(params={"x": "X", "z": "Z"}, kind="value"),
            "norm_dual_residual": dict(kind="value"),
            "minimizer": dict(kind="value")}),
    "NLPADMM": dict(
        out="C11_Nlpadmm", file=OPT + "_padmm.py", classes=["NonLinearPADMM", "ProximalADMMBase"],
        prefix="nl", spaces=["X", "Z", "U"],
        oracles=["{jvpZ : JvpOracle Z U}", "{cvjpX : CvjpOracle X U}"],
        fields=[("x", "X"), ("z", "Z"), ("z_old", "Z"), ("u", "U"), ("u_old", "U"),
                ("f", "Func K X"), ("g", "Func K Z"), ("H", "Fun2 X Z U"),
                ("rho", "K"), ("mu", "K"), ("nu", "K"), ("fast_dual_residual", "bool")],
        methods={
            "ProximalADMMBase.__init__": dict(
                params={"f": "Func K X", "g": "Func K Z", "rho": "K", "mu": "K", "nu": "K",
                        "x0": "X", "z0": "Z", "u0": "U", "fast_dual_residual": "bool", **SHP},
                kind="state", coqname="init_base", slice=("self.f", "super().__init__(")),
            "step": dict(kind="state"),
            "objective": dict(params={"x": "X", "z": "Z"}, kind="value"),
            "norm_primal_residual": dict(params={"x": "X", "z": "Z"}, kind="value"),
            "norm_dual_residual": dict(kind="value"),
            "minimizer": dict(kind="value")}),
    "PDHG": dict(
        out="C11_Pdhg", file=OPT + "_primaldual.py", classes=["PDHG"], prefix="pd",
        spaces=["X", "Z"], requires=["C11_Functional"],
        fields=[("x", "X"), ("x_old", "X"), ("z", "Z"), ("z_old", "Z"), ("f", "Func K X"),
                ("g", "Func K Z"), ("C", "Op X Z"), ("tau", "K"), ("sigma", "K"), ("alpha", "K")],
        methods={
            "__init__": dict(params={"f": "Func K X", "g": "Func K Z", "C": "Op X Z", "tau": "K",
                                     "sigma": "K", "alpha": "K", "x0": "X", "z0": "Z"},
                             kind="state", coqname="init"),
            "step": dict(kind="state"),
            "objective": dict(params={"x": "X"}, kind="value"),
            "norm_primal_residual": dict(kind="value"),
            "norm_dual_residual": dict(kind="value"),
            "minimizer": dict(kind="value")}),
    "PGM": dict(
        out="C11_Pgm", file=OPT + "_pgm.py", classes=["PGM"], prefix="pg", spaces=["X"],
        extra_units=[dict(file=OPT + "_pgmaux.py", cls="PGMStepSize", method="update",
                          coqname="fixed_update", params={"v": "X"}, attr_map={"self.pgm.L": "pgmL"},
                          pre_params=[("pgmL", "K")])],
        fields=[("x", "X"), ("L", "K"), ("fixed_point_residual", "K"), ("f", "Func K X"),
                ("g", "Func K X"), ("step_size", "StepSize K X")],
        methods={
            "__init__.x_step": dict(params={"v": "X", "L": "K"}, kind="value", coqname="x_step"),
            "step": dict(kind="state"),
            "objective": dict(params={"x": "X"}, kind="value"),
            "f_quad_approx": dict(params={"x": "X", "y": "X", "L": "K"}, kind="value"),
            "norm_residual": dict(kind="value"),
            "minimizer": dict(kind="value")}),
    "APGM": dict(
        out="C11_Apgm", file=OPT + "_pgm.py", classes=["AcceleratedPGM", "PGM"], prefix="ap",
        spaces=["X"],
        fields=[("x", "X"), ("v", "X"), ("t", "K"), ("L", "K"), ("fixed_point_residual", "K"),
                ("f", "Func K X"), ("g", "Func K X"), ("step_size", "StepSize K X")],
        methods={
            "PGM.__init__.x_step": dict(params={"v": "X", "L": "K"}, kind="value", coqname="x_step"),
            "AcceleratedPGM.__init__": dict(params={"x0": "X"}, kind="state", coqname="init_vt",
                                            slice=("self.v", None)),
            "step": dict(kind="state"),
            "objective": dict(params={"x": "X"}, kind="value"),
            "norm_residual": dict(kind="value"),
            "minimizer": dict(kind="value")}),
    "BB": dict(
        out="C16_BB", file=OPT + "_pgmaux.py", classes=["BBStepSize"], prefix="bb",
        imports=["From SV Require Import C16.XR C16.GenSig."],
        context="{K : Type} {NK : Num K} {X : Type} {VX : VecOps (xr K) X}",
        fields=[("xprev", "option X"), ("gradprev", "option X")],
        methods={"update": dict(params={"v": "X"}, kind="both",
                                pre_params=[("pgmL", "xr K"), ("pgm_f", "Func (xr K) X")],
                                attr_map={"self.pgm.L": "pgmL", "self.pgm.f": "pgm_f"})}),
    "ABB": dict(
        out="C16_ABB", file=OPT + "_pgmaux.py", classes=["AdaptiveBBStepSize"], prefix="ab",
        imports=["From SV Require Import C16.XR C16.GenSig."],
        context="{K : Type} {NK : Num K} {X : Type} {VX : VecOps (xr K) X}",
        fields=[("kappa", "K"), ("xprev", "option X"), ("gradprev", "option X"),
                ("Lbb1prev", "option (xr K)"), ("Lbb2prev", "option (xr K)")],
        methods={"update": dict(params={"v": "X"}, kind="both",
                                pre_params=[("pgmL", "xr K"), ("pgm_f", "Func (xr K) X")],
                                attr_map={"self.pgm.L": "pgmL", "self.pgm.f": "pgm_f"})}),
    "LS": dict(
        out="C16_LS", file=OPT + "_pgmaux.py", classes=["LineSearchStepSize"], prefix="ls",
        context="{K : Type} {NK : Num K} {SK : Sqrt K} {X : Type} {VX : VecOps K X}",
        fields=[("gamma_u", "K"), ("maxiter", "nat")],
        methods={"__init__.g_prox": dict(params={"v": "X", "gradv": "X", "L": "K"}, kind="value", coqname="g_prox",
                                         pre_params=[("pgm_g", "Func K X")], attr_map={"self.pgm.g": "pgm_g"}),
                 "update": dict(params={"v": "X"}, kind="value", counters=["it"],
                                pre_params=[("pgmL", "K"), ("pgm_f", "Func K X"), ("pgm_g", "Func K X"),
                                            ("fquad", "X -> X -> K -> K")],
                                attr_map={"self.pgm.L": "pgmL", "self.pgm.f": "pgm_f", "self.pgm.g": "pgm_g",
                                          "self.pgm.f_quad_approx": "fquad"},
                                helper_pre={"g_prox": ["pgm_g"]})}),
    "EST_PDHG": dict(
        out="C17_EstPdhg", file=OPT + "_primaldual.py", classes=["PDHG"],
        context="{K : Type} {NK : Num K} {SK : Sqrt K} {X : Type} {VX : VecOps K X} {Z : Type} {VZ : VecOps K Z} "
                "{Key : Type} {ON : OpNormOracle (Op X Z) K Key} {JO : JacOracle (Op X Z) X}",
        methods={"estimate_parameters": dict(
            params={"C": "Op X Z", "x": "X", "ratio": "K", "factor": "option K", "maxiter": "nat", "key": "option Key"},
            kind="value", callees={"operator_norm": ("opnorm_", ["maxiter", "key"]), "jacobian": ("jac_", [])})}),
    "EST_PADMM": dict(
        out="C17_EstPadmm", file=OPT + "_padmm.py", classes=["ProximalADMM"],
        context="{K : Type} {NK : Num K} {SK : Sqrt K} {X : Type} {VX : VecOps K X} {Z : Type} {VZ : VecOps K Z} "
                "{Key : Type} {ONA : OpNormOracle (Op X Z) K Key} {ONB : OpNormOracle (Op Z Z) K Key}",
        methods={"estimate_parameters": dict(
            params={"A": "Op X Z", "B": "Op Z Z", "factor": "option K", "maxiter": "nat", "key": "option Key"},
            kind="value", callees={"operator_norm": ("opnorm_", ["maxiter", "key"])})}),
    "EST_NLPADMM": dict(
        out="C17_EstNlpadmm", file=OPT + "_padmm.py", classes=["NonLinearPADMM"],
        context="{K : Type} {NK : Num K} {SK : Sqrt K} {X : Type} {VX : VecOps K X} {Z : Type} {VZ : VecOps K Z} "
                "{U : Type} {VU : VecOps K U} {Key : Type} {ONA : OpNormOracle (Op X U) K Key} "
                "{ONB : OpNormOracle (Op Z U) K Key} {J0 : Jac0Oracle (Fun2 X Z U) X Z (Op X U)} "
                "{J1 : Jac1Oracle (Fun2 X Z U) X Z (Op Z U)}",
        methods={"estimate_parameters": dict(
            params={"H": "Fun2 X Z U", "x": "X", "z": "Z", "factor": "option K", "maxiter": "nat", "key": "option Key"},
            kind="value", callees={"operator_norm": ("opnorm_", ["maxiter", "key"])})}),
    "ADMM": dict(
        out="C11_Admm", file=OPT + "_admm.py", classes=["ADMM"], prefix="ad", spaces=["X", "Z"],
        truthy={"f": "has_f"},
        fields=[("x", "X"), ("z_list", "list Z"), ("z_list_old", "list Z"), ("u_list", "list Z"),
                ("f", "Func K X"), ("has_f", "bool"), ("g_list", "list (Func K Z)"),
                ("C_list", "list (Op X Z)"), ("rho_list", "list K"), ("alpha", "K"),
                ("subproblem_solver", "list Z -> list Z -> X -> X")],
        methods={
            "z_init": dict(params={"x0": "X"}, kind="value"),
            "u_init": dict(params={"x0": "X"}, kind="value"),
            "__init__": dict(params={"x0": "X", "C_list": "list (Op X Z)"}, kind="state",
                             coqname="init", slice=("if x0 is None", "super().__init__(")),
            "step": dict(kind="state"),
            "objective": dict(params={"x": "X", "z_list": "list Z"}, locals={"out": "K"}, kind="value"),
            "norm_primal_residual": dict(params={"x": "X"}, locals={"sum": "K"}, kind="value"),
            "norm_dual_residual": dict(locals={"sum": "X"}, kind="value"),
            "minimizer": dict(kind="value")}),
}


ACTX = "{K : Type} {NK : Num K} {V B : Type} {AO : ArrayOps K V B}"


def _au(out, file, cls, meths, fields=None, prefix=""):
    """element-wise prox unit (scico/functional): literals 0.5 and 2 are denoted khalf / k2"""
    d = dict(out=out, file=file, classes=[cls], array=True, context=ACTX, lits={0.5: "(khalf : K)", 2: "(k2 : K)"},
             methods={m: dict(params={"v": "V", "lam": "K"}, kind="value") for m in meths})
    if fields:
        d["fields"], d["prefix"] = fields, prefix
    return d


FN = "scico/functional/"
UNITS.update({
    "P_L0": _au("C02_L0", FN + "_norm.py", "L0Norm", ["prox"]),
    "P_L1": _au("C02_L1", FN + "_norm.py", "L1Norm", ["prox"]),
    "P_SQL2": _au("C02_SqL2", FN + "_norm.py", "SquaredL2Norm", ["prox"]),
    "P_L2": _au("C02_L2", FN + "_norm.py", "L2Norm", ["prox"]),
    "P_HUBER": _au("C02_Huber", FN + "_norm.py", "HuberNorm", ["_prox_sep", "_prox_nonsep"],
                   fields=[("delta", "K")], prefix="hu"),
    "P_NONNEG": _au("C02_NonNeg", FN + "_indicator.py", "NonNegativeIndicator", ["prox"]),
    "P_BALL": _au("C02_Ball", FN + "_indicator.py", "L2BallIndicator", ["prox"], fields=[("radius", "K")], prefix="bl"),
})

UNITS["CG"] = dict(
    out="C14_CG", file="scico/solver.py", classes=[],
    context="{K : Type} {NK : Num K} {V : Type} {VV : VecOps K V} {CD : CDot V K} {NO : NormOracle V K}",
    methods={"cg": dict(params={"A": "V -> V", "b": "V", "x0": "V", "tol": "K", "atol": "K", "maxiter": "nat",
                                "info": "bool", "M": "V -> V"},
                        kind="value", slice=("x = x0", "if info"), counters=["ii"], coqname="cg_loop",
                        returns=["x", "r", "z", "p", "num", "ii"], given=["x0", "M"],
                        locals={"x": "V", "r": "V", "z": "V", "p": "V", "num": "K"},
                        callees={"snp.linalg.norm": ("nrm_", [])})})

UNITS["STACK"] = dict(
    out="C12_Stack", file="scico/operator/_stack.py", classes=[], context="", eqb="nshape_eqb", hd0="hd0_",
    imports=["From SV Require Import C12.Shape C12.GenSig."],
    methods={"is_collapsible": dict(params={"shapes": "list nshape"}, kind="value"),
             "is_blockable": dict(params={"shapes": "list nshape"}, kind="value",
                                  callees={"is_nested": ("is_nested", [])})})

UNITS["SOLVE"] = dict(
    out="C15_Solve", file=OPT + "_common.py", classes=["Optimizer"], opaque="W",
    attrs=["itnum", "maxiter", "nanstop"], bool_attrs=["nanstop"], lits={0: "0%Z", 1: "1%Z"},
    imports=["From SV Require Import Opt.GenSig."],
    context="{W CB V : Type} {OS : OptSig W CB V}",
    methods={"solve": dict(
        params={"callback": "CB"}, kind="effect", truthy_params=["callback"],
        effects={"self.timer.start()": "do_timer_start", "self.timer.stop()": "do_timer_stop",
                 "self.step()": "do_step", "self.itstat_object.insert(self.itstat_insert_func(self))": "do_stats",
                 "callback(self)": "do_callback v_callback", "self.itstat_object.end()": "do_itstat_end"},
        attr_map={"self._working_vars_finite()": "(is_finite s)", "self.minimizer()": "(get_minimizer s)"})})

FINCTX = "{Var BV : Type} {FS : FinSig Var BV}"
FINPRIMS = {"snp.isfinite": "f_isfinite", "snp.logical_not": "f_not", "snp.any": "f_any"}


def _fin(out, file, classes, fields, prefix):
    """_working_vars_finite of one optimiser class: a boolean over its working variables"""
    return dict(out=out, file=file, classes=classes, fields=fields, prefix=prefix, context=FINCTX, prims=FINPRIMS,
                list_literals=True, imports=["From SV Require Import Opt.GenSig."],
                methods={"_working_vars_finite": dict(kind="value", emit_reads=True, coqname="finite")})


UNITS.update({
    "FIN_ADMM": _fin("C15_FinAdmm", OPT + "_admm.py", ["ADMM"],
                     [("x", "Var"), ("z_list", "list Var"), ("u_list", "list Var")], "fa"),
    "FIN_LADMM": _fin("C15_FinLadmm", OPT + "_ladmm.py", ["LinearizedADMM"], [("x", "Var"), ("z", "Var"), ("u", "Var")], "fl"),
    "FIN_PADMM": _fin("C15_FinPadmm", OPT + "_padmm.py", ["ProximalADMM", "ProximalADMMBase"],
                      [("x", "Var"), ("z", "Var"), ("u", "Var")], "fp"),
    "FIN_NLPADMM": _fin("C15_FinNlpadmm", OPT + "_padmm.py", ["NonLinearPADMM", "ProximalADMMBase"],
                        [("x", "Var"), ("z", "Var"), ("u", "Var")], "fn"),
    "FIN_PDHG": _fin("C15_FinPdhg", OPT + "_primaldual.py", ["PDHG"], [("x", "Var"), ("z", "Var")], "fd"),
    "FIN_PGM": _fin("C15_FinPgm", OPT + "_pgm.py", ["PGM"], [("x", "Var")], "fg"),
    "FIN_APGM": _fin("C15_FinApgm", OPT + "_pgm.py", ["AcceleratedPGM", "PGM"], [("x", "Var"), ("v", "Var")], "fq"),
})

UNITS["ITSTAT"] = dict(
    out="C15_Itstat", file=OPT + "_common.py", classes=[], dicts=True,
    imports=["From Coq Require Import String.", "From SV Require Import Opt.GenSig."],
    context="{D Val Obj : Type} {DS : DictSig D Val Obj}",
    methods={"itstat_func_and_object": dict(
        params={"itstat_fields": "Val", "itstat_attrib": "unit", "itstat_options": "option D"},
        kind="value", slice=("default_itstat_options", None), pre_params=[("default_func", "Val")],
        attr_map={"scope['itstat_func']": "default_func"}, truthy_dicts=["itstat_options"],
        kwcallees={"IterationStats": "mk_stats"}, return_params=["itstat_options"])})

TSIG = "{L T D0 D1 : Type} {TS : TimerSig L T D0 D1}"
UNITS["TIMER"] = dict(
    out="C15_Timer", file="scico/util.py", classes=["Timer"], prefix="tm", context=TSIG, eqb="l_eqb",
    dict_attrs=["t0", "td"], opt_dict_attrs=["t0"], list_literals=True, lits={0: "t_zero"},
    imports=["From SV Require Import Opt.GenSig."],
    fields=[("t0", "D0"), ("td", "D1"), ("default_label", "L"), ("all_label", "L")],
    methods={m: dict(params={"labels": "L"}, shapes={"labels": {"one": "L", "list": "list L"}}, kind="outcome", outcome_type="T",
                     pre_params=[("now", "T")], attr_map={"timer()": "now"}) for m in ("start", "stop", "reset")}
    | {"elapsed": dict(params={"label": "L", "total": "bool"}, kind="outcome", outcome_type="T", pre_params=[("now", "T")],
                       attr_map={"timer()": "now"})})

LCTX = "{Sc X Y Z : Type} {SS : ScSig Sc} {LX : LinSig Sc X} {LY : LinSig Sc Y} {LZ : LinSig Sc Z}"
LOPU = dict(ctors=["LinearOperator", "super().__init__"], mk="mklop",
            bookkeeping=["input_shape", "output_shape", "input_dtype", "output_dtype", "jit"])
_lm = lambda **kw: dict(kind="value", decorators_ok=("_wrap_add_sub", "_wrap_mul_div_scalar", "property"), **kw)
UNITS["LINOP"] = dict(
    out="C05_Linop", file="scico/linop/_linop.py", classes=["LinearOperator"], context=LCTX, lop=LOPU,
    self_is="lop X Y", adj_name="l_adj", conj_method="l_conj", prims={"snp.conj": "l_sconj"},
    bound_methods={"adj": "l_adj", "__call__": "l_eval", "gram": "gram_gen"},
    imports=["From SV Require Import LinAlg.GenSig."],
    methods={
        "_set_gram": dict(kind="closure", closure_attr="_gram", coqname="gram_closure"),
        "gram": _lm(params={"x": "X"}, attr_map={"self._gram": "(gram_closure_gen self_)"},
                    skip_stmts=["if self._gram is None:\n    self._set_gram()", "assert self._gram is not None"]),
        "__add__": _lm(params={"other": "lop X Y"}),
        "__sub__": _lm(params={"other": "lop X Y"}),
        "__mul__": _lm(params={"other": "Sc"}),
        "__rmul__": _lm(params={"other": "Sc"}),
        "__truediv__": _lm(params={"other": "Sc"}),
        "T": _lm(pre_params=[("cplx", "bool")], attr_map={"is_complex_dtype(self.input_dtype)": "cplx"}),
        "H": _lm(),
        "conj": _lm(),
        "gram_op": _lm(skip_stmts=["if self._gram is None:\n    self._set_gram()"]),
    })
UNITS["LINOP_COMP"] = dict(
    out="C05_LinopComp", file="scico/linop/_linop.py", classes=["ComposedLinearOperator"], context=LCTX, lop=LOPU,
    adj_name="l_adj", imports=["From SV Require Import LinAlg.GenSig."],
    methods={"__init__": dict(params={"A": "lop Y Z", "B": "lop X Y", "jit": "bool"}, kind="value", coqname="compose",
                              slice=("super().__init__(", None), require_stmts=["self.A = A", "self.B = B"], force_params=["A", "B"],
                              attr_map={"self.A": "v_A", "self.B": "v_B"})})
UNITS["LINOP_NEG"] = dict(
    out="C05_LinopNeg", file="scico/operator/_operator.py", classes=["Operator"], context=LCTX,
    self_is="lop X Y", imports=["From SV Require Import LinAlg.GenSig."], requires=["C05_Linop"],
    methods={"__neg__": dict(kind="value", attr_map={"-1.0 * self": "(__rmul___gen self_ l_m1)"})})

DCTX = "{Sc V : Type} {DS : DiagSig Sc V}"
_VC = {"Diagonal": dict(value="diagonal", bookkeeping=["input_shape", "input_dtype"]),
       "ScaledIdentity": dict(value="scalar", bookkeeping=["input_shape", "input_dtype"])}
_dm = lambda **kw: dict(kind="value", decorators_ok=("_wrap_add_sub", "_wrap_mul_div_scalar", "property"), **kw)
_SH = {"self.diagonal.shape == other.diagonal.shape": True, "self.shape == other.shape": True,
       "self.input_shape == other.input_shape": True, "self.shape != other.shape": False}
UNITS["DIAG"] = dict(
    out="C05_Diag", file="scico/linop/_diag.py", classes=["Diagonal"], context=DCTX, value_ctors=_VC,
    self_is="V", conj_method="hconj", imports=["From SV Require Import LinAlg.GenSig."],
    methods={
        "conj": _dm(attr_map={"self.diagonal": "self_"}),
        "T": _dm(), "H": _dm(),
        "gram_op": _dm(attr_map={"self.diagonal": "self_"}),
        "__add__": _dm(params={"other": "V"}, static_tests=_SH, attr_map={"self.diagonal": "self_", "other.diagonal": "v_other"}),
        "__sub__": _dm(params={"other": "V"}, static_tests=_SH, attr_map={"self.diagonal": "self_", "other.diagonal": "v_other"}),
        "__mul__": _dm(params={"scalar": "Sc"}, attr_map={"self.diagonal": "self_"}),
        "__truediv__": _dm(params={"scalar": "Sc"}, attr_map={"self.diagonal": "self_"}),
        "__matmul__": _dm(params={"other": "V"}, static_tests=dict(_SH, **{"isinstance(other, Diagonal)": True}),
                          attr_map={"self.diagonal": "self_", "other.diagonal": "v_other"}),
    })
_SA = {"self._diagonal": "self_", "other._diagonal": "v_other", "other.diagonal": "v_other"}
UNITS["SCALEDID"] = dict(
    out="C05_ScaledId", file="scico/linop/_diag.py", classes=["ScaledIdentity"], context=DCTX, value_ctors=_VC,
    self_is="Sc", conj_method="hconj", imports=["From SV Require Import LinAlg.GenSig."],
    methods={
        "conj": _dm(attr_map=_SA), "gram_op": _dm(attr_map=_SA),
        "__add__": _dm(params={"other": "Sc"}, static_tests=_SH, attr_map=_SA),
        "__sub__": _dm(params={"other": "Sc"}, static_tests=_SH, attr_map=_SA),
        "__mul__": _dm(params={"scalar": "Sc"}, attr_map=_SA),
        "__truediv__": _dm(params={"scalar": "Sc"}, attr_map=_SA),
        "__matmul__": _dm(params={"other": "Sc"}, coqname="matmul_scaled", attr_map=_SA,
                          static_tests=dict(_SH, **{"isinstance(other, Diagonal)": True, "isinstance(other, ScaledIdentity)": True})),
    })
UNITS["SCALEDID_DIAG"] = dict(
    out="C05_ScaledIdDiag", file="scico/linop/_diag.py", classes=["ScaledIdentity"], context=DCTX, value_ctors=_VC,
    self_is="Sc", imports=["From SV Require Import LinAlg.GenSig."],
    methods={"__matmul__": _dm(params={"other": "V"}, coqname="matmul_diag", attr_map=_SA,
                               static_tests=dict(_SH, **{"isinstance(other, Diagonal)": True, "isinstance(other, ScaledIdentity)": False}))})

KCTX = ("{Sc Hk X Y : Type} {SS : ScSig Sc} {DK : DiagSig Sc Hk} {LX : LinSig Sc X} {LY : LinSig Sc Y}")
_KB = ["input_shape", "input_dtype", "mode", "output_shape"]


def _conv(out, cls, ker):
    """Convolve / ConvolveByX overrides: the new kernel and the explicit adjoint closure"""
    am = {f"self.{ker}": "(k_ker self_)", f"other.{ker}": "(k_ker v_other)"}
    st = {"self.mode != other.mode": False, f"self.{ker}.shape == other.{ker}.shape": True}
    return dict(out=out, file="scico/linop/_convolve.py", classes=[cls], context=KCTX, self_is="kop Hk X Y",
                adj_name="k_adj", prims={"snp.conj": "l_sconj"}, imports=["From SV Require Import LinAlg.GenSig."],
                value_ctors={cls: dict(value=[ker, "adj_fn"], mk="mkkop", bookkeeping=_KB)},
                methods={"__add__": _dm(params={"other": "kop Hk X Y"}, static_tests=st, attr_map=am),
                         "__sub__": _dm(params={"other": "kop Hk X Y"}, static_tests=st, attr_map=am),
                         "__mul__": _dm(params={"scalar": "Sc"}, attr_map=am),
                         "__truediv__": _dm(params={"scalar": "Sc"}, attr_map=am)})


UNITS["CONV"] = _conv("C05_Conv", "Convolve", "h")
UNITS["CONVX"] = _conv("C05_ConvX", "ConvolveByX", "x")
_CA = {"self.h_dft": "self_", "other.h_dft": "v_other"}
UNITS["CIRC"] = dict(
    out="C05_Circ", file="scico/linop/_circconv.py", classes=["CircularConvolve"], context=DCTX, self_is="V",
    imports=["From SV Require Import LinAlg.GenSig."],
    value_ctors={"CircularConvolve": dict(value="h", bookkeeping=["input_shape", "input_dtype", "ndims", "h_is_dft"])},
    methods={"__add__": _dm(params={"other": "V"}, static_tests={"self.ndims != other.ndims": False}, attr_map=_CA),
             "__sub__": _dm(params={"other": "V"}, static_tests={"self.ndims != other.ndims": False}, attr_map=_CA),
             "__mul__": _dm(params={"scalar": "Sc"}, attr_map=_CA),
             "__truediv__": _dm(params={"scalar": "Sc"}, attr_map=_CA)})


class Env:
    def __init__(self):
        self.attrs = {}      # self attributes assigned so far -> Coq variable
        self.names = {}      # python local -> Coq variable
        self.none = {}       # optional parameter -> statically None?
        self.lists = set()   # python locals known to hold (mutable) lists
        self.idx = None      # enumerate index variable of the enclosing loop
        self.types = {}      # python local -> Coq type, where known
        self.optnames = set()   # python locals currently holding a None-able (option) value
        self.attr_plain = {}    # None-able attribute known to be not None here -> Coq variable of its value
        self.brk = None      # continuation of `break` inside a while loop
        self.counters = {}   # python local -> 0, while it is a loop counter initialised to the literal 0
        self.tuple1 = set()  # python locals bound to a cvjp closure: calling them yields a 1-tuple
        self.rs = None       # continuation of `raise` inside a loop of an effect-mode method
        self.shape = {}      # python local -> "none" | "one" | "list" (argument given as None / one item / a list)
        self.sub_plain = {}  # unparse(self.d[k]) -> Coq variable, where that entry is known not to be None

    def copy(self):
        e = Env()
        e.attrs, e.names, e.none = dict(self.attrs), dict(self.names), dict(self.none)
        e.lists, e.idx, e.types = set(self.lists), self.idx, dict(self.types)
        e.optnames, e.attr_plain, e.brk = set(self.optnames), dict(self.attr_plain), self.brk
        e.counters = dict(self.counters)
        e.tuple1 = set(self.tuple1)
        e.rs = self.rs
        e.shape, e.sub_plain = dict(self.shape), dict(self.sub_plain)
        return e


LITS = {}   # per-unit denotation of particular literals (set by gen_unit)


NCTX = "{K C R : Type} {NK : Num K} {NS : NormSig K C R}"
NPRIMS = {"snp.sum": "n_sum", "snp.abs": "habs", "norm": "n_norm", "snp.linalg.norm": "n_norm", "count_nonzero": "n_count"}


def _nc(out, cls, fields=None, prefix=""):
    """__call__ of a norm class of scico/functional/_norm.py over the NormSig signature (C09)"""
    d = dict(out=out, file=FN + "_norm.py", classes=[cls], context=NCTX, prims=NPRIMS,
             imports=["From SV Require Import C09.GenSig."],
             methods={"__call__": dict(params={"x": "C"}, kind="value", coqname="call")})
    if fields:
        d["fields"], d["prefix"] = fields, prefix
    return d


UNITS.update({
    "N_L0": _nc("C09_L0", "L0Norm"), "N_L1": _nc("C09_L1", "L1Norm"), "N_SQL2": _nc("C09_SqL2", "SquaredL2Norm"),
    "N_L2": _nc("C09_L2", "L2Norm"), "N_L1ML2": _nc("C09_L1mL2", "L1MinusL2Norm", fields=[("beta", "K")], prefix="lm"),
})

LCTX9 = "{K C R : Type} {NK : Num K} {NS : NormSig K C R} {LS : LossSig C R}"


def _lc(out, cls, prefix):
    """__call__ of a quadratic loss class of scico/loss.py (C09): self.W.diagonal is the record field Wd"""
    return dict(out=out, file="scico/loss.py", classes=[cls], context=LCTX9, prims=NPRIMS, prefix=prefix,
                imports=["From SV Require Import C09.GenSig."],
                fields=[("scale", "K"), ("y", "C"), ("A", "C -> C")],
                methods={"__call__": dict(params={"x": "C"}, kind="value", coqname="call", pre_params=[("wd", "R")],
                                          attr_map={"self.W.diagonal": "wd"})})


UNITS.update({"L_SQL2": _lc("C09_SqL2Loss", "SquaredL2Loss", "ql"), "L_SQL2ABS": _lc("C09_SqL2AbsLoss", "SquaredL2AbsLoss", "qa"),
              "L_SQL2SQABS": _lc("C09_SqL2SqAbsLoss", "SquaredL2SquaredAbsLoss", "qs")})

ECTX = "{K X E : Type} {NK : Num K} {ES : ExtSig K E}"


def _fc(out, cls, fields, prefix):
    """__call__ of the functional-algebra classes of scico/functional/_functional.py over extended values E (C09)"""
    return dict(out=out, file=FN + "_functional.py", classes=[cls], context=ECTX, prefix=prefix, fields=fields,
                imports=["From SV Require Import C09.GenSig."],
                methods={"__call__": dict(params={"x": "X"}, kind="value", coqname="call")})


UNITS.update({"F_SCALED": _fc("C09_Scaled", "ScaledFunctional", [("scale", "K"), ("functional", "X -> E")], "sf"),
              "F_SUM": _fc("C09_FSum", "FunctionalSum", [("functional1", "X -> E"), ("functional2", "X -> E")], "fs"),
              "F_ZERO": dict(out="C09_Zero", file=FN + "_functional.py", classes=["ZeroFunctional"], context=ECTX,
                             imports=["From SV Require Import C09.GenSig."],
                             methods={"__call__": dict(params={"x": "X"}, kind="value", coqname="call")})})

MCTX = "{K C R : Type} {NK : Num K} {MS : MetricSig K C R}"
_mm = lambda ps, **kw: dict(params={p: ("K" if p == "signal_range" else "C") for p in ps}, kind="value", **kw)
UNITS["METRIC"] = dict(
    out="C09_Metric", file="scico/metric.py", classes=[], context=MCTX, func_helpers=True, ravel="ravel_",
    transparent_with=["np.errstate(divide='ignore')"],
    prims={"snp.mean": "m_mean", "snp.var": "m_var", "snp.log10": "m_log10", "snp.abs": "habs",
           "snp.linalg.norm": "m_norm", "snp.max": "m_amax", "snp.min": "m_amin"},
    imports=["From SV Require Import C09.GenSig."],
    methods={"mae": _mm(["reference", "comparison"]), "mse": _mm(["reference", "comparison"]),
             "snr": _mm(["reference", "comparison"]), "psnr": _mm(["reference", "comparison", "signal_range"]),
             "isnr": _mm(["reference", "degraded", "restored"]), "bsnr": _mm(["blurry", "noisy"]),
             "rel_res": _mm(["ax", "b"], callees={"max": ("m_max", [])})})


def lit(v):
    fr = Fraction(v) if not isinstance(v, float) else Fraction(str(v))
    if fr in LITS:
        return LITS[fr]
    if fr == 0:
        return "(k0 : K)"
    if fr == 1:
        return "(k1 : K)"
    n = f"({fr.numerator})" if fr.numerator < 0 else str(fr.numerator)
    return f"(klit {n} {fr.denominator} : K)"


class Tr:
    """Translator of one function body."""

    def __init__(self, unit, fn, mname, spec, helpers):
        self.u, self.fn, self.mname, self.m = unit, fn, mname, spec
        self.fields = dict(unit.get("fields", []))
        self.prefix = unit.get("prefix", "")
        self.helpers = helpers   # python method name -> coq name of already translated helpers
        self.attr_map = spec.get("attr_map", {})
        self.mutates = True   # set by translate_method: does the body store into list items?
        self.reads = []       # attributes read, in order of first read

    def bad(self, node, msg):
        raise Unsupported(self.fn, node, msg + ": " + ast.unparse(node)[:80])

    # -- state
    def rd(self, a, env, node=None):
        if a not in self.reads:
            self.reads.append(a)
        if self.u.get("opaque"):            # the object is one abstract value `s`
            if a not in self.u.get("attrs", []):
                self.bad(node, f"attribute self.{a} is not in the unit's signature")
            return f"(get_{a} s)"
        if a in env.attrs:
            return env.attrs[a]
        if a not in self.fields:
            self.bad(node, f"unknown attribute self.{a}")
        return f"s.({self.prefix}_{a})"

    def cur_state(self, env):
        if self.u.get("self_is"):
            return "self_"
        if self.u.get("opaque"):
            return "s"
        return "(mk_st " + " ".join(self.rd(a, env) for a in self.fields) + ")"

    @staticmethod
    def is_self(e, a=None):
        return (isinstance(e, ast.Attribute) and isinstance(e.value, ast.Name) and e.value.id == "self"
                and (a is None or e.attr == a))

    # -- None-able (option-typed) values
    def opt_atom(self, e, env):
        """Is e a name / attribute that currently holds an option-typed value?  Returns its raw Coq term."""
        if isinstance(e, ast.Name) and e.id in env.optnames and e.id in env.names:
            return env.names[e.id]
        if self.is_self(e) and self.fields.get(e.attr, "").startswith("option ") and e.attr not in env.attr_plain:
            return self.rd(e.attr, env, e)
        return None

    def none_test(self, e, env):
        """`atom is None` / `atom is not None` on a run-time option value -> (raw term, node, is_none?)"""
        if isinstance(e, ast.Compare) and len(e.ops) == 1 and isinstance(e.ops[0], (ast.Is, ast.IsNot)) \
                and isinstance(e.comparators[0], ast.Constant) and e.comparators[0].value is None:
            raw = self.opt_atom(e.left, env)
            if raw is not None:
                return raw, e.left, isinstance(e.ops[0], ast.Is)
            l_ = e.left
            if isinstance(l_, ast.Subscript) and self.is_self(l_.value) and l_.value.attr in self.u.get("opt_dict_attrs", []) \
                    and isinstance(l_.slice, ast.Name) and ast.unparse(l_) not in env.sub_plain:
                return self.expr(l_, env), l_, isinstance(e.ops[0], ast.Is)
        return None

    # -- static None-ness of optional parameters
    def static(self, e, env):
        if ast.unparse(e) in self.m.get("static_tests", {}):
            return self.m["static_tests"][ast.unparse(e)]   # bookkeeping / dispatch fixed by the unit (sliced away explicitly)
        if isinstance(e, ast.Call) and ast.unparse(e.func) == "isinstance" and len(e.args) == 2 \
                and isinstance(e.args[0], ast.Name) and e.args[0].id in env.shape \
                and ast.unparse(e.args[1]) in ("(list, tuple)", "list", "(tuple, list)"):
            return env.shape[e.args[0].id] == "list"
        if isinstance(e, ast.UnaryOp) and isinstance(e.op, ast.Not):
            v_ = self.static(e.operand, env)
            return None if v_ is None else (not v_)
        if isinstance(e, ast.Compare) and len(e.ops) == 1 and isinstance(e.ops[0], ast.Eq) \
                and isinstance(e.left, ast.Name) and env.shape.get(e.left.id) == "list" and self.is_self(e.comparators[0]) \
                and not self.fields.get(e.comparators[0].attr, "").startswith("list"):
            return False        # a list never equals a single label
        if isinstance(e, ast.Compare) and len(e.ops) == 1 and isinstance(e.ops[0], (ast.Is, ast.IsNot)) \
                and isinstance(e.comparators[0], ast.Constant) and e.comparators[0].value is None \
                and ((isinstance(e.left, ast.Name) and e.left.id in env.names and e.left.id not in env.none
                      and e.left.id not in env.optnames and e.left.id not in env.counters)
                     or (self.is_self(e.left) and e.left.attr in env.attr_plain)):
            return isinstance(e.ops[0], ast.IsNot)     # a value known not to be None on this path
        if isinstance(e, ast.Compare) and len(e.ops) == 1 and isinstance(e.comparators[0], ast.Constant) \
                and e.comparators[0].value is None and isinstance(e.left, ast.Name) and e.left.id in env.none:
            if isinstance(e.ops[0], ast.Is):
                return env.none[e.left.id]
            if isinstance(e.ops[0], ast.IsNot):
                return not env.none[e.left.id]
        if isinstance(e, ast.Compare) and len(e.ops) == 1 and isinstance(e.ops[0], (ast.NotEq, ast.Eq)):
            a, b = self.static(e.left, env), self.static(e.comparators[0], env)
            if a is not None and b is not None:
                return (a != b) if isinstance(e.ops[0], ast.NotEq) else (a == b)
        return None

    # -- expressions
    def expr(self, e, env):
        X = lambda t: self.expr(t, env)
        src = ast.unparse(e)
        if src in self.attr_map:
            return self.attr_map[src]
        if isinstance(e, ast.Constant):
            if isinstance(e.value, bool):
                return "true" if e.value else "false"
            if isinstance(e.value, (int, float)):
                return lit(e.value)
            if e.value is None and self.u.get("dict_attrs"):
                return "None"
            self.bad(e, "constant")
        if isinstance(e, ast.Name):
            if e.id in env.none and env.none[e.id]:
                self.bad(e, "use of a parameter that is None on this path")
            if e.id in env.counters:
                self.bad(e, "use of a loop counter as a value")
            if e.id in env.names:
                return f"(oget {env.names[e.id]})" if e.id in env.optnames else env.names[e.id]
            if e.id == "self" and (self.u.get("self_is_func") or self.u.get("self_is")):
                return "self_"
            self.bad(e, "unknown name")
        if isinstance(e, ast.Attribute):
            if self.is_self(e) and e.attr in self.u.get("bound_methods", {}):
                return f"({self.u['bound_methods'][e.attr]} self_)"        # a bound method used as a value
            if self.is_self(e):
                if e.attr in env.attr_plain:
                    return env.attr_plain[e.attr]
                if self.fields.get(e.attr, "").startswith("option "):
                    return f"(oget {self.rd(e.attr, env, e)})"   # None here would raise in Python
                return self.rd(e.attr, env, e)
            if e.attr in SHAPE_ATTRS and not any(isinstance(n, ast.Call) for n in ast.walk(e.value)):
                return "tt"   # shapes / dtypes are not modelled; only snp.zeros consumes them
            if e.attr == "Z" and self.is_self(e.value, "step_size"):
                return f"(ss_Z {X(e.value)})"
            self.bad(e, "attribute")
        if isinstance(e, ast.BinOp):
            if isinstance(e.op, ast.Pow):
                if not (isinstance(e.right, ast.Constant) and e.right.value == 2):
                    self.bad(e, "power other than ** 2")
                if self.is_norm_call(e.left):
                    return f"(vnsq_ {X(e.left.args[0])})"
                b = X(e.left)
                return f"({b} * {b})"
            ops = {ast.Add: "+", ast.Sub: "-", ast.Mult: "*", ast.Div: "/"}
            if type(e.op) not in ops:
                self.bad(e, "operator")
            return f"({X(e.left)} {ops[type(e.op)]} {X(e.right)})"
        if isinstance(e, ast.UnaryOp):
            if isinstance(e.op, ast.USub):
                return f"(- {X(e.operand)})"
            if isinstance(e.op, ast.Not):
                return f"(negb {self.test(e.operand, env)})"
            self.bad(e, "unary operator")
        if isinstance(e, ast.IfExp):
            return f"(if {self.test(e.test, env)} then {X(e.body)} else {X(e.orelse)})"
        if isinstance(e, ast.Tuple):
            return "(" + ", ".join(X(t) for t in e.elts) + ")"
        if isinstance(e, ast.Dict) and self.u.get("dicts"):
            items = []
            for k_, v_ in zip(e.keys, e.values):
                if not (isinstance(k_, ast.Constant) and isinstance(k_.value, str)):
                    self.bad(e, "dict key that is not a string literal")
                val = f"(v_bool {'true' if v_.value else 'false'})" if isinstance(v_, ast.Constant) and isinstance(v_.value, bool) else X(v_)
                items.append(f'("{k_.value}"%string, {val})')
            return "(d_of [" + "; ".join(items) + "])"
        if isinstance(e, ast.List) and self.u.get("list_literals"):
            return "[" + "; ".join(X(t) for t in e.elts) + "]"
        if isinstance(e, ast.Lambda):
            a = e.args
            if a.vararg or a.kwarg or a.kwonlyargs or a.defaults or a.posonlyargs:
                self.bad(e, "lambda signature")
            env2 = env.copy()
            for p in a.args:
                env2.names[p.arg] = "v_" + p.arg
            return "(fun " + " ".join("v_" + p.arg for p in a.args) + f" => {self.expr(e.body, env2)})"
        if isinstance(e, ast.ListComp):
            if len(e.generators) != 1 or e.generators[0].ifs or e.generators[0].is_async \
                    or not isinstance(e.generators[0].target, ast.Name):
                self.bad(e, "comprehension")
            g = e.generators[0]
            env2 = env.copy()
            env2.names[g.target.id] = "v_" + g.target.id
            lt = self.type_of(g.iter, env) or ""
            if lt.startswith("list "):
                env2.types[g.target.id] = lt[5:].strip("()")
            return f"(map (fun v_{g.target.id} => {self.expr(e.elt, env2)}) {X(g.iter)})"
        if isinstance(e, ast.Compare):
            if len(e.ops) == 1 and isinstance(e.ops[0], (ast.In, ast.NotIn)) and self.is_self(e.comparators[0]) \
                    and e.comparators[0].attr in self.u.get("dict_attrs", []):
                m_ = f"(dmem_ {self.rd(e.comparators[0].attr, env)} {X(e.left)})"
                return m_ if isinstance(e.ops[0], ast.In) else f"(negb {m_})"
            if len(e.ops) == 1:
                op, l, r = e.ops[0], e.left, e.comparators[0]
                if isinstance(op, ast.Eq) and self.u.get("eqb"):
                    return f"({self.u['eqb']} {X(l)} {X(r)})"
                if isinstance(op, ast.Eq) and not self.u.get("array"):
                    return f"(keqb {X(l)} {X(r)})"
                zero = lambda t: isinstance(t, ast.Constant) and not isinstance(t.value, bool) and t.value == 0
                if self.u.get("array"):     # element-wise comparisons (with broadcasting)
                    if isinstance(op, (ast.Gt, ast.GtE)):
                        l, r = r, l
                    nm = {ast.Lt: "alt", ast.Gt: "alt", ast.LtE: "ale", ast.GtE: "ale", ast.Eq: "aeq"}.get(type(op))
                    if nm:
                        return f"({nm} {X(l)} {X(r)})"
                    self.bad(e, "comparison")
                if isinstance(op, ast.LtE) and zero(r):
                    return f"(hle0 {X(l)})"            # x <= 0.0 (false on NaN)
                if isinstance(op, (ast.Lt, ast.LtE, ast.Gt, ast.GtE)):
                    if isinstance(op, (ast.Gt, ast.GtE)):
                        l, r = r, l
                    return f"({'hlt' if isinstance(op, (ast.Lt, ast.Gt)) else 'hle'} {X(l)} {X(r)})"
            self.bad(e, "comparison")
        if isinstance(e, ast.BoolOp):
            f = "orb" if isinstance(e.op, ast.Or) else "andb"
            parts = [self.test(v, env) for v in e.values]
            out = parts[-1]
            for q in reversed(parts[:-1]):
                out = f"({f} {q} {out})"       # Python evaluates left to right; both are total here
            return out
        if isinstance(e, ast.Subscript) and self.is_self(e.value) and e.value.attr in self.u.get("dict_attrs", []) \
                and isinstance(e.slice, ast.Name):
            if ast.unparse(e) in env.sub_plain:
                return env.sub_plain[ast.unparse(e)]
            return f"(dget_ {self.rd(e.value.attr, env)} {X(e.slice)})"
        if isinstance(e, ast.Subscript):
            v = e.value
            if isinstance(v, ast.Call) and isinstance(v.func, ast.Name) and v.func.id in env.tuple1 \
                    and isinstance(e.slice, ast.Constant) and e.slice.value == 0 and len(v.args) == 1 and not v.keywords:
                return f"(hcall {env.names[v.func.id]} {X(v.args[0])})"     # AH(w)[0]: the cotangent itself
            if self.u.get("hd0") and isinstance(v, ast.Name) and isinstance(e.slice, ast.Constant) and e.slice.value == 0:
                return f"({self.u['hd0']} {X(v)})"      # x[0] (only evaluated when x is non-empty)
            if isinstance(v, ast.Attribute) and v.attr in SHAPE_ATTRS and isinstance(e.slice, ast.Constant) \
                    and not any(isinstance(n_, ast.Call) for n_ in ast.walk(v.value)):
                return "tt"
            if isinstance(e.slice, ast.Constant) and e.slice.value == 1 and isinstance(v, ast.Call):
                f = v.func
                # H.vjp(i, a, b, conjugate=True)[1]
                if isinstance(f, ast.Attribute) and f.attr == "vjp" and len(v.args) == 3 \
                        and isinstance(v.args[0], ast.Constant) and v.args[0].value in (0, 1) \
                        and self.kw_is(v, {"conjugate": True}):
                    return f"(vjp{v.args[0].value} {X(f.value)} {X(v.args[1])} {X(v.args[2])})"
                # jvp(F, (p,), (u,))[1]
                if isinstance(f, ast.Name) and f.id == "jvp" and len(v.args) == 3 and not v.keywords \
                        and all(isinstance(t, ast.Tuple) and len(t.elts) == 1 for t in v.args[1:]):
                    return f"(jvp_ {X(v.args[0])} {X(v.args[1].elts[0])} {X(v.args[2].elts[0])})"
                # cvjp(F, p)[1]
                if isinstance(f, ast.Name) and f.id == "cvjp" and len(v.args) == 2 and not v.keywords:
                    return f"(cvjp_ {X(v.args[0])} {X(v.args[1])})"
            self.bad(e, "subscript")
        if isinstance(e, ast.Call) and isinstance(e.func, ast.Name) and e.func.id in ("all", "any") \
                and len(e.args) == 1 and not e.keywords and isinstance(e.args[0], ast.GeneratorExp):
            g = e.args[0]
            if len(g.generators) != 1 or g.generators[0].ifs or g.generators[0].is_async \
                    or not isinstance(g.generators[0].target, ast.Name):
                self.bad(e, "generator")
            gen = g.generators[0]
            env2 = env.copy()
            env2.names[gen.target.id] = "v_" + gen.target.id
            fn_ = "forallb" if e.func.id == "all" else "existsb"
            return f"({fn_} (fun v_{gen.target.id} => {self.test(g.elt, env2)}) {X(gen.iter)})"
        if isinstance(e, ast.Call):
            return self.call(e, env)
        self.bad(e, "expression " + type(e).__name__)

    def type_of(self, e, env):
        if self.is_self(e):
            return self.fields.get(e.attr)
        if isinstance(e, ast.Name):
            return env.types.get(e.id)
        return None

    def kw_is(self, call, want):
        got = {}
        for k in call.keywords:
            if k.arg is None or not isinstance(k.value, ast.Constant):
                return False
            got[k.arg] = k.value.value
        return got == want

    @staticmethod
    def is_norm_call(e):
        return isinstance(e, ast.Call) and ast.unparse(e.func) in ("norm", "snp.linalg.norm") \
            and len(e.args) == 1 and not e.keywords

    def only_kw(self, e, allowed):
        for k in e.keywords:
            if k.arg is None:
                if not self.m.get("allow_kwargs") or ast.unparse(k.value) != "kwargs":
                    self.bad(e, "**keyword expansion")
            elif k.arg not in allowed:
                self.bad(e, f"keyword {k.arg}=")

    def call(self, e, env):
        X = lambda t: self.expr(t, env)
        f, fs, n = e.func, ast.unparse(e.func), len(e.args)
        if any(isinstance(a, ast.Starred) for a in e.args):
            self.bad(e, "star argument")
        if fs in self.u.get("value_ctors", {}) and n == 0:
            vc = self.u["value_ctors"][fs]
            kw = {k.arg: k.value for k in e.keywords}
            vals = vc["value"] if isinstance(vc["value"], list) else [vc["value"]]
            if None in kw or not set(vals) <= set(kw) or set(kw) - set(vals) - set(vc["bookkeeping"]):
                self.bad(e, "constructor keywords")
            if isinstance(vc["value"], list):
                return "(" + " ".join([vc["mk"]] + [X(kw[v]) for v in vals]) + ")"
            return X(kw[vc["value"]])       # the object is represented by its defining array / scalar
        if self.u.get("lop") and fs in self.u["lop"]["ctors"] and n == 0:
            # LinearOperator(eval_fn=..., adj_fn=..., <shape / dtype / jit bookkeeping: C12, not translated>)
            kw = {k.arg: k.value for k in e.keywords}
            if None in kw or not {"eval_fn", "adj_fn"} <= set(kw) or \
                    set(kw) - {"eval_fn", "adj_fn"} - set(self.u["lop"]["bookkeeping"]):
                self.bad(e, "operator constructor keywords")
            return f"({self.u['lop']['mk']} {X(kw['eval_fn'])} {X(kw['adj_fn'])})"
        if self.u.get("lop") and isinstance(f, ast.Name) and f.id == "self" and n == 1 and not e.keywords:
            return f"(hcall self_ {X(e.args[0])})"                      # self(x)
        if self.u.get("conj_method") and isinstance(f, ast.Attribute) and f.attr == "conj" and n == 0 and not e.keywords \
                and not (isinstance(f.value, ast.Name) and f.value.id == "self"):
            return f"({self.u['conj_method']} {X(f.value)})"             # x.conj()
        if fs == "list" and n == 1 and not e.keywords and isinstance(e.args[0], ast.Call) \
                and isinstance(e.args[0].func, ast.Attribute) and e.args[0].func.attr == "keys" and not e.args[0].args \
                and self.is_self(e.args[0].func.value) and e.args[0].func.value.attr in self.u.get("dict_attrs", []):
            return f"(dkeys_ {self.rd(e.args[0].func.value.attr, env)})"
        if self.u.get("func_helpers") and isinstance(f, ast.Name) and f.id in self.helpers and not e.keywords:
            return "(" + " ".join([self.helpers[f.id]] + [X(t) for t in e.args]) + ")"      # module-level function translated earlier
        if self.u.get("ravel") and isinstance(f, ast.Attribute) and f.attr == "ravel" and n == 0 and not e.keywords:
            return f"({self.u['ravel']} {X(f.value)})"
        if fs in self.u.get("prims", {}) and n == 1 and not e.keywords:
            return f"({self.u['prims'][fs]} {X(e.args[0])})"
        if fs in self.m.get("kwcallees", {}) and n == 0 and len(e.keywords) == 1 and e.keywords[0].arg is None \
                and isinstance(e.keywords[0].value, ast.Name):
            return f"({self.m['kwcallees'][fs]} {X(e.keywords[0].value)})"      # F(**d)
        if fs in self.m.get("callees", {}):            # library routine modelled as an oracle
            oname, kws = self.m["callees"][fs]
            got = {k.arg: k.value for k in e.keywords}
            if None in got or sorted(got) != sorted(kws):
                self.bad(e, "keywords of an oracle call")
            raw = lambda t: self.opt_atom(t, env) or X(t)
            return "(" + " ".join([oname] + [raw(a) for a in e.args] + [raw(got[k]) for k in kws]) + ")"
        if isinstance(f, ast.Attribute) and f.attr == "jacobian" and n == 3 and not e.keywords \
                and isinstance(e.args[0], ast.Constant) and e.args[0].value in (0, 1):
            return f"(jac{e.args[0].value}_ {X(f.value)} {X(e.args[1])} {X(e.args[2])})"
        if fs in self.attr_map and not e.keywords:     # a collaborator passed in as a parameter
            args = [X(a) for a in e.args]
            if n == 1:
                return f"(hcall {self.attr_map[fs]} {args[0]})"
            if n == 2:
                return f"(hcall2 {self.attr_map[fs]} {args[0]} {args[1]})"
            return "(" + " ".join([self.attr_map[fs]] + args) + ")"
        if self.is_norm_call(e) and not self.u.get("array"):
            return f"(vnorm_ {X(e.args[0])})"
        if fs == "snp.sqrt" and n == 1 and not e.keywords:
            return f"(ksqrt {X(e.args[0])})"
        if self.u.get("array") and not e.keywords:
            if fs == "snp.abs" and n == 1:
                return f"(a_abs {X(e.args[0])})"
            if fs == "snp.sign" and n == 1:
                return f"(a_sign {X(e.args[0])})"
            if fs == "snp.maximum" and n == 2:
                return f"(amax {X(e.args[0])} {X(e.args[1])})"
            if fs == "snp.where" and n == 3:
                return f"(awhere {X(e.args[0])} {X(e.args[1])} {X(e.args[2])})"
            if fs in ("norm", "snp.linalg.norm") and n == 1:
                return f"(a_norm {X(e.args[0])})"
            if fs == "snp.util.is_complex_dtype" and n == 1 and isinstance(e.args[0], ast.Attribute) \
                    and e.args[0].attr == "dtype":
                return f"(a_is_complex {X(e.args[0].value)})"
            if fs == "snp.exp" and n == 1 and ast.unparse(e.args[0]).startswith("1j * snp.angle(") \
                    and isinstance(e.args[0], ast.BinOp) and isinstance(e.args[0].right, ast.Call) \
                    and len(e.args[0].right.args) == 1:
                return f"(a_phase {X(e.args[0].right.args[0])})"     # exp(1j*angle(v)) = v/|v| (1 at 0)
        if fs == "snp.isfinite" and n == 1 and not e.keywords:
            return f"(hisfinite {X(e.args[0])})"
        if fs == "snp.real" and n == 1 and not e.keywords:
            a = e.args[0]     # snp.real(snp.sum(p.conj() * q)) = Re <p, q>
            if isinstance(a, ast.Call) and ast.unparse(a.func) == "snp.sum" and len(a.args) == 1 and not a.keywords \
                    and isinstance(a.args[0], ast.BinOp) and isinstance(a.args[0].op, ast.Mult):
                l, r = a.args[0].left, a.args[0].right
                if isinstance(l, ast.Call) and isinstance(l.func, ast.Attribute) and l.func.attr == "conj" \
                        and not l.args and not l.keywords:
                    return f"(vdot_ {X(l.func.value)} {X(r)})"
            self.bad(e, "snp.real of this form")
        if fs == "snp.zeros" and n == 1 and all(k.arg == "dtype" for k in e.keywords):
            X(e.args[0])
            for k in e.keywords:
                X(k.value)
            sh = e.args[0]    # zeros(<op>.output_shape): the type is the operator's codomain
            if isinstance(sh, ast.Attribute) and sh.attr in ("input_shape", "output_shape"):
                ty = self.type_of(sh.value, env)
                if ty and ty.startswith("Op "):
                    return f"(hzero : {ty.split()[1 if sh.attr == 'input_shape' else 2]})"
            return "hzero"
        if fs == "jax.jit" and n == 1 and not e.keywords:
            return X(e.args[0])
        if fs == "Identity" and n == 2 and not e.keywords:
            X(e.args[0]), X(e.args[1])
            return "op_identity"
        if fs == "snp.maximum" and n == 2 and not e.keywords:
            return f"(amax {X(e.args[0])} {X(e.args[1])})"
        if fs == "snp.sum" and n == 1 and not e.keywords and isinstance(e.args[0], ast.BinOp) \
                and isinstance(e.args[0].op, ast.Mult) and isinstance(e.args[0].left, ast.Call) \
                and isinstance(e.args[0].left.func, ast.Attribute) and e.args[0].left.func.attr == "conj" \
                and not e.args[0].left.args and not e.args[0].left.keywords:
            return f"(cdot_ {X(e.args[0].left.func.value)} {X(e.args[0].right)})"   # sum(u.conj() * v)
        if fs == "snp.sum" and n == 1 and not e.keywords:
            a = e.args[0]     # snp.sum(snp.real(snp.conj(p) * q)) = Re <p, q>
            if isinstance(a, ast.Call) and ast.unparse(a.func) == "snp.real" and len(a.args) == 1 \
                    and isinstance(a.args[0], ast.BinOp) and isinstance(a.args[0].op, ast.Mult):
                l, r = a.args[0].left, a.args[0].right
                if isinstance(l, ast.Call) and ast.unparse(l.func) == "snp.conj" and len(l.args) == 1:
                    return f"(vdot_ {X(l.args[0])} {X(r)})"
            self.bad(e, "snp.sum of this form")
        if fs == "isinstance" and n == 2 and not e.keywords:
            cls = ast.unparse(e.args[1])
            if cls == "LinearOperator":
                return f"(is_linear {X(e.args[0])})"
            if self.is_self(e.args[0], "step_size"):
                if cls == "(AdaptiveBBStepSize, BBStepSize)":
                    return f"(ss_bb {X(e.args[0])})"
                if cls == "RobustLineSearchStepSize":
                    return f"(ss_robust {X(e.args[0])})"
            self.bad(e, "isinstance")
        if isinstance(f, ast.Name):          # call of a local (operator / functional / closure)
            if f.id in env.tuple1:
                self.bad(e, "the result of a cvjp closure is a 1-tuple (unpack it with [0])")
            if f.id in env.names and not e.keywords:
                if n == 1:
                    return f"(hcall {env.names[f.id]} {X(e.args[0])})"
                if n == 2:
                    return f"(hcall2 {env.names[f.id]} {X(e.args[0])} {X(e.args[1])})"
            self.bad(e, "unknown callee")
        if isinstance(f, ast.Subscript):     # C.vjp(x, conjugate=True)[1](z)
            v = f.value
            if isinstance(f.slice, ast.Constant) and f.slice.value == 1 and isinstance(v, ast.Call) \
                    and isinstance(v.func, ast.Attribute) and v.func.attr == "vjp" and len(v.args) == 1 \
                    and self.kw_is(v, {"conjugate": True}) and n == 1 and not e.keywords:
                return f"(vjp {X(v.func.value)} {X(v.args[0])} {X(e.args[0])})"
            self.bad(e, "unknown callee")
        if isinstance(f, ast.Attribute):
            recv, a = f.value, f.attr
            # adjoint spellings: C.adj(y), C.H(y), C.conj().T(y)
            if a in ("adj", "H") and n == 1 and not e.keywords:
                return f"({self.u.get('adj_name', 'adj')} {X(recv)} {X(e.args[0])})"
            if a == "T" and isinstance(recv, ast.Call) and isinstance(recv.func, ast.Attribute) \
                    and recv.func.attr == "conj" and not recv.args and not recv.keywords \
                    and n == 1 and not e.keywords:
                return f"(adj {X(recv.func.value)} {X(e.args[0])})"
            if a == "prox" and n == 2:
                self.only_kw(e, {"v0"})
                return f"(fprox {X(recv)} {X(e.args[0])} {X(e.args[1])})"
            if a == "conj_prox" and n == 2:
                self.only_kw(e, {"v0"})
                return f"(conj_prox_gen {X(recv)} {X(e.args[0])} {X(e.args[1])})"
            if a == "grad" and n == 1 and not e.keywords:
                return f"(fgrad {X(recv)} {X(e.args[0])})"
            if a == "copy" and n == 0 and not e.keywords:
                return X(recv)
            if self.is_self(recv, "subproblem_solver") and a == "solve" and n == 1 and not e.keywords:
                return (f"({self.rd('subproblem_solver', env)} {self.rd('z_list', env)} "
                        f"{self.rd('u_list', env)} {X(e.args[0])})")
            if self.is_self(recv, "step_size") and a == "update" and n == 1 and not e.keywords:
                return f"(ss_update {X(recv)} {self.rd('L', env)} {X(e.args[0])})"
            if self.is_self(f):
                if a in self.helpers and not e.keywords:      # method of the same object
                    pre = self.m.get("helper_pre", {}).get(a, [])
                    return "(" + " ".join([self.helpers[a]] + pre + [self.cur_state(env)] + [X(t) for t in e.args]) + ")"
                if a in self.fields and not e.keywords:       # self.C(x), self.f(x), self.H(x, z)
                    if n == 1:
                        return f"(hcall {self.rd(a, env)} {X(e.args[0])})"
                    if n == 2:
                        return f"(hcall2 {self.rd(a, env)} {X(e.args[0])} {X(e.args[1])})"
        self.bad(e, "unknown callee")

    def test(self, e, env):
        """Expression in boolean position."""
        if self.is_self(e) and e.attr in self.u.get("truthy", {}):
            return self.rd(self.u["truthy"][e.attr], env)
        if self.is_self(e) and (self.fields.get(e.attr) == "bool" or e.attr in self.u.get("bool_attrs", [])):
            return self.rd(e.attr, env)
        if isinstance(e, ast.Name) and self.m.get("params", {}).get(e.id) == "bool":
            return self.expr(e, env)
        if isinstance(e, (ast.Compare, ast.Call, ast.BoolOp)) or (isinstance(e, ast.UnaryOp) and isinstance(e.op, ast.Not)):
            return self.expr(e, env)
        self.bad(e, "truth value")

    # -- statements (continuation passing: k(env) produces the final expression)
    def target_type(self, t):
        if isinstance(t, ast.Name):
            return self.m.get("locals", {}).get(t.id) or self.m.get("params", {}).get(t.id)
        if self.is_self(t):
            return self.fields.get(t.attr)
        return None

    def value(self, v, tgt, env):
        """RHS of an assignment; a literal zero assigned to a non-scalar target broadcasts."""
        ty = self.target_type(tgt)
        if isinstance(v, ast.Constant) and not isinstance(v.value, bool) and v.value == 0 and ty and ty != "K":
            return f"(hzero : {ty})"
        if isinstance(v, ast.Call) and ast.unparse(v.func) == "snp.zeros" and ty:
            self.expr(v, env)
            return f"(hzero : {ty})"
        return self.expr(v, env)

    def is_listy(self, v, env):
        return (self.is_self(v) and self.fields.get(v.attr, "").startswith("list")) or \
               (isinstance(v, ast.Name) and v.id in env.lists)

    def bind(self, t, val_node, val, env):
        """let-binding of one target (Name / self.attr / self.attr[i])."""
        if isinstance(t, ast.Name):
            if val_node is not None:
                if self.is_listy(val_node, env):
                    if self.mutates:
                        self.bad(t, "aliasing of a mutable list (no .copy()) in a method that writes list items")
                    env.lists.add(t.id)
                if isinstance(val_node, (ast.ListComp,)) or (
                        isinstance(val_node, ast.Call) and isinstance(val_node.func, ast.Attribute)
                        and val_node.func.attr == "copy"):
                    env.lists.add(t.id)
            env.names[t.id] = "v_" + t.id
            if t.id in env.none:
                env.none[t.id] = False
            if t.id in env.shape and val_node is not None:
                env.shape[t.id] = "list" if isinstance(val_node, ast.List) or (
                    isinstance(val_node, ast.Call) and ast.unparse(val_node.func) == "list") else "one"
            env.counters.pop(t.id, None)
            env.tuple1.discard(t.id)
            if isinstance(val_node, ast.Subscript) and isinstance(val_node.value, ast.Call) \
                    and isinstance(val_node.value.func, ast.Name) and val_node.value.func.id == "cvjp" \
                    and isinstance(val_node.slice, ast.Constant) and val_node.slice.value == 1:
                env.tuple1.add(t.id)    # cvjp(F, p)[1]: a closure returning the 1-tuple of cotangents
            if isinstance(val_node, ast.Constant) and val_node.value == 0 and not isinstance(val_node.value, bool) \
                    and self.m.get("counters") and t.id in self.m["counters"]:
                env.counters[t.id] = 0
                if t.id in (self.m.get("returns") or []):
                    return f"let v_{t.id} := 0%nat in\n"    # the count is also a result
                return ""                       # a while-loop counter: only its role as fuel is translated
            raw = self.opt_atom(val_node, env) if val_node is not None else None
            if raw is not None:                 # copy of a None-able value
                env.optnames.add(t.id)
                return f"let v_{t.id} := {raw} in\n"
            env.optnames.discard(t.id)
            return f"let v_{t.id} := {val} in\n"
        if self.is_self(t) and self.u.get("opaque"):
            if t.attr not in self.u.get("attrs", []):
                self.bad(t, "assignment to an attribute outside the unit's signature")
            return f"let s := (set_{t.attr} {val} s) in\n"
        if self.is_self(t):
            if t.attr not in self.fields:
                self.bad(t, "assignment to an attribute outside the state record")
            if val_node is not None and self.is_listy(val_node, env):
                self.bad(t, "aliasing of a mutable list (no .copy())")
            env.attrs[t.attr] = "self_" + t.attr
            fty = self.fields[t.attr]
            if fty.startswith("option "):
                raw = self.opt_atom(val_node, env) if val_node is not None else None
                env.attr_plain.pop(t.attr, None)
                if raw is not None:
                    return f"let self_{t.attr} : {fty} := {raw} in\n"
                env.attr_plain[t.attr] = f"self_{t.attr}_v"
                return f"let self_{t.attr}_v := {val} in\nlet self_{t.attr} : {fty} := Some self_{t.attr}_v in\n"
            return f"let self_{t.attr} : {fty} := {val} in\n"
        if isinstance(t, ast.Subscript) and self.is_self(t.value) and isinstance(t.slice, ast.Name) \
                and t.value.attr in self.u.get("dict_attrs", []) and t.slice.id in env.names:
            a = t.value.attr
            cur = self.rd(a, env)
            env.attrs[a] = "self_" + a
            for k_ in [k_ for k_ in env.sub_plain if k_.startswith(f"self.{a}[")]:
                del env.sub_plain[k_]
            if a in self.u.get("opt_dict_attrs", []) and val != "None":
                val = f"(Some {val})"        # a None-able entry
            return f"let self_{a} := (dput_ {cur} {env.names[t.slice.id]} {val}) in\n"
        if isinstance(t, ast.Subscript) and self.is_self(t.value) and isinstance(t.slice, ast.Name) \
                and env.idx == t.slice.id and self.fields.get(t.value.attr, "").startswith("list"):
            a = t.value.attr
            cur = self.rd(a, env)
            env.attrs[a] = "self_" + a
            return f"let self_{a} := upd_nth {env.names[t.slice.id]} {val} {cur} in\n"
        self.bad(t, "assignment target")

    def dict_pop(self, t, v_, env):
        """x = d.pop("k", None): the value (or None), then the removal in place (d is rebound)"""
        if self.u.get("dicts") and isinstance(v_, ast.Call) and isinstance(v_.func, ast.Attribute) and v_.func.attr == "pop" \
                and isinstance(v_.func.value, ast.Name) and v_.func.value.id in env.names \
                and v_.func.value.id not in env.optnames and len(v_.args) == 2 and not v_.keywords \
                and isinstance(v_.args[0], ast.Constant) and isinstance(v_.args[0].value, str) \
                and isinstance(v_.args[1], ast.Constant) and v_.args[1].value is None and isinstance(t, ast.Name):
            nm, key = v_.func.value.id, v_.args[0].value
            cur = env.names[nm]
            env.names[t.id] = "v_" + t.id
            env.names[nm] = "v_" + nm
            return (f'let v_{t.id} := (d_get {cur} "{key}"%string) in\n'
                    f'let v_{nm} := (d_remove {cur} "{key}"%string) in\n')
        return None

    def block(self, stmts, env, k):
        if not stmts:
            return k(env)
        st, rest = stmts[0], stmts[1:]
        if ast.unparse(st) in self.m.get("skip_stmts", []):
            return self.block(rest, env, k)
        cont = lambda ev: self.block(rest, ev, k)
        if isinstance(st, ast.Expr):
            if isinstance(st.value, ast.Constant) and isinstance(st.value.value, str):
                return cont(env)
            if ast.unparse(st.value) == "super().__init__(**kwargs)":
                return cont(env)   # base Optimizer bookkeeping (C15), no solver state
            c_ = st.value
            if self.u.get("lop") and isinstance(c_, ast.Call) and ast.unparse(c_.func) in self.u["lop"]["ctors"] \
                    and ast.unparse(c_.func).startswith("super()") and not rest:
                return self.expr(c_, env)        # the object under construction IS this operator
            if self.u.get("dicts") and isinstance(c_, ast.Call) and isinstance(c_.func, ast.Attribute) \
                    and c_.func.attr == "update" and isinstance(c_.func.value, ast.Name) and c_.func.value.id in env.names \
                    and c_.func.value.id not in env.optnames and len(c_.args) == 1 and not c_.keywords:
                nm = c_.func.value.id        # in-place update of a dict: rebind the name
                return f"let v_{nm} := (d_update {env.names[nm]} {self.expr(c_.args[0], env)}) in\n" + \
                    (env.names.__setitem__(nm, "v_" + nm) or cont(env))
            if ast.unparse(st.value) in self.m.get("effects", {}):
                return f"let s := ({self.m['effects'][ast.unparse(st.value)]} s) in\n" + cont(env)
            self.bad(st, "expression statement")
        if isinstance(st, ast.Pass):
            return cont(env)
        if isinstance(st, ast.Assert):
            if self.static(st.test, env) is True:
                return cont(env)
            tt_ = st.test
            if isinstance(tt_, ast.Call) and ast.unparse(tt_.func) == "isinstance" and len(tt_.args) == 2 \
                    and isinstance(tt_.args[0], ast.Name) and tt_.args[0].id in env.names and st.msg is None:
                return cont(env)     # type narrowing for mypy; the Coq type already says so
            self.bad(st, "assert")
        if isinstance(st, ast.Raise):
            if self.m["kind"] == "outcome":     # exception = (state at the raise, PyRaise)
                return env.rs(env) if env.rs else f"({self.cur_state(env)}, @PyRaise {self.m['outcome_type']})"
            if self.m["kind"] == "effect":      # exception = (state at the raise, raised flag, no value)
                return env.rs(env) if env.rs else "(s, true, None)"
            raise Raises()
        if isinstance(st, ast.Return):
            if st.value is None:
                self.bad(st, "bare return")
            if self.m["kind"] == "outcome":
                if env.rs is not None:
                    self.bad(st, "return inside a loop")
                return f"({self.cur_state(env)}, PyVal {self.expr(st.value, env)})"
            if self.m["kind"] == "effect":
                if env.rs is not None:
                    self.bad(st, "return inside a loop")
                return f"(s, false, Some {self.expr(st.value, env)})"
            if self.m["kind"] == "both":
                return f"({self.expr(st.value, env)}, {self.cur_state(env)})"
            if self.m["kind"] != "value":
                self.bad(st, "return in a state method")
            if self.m.get("return_params"):      # expose in-place changes of the caller's (mutable) arguments
                fin = []
                for pn in self.m["return_params"]:
                    if env.none.get(pn):
                        fin.append("None")
                    elif pn in env.optnames:
                        fin.append(env.names[pn])
                    else:
                        fin.append(f"(Some {env.names[pn]})")
                return f"({self.expr(st.value, env)}, {', '.join(fin)})"
            return self.expr(st.value, env)
        if isinstance(st, ast.With):
            if [ast.unparse(i.context_expr) for i in st.items] != self.u.get("transparent_with") \
                    or any(i.optional_vars is not None for i in st.items):
                self.bad(st, "with statement")
            return self.block(list(st.body) + list(rest), env, k)     # a numpy warning filter: no effect on values
        if isinstance(st, ast.Break):
            if env.brk is None:
                self.bad(st, "break outside a translated loop")
            return env.brk(env)
        if isinstance(st, ast.While):
            return self.while_loop(st, env, cont)
        if isinstance(st, ast.AnnAssign):
            if st.value is None or not st.simple and not self.is_self(st.target):
                self.bad(st, "annotated assignment")
            pp = self.dict_pop(st.target, st.value, env)
            if pp is not None:
                return pp + cont(env)
            return self.bind(st.target, st.value, self.value(st.value, st.target, env), env) + cont(env)
        if isinstance(st, ast.Assign):
            if len(st.targets) != 1:
                self.bad(st, "chained assignment")
            t = st.targets[0]
            if re.fullmatch(r"self\.(\w+) = jax\.jit\(\1\)", ast.unparse(st)):
                return cont(env)   # checked separately: the closure is translated as <name>_gen
            if isinstance(t, ast.Tuple):
                if isinstance(st.value, ast.Tuple) and len(st.value.elts) == len(t.elts):
                    vals = [self.expr(v, env) for v in st.value.elts]   # evaluated before binding
                    tmp = [f"tmp_{i}" for i in range(len(vals))]
                    s = "".join(f"let {a} := {b} in\n" for a, b in zip(tmp, vals))
                    return s + "".join(self.bind(tt, None, a, env) for tt, a in zip(t.elts, tmp)) + cont(env)
                tmp = [f"tmp_{i}" for i in range(len(t.elts))]
                s = f"let '({', '.join(tmp)}) := {self.expr(st.value, env)} in\n"
                return s + "".join(self.bind(tt, None, a, env) for tt, a in zip(t.elts, tmp)) + cont(env)
            pp = self.dict_pop(t, st.value, env)
            if pp is not None:
                return pp + cont(env)
            val = self.value(st.value, t, env)
            return self.bind(t, st.value, val, env) + cont(env)
        if isinstance(st, ast.AugAssign):
            ops = {ast.Add: "+", ast.Sub: "-", ast.Mult: "*", ast.Div: "/"}
            is_ent = isinstance(st.target, ast.Subscript) and self.is_self(st.target.value) \
                and st.target.value.attr in self.u.get("dict_attrs", [])
            if type(st.op) not in ops or not (isinstance(st.target, ast.Name) or self.is_self(st.target) or is_ent):
                self.bad(st, "augmented assignment")
            cur = self.expr(st.target, env)
            val = f"({cur} {ops[type(st.op)]} {self.expr(st.value, env)})"
            return self.bind(st.target, None, val, env) + cont(env)
        if isinstance(st, ast.If):
            c = self.static(st.test, env)
            if isinstance(st.test, ast.Name) and st.test.id in env.none and st.test.id in self.m.get("truthy_params", []):
                c = not env.none[st.test.id]     # `if callback:` -- a supplied callable is truthy
            if c is True:
                return self.block(st.body + rest, env, k)
            if c is False:
                return self.block(st.orelse + rest, env, k)
            if isinstance(st.test, ast.BoolOp) and isinstance(st.test.op, ast.And) \
                    and any(self.none_test(v, env) or self.static(v, env) is not None for v in st.test.values):
                # `if A and B: P else: Q`  =  `if A: (if B: P else: Q) else: Q`
                first, others = st.test.values[0], st.test.values[1:]
                inner_test = others[0] if len(others) == 1 else ast.BoolOp(op=ast.And(), values=others)
                inner = ast.If(test=inner_test, body=st.body, orelse=st.orelse)
                return self.block([ast.If(test=first, body=[inner], orelse=st.orelse)] + rest, env, k)
            nt = self.none_test(st.test, env)
            if isinstance(st.test, ast.Name) and st.test.id in env.optnames and st.test.id in self.m.get("truthy_dicts", []):
                # `if d:` for d: Optional[dict] -- false for None and for the empty dict
                nm = st.test.id
                e_some = env.copy()
                e_some.names[nm] = "v_" + nm + "_v"
                e_some.optnames.discard(nm)
                a = self.block(st.orelse + rest, env.copy(), k)
                b1 = self.block(st.body + rest, e_some.copy(), k)
                b2 = self.block(st.orelse + rest, e_some.copy(), k)
                return (f"match {env.names[nm]} with\n| None => (\n{a})\n| Some v_{nm}_v => (\n"
                        f"if (d_nonempty v_{nm}_v) then (\n{b1}) else (\n{b2}))\nend")
            try:
                if nt:
                    raw, node, is_none = nt
                    e_some = env.copy()
                    fresh = ("v_" + node.id + "_v") if isinstance(node, ast.Name) else (
                        f"ent_{node.value.attr}_v" if isinstance(node, ast.Subscript) else f"self_{node.attr}_v")
                    if isinstance(node, ast.Subscript):
                        e_some.sub_plain[ast.unparse(node)] = fresh
                    elif isinstance(node, ast.Name):
                        e_some.names[node.id] = fresh
                        e_some.optnames.discard(node.id)
                    else:
                        e_some.attr_plain[node.attr] = fresh
                    bn, bs = (st.body, st.orelse) if is_none else (st.orelse, st.body)
                    a = self.block(bn + rest, env.copy(), k)
                    b = self.block(bs + rest, e_some, k)
                    return f"match {raw} with\n| None => (\n{a})\n| Some {fresh} => (\n{b})\nend"
                ce = self.test(st.test, env)
                a = self.block(st.body + rest, env.copy(), k)
                b = self.block(st.orelse + rest, env.copy(), k)
            except Raises:
                self.bad(st, "raise under a run-time condition")
            return f"if {ce} then (\n{a}) else (\n{b})"
        if isinstance(st, ast.For) and len(rest) == 1 and isinstance(rest[0], ast.Return) \
                and isinstance(rest[0].value, ast.Constant) and rest[0].value.value is True \
                and len(st.body) == 1 and isinstance(st.body[0], ast.If) and not st.body[0].orelse and not st.orelse \
                and len(st.body[0].body) == 1 and isinstance(st.body[0].body[0], ast.Return) \
                and isinstance(st.body[0].body[0].value, ast.Constant) and st.body[0].body[0].value.value is False \
                and isinstance(st.target, ast.Name) and self.m["kind"] == "value":
            # for v in L: if C(v): return False;  return True   ==   all(not C(v) for v in L)
            env2 = env.copy()
            env2.names[st.target.id] = "v_" + st.target.id
            return (f"(forallb (fun v_{st.target.id} => negb {self.test(st.body[0].test, env2)}) "
                    f"{self.expr(st.iter, env)})")
        if isinstance(st, ast.For) and self.m["kind"] == "outcome":
            return self.list_loop(st, env, cont)
        if isinstance(st, ast.For) and self.m["kind"] == "effect":
            return self.range_loop(st, env, cont)
        if isinstance(st, ast.For):
            return self.loop(st, env, cont)
        if isinstance(st, ast.FunctionDef) and self.m.get("skip_defs"):
            return cont(env)
        self.bad(st, "statement " + type(st).__name__)

    def assigned(self, body, env, exclude=()):
        """(kind, name) of the variables a loop body carries from one iteration to the next."""
        carried = []
        for node in ast.walk(ast.Module(body=body, type_ignores=[])):
            tg = []
            if isinstance(node, (ast.Assign,)):
                tg = node.targets
            elif isinstance(node, (ast.AugAssign, ast.AnnAssign)):
                tg = [node.target]
            for t in tg:
                for el in (t.elts if isinstance(t, ast.Tuple) else [t]):
                    if isinstance(el, ast.Subscript):
                        el = el.value
                    if self.is_self(el) and ("attr", el.attr) not in carried:
                        carried.append(("attr", el.attr))
                    elif isinstance(el, ast.Name) and el.id in env.names and el.id not in exclude \
                            and ("name", el.id) not in carried:
                        carried.append(("name", el.id))
        return carried

    def list_loop(self, st, env, cont):
        """outcome mode: `for x in L: BODY` as recursion on the list, carrying the attributes the body
        assigns; `raise` in the body leaves the loop and the method with the state reached so far."""
        if st.orelse or not isinstance(st.target, ast.Name):
            self.bad(st, "loop header")
        for n in ast.walk(ast.Module(body=st.body, type_ignores=[])):
            if isinstance(n, (ast.Break, ast.Continue, ast.Return)):
                self.bad(n, "break / continue / return in this loop form")
        carried = self.assigned(st.body, env, exclude=(st.target.id,))
        if not carried or any(kd != "attr" for kd, _ in carried):
            self.bad(st, "loop must assign attributes only")
        coll = self.expr(st.iter, env)
        cvars = ["self_" + n for _, n in carried]
        init = [self.rd(n, env) for _, n in carried]
        tup = lambda xs: xs[0] if len(xs) == 1 else "(" + ", ".join(xs) + ")"
        benv = env.copy()
        benv.names[st.target.id] = "v_" + st.target.id
        for _, n in carried:
            benv.attrs[n] = "self_" + n
        cur = lambda ev: tup([ev.attrs[n] for _, n in carried])
        benv.rs = lambda ev: f"({cur(ev)}, true)"
        body = self.block(st.body, benv, lambda ev: f"(loop_ rest_ {cur(ev)})")
        for _, n in carried:
            env.attrs[n] = "self_" + n
            for k_ in [k_ for k_ in env.sub_plain if k_.startswith(f"self.{n}[")]:
                del env.sub_plain[k_]
        accpat = cvars[0] if len(cvars) == 1 else "'" + tup(cvars)
        raised = env.rs(env) if env.rs else None
        s = (f"let '({tup(cvars)}, raised_) := (fix loop_ ls_ acc_ {{struct ls_}} :=\n"
             f"  match ls_ with\n  | [] => (acc_, false)\n  | v_{st.target.id} :: rest_ => let {accpat} := acc_ in\n{body}\n  end) {coll} {tup(init)} in\n")
        return s + (f"if raised_ then {raised or '(' + self.cur_state(env) + ', @PyRaise ' + self.m['outcome_type'] + ')'} "
                    f"else (\n{cont(env)})")

    def range_loop(self, st, env, cont):
        """effect mode: `for <target> in range(a, a + n): BODY` = recursion on n as fuel, the state
        `s` threaded through; `raise` in the body leaves the loop AND the method."""
        it = st.iter
        if st.orelse or not (isinstance(it, ast.Call) and ast.unparse(it.func) == "range" and len(it.args) == 2
                             and not it.keywords and isinstance(it.args[1], ast.BinOp) and isinstance(it.args[1].op, ast.Add)
                             and ast.unparse(it.args[1].left) == ast.unparse(it.args[0])):
            self.bad(st, "loop header other than range(a, a + n)")
        if self.assigned(st.body, env):
            self.bad(st, "loop body assigns local variables of the enclosing scope")
        for n in ast.walk(ast.Module(body=st.body, type_ignores=[])):
            if isinstance(n, (ast.Break, ast.Continue)):
                self.bad(n, "break / continue in this loop form")
        a, nn = self.expr(it.args[0], env), self.expr(it.args[1].right, env)   # evaluated once, before the loop
        benv = env.copy()
        if self.is_self(st.target):
            if st.target.attr not in self.u.get("attrs", []):
                self.bad(st.target, "loop target outside the unit's signature")
            settgt = f"let s := (set_{st.target.attr} k_ s) in\n"
        elif isinstance(st.target, ast.Name):
            benv.names[st.target.id] = "v_" + st.target.id
            settgt = f"let v_{st.target.id} := k_ in\n"
        else:
            self.bad(st.target, "loop target")
        benv.rs = lambda ev: "(s, true)"
        body = self.block(st.body, benv, lambda ev: "(loop_ fuel_ (k_ + 1)%Z s)")
        return (f"let a_ := {a} in\nlet n_ := {nn} in\n"
                f"let '(s, raised_) := (fix loop_ (fuel_ : nat) (k_ : Z) s {{struct fuel_}} :=\n"
                f"  match fuel_ with\n  | O => (s, false)\n  | S fuel_ =>\n{settgt}{body}\n  end) (Z.to_nat n_) a_ s in\n"
                f"if raised_ then {env.rs(env) if env.rs else '(s, true, None)'} else (\n{cont(env)})")

    def while_loop(self, st, env, cont):
        """`it = 0; while it < bound: BODY; it += 1` with `break`: structural recursion on the
        bound as fuel (exact: the loop runs at most `bound` times, `break` leaves early)."""
        t = st.test
        extra = None
        if isinstance(t, ast.BoolOp) and isinstance(t.op, ast.And) and len(t.values) == 2:
            t, extra = t.values       # `while (counter < bound) and COND`
        if st.orelse or not (isinstance(t, ast.Compare) and len(t.ops) == 1 and isinstance(t.ops[0], ast.Lt)
                             and isinstance(t.left, ast.Name) and env.counters.get(t.left.id) == 0):
            self.bad(st, "while loop that is not `counter < bound` with the counter initialised to 0")
        cnt = t.left.id
        last = st.body[-1] if st.body else None
        if not (isinstance(last, ast.AugAssign) and isinstance(last.op, ast.Add) and isinstance(last.target, ast.Name)
                and last.target.id == cnt and isinstance(last.value, ast.Constant) and last.value.value == 1):
            self.bad(st, "while body must end with `counter += 1`")
        body = st.body[:-1]
        for n in ast.walk(ast.Module(body=body, type_ignores=[])):
            if isinstance(n, ast.Name) and n.id == cnt:
                self.bad(n, "loop counter used inside the loop body")
            if isinstance(n, (ast.Continue, ast.Return)):
                self.bad(n, "continue / return inside a while loop")
        carried = self.assigned(body, env, exclude=(cnt,))
        keep_cnt = cnt in (self.m.get("returns") or [])
        bound_names = {n.id for n in ast.walk(t.comparators[0]) if isinstance(n, ast.Name)}
        if any(kd == "name" and n in bound_names for kd, n in carried) or \
                any(kd == "attr" and n in ast.unparse(t.comparators[0]) for kd, n in carried):
            self.bad(st, "loop bound modified inside the loop")
        if not carried:
            self.bad(st, "loop without effect")
        cenv = env.copy()
        del cenv.counters[cnt]
        bound = self.expr(t.comparators[0], cenv)
        cvars = [("self_" + n if kd == "attr" else "v_" + n) for kd, n in carried]
        init = [(self.rd(n, env) if kd == "attr" else env.names[n]) for kd, n in carried]
        tup = lambda xs: xs[0] if len(xs) == 1 else "(" + ", ".join(xs) + ")"
        benv = env.copy()
        del benv.counters[cnt]
        for kd, n in carried:
            if kd == "attr":
                benv.attrs[n] = "self_" + n
        if keep_cnt:
            cvars.append("v_" + cnt)
            init.append("v_" + cnt)
        cur = lambda ev, nxt=False: tup([(ev.attrs[n] if kd == "attr" else ev.names[n]) for kd, n in carried]
                                        + ([f"(S v_{cnt})" if nxt else "v_" + cnt] if keep_cnt else []))
        benv.brk = lambda ev: cur(ev)
        bodytxt = self.block(body, benv, lambda ev: f"(loop_ fuel_ {cur(ev, True)})")
        if extra is not None:
            xenv = env.copy()
            del xenv.counters[cnt]
            for kd, n in carried:
                if kd == "attr":
                    xenv.attrs[n] = "self_" + n
            bodytxt = f"if {self.test(extra, xenv)} then (\n{bodytxt}) else {tup(cvars)}"
        for kd, n in carried:
            if kd == "attr":
                env.attrs[n] = "self_" + n
        del env.counters[cnt]
        if keep_cnt:
            env.names[cnt] = "v_" + cnt
        accpat = cvars[0] if len(cvars) == 1 else "'" + tup(cvars)
        tys = [(self.fields.get(n) if kd == "attr" else
                (self.m.get("locals", {}).get(n) or self.m.get("params", {}).get(n))) or "_" for kd, n in carried]
        if keep_cnt:
            tys.append("nat")
        accty = " * ".join(tys)
        accb = "acc_" if all(t == "_" for t in tys) else f"(acc_ : {accty})"
        rty = "" if all(t == "_" for t in tys) else f" : {accty}"
        s = (f"let {accpat} := (fix loop_ (fuel_ : nat) {accb} {{struct fuel_}}{rty} :=\n"
             f"  match fuel_ with\n  | O => acc_\n  | S fuel_ => let {accpat} := acc_ in\n{bodytxt}\n  end) {bound} {tup(init)} in\n")
        return s + cont(env)

    def loop(self, st, env, cont):
        if st.orelse:
            self.bad(st, "for-else")
        benv = env.copy()

        def names(t):
            if isinstance(t, ast.Name):
                benv.names[t.id] = "v_" + t.id
                return "v_" + t.id
            self.bad(t, "loop target")

        def pat_iter(t, it):
            if isinstance(it, ast.Call) and ast.unparse(it.func) == "enumerate" and len(it.args) == 1 \
                    and not it.keywords and isinstance(t, ast.Tuple) and len(t.elts) == 2:
                i = names(t.elts[0])
                benv.idx = t.elts[0].id
                p, c = pat_iter(t.elts[1], it.args[0])
                return f"({i}, {p})", f"(enumerate {c})"
            if isinstance(it, ast.Call) and ast.unparse(it.func) == "zip" and len(it.args) >= 2 \
                    and not it.keywords and isinstance(t, ast.Tuple) and len(t.elts) == len(it.args):
                ps = [names(x) for x in t.elts]
                cs = [self.expr(a, env) for a in it.args]
                p, c = ps[-1], cs[-1]
                for a, b in zip(reversed(ps[:-1]), reversed(cs[:-1])):
                    p, c = f"({a}, {p})", f"(combine {b} {c})"
                return p, c
            if isinstance(t, ast.Name):
                return names(t), self.expr(it, env)
            self.bad(st, "loop header")

        pat, coll = pat_iter(st.target, st.iter)
        targets = {n.id for n in ast.walk(st.target) if isinstance(n, ast.Name)}
        carried = []   # (kind, name)
        for node in ast.walk(ast.Module(body=st.body, type_ignores=[])):
            tg = []
            if isinstance(node, (ast.Assign,)):
                tg = node.targets
            elif isinstance(node, (ast.AugAssign, ast.AnnAssign)):
                tg = [node.target]
            for t in tg:
                for el in (t.elts if isinstance(t, ast.Tuple) else [t]):
                    if isinstance(el, ast.Subscript):
                        el = el.value
                    if self.is_self(el) and ("attr", el.attr) not in carried:
                        carried.append(("attr", el.attr))
                    elif isinstance(el, ast.Name) and el.id in env.names and el.id not in targets \
                            and ("name", el.id) not in carried:
                        carried.append(("name", el.id))
        if not carried:
            self.bad(st, "loop without effect")
        cvars = [("self_" + n if kd == "attr" else "v_" + n) for kd, n in carried]
        init = [(self.rd(n, env) if kd == "attr" else env.names[n]) for kd, n in carried]
        for kd, n in carried:
            if kd == "attr":
                benv.attrs[n] = "self_" + n
        tup = lambda xs: xs[0] if len(xs) == 1 else "(" + ", ".join(xs) + ")"
        body = self.block(st.body, benv, lambda ev: tup(
            [(ev.attrs[n] if kd == "attr" else ev.names[n]) for kd, n in carried]))
        for kd, n in carried:
            if kd == "attr":
                env.attrs[n] = "self_" + n
        accpat = cvars[0] if len(cvars) == 1 else "'" + tup(cvars)
        s = (f"let {accpat} := fold_left (fun acc_ it_ => let {accpat} := acc_ in let '{pat} := it_ in\n"
             f"{body}) {coll} {tup(init)} in\n")
        return s + cont(env)


# ------------------------------------------------------------------ driver

def find_func(tree, classes, path, fn):
    """path = [Class.]method[.nested]; search the class chain (most derived first)."""
    parts = path.split(".")
    if not classes:        # module-level function
        for node in tree.body:
            if isinstance(node, ast.FunctionDef) and node.name == parts[0] and len(parts) == 1:
                return node
        raise Unsupported(fn, tree, f"function {path} not found")
    cls_list = classes
    if parts[0] in classes:
        cls_list, parts = [parts[0]], parts[1:]
    for c in cls_list:
        for node in tree.body:
            if isinstance(node, ast.ClassDef) and node.name == c:
                for it in node.body:
                    if isinstance(it, ast.FunctionDef) and it.name == parts[0]:
                        cur = it
                        for sub in parts[1:]:
                            nxt = [x for x in cur.body if isinstance(x, ast.FunctionDef) and x.name == sub]
                            if not nxt:
                                raise Unsupported(fn, cur, f"nested function {sub} not found")
                            if not any(isinstance(x, ast.Assign) and ast.unparse(x) == f"self.{sub} = jax.jit({sub})"
                                       for x in cur.body):
                                raise Unsupported(fn, cur, f"self.{sub} is not jax.jit({sub})")
                            cur = nxt[0]
                        return cur
    raise Unsupported(fn, tree, f"method {path} not found in {classes}")


def translate_method(unit, fn, tree, path, spec, helpers):
    fdef = find_func(tree, unit["classes"], path, fn)
    a = fdef.args
    if a.vararg or a.posonlyargs:
        raise Unsupported(fn, fdef, "signature")
    if a.kwarg and a.kwarg.arg != "kwargs":
        raise Unsupported(fn, fdef, "signature")
    for rq in spec.get("require_stmts", []):
        if not any(ast.unparse(x) == rq for x in fdef.body):
            raise Unsupported(fn, fdef, f"required statement `{rq}` not found")
    if any(ast.unparse(d) not in ("staticmethod", "jit") + tuple(spec.get("decorators_ok", ()))
           for d in fdef.decorator_list):
        raise Unsupported(fn, fdef, "decorator")
    pnames = [p.arg for p in a.args if p.arg != "self"] + [p.arg for p in a.kwonlyargs]
    ndef = len(a.defaults)
    defaults = dict(zip([p.arg for p in a.args][len(a.args) - ndef:], a.defaults))
    defaults.update({p.arg: d for p, d in zip(a.kwonlyargs, a.kw_defaults) if d is not None})
    ptypes = spec.get("params", {})
    body = list(fdef.body)
    used = pnames
    if spec.get("slice"):
        lo, hi = spec["slice"]
        srcs = [ast.unparse(s) for s in body]
        i0 = next((i for i, s in enumerate(srcs) if s.startswith(lo)), None)
        i1 = next((i for i, s in enumerate(srcs) if hi and s.startswith(hi)), len(body))
        if i0 is None or i1 < i0:
            raise Unsupported(fn, fdef, f"slice markers {lo!r}..{hi!r} not found")
        body = body[i0:i1]
        mentioned = {n.id for s in body for n in ast.walk(s) if isinstance(n, ast.Name)} | set(spec.get("force_params", []))
        used = [p for p in pnames if p in mentioned]
    for p in used:
        if p not in ptypes:
            raise Unsupported(fn, fdef, f"parameter {p} has no type in the unit table")
    optional = [p for p in used if p in defaults and isinstance(defaults[p], ast.Constant)
                and defaults[p].value is None and not ptypes[p].startswith("option ")
                and p not in spec.get("given", [])]       # `given`: set by the statements before the slice
    for p in used:
        if p in defaults and p not in optional and not isinstance(defaults[p], ast.Constant):
            raise Unsupported(fn, fdef, f"default of {p}")
    base = spec.get("coqname") or path.split(".")[-1]
    out, names = [], []
    subsets = [()] if not optional else list(itertools.chain.from_iterable(
        itertools.combinations(optional, r) for r in range(len(optional) + 1)))
    shaped = [p for p in used if p in spec.get("shapes", {})]
    if shaped:          # one variant per way the argument can be given (None / one item / a list)
        if len(shaped) != 1 or optional != shaped:
            raise Unsupported(fn, fdef, "shape specialisation supports one optional parameter")
        subsets = [("none",), ("one",), ("list",)]
    for given in subsets:
        tr = Tr(unit, fn, path, spec, helpers)
        tr.mutates = any(isinstance(n, ast.Subscript) and isinstance(n.ctx, ast.Store)
                         for st_ in body for n in ast.walk(st_))
        env = Env()
        shape_of = {}
        if shaped:
            shape_of[shaped[0]] = given[0]
            env.shape[shaped[0]] = given[0]
            given = () if given[0] == "none" else (shaped[0],)
        for p in used:
            if p in optional:
                env.none[p] = p not in given
            if p not in optional or p in given:
                env.names[p] = "v_" + p
            if ptypes[p].startswith("option "):
                env.optnames.add(p)
            env.types[p] = ptypes[p]
        suffix = "" if not optional else ("__" + ("_".join(given) if given else "none"))
        if shaped:
            suffix = "__" + shape_of[shaped[0]]
        name = f"{base}_gen{suffix}"
        pre = "".join(f" ({n} : {t})" for n, t in spec.get("pre_params", []))
        sarg = " (s : st)" if unit.get("fields") else (f" (s : {unit['opaque']})" if unit.get("opaque") else "")
        if unit.get("self_is_func"):
            sarg = f" (self_ : {unit['self_is_func']})"
        if unit.get("self_is"):
            sarg = f" (self_ : {spec.get('self_type') or unit['self_is']})" if not spec.get("no_self") else ""
        pty = lambda p: (spec["shapes"][p][shape_of[p]] if p in shape_of else ptypes[p])
        args = "".join(f" (v_{p} : {pty(p)})" for p in used if p not in optional or p in given)
        if spec["kind"] == "closure":
            # the method consists of `self.<attr> = <lambda>`: the definition is that closure
            body = [b_ for b_ in body if not (isinstance(b_, ast.Expr) and isinstance(b_.value, ast.Constant))]
            if len(body) != 1 or not isinstance(body[0], ast.Assign) or not Tr.is_self(body[0].targets[0], spec["closure_attr"]):
                raise Unsupported(fn, fdef, f"expected the single statement self.{spec['closure_attr']} = <lambda>")
            body = [ast.Return(value=body[0].value)]
            spec = dict(spec, kind="value")
            tr.m = spec
            def k(ev, fdef=fdef):
                raise Unsupported(fn, fdef, "path without return")
        elif spec["kind"] == "outcome":
            k = lambda ev, tr=tr: f"({tr.cur_state(ev)}, @PyNone {spec['outcome_type']})"
        elif spec["kind"] == "effect":
            k = lambda ev: "(s, false, None)"
        elif spec.get("returns"):
            k = lambda ev: "(" + ", ".join(ev.names[n] for n in spec["returns"]) + ")"
        elif spec["kind"] == "state" or (spec["kind"] == "both" and spec.get("implicit_none")):
            k = lambda ev, tr=tr: tr.cur_state(ev)
        else:
            def k(ev, fdef=fdef):
                raise Unsupported(fn, fdef, "path without return")
        try:
            bodytxt = tr.block(body, env, k)
            out.append(f"Definition {name}{pre}{sarg}{args} :=\n{indent(bodytxt)}.\n")
            if spec.get("emit_reads"):
                out.append(f"(* attributes read by {name}: {' '.join(tr.reads)} *)\n")
        except Raises:
            out.append(f"Definition {name}__raises : unit := tt.   (* this call raises *)\n")
        names.append(name)
    return "\n".join(out), base


def indent(s, n=2):
    return "\n".join(" " * n + ln for ln in s.split("\n"))


def gen_unit(name, repo, src_override=None):
    u = UNITS[name]
    LITS.clear()
    LITS.update({Fraction(str(k)): v for k, v in u.get("lits", {}).items()})
    fn = src_override or str(Path(repo) / u["file"])
    hdr = [f"(* GENERATED by tools/py2coq.py from {u['file']} ({', '.join(u['classes'])}) -- do not edit *)",
           "From Coq Require Import List Bool ZArith.",
           "From SV Require Import Base.Num C11.Overload."]
    hdr += u.get("imports", [])
    for r in u.get("requires", []):
        hdr.append(f"From SVGen Require Import {r}.")
    ctxt = u["context"] if "context" in u else ("{K : Type} {NK : Num K} {SK : Sqrt K} "
                                + " ".join(f"{{{s} : Type}} {{V{s} : VecOps K {s}}}" for s in u["spaces"])
                                + " " + " ".join(u.get("oracles", [])))
    hdr += ["Import ListNotations.", "Local Open Scope py_scope.", "", f"Section {name}."]
    if ctxt.strip():
        hdr.append(f"  Context {ctxt}.")
    body = []
    try:
        tree = ast.parse(Path(fn).read_text(), filename=fn)
        if u.get("fields"):
            p = u["prefix"]
            body.append("Record st := mk_st {\n" + ";\n".join(f"  {p}_{a} : {t}" for a, t in u["fields"]) + " }.\n")
        for ex in u.get("extra_units", []):
            f2 = str(Path(repo) / ex["file"])
            t2 = ast.parse(Path(f2).read_text(), filename=f2)
            eu = dict(classes=[ex["cls"]], fields=[], prefix="")
            txt, _ = translate_method(eu, f2, t2, ex["method"],
                                      dict(params=ex["params"], kind="value", coqname=ex["coqname"],
                                           attr_map=ex["attr_map"], pre_params=ex["pre_params"]), {})
            body.append(txt)
        helpers = {}
        for path, spec in u["methods"].items():
            txt, base = translate_method(u, fn, tree, path, spec, helpers)
            body.append(txt)
            if spec["kind"] == "value":   # callable from later methods as self.<name>(...)
                helpers[path.split(".")[-1]] = base + "_gen"
        text = "\n".join(hdr) + "\n" + indent("\n".join(body)) + f"\nEnd {name}.\n"
        if u.get("fields"):
            text += "Arguments st : clear implicits.\n"
        err = None
    except (Unsupported, SyntaxError, OSError) as ex:
        err = str(ex)
        msg = err.replace("*)", "* )").replace("(*", "( *")
        text = (hdr[0] + "\n(* py2coq FAILED (fail-closed): the definition below does not type-check.\n   "
                + msg + " *)\nDefinition py2coq_unsupported : False := I.\n")
    return text, err


def main():
    ap = argparse.ArgumentParser()
    ap.add_argument("--all", action="store_true")
    ap.add_argument("--unit", action="append", default=[])
    ap.add_argument("--repo", default=str(REPO))
    ap.add_argument("--src", default=None, help="translate this file instead of the unit's file (scratch copies)")
    ap.add_argument("--out", default=str(GEN))
    a = ap.parse_args()
    units = list(UNITS) if a.all or not a.unit else a.unit
    status = 0
    for n in units:
        if n not in UNITS:
            print(f"py2coq: unknown unit {n}", file=sys.stderr)
            status = 2
            continue
        text, err = gen_unit(n, a.repo, a.src)
        write_if_changed(Path(a.out) / (UNITS[n]["out"] + ".v"), text)
        if err:
            print(f"py2coq: {n}: {err}", file=sys.stderr)
            status = 1
    sys.exit(status)


if __name__ == "__main__":
    main()
