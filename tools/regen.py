#!/venv/bin/python
"""Regenerate every source-derived Coq file in coq/gen from /repo's working tree.
Called by setup.sh; each check also regenerates what it needs itself."""
import os, subprocess, sys, traceback
sys.path.insert(0, "/verif")
os.environ.setdefault("JAX_PLATFORMS", "cpu")
ok = True
if os.path.exists("/verif/tools/py2coq.py"):
    r = subprocess.run(["/venv/bin/python", "/verif/tools/py2coq.py", "--all"], cwd="/verif")
    ok &= r.returncode == 0
try:
    from vf.common import GEN, write_if_changed
    from vf.props import C18
    write_if_changed(GEN / "C18_kw.v", C18.table_to_coq(C18.static_table()))
except Exception:
    traceback.print_exc()
    ok = False
try:
    from vf.props import C16
    ok &= bool(C16.regen_fquad())
except Exception:
    traceback.print_exc()
    ok = False
print("regen", "ok" if ok else "with failures (reported by the checks)")
