#!/usr/bin/env python3
"""print the prompt given to a mutation-seeding sub-agent for property <id> (nothing from /verif but the property text)"""
import json, sys
pid = sys.argv[1]
n = int(sys.argv[2]) if len(sys.argv) > 2 else 2
for l in open('/verif/properties.jsonl'):
    d = json.loads(l)
    if d['id'] == pid:
        break
wt = f"/root/scratch/seed/{pid}"
print(f"""You are helping to evaluate a verification tool. You are given ONE semantic property of the Python library lanl/scico (a JAX-based library of linear operators, functionals with proximal maps and optimisation solvers) and your own scratch git worktree of the library at {wt} (detached HEAD; work only there; never touch /repo or /verif and do not read anything under /verif).

PROPERTY {pid}: {d['title']}
{d['statement']}
Quantified over: {d['quantifier']['text']}

TASK: produce {n} DIFFERENT, independent changes to the library SOURCE (files under {wt}/scico, not under scico/test, not the docs) each of which BREAKS this property while the library still imports and the existing test-suite still passes. Each change must need something specific to manifest -- an unusual input or constructor configuration, a particular multi-step sequence of calls, a boundary value, a particular dtype/shape combination, or two cooperating sites that each look fine alone -- NOT something that ordinary use or the existing tests would expose at once. Make them realistic (the kind of slip a maintainer could make in a refactor: a dropped conjugate, an off-by-one in a boundary case, a swapped axis, a wrong scaling in a rarely used branch, a stale cached value, a flag computed from the wrong object ...), small (a few lines), and in different functions / mechanisms from each other.

For each change i = 1..{n}:
 1. Start from a clean tree (`git -C {wt} checkout -- .`), make the change.
 2. Write a demonstration `{wt}/_seed/m<i>/demo.py`: a small self-contained script (run as `cd {wt} && PYTHONPATH={wt} JAX_PLATFORMS=cpu /venv/bin/python _seed/m<i>/demo.py`) that exits 0 and prints PASS when the property holds on its input and exits 1 printing FAIL when it does not. It must FAIL with your change and PASS on the unchanged tree -- verify both (use `git stash` / `git stash pop`).
 3. Run the relevant existing tests with the change applied and confirm they still pass, e.g. `cd {wt} && PYTHONPATH={wt} /venv/bin/python -m pytest -q -x -p no:cacheprovider -n 4 scico/test/<relevant dir or files>` (run every test file that exercises the code you touched; the full suite takes ~25 min so choose the relevant directories, but be thorough about them). Some tests fail on the UNCHANGED tree for unrelated reasons (missing data files: flax/DnCNN model weights, test_admm TestMisc, ladmm/padmm/pdhg TestMisc, denoiser tests, xray test_3d_scaling, test_url_get) -- ignore exactly those; no OTHER test may fail because of your change.
 4. Save `git -C {wt} diff > {wt}/_seed/m<i>/patch.diff` and write `{wt}/_seed/m<i>/meta.json` with keys: property ("{pid}"), title (one line), what_breaks (which clause of the property fails and how), needs_to_manifest (the specific input/config/sequence required), files_touched, tests_run (the exact pytest commands and their pass/fail counts), demo_unchanged ("PASS"), demo_changed ("FAIL").
 5. Restore the tree (`git -C {wt} checkout -- .`) before the next change. The _seed directory is untracked and survives.

Python: /venv/bin/python (jax 0.4.33, CPU only); always set PYTHONPATH={wt} so that your worktree, not /repo, is imported (check with `python -c "import scico; print(scico.__file__)"`). No network. Keep any scratch files inside {wt}.

FINAL REPORT (your last message): for each change: one paragraph (file/function, the edit, why existing tests miss it, what is needed to see it), and the paths of patch.diff / demo.py / meta.json. If you could not produce {n} valid changes say so plainly.""")
