#!/usr/bin/env python3
"""tools/seed_round.py <round> <Cxx> : write /root/scratch/seed/<Cxx>/_seed/TASK<round>.md from TASK.md, listing the titles of
the changes earlier rounds produced (those came from the seeding agents themselves; nothing from /verif's checks is revealed)."""
import json, glob, re, sys
rnd, pid = sys.argv[1], sys.argv[2]
wt = f"/root/scratch/seed/{pid}"
base = open(f"{wt}/_seed/TASK.md").read()
tried = []
for f in sorted(glob.glob(f"/verif/seeded/{pid}-*/meta.json")):
    d = json.load(open(f))
    files = d.get("files_touched")
    files = ", ".join(files) if isinstance(files, list) else str(files)
    tried.append(f"  - {d.get('title', '').strip()} [{files}]")
block = ("ALREADY TRIED by earlier rounds (do NOT repeat these; choose different functions, files and mechanisms, and prefer subtler "
         "ones -- e.g. a defect that only shows after a particular sequence of calls, for one dtype / shape / parameter combination, "
         "in a rarely used class or option, or through two cooperating sites):\n" + "\n".join(tried) + "\n\n")
t = base.replace("_seed/m<i>", f"_seed/r{rnd}m<i>")
t = t.replace("(use `git stash` / `git stash pop`)", f"(save your change with `git diff > _seed/r{rnd}m<i>/patch.diff`, restore with "
              f"`git checkout -- .`, re-apply with `git apply _seed/r{rnd}m<i>/patch.diff`; do NOT use `git stash`: it is shared between worktrees)")
i = t.index("For each change i")
t = t[:i] + block + t[i:]
open(f"{wt}/_seed/TASK{rnd}.md", "w").write(t)
print(f"{wt}/_seed/TASK{rnd}.md", len(tried), "earlier changes listed")
