#!/usr/bin/env python3
"""Evaluate one seeded mutation:  tools/seedtest.py <Cxx> <dir with patch.diff demo.py meta.json> <name> [extra check ids...]
 1. in the scratch worktree /root/scratch/seed/<Cxx>: demo passes on the clean tree, patch applies, demo fails with it
 2. the relevant existing tests still pass with the patch (stable-pass set of BASELINE.json)   [--tests path ...]
 3. run ./check <ids> --tier quick with SCICO_REPO pointing at the patched worktree (same effect as applying the patch to
    /repo, without disturbing /repo), record whether a VIOLATION was reported
 4. store everything under /verif/seeded/<name>/
"""
import json, os, shutil, subprocess, sys, time
pid, src, name = sys.argv[1:4]
rest = sys.argv[4:]
tests = []
if "--tests" in rest:
    k = rest.index("--tests")
    tests = rest[k + 1:]
    rest = rest[:k]
checks = [pid] + rest
wt = f"/root/scratch/seed/{pid}"
env = dict(os.environ, PYTHONPATH=wt, JAX_PLATFORMS="cpu", PYTHONHASHSEED="0")
def sh(cmd, **kw):
    return subprocess.run(cmd, shell=True, capture_output=True, text=True, **kw)
sh(f"git -C {wt} checkout -- .")
demo = f"{src}/demo.py"
r0 = sh(f"cd {wt} && /venv/bin/python -W ignore {demo}", env=env)
ap = sh(f"git -C {wt} apply {src}/patch.diff")
if ap.returncode:
    print("PATCH DOES NOT APPLY", ap.stderr); sys.exit(2)
r1 = sh(f"cd {wt} && /venv/bin/python -W ignore {demo}", env=env)
res = {"demo_clean_exit": r0.returncode, "demo_patched_exit": r1.returncode}
print("demo clean:", r0.returncode, (r0.stdout.strip().splitlines() or [''])[-1][:100], "| patched:", r1.returncode, (r1.stdout.strip().splitlines() or [''])[-1][:100])
if tests:
    t = sh(f"cd {wt} && /venv/bin/python -m pytest -q -p no:cacheprovider --timeout=900 -n 0 --junitxml=/verif/build/seed_junit.xml " + " ".join(tests), env=env)
    import xml.etree.ElementTree as ET
    base = set(json.load(open("/root/.vp/BASELINE.json"))["stable_pass"])
    bad = []
    for tc in ET.parse("/verif/build/seed_junit.xml").iter("testcase"):
        tid = tc.get("classname") + "::" + tc.get("name")
        if tid in base and any(c.tag in ("failure", "error") for c in tc):
            bad.append(tid)
    res["tests_run"] = tests
    res["stable_pass_tests_broken"] = bad
    print("stable-pass tests broken by the patch:", len(bad), bad[:5])
out = {}
# private copy of the Coq tree / build / evidence directories: seed evaluations may run side by side and never
# disturb the generated files or the evidence of /verif itself
alt = f"/verif/build/alt/{name}"
shutil.rmtree(alt, ignore_errors=True)
os.makedirs(alt + "/build"); os.makedirs(alt + "/evid")
sh(f"cp -a /verif/coq {alt}/coq")
altenv = f"VERIF_COQ={alt}/coq VERIF_BUILD={alt}/build VERIF_EVID={alt}/evid"
for c in checks:
    t0 = time.time()
    r = sh(f"cd /verif && {altenv} SCICO_REPO={wt} ./check {c} --tier quick")
    lines = [l for l in r.stdout.splitlines() if l.startswith(("VIOLATION", "KNOWN-FINDING", "BROKEN", c + " quick"))]
    viol = [l for l in lines if l.startswith("VIOLATION")]
    out[c] = {"exit": r.returncode, "violations": viol, "summary": [l for l in lines if l.startswith(c + " quick")], "wall_s": round(time.time() - t0)}
    # keep the replay files of this run with the seed
    print(c, "exit", r.returncode, "violations", len(viol), out[c]["summary"])
    reps = []
    for v in viol:
        path = v.split("replay=")[1].split()[0]
        if os.path.exists(path):
            d = json.load(open(path))
            reps.append({"unit": d.get("unit"), "what": d.get("what") or d.get("kind"), "file": os.path.basename(path)})
    out[c]["replays"] = reps
sh(f"git -C {wt} checkout -- .")
shutil.rmtree(alt, ignore_errors=True)
dst = f"/verif/seeded/{name}"
os.makedirs(dst, exist_ok=True)
for f in ("patch.diff", "demo.py"):
    if os.path.realpath(f"{src}/{f}") != os.path.realpath(f"{dst}/{f}"):
        shutil.copy(f"{src}/{f}", dst)
meta = json.load(open(f"{src}/meta.json"))
meta["confirmed"] = res
meta["checks_run"] = out
meta["detected_by"] = [c for c in checks if out[c]["violations"]]
json.dump(meta, open(f"{dst}/meta.json", "w"), indent=1)
print("DETECTED by", meta["detected_by"] or "NONE")
