"""Entry point: ./check <Cxx> [--tier quick|thorough] [--replay path]"""
import argparse
import importlib
import json
import os
import sys
import traceback

from vf.common import Ctx, Broken


def main():
    ap = argparse.ArgumentParser()
    ap.add_argument("pid")
    ap.add_argument("--tier", default=os.environ.get("VERIF_TIER", "quick"), choices=["quick", "thorough"])
    ap.add_argument("--replay", default=None)
    ap.add_argument("--no-proofs", action="store_true", help="skip the Coq theorem build (development only)")
    a = ap.parse_args()
    seed = int(os.environ.get("VERIF_SEED", "0") or 0)
    mod = importlib.import_module(f"vf.props.{a.pid}")
    ctx = Ctx(a.pid, a.tier, seed)
    ctx.no_proofs = a.no_proofs
    if a.replay:
        rec = json.load(open(a.replay))
        ok = mod.replay(ctx, rec)
        print("REPLAY", "property holds on this input" if ok else "reproduces the violation")
        sys.exit(0 if ok else 1)
    try:
        mod.run(ctx)
    except Broken as b:
        ctx.obligation(False, b.what, b.detail)
    except Exception:
        ctx.obligation(False, "check crashed", traceback.format_exc())
    sys.exit(ctx.finish())


if __name__ == "__main__":
    main()
