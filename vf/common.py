"""Shared machinery of the scico verification checks (see DESIGN.md section 2).

Run under /venv/bin/python with PYTHONPATH=/repo (the ./check wrapper does that).
"""
from __future__ import annotations

import fcntl
import hashlib
import json
import os
import random
import re
import shutil
import subprocess
import sys
import time
from fractions import Fraction
from pathlib import Path

VERIF = Path(__file__).resolve().parent.parent
REPO = Path(os.environ.get("SCICO_REPO", "/repo"))
# VERIF_COQ / VERIF_BUILD / VERIF_EVID: private copies used only by tools/seedtest.py, so that checks run against
# several scratch trees at the same time do not share generated files; the registered commands never set them.
COQ = Path(os.environ.get("VERIF_COQ") or VERIF / "coq")
GEN = COQ / "gen"
BUILD = Path(os.environ.get("VERIF_BUILD") or VERIF / "build")
EVID = Path(os.environ.get("VERIF_EVID") or VERIF / "evidence")
REPLAYS = VERIF / "replays"
CORPUS = VERIF / "corpus"
KNOWN = VERIF / "known_findings.json"

COQFLAGS = ["-Q", str(COQ / "theories"), "SV", "-Q", str(COQ / "gen"), "SVGen",
            "-Q", str(COQ / "Properties"), "SVProp", "-Q", str(COQ / "Findings"), "SVFind"]

# Axioms of the Coq standard library that theorems over R may depend on (DESIGN 2.7).
AXIOM_WHITELIST = {
    "ClassicalDedekindReals.sig_forall_dec",
    "ClassicalDedekindReals.sig_not_dec",
    "FunctionalExtensionality.functional_extensionality_dep",
    "Classical_Prop.classic",
}

FORBIDDEN = re.compile(
    r"\b(Admitted|admit|Axiom|Axioms|Parameter|Parameters|Conjecture|Unset\s+Guard|"
    r"bypass_check|Admit\s+Obligations|type-in-type|impredicative-set|"
    r"Unset\s+Universe\s+Checking|Unset\s+Positivity)\b")


class Broken(Exception):
    """A proof obligation / translator / correspondence no longer checks."""

    def __init__(self, what, detail=""):
        super().__init__(what)
        self.what = what
        self.detail = detail


# --------------------------------------------------------------------------
# exact numbers <-> Coq literals


def frac(x) -> Fraction:
    """Exact rational value of a Python/NumPy real scalar (float -> exact binary value)."""
    if isinstance(x, Fraction):
        return x
    if isinstance(x, int):
        return Fraction(x)
    return Fraction(float(x))


def qlit(x) -> str:
    """Coq literal of type Q."""
    f = frac(x)
    n, d = f.numerator, f.denominator
    return f"({n} # {d})" if n >= 0 else f"(({n}) # {d})"


def zlit(n: int) -> str:
    n = int(n)
    return f"{n}" if n >= 0 else f"({n})"


def coq_list(items, sep="; ") -> str:
    return "[" + sep.join(items) + "]"


def qlist(xs) -> str:
    return coq_list([qlit(x) for x in xs])


def cqlit(z) -> str:
    """Complex literal as a pair (re, im) of Q."""
    z = complex(z)
    return f"({qlit(z.real)}, {qlit(z.imag)})"


def dyadic(rng: random.Random, bits=3, lo=-4, hi=4) -> float:
    """Random dyadic rational k / 2^bits in [lo, hi]; exactly representable."""
    den = 1 << bits
    return rng.randint(lo * den, hi * den) / den


# --------------------------------------------------------------------------
# running Coq


def _lock():
    BUILD.mkdir(exist_ok=True)
    f = open(BUILD / ".coq.lock", "w")
    fcntl.flock(f, fcntl.LOCK_EX)
    return f


def write_if_changed(path: Path, text: str) -> bool:
    path.parent.mkdir(parents=True, exist_ok=True)
    if path.exists() and path.read_text() == text:
        return False
    tmp = path.with_name(path.name + f".tmp{os.getpid()}")
    tmp.write_text(text)
    os.replace(tmp, path)          # atomic: a concurrent coqc never sees a half-written file
    return True


def coq_make(targets, timeout=1500):
    """Build .vo targets (relative to coq/) with the coq_makefile Makefile, under a lock."""
    lk = _lock()
    try:
        ensure_makefile()
        cmd = ["make", "-C", str(COQ), "-j16", "--no-print-directory"] + list(targets)
        p = subprocess.run(["timeout", str(timeout)] + cmd, capture_output=True, text=True)
        if p.returncode != 0:
            raise Broken("coq build failed: " + " ".join(targets), (p.stdout + p.stderr)[-4000:])
        return p.stdout
    finally:
        lk.close()


def ensure_makefile():
    """(Re)generate _CoqProject's Makefile when the file list changed."""
    files = sorted(str(p.relative_to(COQ)) for d in ("theories", "gen", "Properties", "Findings")
                   for p in (COQ / d).rglob("*.v") if (COQ / d).exists())
    proj = "-Q theories SV\n-Q gen SVGen\n-Q Properties SVProp\n-Q Findings SVFind\n" + "\n".join(files) + "\n"
    changed = write_if_changed(COQ / "_CoqProject", proj)
    if changed or not (COQ / "Makefile").exists():
        subprocess.run(["coq_makefile", "-f", "_CoqProject", "-o", "Makefile"], cwd=COQ,
                       check=True, capture_output=True)


def coqc_file(path: Path, timeout=600) -> str:
    """Compile one file with coqc (outside make), return stdout; raise Broken on error."""
    p = subprocess.run(["timeout", str(timeout), "coqc"] + COQFLAGS + [str(path)],
                       capture_output=True, text=True, cwd=path.parent)
    if p.returncode != 0:
        raise Broken(f"coqc failed on {path.name}", (p.stdout + p.stderr)[-4000:])
    return p.stdout


def coq_eval_shards(name: str, header: str, bodies: list[str], timeout=900) -> list[str]:
    """Write build/cases/<name>_<i>.v = header + body for each body, compile all in parallel,
    return the stdout of each (in order)."""
    d = BUILD / "cases" / name
    if d.exists():
        shutil.rmtree(d)
    d.mkdir(parents=True)
    paths = []
    for i, b in enumerate(bodies):
        p = d / f"{name}_{i}.v"
        p.write_text(header + "\n" + b + "\n")
        paths.append(p)
    procs = []
    outs = [None] * len(paths)
    maxpar = 12
    idx = 0
    running = []
    while idx < len(paths) or running:
        while idx < len(paths) and len(running) < maxpar:
            pr = subprocess.Popen(["timeout", str(timeout), "coqc"] + COQFLAGS + [str(paths[idx])],
                                  stdout=subprocess.PIPE, stderr=subprocess.PIPE, text=True, cwd=d)
            running.append((idx, pr))
            idx += 1
        i, pr = running.pop(0)
        o, e = pr.communicate()
        if pr.returncode != 0:
            raise Broken(f"model evaluation failed in {paths[i].name}", (o + e)[-3000:])
        outs[i] = o
    return outs


def parse_eval_nat_list(out: str) -> list[int]:
    """Parse the result of one `Eval vm_compute in (... : list nat)`."""
    m = re.search(r"=\s*\[(.*?)\]\s*:\s*list", out, re.S)
    if not m:
        if re.search(r"=\s*nil", out) or re.search(r"=\s*\[\s*\]", out):
            return []
        raise Broken("cannot parse Coq output", out[-2000:])
    body = m.group(1).strip()
    if not body:
        return []
    return [int(t.strip().replace("%nat", "")) for t in body.split(";")]


def parse_evals(out: str) -> list[str]:
    """Split coqc stdout into the values printed by successive Eval commands (text after '= ')."""
    parts = re.split(r"^\s*=\s", out, flags=re.M)[1:]
    res = []
    for p in parts:
        # strip the trailing ': type'
        k = p.rfind("\n     :")
        res.append((p[:k] if k >= 0 else p).strip())
    return res


# --------------------------------------------------------------------------
# scanning the development


def scan_forbidden() -> list[str]:
    hits = []
    for d in ("theories", "Properties", "Findings", "gen"):
        for p in (COQ / d).rglob("*.v") if (COQ / d).exists() else []:
            txt = strip_comments(p.read_text())
            for m in FORBIDDEN.finditer(txt):
                hits.append(f"{p.relative_to(COQ)}: {m.group(0)}")
    return hits


def strip_comments(txt: str) -> str:
    out, depth, i = [], 0, 0
    while i < len(txt):
        if txt.startswith("(*", i):
            depth += 1
            i += 2
        elif txt.startswith("*)", i) and depth:
            depth -= 1
            i += 2
        else:
            if not depth:
                out.append(txt[i])
            i += 1
    return "".join(out)


def check_property_file(pid: str):
    """Build Properties/<pid>.vo closure, re-run coqc on the property file to capture
    Print Assumptions; returns (n_theorems, axioms_used:set, theorem_names)."""
    rel = f"Properties/{pid}.v"
    src = COQ / rel
    coq_make([rel + "o"])
    lk = _lock()
    try:
        out = coqc_file(src)
    finally:
        lk.close()
    txt = strip_comments(src.read_text())
    names = re.findall(r"\b(?:Theorem|Corollary)\s+([A-Za-z0-9_']+)", txt)
    n_pa = len(re.findall(r"Print\s+Assumptions", txt))
    axioms = set()
    for blk in re.split(r"(?=Closed under the global context|Axioms:)", out):
        if blk.startswith("Axioms:"):
            for m in re.finditer(r"^([A-Za-z_][A-Za-z0-9_.']*)\s*:", blk, re.M):
                if m.group(1) != "Axioms":
                    axioms.add(m.group(1))
    n_blocks = len(re.findall(r"Closed under the global context|Axioms:", out))
    if n_blocks < n_pa or n_pa < len(names):
        raise Broken(f"{rel}: Print Assumptions missing for some theorem "
                     f"({len(names)} theorems, {n_pa} commands, {n_blocks} reports)")
    bad = {a for a in axioms if a not in AXIOM_WHITELIST}
    if bad:
        raise Broken(f"{rel}: non-whitelisted axioms", ", ".join(sorted(bad)))
    hits = scan_forbidden()
    if hits:
        raise Broken("forbidden vernacular in development", "; ".join(hits[:10]))
    return len(names), axioms, names


# --------------------------------------------------------------------------
# known findings, violations, evidence


def load_known():
    d = {"known": [], "fixed": []}
    if KNOWN.exists():
        d = json.loads(KNOWN.read_text())
    # fragments written while a property is being developed (merged into the one file later)
    frag = VERIF / "known_findings.d"
    if frag.exists():
        for p in sorted(frag.glob("*.json")):
            e = json.loads(p.read_text())
            d["known"] += e if isinstance(e, list) else e.get("known", [])
    return d


class Ctx:
    """Per-run context: collects obligations, cases, violations, evidence."""

    def __init__(self, pid: str, tier: str, seed: int):
        self.pid, self.tier, self.seed = pid, tier, seed
        self.rng = random.Random(seed * 7919 + int(hashlib.sha1(pid.encode()).hexdigest()[:6], 16))
        self.t0 = time.time()
        self.obligations = 0
        self.discharged = 0
        self.theorems: list[str] = []
        self.axioms: set[str] = set()
        self.evaluations = 0
        self.case_hashes: set[str] = set()
        self.samples: list = []
        self.dist: dict[str, int] = {}
        self.violations: list[dict] = []
        self.known_hits: list[str] = []
        self.broken: list[dict] = []
        self.traces = 0
        self.notes: list[str] = []
        self.known = [k for k in load_known().get("known", []) if k["property"] == pid]
        self.exhaustive = False
        self.assumptions: list[str] = []
        self.trusted: list[str] = []

    @property
    def quick(self):
        return self.tier == "quick"

    def n(self, quick, thorough):
        return quick if self.quick else thorough

    # -- bookkeeping of explored cases
    def count(self, kind: str, case=None, nontrivial=True):
        self.evaluations += 1
        self.dist[kind] = self.dist.get(kind, 0) + 1
        if case is not None and nontrivial:
            h = hashlib.sha1(json.dumps(case, sort_keys=True, default=str).encode()).hexdigest()
            self.case_hashes.add(h)
            if len(self.samples) < 6 and (kind not in {s.get("kind") for s in self.samples}):
                self.samples.append({"kind": kind, "case": case})

    # -- proof obligations
    def proofs(self):
        """Regenerate the source-derived Coq files from the current tree, then compile the property's
        theorem file; every theorem is an obligation."""
        lk = _lock()               # checks may run concurrently: regenerate under the build lock
        try:
            r = subprocess.run(["/venv/bin/python", str(VERIF / "tools" / "py2coq.py"), "--all"],
                               capture_output=True, text=True, timeout=300,
                               env=dict(os.environ, SCICO_REPO=str(REPO)))
            if r.returncode != 0:
                self.notes.append("py2coq reported an untranslatable unit (its generated file does not compile; "
                                  "properties that depend on it report a broken obligation): "
                                  + (r.stdout + r.stderr).strip()[-400:])
        except Exception as ex:   # noqa: BLE001
            self.notes.append(f"py2coq could not be run: {ex}")
        finally:
            lk.close()
        try:
            n, ax, names = check_property_file(self.pid)
            self.obligations += n
            self.discharged += n
            self.theorems += names
            self.axioms |= ax
            if not self.quick:
                self.coqchk()
        except Broken as b:
            self.obligations += 1
            self.broken.append({"what": b.what, "detail": b.detail})

    def coqchk(self):
        """thorough tier: re-check the property's compiled file (and everything it depends on) with
        the independent checker and record the axioms it reports"""
        import subprocess as sp
        cmd = ["timeout", "1500", "coqchk", "-silent", "-o"] + COQFLAGS + [f"SVProp.{self.pid}"]
        p = sp.run(cmd, capture_output=True, text=True, cwd=COQ)
        out = p.stdout + p.stderr
        if p.returncode != 0:
            self.obligation(False, "coqchk failed on Properties/%s.vo" % self.pid, out[-1500:])
            return
        m = re.search(r"\* Axioms:(.*?)\n\s*\n\* Constants/Inductives relying on type-in-type:(.*?)\n", out, re.S)
        axioms = []
        if m:
            axioms = [a.strip() for a in m.group(1).split("\n") if a.strip() and a.strip() != "<none>"]
        bad = [a for a in axioms if not any(a.startswith(w) or w.split(".")[-1] in a for w in AXIOM_WHITELIST)
               and not a.startswith("Coq.") and "Coquelicot" not in a]
        self.notes.append("coqchk -o: accepted; axioms of all loaded libraries: " + (", ".join(axioms) or "none"))
        self.obligation(True, "coqchk")
        for key in ("type-in-type", "unsafe (co)fixpoints", "positivity is assumed"):
            mm = re.search(re.escape(key) + r":\s*(.*?)\n", out)
            if mm and "<none>" not in mm.group(1):
                self.obligation(False, f"coqchk reports constants relying on {key}", mm.group(1))

    def obligation(self, ok: bool, what: str, detail=""):
        self.obligations += 1
        if ok:
            self.discharged += 1
        else:
            self.broken.append({"what": what, "detail": detail})

    # -- violations
    def violation(self, unit: str, what: str, inp, expected=None, observed=None, oracle=""):
        """Report a concrete failing input.  Matched against known findings."""
        rec = {"property": self.pid, "unit": unit, "kind": "counterexample", "what": what,
               "input": inp, "expected": expected, "observed": observed, "oracle": oracle}
        for k in self.known:
            if k["unit"] == unit and _match(k, rec):
                msg = f"KNOWN-FINDING: property={self.pid} {k['what']}"
                if msg not in self.known_hits:
                    self.known_hits.append(msg)
                return False
        # de-duplicate per unit: keep the first (smallest is up to the caller)
        if not any(v["unit"] == unit and v["what"] == what for v in self.violations):
            self.violations.append(rec)
        return True

    def finish(self) -> int:
        """Write evidence, print VIOLATION / KNOWN-FINDING lines, return exit status."""
        REPLAYS.mkdir(exist_ok=True)
        EVID.mkdir(exist_ok=True)
        lines = []
        status = 0
        for v in self.violations:
            h = hashlib.sha1(json.dumps(v, sort_keys=True, default=str).encode()).hexdigest()[:10]
            path = REPLAYS / f"{self.pid}-{h}.json"
            v["replay_cmd"] = f"./check {self.pid} --replay {path}"
            path.write_text(json.dumps(v, indent=1, default=str))
            lines.append(f"VIOLATION property={self.pid} replay={path}")
            status = 1
        if self.broken and not self.violations:
            v = {"property": self.pid, "kind": "broken-obligation", "broken": self.broken,
                 "note": "a theorem / translation / correspondence no longer checks; the search "
                         "found no concrete failing input"}
            h = hashlib.sha1(json.dumps(v, sort_keys=True, default=str).encode()).hexdigest()[:10]
            path = REPLAYS / f"{self.pid}-{h}.json"
            path.write_text(json.dumps(v, indent=1, default=str))
            lines.append(f"VIOLATION property={self.pid} replay={path} no-failing-input-found")
            status = 1
        for m in self.known_hits:
            print(m)
        try:   # running union of the findings that reproduced (used by tools/merge_known.py --prune)
            with open(BUILD / "known_hits.log", "a") as fh:
                for m in self.known_hits:
                    fh.write(m + "\n")
        except OSError:
            pass
        for b in self.broken:
            print(f"BROKEN-OBLIGATION: {b['what']}")
            if b.get("detail"):
                print("  " + b["detail"][-1500:].replace("\n", "\n  "))
        for ln in lines:
            print(ln)
        cov = {
            "obligations": self.obligations,
            "discharged": self.discharged,
            "checker_cmd": f"./check {self.pid} --tier {self.tier}  (coq_makefile + make; coqc coq/Properties/{self.pid}.v; "
                           f"Print Assumptions parsed; model evaluated by vm_compute in generated case files)",
            "trusted_base": sorted(set(self.trusted) | {
                "Coq 8.16.1 kernel + vm_compute (no native_compute)",
                "axioms reported by Print Assumptions: " + (", ".join(sorted(self.axioms)) or "none (closed under the global context)"),
                "correspondence harness vf/props/%s.py (generators, exact Fraction(float) conversion, tolerance rule)" % self.pid,
            }),
            "theorems": self.theorems,
            "evaluations": max(self.evaluations, 0),
            "distinct_nontrivial": len(self.case_hashes),
            "rule": "cases generated from one PRNG seeded by VERIF_SEED; distinct = distinct sha1 of the canonical case; "
                    "non-trivial as stated per stream in DESIGN.md section 3 (" + self.pid + ")",
            "samples": self.samples or [{"note": "no sampled cases in this run"}],
            "traces_validated_against_impl": self.traces or self.evaluations,
            "distribution": self.dist,
            "exhaustive": self.exhaustive,
            "known_findings_reported": self.known_hits,
            "broken_obligations": [b["what"] for b in self.broken],
            "notes": self.notes,
        }
        ev = {
            "property_id": self.pid, "tier": self.tier, "seed": self.seed, "level": "proof",
            "coverage": cov,
            "assumptions": self.assumptions or ["exact arithmetic in the model; IEEE rounding is not modelled"],
            "wall_s": round(time.time() - self.t0, 2),
            "violations": len(self.violations) + (1 if (self.broken and not self.violations) else 0),
        }
        evdir = EVID
        if getattr(self, "no_proofs", False):
            # development runs without the proof step are not evidence for the property: keep them out of evidence/
            evdir = BUILD / "evidence-no-proofs"
            evdir.mkdir(parents=True, exist_ok=True)
        (evdir / f"{self.pid}.json").write_text(json.dumps(ev, indent=1, default=str))
        print(f"{self.pid} {self.tier}: obligations {self.discharged}/{self.obligations}, "
              f"cases {self.evaluations} ({len(self.case_hashes)} distinct), "
              f"violations {ev['violations']}, known {len(self.known_hits)}, {ev['wall_s']} s")
        return status


def _match(k: dict, rec: dict) -> bool:
    """A known finding matches a violation when its predicate (a Python expression over
    `inp`, `what`) holds.  The predicate is part of the committed file, never written at run time."""
    pred = k.get("when", "True")
    try:
        return bool(eval(pred, {"__builtins__": {"abs": abs, "len": len, "any": any, "all": all,
                                                  "min": min, "max": max, "str": str, "float": float,
                                                  "isinstance": isinstance, "dict": dict, "list": list, "int": int, "set": set, "tuple": tuple, "sum": sum, "bool": bool, "round": round}},
                         {"inp": rec["input"], "what": rec["what"], "rec": rec}))
    except Exception:
        return False
