"""Run under the library's DEFAULT numeric mode (JAX_ENABLE_X64 unset): every catalogue configuration is built in single
precision, the operator and its adjoint are applied to conforming inputs and the adjoint identity is tested on random
vectors.  Prints one JSON line per failure.  Called by vf/props/C01.py as a sub-process (the checks themselves run in
64-bit mode so that dyadic arithmetic is exact; this probe covers what only shows in the default mode)."""
import json
import os
import random
import sys
import warnings

warnings.filterwarnings("ignore")
os.environ.pop("JAX_ENABLE_X64", None)
os.environ["VERIF_DEFAULT_MODE"] = "1"
os.environ.setdefault("JAX_PLATFORMS", "cpu")
import numpy as np  # noqa: E402

from vf import linop_lib as L  # noqa: E402

L.F64, L.C128 = np.float32, np.complex64
seed, level, cap = int(sys.argv[1]), int(sys.argv[2]), int(sys.argv[3])
cat = L.catalogue(random.Random(seed), level)
rng = random.Random(seed + 17)
per = {}
n = 0
for i, e in enumerate(cat):
    per[e.group] = per.get(e.group, 0) + 1
    if per[e.group] > cap:
        continue
    key = {"catalogue_seed": seed, "level": level, "index": i, "mode": "default (32-bit)", **e.key()}
    try:
        A = e.build()
    except Exception as ex:  # noqa: BLE001
        print(json.dumps({"key": key, "what": "construction fails in the default numeric mode", "obs": f"{type(ex).__name__}: {str(ex)[:160]}"}))
        continue
    n += 1
    try:
        x = L.rand_dyadic(rng, A.input_shape, A.input_dtype)
        y = L.rand_dyadic(rng, A.output_shape, A.output_dtype)
        Ax = A(x)
    except Exception as ex:  # noqa: BLE001
        print(json.dumps({"key": key, "what": "applying the operator to a conforming input fails in the default numeric mode",
                          "obs": f"{type(ex).__name__}: {str(ex)[:160]}"}))
        continue
    try:
        z = A.adj(y)
        z2 = A.adj(y)          # a second application must work as well (buffers must not be consumed)
    except Exception as ex:  # noqa: BLE001
        print(json.dumps({"key": key, "what": "applying the adjoint to a conforming input fails in the default numeric mode",
                          "obs": f"{type(ex).__name__}: {str(ex)[:160]}"}))
        continue
    a = np.vdot(L.flat(y), L.flat(Ax))
    b = np.vdot(L.flat(z), L.flat(x))
    scale = max(1.0, float(np.linalg.norm(L.flat(Ax)) * np.linalg.norm(L.flat(y))))
    mixed = L.is_complex(A.input_dtype) != L.is_complex(A.output_dtype)
    d = abs(a.real - b.real) if mixed else abs(a - b)
    if not (d <= 2e-4 * scale) or not np.allclose(L.flat(z), L.flat(z2), equal_nan=False):
        print(json.dumps({"key": key, "what": "adjoint identity <Ax,y> = <x,A^H y> fails in the default numeric mode",
                          "obs": f"<Ax,y> = {a}, <x,A^H y> = {b}"}))
print(json.dumps({"done": n}))
