"""Dump the traced JAX program (jaxpr) of a function as a Coq term for LinAlg/Jaxpr.v.

The function is wrapped so that it maps ONE flat vector to ONE flat vector (block inputs /
outputs are split / concatenated inside the traced program), sub-jaxprs of call-like
primitives are inlined, every equation has exactly one output.
"""
from __future__ import annotations

import numpy as np

import jax
import jax.numpy as jnp
from jax import core

from vf import linop_lib as L

CALL_PARAMS = ("jaxpr", "call_jaxpr", "fun_jaxpr")
INLINE = {"pjit", "closed_call", "core_call", "custom_jvp_call", "custom_vjp_call",
          "custom_vjp_call_jaxpr", "remat", "checkpoint", "xla_call", "custom_lin"}


def flat_fn(fn, in_shape, in_dtype):
    """fn : (block) array -> (block) array   ==>   g : flat vector -> flat vector"""
    from scico.numpy import BlockArray
    import scico.numpy as snp
    from scico.numpy.util import is_nested

    def g(v):
        if is_nested(in_shape):
            parts, k = [], 0
            for s in in_shape:
                n = L.size_of(s)
                parts.append(v[k:k + n].reshape(s))
                k += n
            x = snp.blockarray(parts)
        else:
            x = v.reshape(in_shape)
        y = fn(x)
        if isinstance(y, BlockArray):
            return jnp.concatenate([b.ravel() for b in y])
        return y.ravel()
    n = L.size_of(in_shape)
    return g, jnp.zeros((n,), dtype=in_dtype)


def _is_zero_literal(v):
    try:
        a = np.asarray(v.val)
        return bool(np.all(a == 0))
    except Exception:
        return False


def _const_name(c):
    """a captured constant array that is identically zero is a zero, not an arbitrary constant"""
    try:
        return "const_zero" if bool(np.all(np.asarray(c) == 0)) else "const"
    except Exception:
        return "const"


def dump(fn, in_shape, in_dtype):
    """returns (eqs, out_index, unsupported) with eqs = [(prim, [arg,...])], arg = ('v', i) |
    ('z',) | ('l',)."""
    g, v0 = flat_fn(fn, in_shape, in_dtype)
    cj = jax.make_jaxpr(g)(v0)
    eqs: list = []
    unsupported: set = set()
    nvars = [1]                      # variable 0 is the input

    def new_var(prim, args):
        eqs.append((prim, args))
        nvars[0] += 1
        return nvars[0] - 1

    def walk(jaxpr, consts_idx, in_idx):
        env = {}
        for v, i in zip(jaxpr.constvars, consts_idx):
            env[v] = i
        for v, i in zip(jaxpr.invars, in_idx):
            env[v] = i

        def rd(a):
            if isinstance(a, core.Literal):
                return ("z",) if _is_zero_literal(a) else ("l",)
            return ("v", env[a])
        for e in jaxpr.eqns:
            name = e.primitive.name
            sub = None
            for k in CALL_PARAMS:
                if k in e.params:
                    sub = e.params[k]
                    break
            if name in INLINE and sub is not None:
                sj = sub.jaxpr if hasattr(sub, "jaxpr") else sub
                sconsts = getattr(sub, "consts", [])
                cidx = [new_var(_const_name(c), []) for c in sconsts]
                ins = []
                for a in e.invars[: len(sj.invars)] if len(e.invars) >= len(sj.invars) else e.invars:
                    r = rd(a)
                    if r[0] == "v":
                        ins.append(r[1])
                    else:   # literal passed to a call: materialise
                        ins.append(new_var("const_zero" if r[0] == "z" else "const", []))
                # custom_jvp/vjp calls may carry extra leading operands; align from the end
                if len(ins) != len(sj.invars):
                    unsupported.add(name + "(arity)")
                    for ov in e.outvars:
                        env[ov] = new_var("UNSUPPORTED", [rd(a) for a in e.invars])
                    continue
                outs = walk(sj, cidx, ins)
                for ov, oi in zip(e.outvars, outs):
                    env[ov] = oi
                continue
            if sub is not None or name in ("while", "scan", "cond", "xla_pmap"):
                unsupported.add(name)
                for ov in e.outvars:
                    env[ov] = new_var("UNSUPPORTED", [rd(a) for a in e.invars])
                continue
            if name == "convert_element_type":
                src = e.invars[0].aval.dtype
                dst = e.params["new_dtype"]
                if np.issubdtype(src, np.complexfloating) and not np.issubdtype(dst, np.complexfloating):
                    name = "complex_to_real"
                elif not np.issubdtype(src, np.complexfloating) and np.issubdtype(dst, np.complexfloating):
                    name = "real_to_complex"
            args = [rd(a) for a in e.invars]
            for ov in e.outvars:
                env[ov] = new_var(name, args)
        outs = []
        for o in jaxpr.outvars:
            if isinstance(o, core.Literal):
                outs.append(new_var("const_zero" if _is_zero_literal(o) else "const", []))
            else:
                outs.append(env[o])
        return outs
    cidx = [new_var(_const_name(c), []) for c in cj.consts]
    outs = walk(cj.jaxpr, cidx, [0])
    assert len(outs) == 1
    return eqs, outs[0], unsupported


def coq_arg(a):
    if a[0] == "v":
        return f"AVar {a[1]}"
    return "ALitZero" if a[0] == "z" else "ALit"


def coq_jaxpr(eqs):
    items = []
    for prim, args in eqs:
        if prim == "const_zero":
            # a literal zero materialised as a variable: model it as neg of the zero literal
            items.append('mkeqn "neg" [ALitZero]')
        else:
            items.append(f'mkeqn "{prim}" [' + "; ".join(coq_arg(a) for a in args) + "]")
    return "[" + ";\n   ".join(items) + "]"
