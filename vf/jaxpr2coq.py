"""Dump the traced JAX program (jaxpr) of a function as a Coq term for LinAlg/Jaxpr.v.

The function is wrapped so that it maps ONE flat vector to ONE flat vector (block inputs /
outputs are split / concatenated inside the traced program), sub-jaxprs of call-like
primitives are inlined, every equation has exactly one output.
"""
from __future__ import annotations

import numpy as np

import jax
import jax.numpy as jnp
from jax import core

from vf import linop_lib as L

CALL_PARAMS = ("jaxpr", "call_jaxpr", "fun_jaxpr")
INLINE = {"pjit", "closed_call", "core_call", "custom_jvp_call", "custom_vjp_call",
          "custom_vjp_call_jaxpr", "remat", "checkpoint", "xla_call", "custom_lin"}


def flat_fn(fn, in_shape, in_dtype):
    """fn : (block) array -> (block) array   ==>   g : flat vector -> flat vector"""
    from scico.numpy import BlockArray
    import scico.numpy as snp
    from scico.numpy.util import is_nested

    def g(v):
        if is_nested(in_shape):
            parts, k = [], 0
            for s in in_shape:
                n = L.size_of(s)
                parts.append(v[k:k + n].reshape(s))
                k += n
            x = snp.blockarray(parts)
        else:
            x = v.reshape(in_shape)
        y = fn(x)
        if isinstance(y, BlockArray):
            return jnp.concatenate([b.ravel() for b in y])
        return y.ravel()
    n = L.size_of(in_shape)
    return g, jnp.zeros((n,), dtype=in_dtype)


def _is_zero_literal(v):
    try:
        a = np.asarray(v.val)
        return bool(np.all(a == 0))
    except Exception:
        return False


def _const_name(c):
    """a captured constant array that is identically zero is a zero, not an arbitrary constant"""
    try:
        return "const_zero" if bool(np.all(np.asarray(c) == 0)) else "const"
    except Exception:
        return "const"


def dump(fn, in_shape, in_dtype):
    """returns (eqs, out_index, unsupported) with eqs = [(prim, [arg,...])], arg = ('v', i) |
    ('z',) | ('l',)."""
    g, v0 = flat_fn(fn, in_shape, in_dtype)
    cj = jax.make_jaxpr(g)(v0)
    eqs: list = []
    impls: list = []                 # how to re-evaluate each variable (for validate_table)
    unsupported: set = set()
    nvars = [1]                      # variable 0 is the input

    def new_var(prim, args, impl=None):
        eqs.append((prim, args))
        impls.append(impl)
        nvars[0] += 1
        return nvars[0] - 1

    def walk(jaxpr, consts_idx, in_idx):
        env = {}
        for v, i in zip(jaxpr.constvars, consts_idx):
            env[v] = i
        for v, i in zip(jaxpr.invars, in_idx):
            env[v] = i

        def rd(a):
            if isinstance(a, core.Literal):
                return ("z",) if _is_zero_literal(a) else ("l",)
            return ("v", env[a])
        for e in jaxpr.eqns:
            name = e.primitive.name
            sub = None
            for k in CALL_PARAMS:
                if k in e.params:
                    sub = e.params[k]
                    break
            if name in INLINE and sub is not None:
                sj = sub.jaxpr if hasattr(sub, "jaxpr") else sub
                sconsts = getattr(sub, "consts", [])
                cidx = [new_var(_const_name(c), [], ("const", c)) for c in sconsts]
                ins = []
                for a in e.invars[: len(sj.invars)] if len(e.invars) >= len(sj.invars) else e.invars:
                    r = rd(a)
                    if r[0] == "v":
                        ins.append(r[1])
                    else:   # literal passed to a call: materialise
                        ins.append(new_var("const_zero" if r[0] == "z" else "const", [], ("const", a.val)))
                # custom_jvp/vjp calls may carry extra leading operands; align from the end
                if len(ins) != len(sj.invars):
                    unsupported.add(name + "(arity)")
                    for ov in e.outvars:
                        env[ov] = new_var("UNSUPPORTED", [rd(a) for a in e.invars])
                    continue
                outs = walk(sj, cidx, ins)
                for ov, oi in zip(e.outvars, outs):
                    env[ov] = oi
                continue
            if sub is not None or name in ("while", "scan", "cond", "xla_pmap"):
                unsupported.add(name)
                for ov in e.outvars:
                    env[ov] = new_var("UNSUPPORTED", [rd(a) for a in e.invars])
                continue
            if name == "convert_element_type":
                src = e.invars[0].aval.dtype
                dst = e.params["new_dtype"]
                if np.issubdtype(src, np.complexfloating) and not np.issubdtype(dst, np.complexfloating):
                    name = "complex_to_real"
                elif not np.issubdtype(src, np.complexfloating) and np.issubdtype(dst, np.complexfloating):
                    name = "real_to_complex"
            if name == "gather":
                # an out-of-range read in FILL mode returns fill_value (NaN when None, e.g. mode="drop"): affine, not
                # linear, unless the fill is zero.  Decided after the walk (are the indices in range?).
                fv = e.params.get("fill_value")
                if "FILL" in str(e.params.get("mode")) and not (fv is not None and fv == 0):
                    name = "gather_nonzero_fill"
            args = [rd(a) for a in e.invars]
            spec = [("c", a.val) if isinstance(a, core.Literal) else ("v", env[a]) for a in e.invars]
            for k, ov in enumerate(e.outvars):
                env[ov] = new_var(name, args, ("prim", e.primitive, dict(e.params), spec, k))
        outs = []
        for o in jaxpr.outvars:
            if isinstance(o, core.Literal):
                outs.append(new_var("const_zero" if _is_zero_literal(o) else "const", [], ("const", o.val)))
            else:
                outs.append(env[o])
        return outs
    cidx = [new_var(_const_name(c), [], ("const", c)) for c in cj.consts]
    outs = walk(cj.jaxpr, cidx, [0])
    assert len(outs) == 1
    # a FILL-mode gather with a non-zero fill value is a plain gather when no index is out of range (the rule for
    # "gather" requires constant indices, so the indices met on this input are the indices met on every input)
    if any(p == "gather_nonzero_fill" for p, _ in eqs):
        try:
            vals = evaluate(impls, v0)
        except Exception:   # noqa: BLE001
            vals = None
        for i, (p, a) in enumerate(eqs):
            if p != "gather_nonzero_fill" or vals is None:
                continue
            _, prim, params, spec, k = impls[i]
            ops = [vals[s[1]] if s[0] == "v" else s[1] for s in spec]
            try:
                res = prim.bind(jnp.ones_like(jnp.asarray(ops[0])), *ops[1:], **params)
                if bool(jnp.all(res == 1)):
                    eqs[i] = ("gather", a)
            except Exception:   # noqa: BLE001
                pass
    dump.last_impls = impls
    return eqs, outs[0], unsupported


def evaluate(impls, x):
    """values of all variables (variable 0 = x) of a dumped program; None if it cannot be re-evaluated"""
    vals = [x]
    cache = {}
    for idx, im in enumerate(impls):
        if im is None:
            return None
        if im[0] == "const":
            vals.append(jnp.asarray(im[1]))
            continue
        _, prim, params, spec, k = im
        key = (id(prim), id(params) if False else tuple(map(str, spec)), idx - k)
        if key in cache:
            res = cache[key]
        else:
            args = [vals[a[1]] if a[0] == "v" else a[1] for a in spec]
            res = prim.bind(*args, **params)
            if not prim.multiple_results:
                res = [res]
            cache[key] = res
        vals.append(res[k])
    return vals


def validate_table(impls, kinds, x, y, a, b, tol):
    """check the trusted per-primitive table on the instances met: every variable's kind, as
    assigned by lin_check, must describe how its VALUE in the run on a x + b y relates to its
    values in the runs on x and y.  Returns a list of (variable index, kind, max deviation)."""
    vx, vy, vs = evaluate(impls, x), evaluate(impls, y), evaluate(impls, a * x + b * y)
    if vx is None:
        return None
    bad = []
    for i, k in enumerate(kinds):
        px, py, ps = (np.asarray(v[i]) for v in (vx, vy, vs))
        if px.dtype == bool or not np.issubdtype(px.dtype, np.number):
            continue
        if k == 0:      # constant
            d = max(np.abs(px - ps).max(initial=0), np.abs(py - ps).max(initial=0))
        elif k == 1:    # zero
            d = max(np.abs(px).max(initial=0), np.abs(py).max(initial=0), np.abs(ps).max(initial=0))
        elif k == 2:    # linear
            d = np.abs(ps - (a * px + b * py)).max(initial=0)
        else:           # conjugate-linear
            d = np.abs(ps - (np.conj(a) * px + np.conj(b) * py)).max(initial=0)
        scale = max(1.0, float(np.nan_to_num(np.abs(ps)).max(initial=0)))
        if not (d <= tol * scale):       # NaN-safe
            bad.append((i, k, float(d)))
    return bad


def coq_arg(a):
    if a[0] == "v":
        return f"AVar {a[1]}"
    return "ALitZero" if a[0] == "z" else "ALit"


def coq_jaxpr(eqs):
    items = []
    for prim, args in eqs:
        if prim == "const_zero":
            # a literal zero materialised as a variable: model it as neg of the zero literal
            items.append('mkeqn "neg" [ALitZero]')
        else:
            items.append(f'mkeqn "{prim}" [' + "; ".join(coq_arg(a) for a in args) + "]")
    return "[" + ";\n   ".join(items) + "]"
