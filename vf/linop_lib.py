"""Operator catalogue and dense-matrix extraction shared by C01 / C04 / C05 / C06.

Every entry of the catalogue is (class name, configuration dict, builder thunk).  All data are
small dyadic rationals, all dtypes float64 / complex128 unless the configuration says otherwise,
so that the implementation's outputs are exact binary fractions wherever the operator only adds
and multiplies.
"""
from __future__ import annotations

import itertools
import math
from fractions import Fraction

import numpy as np

import os

import jax
if os.environ.get("VERIF_DEFAULT_MODE") != "1":      # vf/default_mode_probe.py runs the library in its default 32-bit mode
    jax.config.update("jax_enable_x64", True)

import scico.numpy as snp
from scico import linop
from scico.numpy import BlockArray
from scico.numpy.util import is_nested

EXACT, APPROX = "exact", "approx"   # how the class's arithmetic relates to exact arithmetic


# ------------------------------------------------------------------ flat <-> shaped

def is_complex(dt):
    return np.issubdtype(np.dtype(dt), np.complexfloating)


def is_double(dt):
    """float64 / complex128 (exact on small dyadics); float32 / complex64 are single precision"""
    return np.dtype(dt) in (np.dtype(np.float64), np.dtype(np.complex128))


def size_of(shape):
    if is_nested(shape):
        return sum(size_of(s) for s in shape)
    return int(np.prod(shape)) if len(shape) else 1


def unflat(vec, shape, dtype):
    """1-D numpy vector -> array / block array of the given (possibly nested) shape."""
    if is_nested(shape):
        out, k = [], 0
        for s in shape:
            n = size_of(s)
            out.append(np.asarray(vec[k:k + n]).reshape(s).astype(dtype))
            k += n
        return snp.blockarray(out)
    return snp.array(np.asarray(vec).reshape(shape).astype(dtype))


def flat(x):
    if isinstance(x, BlockArray):
        return np.concatenate([np.asarray(b).ravel() for b in x])
    return np.asarray(x).ravel()


def dense(fn, in_shape, in_dtype, imag=False):
    """Matrix of fn on the canonical basis of the input space (columns fn(e_k)); with
    imag=True the columns are fn(i e_k) (complex input spaces only)."""
    n = size_of(in_shape)
    cols = []
    for k in range(n):
        e = np.zeros(n, dtype=np.complex128 if is_complex(in_dtype) else np.float64)
        e[k] = 1j if imag else 1.0
        cols.append(flat(fn(unflat(e, in_shape, in_dtype))))
    M = np.stack(cols, axis=1) if cols else np.zeros((0, 0))
    return M


def rand_dyadic(rng, shape, dtype, bits=2, lo=-3, hi=3):
    n = size_of(shape)
    den = 1 << bits
    v = np.array([rng.randint(lo * den, hi * den) / den for _ in range(n)], dtype=np.float64)
    if is_complex(dtype):
        v = v + 1j * np.array([rng.randint(lo * den, hi * den) / den for _ in range(n)])
    return unflat(v, shape, dtype)


def rand_dyadic_np(rng, shape, cplx=False, bits=2, lo=-3, hi=3):
    den = 1 << bits
    n = int(np.prod(shape)) if len(shape) else 1
    v = np.array([rng.randint(lo * den, hi * den) / den for _ in range(n)], dtype=np.float64)
    if cplx:
        v = v + 1j * np.array([rng.randint(lo * den, hi * den) / den for _ in range(n)])
    return v.reshape(shape)


# ------------------------------------------------------------------ matrices -> Coq

def cq_entry(z):
    from vf.common import qlit
    z = complex(z)
    return f"(cq {qlit(z.real)} {qlit(z.imag)})"


def coq_mat(M):
    M = np.asarray(M)
    return "[" + "; ".join("[" + "; ".join(cq_entry(z) for z in row) + "]" for row in M) + "]"


def coq_vec(v):
    return "[" + "; ".join(cq_entry(z) for z in np.asarray(v).ravel()) + "]"


# ------------------------------------------------------------------ the catalogue

class Entry:
    def __init__(self, cls, cfg, build, kind=EXACT, linear_field="C", group=None):
        self.cls, self.cfg, self.build, self.kind = cls, cfg, build, kind
        self.linear_field = linear_field
        self.group = group or cls       # the quick tier bounds the number of configurations per group

    def key(self):
        return {"class": self.cls, **{k: (v if isinstance(v, (int, float, str, bool, type(None))) else repr(v))
                                      for k, v in self.cfg.items()}}


F64, C128 = np.float64, np.complex128


def _shapes(level):
    base = [(3,), (2, 3), (3, 1), (1, 4)]
    if level > 0:
        base += [(5,), (2, 2, 3), (3, 2), (1,), (2, 1, 2)]
    return base


def catalogue(rng, level=0, classes=None):
    """Yield Entry objects.  level 0 = quick lattice, 1 = thorough lattice."""
    out = []

    def add(cls, cfg, build, kind=EXACT, group=None):
        if classes is None or cls in classes:
            out.append(Entry(cls, cfg, build, kind, group=group))

    dts = [F64, C128]
    # Identity / ScaledIdentity / Diagonal
    for shp in _shapes(level)[: (3 if level == 0 else 9)]:
        for dt in dts:
            add("Identity", dict(shape=shp, dtype=np.dtype(dt).name),
                lambda shp=shp, dt=dt: linop.Identity(shp, input_dtype=dt))
            s = 1.5 - 0.5j if is_complex(dt) else -2.5
            add("ScaledIdentity", dict(shape=shp, dtype=np.dtype(dt).name, scalar=str(s)),
                lambda shp=shp, dt=dt, s=s: linop.ScaledIdentity(s, shp, input_dtype=dt))
            d = rand_dyadic_np(rng, shp, cplx=is_complex(dt))
            add("Diagonal", dict(shape=shp, dtype=np.dtype(dt).name, diagonal=d.tolist().__repr__()),
                lambda d=d, dt=dt: linop.Diagonal(snp.array(d.astype(dt))))
    # Diagonal with broadcasting input shape
    for (dshape, ishape) in [((3,), (2, 3)), ((2, 1), (2, 3)), ((1, 3), (2, 3))]:
        for dt in dts:
            d = rand_dyadic_np(rng, dshape, cplx=is_complex(dt))
            add("Diagonal", dict(shape=ishape, dshape=dshape, dtype=np.dtype(dt).name, diagonal=repr(d.tolist()), broadcast=True),
                lambda d=d, dt=dt, ishape=ishape: linop.Diagonal(snp.array(d.astype(dt)), input_shape=ishape, input_dtype=dt))
    # Diagonal / Identity on block shapes
    for dt in dts:
        bs = ((2,), (1, 2))
        d = [rand_dyadic_np(rng, s, cplx=is_complex(dt)).astype(dt) for s in bs]
        add("Diagonal", dict(shape=bs, dtype=np.dtype(dt).name, block=True, diagonal=repr([x.tolist() for x in d])),
            lambda d=d: linop.Diagonal(snp.blockarray(d)))
        add("Identity", dict(shape=bs, dtype=np.dtype(dt).name, block=True),
            lambda bs=bs, dt=dt: linop.Identity(bs, input_dtype=dt))
    # MatrixOperator
    for (m, n) in [(2, 3), (3, 2), (3, 3), (1, 2)] + ([(4, 2), (2, 5)] if level else []):
        for dt in dts:
            A = rand_dyadic_np(rng, (m, n), cplx=is_complex(dt))
            add("MatrixOperator", dict(m=m, n=n, dtype=np.dtype(dt).name, A=repr(A.tolist()), input_cols=0),
                lambda A=A, dt=dt: linop.MatrixOperator(snp.array(A.astype(dt))))
            for ic in ([2] if level == 0 else [1, 2, 3]):
                add("MatrixOperator", dict(m=m, n=n, dtype=np.dtype(dt).name, A=repr(A.tolist()), input_cols=ic),
                    lambda A=A, dt=dt, ic=ic: linop.MatrixOperator(snp.array(A.astype(dt)), input_cols=ic))
    # finite differences
    bopts = [(None, None, False), (0, None, False), (1, None, False), (None, 0, False), (None, 1, False),
             (0, 0, False), (1, 1, False), (0, 1, False), (1, 0, False), (None, None, True)]
    for shp in _shapes(level)[: (4 if level == 0 else 9)]:
        for ax in range(len(shp)):
            for (pre, app, circ) in (bopts if level else rng.sample(bopts, 4) + [(None, None, True)]):
                if shp[ax] == 1 and pre is None and app is None and not circ:
                    continue  # empty output
                for dt in (dts if level else [rng.choice(dts)]):
                    add("SingleAxisFiniteDifference",
                        dict(shape=shp, axis=ax, prepend=pre, append=app, circular=circ, dtype=np.dtype(dt).name),
                        lambda shp=shp, ax=ax, pre=pre, app=app, circ=circ, dt=dt:
                        linop.SingleAxisFiniteDifference(shp, input_dtype=dt, axis=ax, prepend=pre, append=app, circular=circ))
        axsets = [None] + [tuple(c) for r in range(1, len(shp) + 1) for c in itertools.combinations(range(len(shp)), r)]
        for axes in (axsets if level else axsets[:2]):
            for (pre, app, circ) in [(None, None, True), (None, 0, False), (1, None, False)] + ([(0, 1, False), (None, 1, False)] if level else []):
                dt = rng.choice(dts)
                add("FiniteDifference",
                    dict(shape=shp, axes=axes, prepend=pre, append=app, circular=circ, dtype=np.dtype(dt).name),
                    lambda shp=shp, axes=axes, pre=pre, app=app, circ=circ, dt=dt:
                    linop.FiniteDifference(shp, input_dtype=dt, axes=axes, prepend=pre, append=app, circular=circ))
    # Pad / Crop / Slice / Transpose / Reshape / Sum
    for shp in [(3,), (2, 3), (2, 1, 2)]:
        nd = len(shp)
        for dt in dts:
            pw = tuple((rng.randint(0, 2), rng.randint(0, 2)) for _ in range(nd))
            add("Pad", dict(shape=shp, pad_width=pw, dtype=np.dtype(dt).name),
                lambda shp=shp, pw=pw, dt=dt: linop.Pad(shp, pad_width=pw, input_dtype=dt))
            add("Pad", dict(shape=shp, pad_width=1, dtype=np.dtype(dt).name),
                lambda shp=shp, dt=dt: linop.Pad(shp, pad_width=1, input_dtype=dt))
            big = tuple(s + 2 for s in shp)
            cw = tuple((rng.randint(0, 1), rng.randint(0, 1)) for _ in range(nd))
            add("Crop", dict(shape=big, crop_width=cw, dtype=np.dtype(dt).name),
                lambda big=big, cw=cw, dt=dt: linop.Crop(cw, big, input_dtype=dt))
            add("Sum", dict(shape=shp, axis=None, dtype=np.dtype(dt).name),
                lambda shp=shp, dt=dt: linop.Sum(shp, input_dtype=dt))
            for ax in range(nd):
                add("Sum", dict(shape=shp, axis=ax, dtype=np.dtype(dt).name),
                    lambda shp=shp, ax=ax, dt=dt: linop.Sum(shp, axis=ax, input_dtype=dt))
            if nd >= 2:
                perm = tuple(reversed(range(nd)))
                add("Transpose", dict(shape=shp, axes=perm, dtype=np.dtype(dt).name),
                    lambda shp=shp, perm=perm, dt=dt: linop.Transpose(shp, axes=perm, input_dtype=dt))
                if nd == 3:
                    add("Transpose", dict(shape=shp, axes=(1, 2, 0), dtype=np.dtype(dt).name),
                        lambda shp=shp, dt=dt: linop.Transpose(shp, axes=(1, 2, 0), input_dtype=dt))
            newshape = (int(np.prod(shp)),) if nd > 1 else (1, shp[0])
            add("Reshape", dict(shape=shp, newshape=newshape, dtype=np.dtype(dt).name),
                lambda shp=shp, newshape=newshape, dt=dt: linop.Reshape(shp, shape=newshape, input_dtype=dt))
    slices = [((5,), np.s_[1:4]), ((5,), np.s_[::2]), ((5,), np.s_[::-1]), ((5,), np.s_[3:0:-2]), ((5,), np.s_[-2:]),
              ((3, 4), np.s_[1:, ::2]), ((3, 4), np.s_[:, 1]), ((3, 4), np.s_[..., 0:2]), ((3, 4), np.s_[1]),
              ((2, 3, 2), np.s_[:, 1:3, ::-1])]
    for shp, idx in slices:
        dt = rng.choice(dts)
        add("Slice", dict(shape=shp, idx=repr(idx), dtype=np.dtype(dt).name),
            lambda shp=shp, idx=idx, dt=dt: linop.Slice(idx, shp, input_dtype=dt))
    # stacks
    def small_ops(dt, shp=(3,)):
        d1 = rand_dyadic_np(rng, shp, cplx=is_complex(dt)).astype(dt)
        A = rand_dyadic_np(rng, (2, shp[0]), cplx=is_complex(dt)).astype(dt)
        B = rand_dyadic_np(rng, (3, shp[0]), cplx=is_complex(dt)).astype(dt)
        return d1, A, B
    for dt in dts:
        d1, A, B = small_ops(dt)
        for collapse in (True, False):
            add("VerticalStack", dict(kind="same-shape", collapse_output=collapse, dtype=np.dtype(dt).name, d=repr(d1.tolist())),
                lambda d1=d1, dt=dt, collapse=collapse: linop.VerticalStack(
                    [linop.Diagonal(snp.array(d1)), linop.Identity((3,), input_dtype=dt), linop.ScaledIdentity(2.0, (3,), input_dtype=dt)],
                    collapse_output=collapse))
            add("VerticalStack", dict(kind="mixed-shape", collapse_output=collapse, dtype=np.dtype(dt).name, A=repr(A.tolist()), B=repr(B.tolist())),
                lambda A=A, B=B, collapse=collapse: linop.VerticalStack(
                    [linop.MatrixOperator(snp.array(A)), linop.MatrixOperator(snp.array(B))], collapse_output=collapse))
            for collapse_in in (True, False):
                add("DiagonalStack", dict(kind="same-shape", collapse_input=collapse_in, collapse_output=collapse, dtype=np.dtype(dt).name, A=repr(A.tolist())),
                    lambda A=A, d1=d1, dt=dt, collapse=collapse, collapse_in=collapse_in: linop.DiagonalStack(
                        [linop.MatrixOperator(snp.array(A)), linop.MatrixOperator(snp.array(2 * A))],
                        collapse_input=collapse_in, collapse_output=collapse))
                add("DiagonalStack", dict(kind="mixed-shape", collapse_input=collapse_in, collapse_output=collapse, dtype=np.dtype(dt).name, A=repr(A.tolist()), d=repr(d1.tolist())),
                    lambda A=A, d1=d1, collapse=collapse, collapse_in=collapse_in: linop.DiagonalStack(
                        [linop.MatrixOperator(snp.array(A)), linop.Diagonal(snp.array(d1))],
                        collapse_input=collapse_in, collapse_output=collapse))
        for (ia, oa) in [(0, None), (1, None), (0, 1), (1, 0), (-1, 0)]:
            add("DiagonalReplicated", dict(input_axis=ia, output_axis=oa, replicates=2, dtype=np.dtype(dt).name, A=repr(A.tolist())),
                lambda A=A, ia=ia, oa=oa: linop.DiagonalReplicated(
                    linop.MatrixOperator(snp.array(A)), replicates=2, input_axis=ia, output_axis=oa, map_type="vmap"))
    # composed / algebra of generic operators is covered by the expression generator (C05)
    # user-defined operators with automatic adjoint
    for dt in dts:
        A = rand_dyadic_np(rng, (2, 3), cplx=is_complex(dt)).astype(dt)
        add("LinearOperator(auto-adjoint)", dict(kind="matmul", dtype=np.dtype(dt).name, A=repr(A.tolist())),
            lambda A=A, dt=dt: linop.LinearOperator(input_shape=(3,), eval_fn=lambda x: snp.array(A) @ x, input_dtype=dt))
        add("LinearOperator(auto-adjoint)", dict(kind="flip+cumsum", dtype=np.dtype(dt).name),
            lambda dt=dt: linop.LinearOperator(input_shape=(2, 3), eval_fn=lambda x: snp.cumsum(x[::-1], axis=1), input_dtype=dt))
    Arc = rand_dyadic_np(rng, (2, 3), cplx=True)
    add("LinearOperator(auto-adjoint)", dict(kind="real-to-complex", dtype="float64", A=repr(Arc.tolist())),
        lambda Arc=Arc: linop.LinearOperator(input_shape=(3,), eval_fn=lambda x: snp.array(Arc) @ x, input_dtype=F64))
    # convolutions (exact: sums of products of dyadics)
    for (xs, hs) in [((4,), (2,)), ((3, 4), (2, 2)), ((4,), (3,))] + ([((3, 3), (3, 2)), ((2, 3, 2), (1, 2, 2))] if level else []):
        for mode in ("full", "valid", "same"):
            for dt in dts:
                h = rand_dyadic_np(rng, hs, cplx=is_complex(dt)).astype(dt)
                add("Convolve", dict(shape=xs, h=repr(h.tolist()), mode=mode, dtype=np.dtype(dt).name),
                    lambda xs=xs, h=h, mode=mode, dt=dt: linop.Convolve(snp.array(h), xs, input_dtype=dt, mode=mode))
                add("ConvolveByX", dict(shape=hs, x=repr(h.tolist()), xshape=xs, mode=mode, dtype=np.dtype(dt).name),
                    lambda xs=xs, hs=hs, h=h, mode=mode, dt=dt, r=rand_dyadic_np(rng, xs, cplx=is_complex(dt)).astype(dt):
                    linop.ConvolveByX(snp.array(r), hs, input_dtype=dt, mode=mode))
    # FFT based (approximate arithmetic)
    cc_cfgs = [((4,), (2,), None, None), ((3, 4), (2, 2), None, None), ((4,), (3,), None, 1), ((3, 4), (2, 2), None, (0, 1)),
               ((2, 3, 4), (2, 2), 2, None), ((5,), (5,), None, None)]
    if level:
        cc_cfgs += [((4,), (2,), None, 0.5), ((2, 3, 4), (2, 1, 2, 2), 2, None), ((3, 4), (3, 2), None, (1, 0.25))]
    for (xs, hs, nd, hc) in cc_cfgs:
        for dt in dts:
            h = rand_dyadic_np(rng, hs, cplx=is_complex(dt)).astype(dt)
            add("CircularConvolve", dict(shape=xs, h=repr(h.tolist()), ndims=nd, h_center=hc, dtype=np.dtype(dt).name),
                lambda xs=xs, h=h, nd=nd, hc=hc, dt=dt: linop.CircularConvolve(snp.array(h), xs, ndims=nd, input_dtype=dt, h_center=hc),
                kind=APPROX)
    dft_cfgs = [((4,), None, None, None), ((2, 4), None, None, None), ((2, 4), (1,), None, None), ((3,), None, (5,), None),
                ((2, 3), (0,), (4,), None), ((4,), None, None, "ortho")]
    if level:
        dft_cfgs += [((2, 3), None, (2, 5), None), ((4, 2), (0,), (2,), None), ((2, 2, 2), (0, 2), None, "forward")]
    for (shp, axes, axshape, norm) in dft_cfgs:
        add("DFT", dict(shape=shp, axes=axes, axes_shape=axshape, norm=norm),
            lambda shp=shp, axes=axes, axshape=axshape, norm=norm: linop.DFT(shp, axes=axes, axes_shape=axshape, norm=norm),
            kind=(EXACT if all(s in (1, 2, 4) for s in (axshape or [shp[a] for a in (axes or range(len(shp)))])) and norm is None else APPROX))
    # projected gradients
    from scico.linop import PolarGradient, CylindricalGradient, SphericalGradient, ProjectedGradient
    for dt in dts:
        add("ProjectedGradient", dict(shape=(3, 4), axes=(0, 1), coord=None, dtype=np.dtype(dt).name),
            lambda dt=dt: ProjectedGradient((3, 4), input_dtype=dt))
        add("ProjectedGradient", dict(shape=(3, 4), axes=(1,), coord=None, dtype=np.dtype(dt).name),
            lambda dt=dt: ProjectedGradient((3, 4), axes=(1,), input_dtype=dt))
        c0 = rand_dyadic_np(rng, (2, 3, 4))
        add("ProjectedGradient", dict(shape=(3, 4), coord=repr(c0.tolist()), dtype=np.dtype(dt).name),
            lambda dt=dt, c0=c0: ProjectedGradient((3, 4), coord=(snp.array(c0),), input_dtype=dt))
    for (ang, rad) in [(True, True), (True, False), (False, True)]:
        add("PolarGradient", dict(shape=(3, 4), angular=ang, radial=rad),
            lambda ang=ang, rad=rad: PolarGradient((3, 4), angular=ang, radial=rad, input_dtype=F64), kind=APPROX)
    add("PolarGradient", dict(shape=(2, 3, 4), axes=(1, 2)),
        lambda: PolarGradient((2, 3, 4), axes=(1, 2), input_dtype=F64), kind=APPROX)
    add("CylindricalGradient", dict(shape=(3, 3, 2)),
        lambda: CylindricalGradient((3, 3, 2), input_dtype=F64), kind=APPROX)
    add("SphericalGradient", dict(shape=(3, 2, 3)),
        lambda: SphericalGradient((3, 2, 3), input_dtype=F64), kind=APPROX)
    # X-ray
    from scico.linop.xray import XRayTransform2D, XRayTransform3D
    xr = [((3, 3), [0.0, np.pi / 2], None), ((3, 4), [0.3, 1.1, 2.0], None), ((4, 4), [0.0, 0.7], 3), ((3, 3), [np.pi / 4], 8)]
    if level:
        xr += [((5, 3), [0.1, np.pi / 2, 2.5, 3.0], 4), ((2, 5), [1.3], None)]
    for (shp, angles, ndet) in xr:
        add("XRayTransform2D", dict(shape=shp, angles=angles, det_count=ndet),
            lambda shp=shp, angles=angles, ndet=ndet: XRayTransform2D(shp, angles=np.array(angles), det_count=ndet), kind=APPROX)
    # unit pixels at the documented angles 0 and pi/2: the projections are the row / column sums
    for (shp, ndet) in [((3, 5), 7), ((4, 6), 8), ((3, 3), 5), ((2, 4), 6), ((5, 3), 9)] + ([((4, 4), 6), ((1, 3), 3)] if level else []):
        add("XRayTransform2D", dict(shape=shp, angles=[0.0, np.pi / 2], det_count=ndet, dx=1.0),
            lambda shp=shp, ndet=ndet: XRayTransform2D(shp, angles=np.array([0.0, np.pi / 2]), det_count=ndet, dx=1.0), kind=APPROX)
    for (shp, dshape) in [((2, 3, 2), (4, 4)), ((3, 2, 2), (2, 3))]:
        add("XRayTransform3D", dict(shape=shp, det_shape=dshape),
            lambda shp=shp, dshape=dshape: XRayTransform3D(
                shp, XRayTransform3D.matrices_from_euler_angles(shp, dshape, "X", np.array([[0.0], [0.6], [1.4]])), dshape), kind=APPROX)
    # optics
    from scico.linop import optics
    for (shp, dx) in [((4,), 0.5), ((3, 4), 0.5), ((3, 4), (0.5, 0.25))]:
        for pf in (1, 2):
            add("AngularSpectrumPropagator", dict(shape=shp, dx=dx, pad_factor=pf),
                lambda shp=shp, dx=dx, pf=pf: optics.AngularSpectrumPropagator(shp, dx, k0=2.0, z=1.0, pad_factor=pf), kind=APPROX)
            add("FresnelPropagator", dict(shape=shp, dx=dx, pad_factor=pf),
                lambda shp=shp, dx=dx, pf=pf: optics.FresnelPropagator(shp, dx, k0=2.0, z=1.0, pad_factor=pf), kind=APPROX)
        add("FraunhoferPropagator", dict(shape=shp, dx=dx),
            lambda shp=shp, dx=dx: optics.FraunhoferPropagator(shp, dx, k0=2.0, z=1.0), kind=APPROX)
    # Abel
    from scico.linop.abel import AbelTransform
    add("AbelTransform", dict(shape=(4, 5)), lambda: AbelTransform((4, 5)), kind=APPROX)
    # ---- later additions (appended so that the indices / random draws of the entries above stay what they were)
    # circular convolution with filter and input of different fields: real filter on a complex space (complex-
    # linear, complex output) and complex filter on a real space (real-linear map R^n -> C^n)
    for (xs, hs, nd, hc) in [((4,), (2,), None, None), ((3, 4), (2, 2), None, (0, 1)), ((2, 3, 4), (2, 2), 2, None)]:
        for (hdt, dt) in [(F64, C128), (C128, F64)]:
            h = rand_dyadic_np(rng, hs, cplx=is_complex(hdt)).astype(hdt)
            add("CircularConvolve", dict(shape=xs, h=repr(h.tolist()), ndims=nd, h_center=hc, dtype=np.dtype(dt).name,
                                         hdtype=np.dtype(hdt).name),
                lambda xs=xs, h=h, nd=nd, hc=hc, dt=dt: linop.CircularConvolve(snp.array(h), xs, ndims=nd, input_dtype=dt, h_center=hc),
                kind=APPROX, group="CircularConvolve(mixed fields)")
    # projected gradients: axes in every order (incl. the 3-cycles, which are not their own inverse), equal and
    # unequal axis lengths, extra (batch) axes, explicit centre, subsets of the local axes, central differences
    pol = [dict(shape=(3, 4), axes=(1, 0)), dict(shape=(3, 3), axes=(1, 0), center=(0.5, 1.0)), dict(shape=(2, 3, 3), axes=(2, 0)),
           dict(shape=(3, 4), cdiff=True), dict(shape=(4, 3), center=(1.0, 1.0))]
    for c in pol:
        add("PolarGradient", dict(c), lambda c=c: PolarGradient(c["shape"], axes=c.get("axes"), center=c.get("center"),
                                                               cdiff=c.get("cdiff", False), input_dtype=F64), kind=APPROX, group="PolarGradient(axes)")
    cyl = [dict(shape=(3, 3, 3), axes=(1, 2, 0)), dict(shape=(2, 3, 4), axes=(2, 0, 1)), dict(shape=(3, 2, 3), axes=(0, 2, 1)),
           dict(shape=(2, 3, 2, 2), axes=(3, 1, 2)), dict(shape=(3, 2, 2), angular=False), dict(shape=(2, 3, 2), radial=False, axial=False)]
    for c in cyl:
        add("CylindricalGradient", dict(c), lambda c=c: CylindricalGradient(
            c["shape"], axes=c.get("axes"), angular=c.get("angular", True), radial=c.get("radial", True),
            axial=c.get("axial", True), input_dtype=F64), kind=APPROX, group="CylindricalGradient(axes)")
    sph = [dict(shape=(3, 3, 3), axes=(1, 2, 0)), dict(shape=(3, 3, 3), axes=(2, 0, 1)), dict(shape=(2, 3, 4), axes=(1, 2, 0)),
           dict(shape=(2, 2, 2, 2), axes=(3, 1, 2)), dict(shape=(3, 2, 3), axes=(2, 1, 0)), dict(shape=(2, 3, 2), center=(0.5, 1.0, 0.0)),
           dict(shape=(3, 2, 2), azimuthal=False), dict(shape=(2, 2, 3), polar=False, radial=False), dict(shape=(3, 3, 2), cdiff=True)]
    for c in sph:
        add("SphericalGradient", dict(c), lambda c=c: SphericalGradient(
            c["shape"], axes=c.get("axes"), center=c.get("center"), azimuthal=c.get("azimuthal", True), polar=c.get("polar", True),
            radial=c.get("radial", True), cdiff=c.get("cdiff", False), input_dtype=F64), kind=APPROX, group="SphericalGradient(axes)")
    # the same projected gradients on complex arrays (complex-linear maps), and with the origin on a voxel centre
    add("PolarGradient", dict(shape=(3, 4), dtype="complex128"), lambda: PolarGradient((3, 4), input_dtype=C128),
        kind=APPROX, group="ProjectedGradient(complex)")
    add("PolarGradient", dict(shape=(3, 3), dtype="complex128", axes=(1, 0)), lambda: PolarGradient((3, 3), axes=(1, 0), input_dtype=C128),
        kind=APPROX, group="ProjectedGradient(complex)")
    add("CylindricalGradient", dict(shape=(3, 3, 2), dtype="complex128"), lambda: CylindricalGradient((3, 3, 2), input_dtype=C128),
        kind=APPROX, group="ProjectedGradient(complex)")
    add("SphericalGradient", dict(shape=(2, 3, 2), dtype="complex128"), lambda: SphericalGradient((2, 3, 2), input_dtype=C128),
        kind=APPROX, group="ProjectedGradient(complex)")
    add("SphericalGradient", dict(shape=(3, 3, 3), dtype="complex128", axes=(2, 0, 1)),
        lambda: SphericalGradient((3, 3, 3), axes=(2, 0, 1), input_dtype=C128), kind=APPROX, group="ProjectedGradient(complex)")
    add("SphericalGradient", dict(shape=(3, 5, 3)), lambda: SphericalGradient((3, 5, 3), input_dtype=F64),
        kind=APPROX, group="ProjectedGradient(origin on a voxel)")
    add("SphericalGradient", dict(shape=(4, 4, 4), center=(2.0, 1.0, 1.0)),
        lambda: SphericalGradient((4, 4, 4), center=(2.0, 1.0, 1.0), input_dtype=F64), kind=APPROX, group="ProjectedGradient(origin on a voxel)")
    add("CylindricalGradient", dict(shape=(3, 3, 2), center=(1.0, 1.0, 1.0)),
        lambda: CylindricalGradient((3, 3, 2), center=(1.0, 1.0, 1.0), input_dtype=F64), kind=APPROX, group="ProjectedGradient(origin on a voxel)")
    add("PolarGradient", dict(shape=(3, 5)), lambda: PolarGradient((3, 5), input_dtype=F64), kind=APPROX,
        group="ProjectedGradient(origin on a voxel)")
    # diagonal stacks whose input and output collapse differently (inputs in blocks / outputs stacked and vice versa)
    for dt in dts:
        A2 = rand_dyadic_np(rng, (2, 3), cplx=is_complex(dt)).astype(dt)
        B2 = rand_dyadic_np(rng, (2, 4), cplx=is_complex(dt)).astype(dt)
        C2 = rand_dyadic_np(rng, (3, 3), cplx=is_complex(dt)).astype(dt)
        for (ci, co) in [(True, True), (False, True), (True, False)]:
            add("DiagonalStack", dict(kind="blocks-in/stack-out", collapse_input=ci, collapse_output=co, dtype=np.dtype(dt).name,
                                      A=repr(A2.tolist()), B=repr(B2.tolist())),
                lambda A2=A2, B2=B2, ci=ci, co=co: linop.DiagonalStack(
                    [linop.MatrixOperator(snp.array(A2)), linop.MatrixOperator(snp.array(B2))], collapse_input=ci, collapse_output=co),
                group="DiagonalStack(mixed collapse)")
            add("DiagonalStack", dict(kind="stack-in/blocks-out", collapse_input=ci, collapse_output=co, dtype=np.dtype(dt).name,
                                      A=repr(A2.tolist()), C=repr(C2.tolist())),
                lambda A2=A2, C2=C2, ci=ci, co=co: linop.DiagonalStack(
                    [linop.MatrixOperator(snp.array(A2)), linop.MatrixOperator(snp.array(C2))], collapse_input=ci, collapse_output=co),
                group="DiagonalStack(mixed collapse)")
    add("DiagonalStack", dict(kind="identity+sum", dtype="float64"),
        lambda: linop.DiagonalStack([linop.Identity((3, 4), input_dtype=F64), linop.Sum((2, 3, 4), axis=0, input_dtype=F64)]),
        group="DiagonalStack(mixed collapse)")
    # 3-D X-ray transforms whose detector covers the shadow of the volume in every view (mass conservation), one of them
    # with more slices than the projector's internal slab length (10), so that several slabs are accumulated
    for (shp, dshape) in [((11, 2, 2), (14, 14)), ((2, 3, 2), (6, 6)), ((12, 1, 2), (15, 15))]:
        add("XRayTransform3D", dict(shape=shp, det_shape=dshape, covers=True),
            lambda shp=shp, dshape=dshape: XRayTransform3D(
                shp, XRayTransform3D.matrices_from_euler_angles(shp, dshape, "X", np.array([[0.0], [0.6], [1.4]])), dshape),
            kind=APPROX, group="XRayTransform3D(covering detector)")
    # central differences for the cylindrical gradient, incl. a permuted axis order
    for c in [dict(shape=(3, 3, 2), cdiff=True), dict(shape=(2, 3, 3), axes=(1, 2, 0), cdiff=True)]:
        add("CylindricalGradient", dict(c), lambda c=c: CylindricalGradient(c["shape"], axes=c.get("axes"), cdiff=True, input_dtype=F64),
            kind=APPROX, group="CylindricalGradient(cdiff)")
    # the padded circular convolution of the learned-model examples (single precision kernel), real and complex arrays
    try:
        from scico.flax.examples.data_preprocessing import PaddedCircularConvolve
        for dtn in ("float32", "complex64"):
            add("PaddedCircularConvolve", dict(output_size=(4, 4), channels=1, kernel_size=3, blur_sigma=1.0, dtype=dtn),
                lambda dtn=dtn: PaddedCircularConvolve((4, 4), 1, 3, 1.0, dtype=np.dtype(dtn).type), kind=APPROX)
            add("PaddedCircularConvolve", dict(output_size=(3, 4), channels=2, kernel_size=(3, 3), blur_sigma=0.5, dtype=dtn),
                lambda dtn=dtn: PaddedCircularConvolve((3, 4), 2, (3, 3), 0.5, dtype=np.dtype(dtn).type), kind=APPROX)
    except ImportError:
        pass
    # projected gradient built directly: one axis / central differences / explicit local axes
    for c in [dict(shape=(3, 4), axes=(1,), cdiff=True), dict(shape=(2, 3, 2), axes=(0,), cdiff=True), dict(shape=(3, 4), axes=(0, 1), cdiff=True),
              dict(shape=(4,), axes=(0,), cdiff=True)]:
        add("ProjectedGradient", dict(c, coord=None, dtype="float64"),
            lambda c=c: ProjectedGradient(c["shape"], axes=c["axes"], cdiff=True, input_dtype=F64), kind=APPROX,
            group="ProjectedGradient(cdiff)")
    # the constructor's jit option switched off (the adjoint is then derived / cached differently)
    add("AngularSpectrumPropagator", dict(shape=(4,), dx=0.5, pad_factor=1, jit=False),
        lambda: optics.AngularSpectrumPropagator((4,), 0.5, k0=2.0, z=1.0, pad_factor=1, jit=False), kind=APPROX, group="jit=False")
    add("FresnelPropagator", dict(shape=(3, 4), dx=(0.5, 0.25), pad_factor=1, jit=False),
        lambda: optics.FresnelPropagator((3, 4), (0.5, 0.25), k0=2.0, z=1.0, pad_factor=1, jit=False), kind=APPROX, group="jit=False")
    add("FraunhoferPropagator", dict(shape=(4,), dx=0.5, jit=False),
        lambda: optics.FraunhoferPropagator((4,), 0.5, k0=2.0, z=1.0, jit=False), kind=APPROX, group="jit=False")
    add("DFT", dict(shape=(2, 4), axes=None, axes_shape=None, norm=None, jit=False),
        lambda: linop.DFT((2, 4), jit=False), kind=EXACT, group="jit=False")
    add("SingleAxisFiniteDifference", dict(shape=(2, 3), axis=1, prepend=None, append=0, circular=False, dtype="complex128", jit=False),
        lambda: linop.SingleAxisFiniteDifference((2, 3), input_dtype=C128, axis=1, append=0, jit=False), group="jit=False")
    add("CircularConvolve", dict(shape=(4,), h="[1.0, -0.5]", ndims=None, h_center=None, dtype="float64", jit=False),
        lambda: linop.CircularConvolve(snp.array(np.array([1.0, -0.5])), (4,), input_dtype=F64, jit=False), kind=APPROX, group="jit=False")
    # automatic adjoint on the jit path (jit=True) for all field combinations, incl. real -> complex
    Arc2 = rand_dyadic_np(rng, (2, 3), cplx=True)
    add("LinearOperator(auto-adjoint)", dict(kind="real-to-complex", dtype="float64", A=repr(Arc2.tolist()), jit=True),
        lambda Arc2=Arc2: linop.LinearOperator(input_shape=(3,), eval_fn=lambda x: snp.array(Arc2) @ x, input_dtype=F64, jit=True),
        group="LinearOperator(auto-adjoint, jit)")
    for dt in dts:
        Aj = rand_dyadic_np(rng, (2, 3), cplx=is_complex(dt)).astype(dt)
        add("LinearOperator(auto-adjoint)", dict(kind="matmul", dtype=np.dtype(dt).name, A=repr(Aj.tolist()), jit=True),
            lambda Aj=Aj, dt=dt: linop.LinearOperator(input_shape=(3,), eval_fn=lambda x: snp.array(Aj) @ x, input_dtype=dt, jit=True),
            group="LinearOperator(auto-adjoint, jit)")
    # a real diagonal acting on a complex space (the derived operators must stay complex-linear on that space)
    dre = rand_dyadic_np(rng, (3,))
    add("Diagonal", dict(shape=(3,), dtype="complex128", diagonal=repr(dre.tolist()), real_diagonal=True),
        lambda dre=dre: linop.Diagonal(snp.array(dre), input_dtype=C128), group="Diagonal(real diagonal, complex space)")
    # DFT with axes not in increasing order (incl. negative indices) paired with an axes_shape
    for (shp, axes, axshape, norm) in [((2, 3, 2), (2, 0), (3, 4), None), ((3, 2), (-1, 0), (4, 2), "forward"),
                                       ((2, 2, 3), (1, 0), (4, 1), "ortho"), ((3, 2, 2), (2, 1), None, None)]:
        add("DFT", dict(shape=shp, axes=axes, axes_shape=axshape, norm=norm),
            lambda shp=shp, axes=axes, axshape=axshape, norm=norm: linop.DFT(shp, axes=axes, axes_shape=axshape, norm=norm),
            kind=APPROX, group="DFT(axes order)")
    return out


# ------------------------------------------------------------------ realification

def rdim(shape, dtype):
    n = size_of(shape)
    return 2 * n if is_complex(dtype) else n


def realify(fn, in_shape, in_dtype, real_target=False):
    """Real matrix of the real-linear map fn between realified spaces
    (complex space of n entries = R^(2n) ordered [re..., im...]).
    real_target: the codomain is a REAL space; if the implementation returns complex values there only their real
    parts enter the real inner product Re<.,.> the property is stated in (the stray imaginary part is a declared-
    dtype matter, C12)."""
    M = dense(fn, in_shape, in_dtype)
    if real_target and np.iscomplexobj(M):
        M = M.real
    cplx_out = np.iscomplexobj(M)
    blocks = [M]
    if is_complex(in_dtype):
        blocks.append(dense(fn, in_shape, in_dtype, imag=True))
    M = np.concatenate(blocks, axis=1)
    if cplx_out:
        M = np.concatenate([M.real, M.imag], axis=0)
    return np.asarray(M, dtype=np.float64), cplx_out


def coq_rmat(M):
    from vf.common import qlit
    return "[" + "; ".join("[" + "; ".join(f"(qc {qlit(float(z))})" for z in row) + "]" for row in np.asarray(M)) + "]"


# ------------------------------------------------------------------ expression trees (C05 / C01 / C12)

def leaf_pool(rng, n, dt):
    """small operators R^n -> R^n (or C^n) of every algebra-specialised class"""
    cplx = is_complex(dt)
    d = rand_dyadic_np(rng, (n,), cplx=cplx).astype(dt)
    A = rand_dyadic_np(rng, (n, n), cplx=cplx).astype(dt)
    h = rand_dyadic_np(rng, (2,), cplx=cplx).astype(dt)
    s = (0.5 - 1.5j) if cplx else -1.5
    pool = {
        "Identity": lambda: linop.Identity((n,), input_dtype=dt),
        "ScaledIdentity": lambda: linop.ScaledIdentity(s, (n,), input_dtype=dt),
        "Diagonal": lambda: linop.Diagonal(snp.array(d)),
        "MatrixOperator": lambda: linop.MatrixOperator(snp.array(A)),
        "CircularConvolve": lambda: linop.CircularConvolve(snp.array(h), (n,), input_dtype=dt),
        "FiniteDifference": lambda: linop.SingleAxisFiniteDifference((n,), input_dtype=dt, circular=True),
        "LinearOperator": lambda: linop.LinearOperator(input_shape=(n,), eval_fn=lambda x: snp.array(A) @ x[::-1], input_dtype=dt),
        "Convolve": lambda: linop.Convolve(snp.array(h), (n,), input_dtype=dt, mode="same"),
    }
    return pool


def leaf_pool2(rng, dt, K=2, N=3):
    """operators on (K, N) arrays, compared through their K*N x K*N matrices: batched circular
    convolution (filter bank and shared filter, ndims=1), differences along either axis, generic"""
    cplx = is_complex(dt)
    shp = (K, N)
    d = rand_dyadic_np(rng, shp, cplx=cplx).astype(dt)
    hb = rand_dyadic_np(rng, (K, 2), cplx=cplx).astype(dt)
    hs = rand_dyadic_np(rng, (2,), cplx=cplx).astype(dt)
    h2 = rand_dyadic_np(rng, (2, 2), cplx=cplx).astype(dt)
    s = (0.5 - 1.5j) if cplx else -1.5
    return {
        "Identity": lambda: linop.Identity(shp, input_dtype=dt),
        "ScaledIdentity": lambda: linop.ScaledIdentity(s, shp, input_dtype=dt),
        "Diagonal": lambda: linop.Diagonal(snp.array(d)),
        "CircularConvolve(bank,ndims=1)": lambda: linop.CircularConvolve(snp.array(hb), shp, ndims=1, input_dtype=dt),
        "CircularConvolve(shared,ndims=1)": lambda: linop.CircularConvolve(snp.array(hs), shp, ndims=1, input_dtype=dt),
        "CircularConvolve(2d)": lambda: linop.CircularConvolve(snp.array(h2), shp, input_dtype=dt),
        "FiniteDifference(axis0)": lambda: linop.SingleAxisFiniteDifference(shp, input_dtype=dt, axis=0, circular=True),
        "FiniteDifference(axis1)": lambda: linop.SingleAxisFiniteDifference(shp, input_dtype=dt, axis=1, circular=True),
        "LinearOperator": lambda: linop.LinearOperator(input_shape=shp, eval_fn=lambda x: snp.array(d) * x[::-1, :], input_dtype=dt),
        "Convolve(same)": lambda: linop.Convolve(snp.array(h2), shp, input_dtype=dt, mode="same"),
    }


def random_tree(rng, depth, n, dt, pool):
    """returns (nested description, builder)"""
    if depth == 0 or rng.random() < 0.25:
        k = rng.choice(sorted(pool))
        return ["leaf", k], pool[k]
    op = rng.choice(["add", "sub", "scale", "rscale", "div", "comp", "neg", "T", "H", "conj", "gram", "matmul"])
    if op in ("add", "sub", "comp", "matmul"):
        d1, b1 = random_tree(rng, depth - 1, n, dt, pool)
        d2, b2 = random_tree(rng, depth - 1, n, dt, pool)
        f = {"add": lambda a, b: a + b, "sub": lambda a, b: a - b, "comp": lambda a, b: a(b), "matmul": lambda a, b: a @ b}[op]
        return [op, d1, d2], (lambda: f(b1(), b2()))
    d1, b1 = random_tree(rng, depth - 1, n, dt, pool)
    if op in ("scale", "rscale", "div"):
        c = rng.choice([2.0, -0.5, 0.25, 4.0]) if (not is_complex(dt) or rng.random() < 0.4) else rng.choice([1.0 + 2.0j, -0.5j, 0.5 - 0.5j])
        if op == "div":
            c = rng.choice([2.0, -0.5, 4.0]) if not isinstance(c, complex) else rng.choice([2.0j, 1 + 1j])
        f = {"scale": lambda a: a * c, "rscale": lambda a: c * a, "div": lambda a: a / c}[op]
        return [op, str(c), d1], (lambda: f(b1()))
    f = {"neg": lambda a: -a, "T": lambda a: a.T, "H": lambda a: a.H, "conj": lambda a: a.conj(), "gram": lambda a: a.gram_op}[op]
    return [op, d1], (lambda: f(b1()))
