"""C01 -- adjoint identity <Ax,y> = <x,A^H y> for every linear operator.

Per operator configuration the implementation's *realified* matrices (complex space C^n =
R^(2n), inner product Re<.,.>) of A, A.adj, A.H, A.T, A.conj(), their adjoints, A.gram_op and
`y @ A` are extracted on basis vectors and Coq checks (vm_compute, exact rationals) the matrix
relations; `radj_ok_sound` (LinAlg/RQ.v) turns "N = M^T" into the identity for ALL x, y (given
linearity, which is C06).  Theorems about combinators / expression trees: LinAlg/AdjCalc.v.
"""
from __future__ import annotations

import random

import numpy as np

from vf.common import Ctx, Broken, coq_eval_shards, parse_eval_nat_list, coq_list, qlit
from vf import linop_lib as L

HEADER = """From Coq Require Import List Bool ZArith QArith Qcanon.
From SV Require Import LinAlg.Mat LinAlg.RQ LinAlg.RelCheck.
Import ListNotations.
"""

REL_NAMES = {0: "A.adj is not the adjoint of A", 1: "A.H is not the adjoint of A",
             2: "A.T is not the unconjugated transpose of A", 3: "A.conj() is not the entrywise conjugate of A",
             4: "A.gram_op is not A^H A", 5: "(A.T).adj is not the adjoint of A.T",
             6: "(A.H).adj is not the adjoint of A.H", 7: "(A.conj()).adj is not the adjoint of A.conj()",
             8: "y @ A is not A^T y"}
# relation code -> (coq relation id, base matrix key)
#   coq rel 0: N = M^T ; 1: N = S_x M^T S_y ; 2: N = S_y M S_x ; 3: N = M^T M


def relations(A, want_views=True):
    """returns dict name -> real matrix (or exception string)"""
    out = {}

    # only for maps between a real and a complex space (the Re<.,.> clause); elsewhere values are taken as returned
    mixed = L.is_complex(A.input_dtype) != L.is_complex(A.output_dtype)
    rin, rout = mixed and not L.is_complex(A.input_dtype), mixed and not L.is_complex(A.output_dtype)

    def grab(name, fn, shp, dt, real_target=False):
        try:
            out[name] = L.realify(fn, shp, dt, real_target)[0]
        except Exception as e:  # applying must never fail for a conforming input
            out[name] = f"exception {type(e).__name__}: {str(e)[:120]}"
    grab("A", A, A.input_shape, A.input_dtype, rout)
    grab("adj", A.adj, A.output_shape, A.output_dtype, rin)
    if want_views:
        for nm, mk in (("H", lambda: A.H), ("T", lambda: A.T), ("conj", lambda: A.conj())):
            try:
                V = mk()
            except Exception as e:
                out[nm] = f"exception {type(e).__name__}: {str(e)[:120]}"
                continue
            # H and T map A's output space into its input space, conj() maps like A; their adjoints the other way
            back = nm in ("H", "T")
            grab(nm, V, V.input_shape, V.input_dtype, rin if back else rout)
            grab(nm + ".adj", V.adj, V.output_shape, V.output_dtype, rout if back else rin)
        try:
            G = A.gram_op
            grab("gram", G, G.input_shape, G.input_dtype, rin)
        except Exception as e:
            out["gram"] = f"exception {type(e).__name__}: {str(e)[:120]}"
    return out


def tol_for(entry, A):
    if entry.kind == L.EXACT and L.is_double(A.input_dtype):
        return None
    if not L.is_double(A.input_dtype):
        return 2.0 ** -12
    return 2.0 ** -30


def make_cases(A, mats, tol):
    """list of (relcode, coq text, meta) for the relations that can be stated"""
    dx, dy = L.rdim(A.input_shape, A.input_dtype), L.rdim(A.output_shape, A.output_dtype)
    nx, ny = L.size_of(A.input_shape), L.size_of(A.output_shape)
    sx = nx   # first nx coordinates are real parts; for a real space there is nothing to negate
    sy = ny
    res = []
    base = mats.get("A")
    if isinstance(base, str):
        return [("exc", "A", base)]

    def one(code, coqrel, M, N, m, n, s_r, s_c):
        t = "(@None Q)" if tol is None else f"(Some {qlit(tol)})"
        txt = (f"({coqrel}%nat, {m}%nat, {n}%nat, {s_r}%nat, {s_c}%nat, {t}, {L.coq_rmat(M)}, {L.coq_rmat(N)})")
        res.append((code, txt, None))
    plan = [(0, "adj", 0, base), (1, "H", 0, base), (2, "T", 1, base), (3, "conj", 2, base), (4, "gram", 3, base)]
    if L.is_complex(A.input_dtype) != L.is_complex(A.output_dtype):
        # real -> complex (or complex -> real) maps: the property fixes the adjoint (real inner
        # product); a "plain transpose" / "conjugate" between spaces over different fields is
        # not defined by it, so those two views are not compared
        plan = [p for p in plan if p[1] not in ("T", "conj")]
    for code, key, coqrel, M in plan:
        if key not in mats:
            continue
        N = mats[key]
        if isinstance(N, str):
            res.append(("exc", key, N))
            continue
        one(code, coqrel, M, N, dy, dx, sy, sx)
    for code, key, vkey in [(5, "T.adj", "T"), (6, "H.adj", "H"), (7, "conj.adj", "conj")]:
        if key in mats and vkey in mats and not isinstance(mats[vkey], str):
            N = mats[key]
            if isinstance(N, str):
                res.append(("exc", key, N))
                continue
            M = mats[vkey]
            one(code, 0, M, N, M.shape[0], M.shape[1], 0, 0)
    return res


def check_entries(ctx, items, unit_of, name):
    """items: list of (key(dict), A, mats, tol). Build Coq cases, evaluate, report."""
    allcases = []
    for key, A, mats, tol in items:
        for code, txt, extra in make_cases(A, mats, tol):
            if code == "exc":
                ctx.violation(unit_of(key), f"applying {txt} fails for a conforming input", key,
                              expected="a value", observed=extra, oracle="adjoint never fails")
            else:
                allcases.append((key, code, txt))
    shard = 60
    bodies = []
    for s in range(0, len(allcases), shard):
        bodies.append("Definition cases := " + coq_list([c[2] for c in allcases[s:s + shard]], ";\n ") + ".\n"
                      "Eval vm_compute in (bad_idx rel_ok cases 0%nat).")
    outs = coq_eval_shards(name, HEADER, bodies)
    nbad = 0
    for si, o in enumerate(outs):
        for idx in parse_eval_nat_list(o):
            key, code, _ = allcases[si * shard + idx]
            nbad += 1
            ctx.violation(unit_of(key), REL_NAMES[code], {**key, "relation": code},
                          expected="matrix relation checked in Coq (LinAlg/RelCheck.v rel_ok)",
                          observed="relation fails on the matrices extracted from the implementation",
                          oracle="radj_ok_sound: N = M^T <-> <Mx,y> = <x,Ny> for all x,y")
    return len(allcases), nbad


def run(ctx: Ctx):
    if not getattr(ctx, "no_proofs", False):
        ctx.proofs()
    ctx.trusted += ["operators are linear (C06) so they are determined by their matrices on the basis",
                    "FFT / trigonometric operator classes are compared with tolerance 2^-30 (float64) or 2^-12 (float32)",
                    "jax.linear_transpose (automatic adjoints), pyabel projection matrix: exercised, not verified"]
    level = 0 if ctx.quick else 1
    seed = ctx.seed
    cat = L.catalogue(random.Random(seed), level)
    if ctx.quick:
        # keep the quick tier fast: every class, a bounded number of configurations each
        per = {}
        sel = []
        for i, e in enumerate(cat):
            per[e.group] = per.get(e.group, 0) + 1
            if per[e.group] <= 6:
                sel.append((i, e))
    else:
        sel = list(enumerate(cat))
    items = []
    nview = {}
    for i, e in sel:
        key = {"catalogue_seed": seed, "level": level, "index": i, **e.key()}
        try:
            A = e.build()
        except Exception as ex:
            ctx.count("construct-fails", key)
            ctx.notes.append(f"construction failed (reported by C04/C12): {e.cls} {type(ex).__name__}")
            continue
        # quick tier: the derived views (H, T, conj, their adjoints, gram_op) of the first
        # configurations of each class only; adj for every selected configuration
        nview[e.group] = nview.get(e.group, 0) + 1
        big = L.rdim(A.input_shape, A.input_dtype) * L.rdim(A.output_shape, A.output_dtype) > 1500
        mats = relations(A, want_views=(not ctx.quick) or (nview[e.group] <= 2 and not big))
        items.append((key, A, mats, tol_for(e, A)))
        ctx.count(e.cls, key)
    import time as _t
    _t0 = _t.time()
    n1, _ = check_entries(ctx, items, lambda k: k["class"], "C01_cat")
    ctx.notes.append(f"timing: catalogue relations evaluated in Coq {_t.time() - _t0:.0f} s ({n1} relations)")
    _t0 = _t.time()

    # expression trees: adjoint of derived operators
    items = []
    ntree = ctx.n(30, 600)
    for t in range(ntree):
        dt = ctx.rng.choice([np.float64, np.complex128])
        n = ctx.rng.choice([2, 3])
        trng = random.Random(ctx.rng.getrandbits(32))
        tseed = trng.getrandbits(32)
        pool = L.leaf_pool(random.Random(tseed), n, dt)
        desc, build = L.random_tree(random.Random(tseed + 1), ctx.rng.choice([1, 2, 3]), n, dt, pool)
        key = {"tree": desc, "n": n, "dtype": np.dtype(dt).name, "tseed": tseed}
        try:
            A = build()
        except Exception as ex:
            ctx.count("tree-rejected", key, nontrivial=False)
            continue
        mats = relations(A, want_views=False)
        items.append((key, A, mats, 2.0 ** -30))
        ctx.count("tree", key)
    # every algebra-specialised class x (c * A, A * c, A / c) with a non-real scalar: the class-specific scalar
    # shortcuts carry their own adjoint closures (conjugated scalar)
    for dt in (np.complex128, np.float64):
        for n in (3,):
            tseed = ctx.rng.getrandbits(32)
            pool = L.leaf_pool(random.Random(tseed), n, dt)
            for name in sorted(pool):
                for op in ("scale", "rscale", "div"):
                    cs = ["(1+2j)", "-0.5j"] if L.is_complex(dt) else ["-0.5"]
                    if op == "div":
                        cs = ["2j", "(1+1j)"] if L.is_complex(dt) else ["4.0"]
                    c = ctx.rng.choice(cs) if ctx.quick else None
                    for cc in ([c] if c else cs):
                        desc = [op, cc, ["leaf", name]]
                        key = {"tree": desc, "n": n, "dtype": np.dtype(dt).name, "tseed": tseed}
                        try:
                            A = rebuild_tree(desc, pool)
                        except Exception:
                            ctx.count("tree-rejected", key, nontrivial=False)
                            continue
                        items.append((key, A, relations(A, want_views=False), 2.0 ** -30))
                        ctx.count("scalar:" + op, key)
    # compositions A(B) and A @ B of class pairs on complex spaces: the class-specific __call__ / __matmul__ shortcuts
    # (MatrixOperator always on the left, the other pairs sampled) build their own adjoint closures
    dtc = np.complex128
    tseed = ctx.rng.getrandbits(32)
    pool = L.leaf_pool(random.Random(tseed), 3, dtc)
    names = sorted(pool)
    pairs = [("MatrixOperator", b) for b in names] + [(a, "MatrixOperator") for a in names if a != "MatrixOperator"]
    rest = [(a, b) for a in names for b in names if "MatrixOperator" not in (a, b)]
    ctx.rng.shuffle(rest)
    pairs += rest[: (8 if ctx.quick else len(rest))]
    for a, b in pairs:
        for op in ("comp", "matmul"):
            if ctx.quick and op == "matmul" and a != "MatrixOperator":
                continue
            desc = [op, ["leaf", a], ["leaf", b]]
            key = {"tree": desc, "n": 3, "dtype": np.dtype(dtc).name, "tseed": tseed}
            try:
                A = rebuild_tree(desc, pool)
            except Exception:
                ctx.count("tree-rejected", key, nontrivial=False)
                continue
            items.append((key, A, relations(A, want_views=False), 2.0 ** -30))
            ctx.count("pair:" + op, key)
    ctx.notes.append(f"timing: building trees / pairs {_t.time() - _t0:.0f} s")
    _t0 = _t.time()
    n2, _ = check_entries(ctx, items, lambda k: "expression:" + root_of(k["tree"]), "C01_tree")
    ctx.notes.append(f"timing: tree relations evaluated in Coq {_t.time() - _t0:.0f} s ({n2} relations)")
    ctx.traces = n1 + n2
    _t0 = _t.time()
    default_mode_stream(ctx, seed, level)
    ctx.notes.append(f"timing: default-mode probe {_t.time() - _t0:.0f} s")


def default_mode_stream(ctx, seed, level):
    """The checks run the library in 64-bit mode (exact dyadic arithmetic).  What shows only in the library's DEFAULT
    32-bit mode (buffer donation, dtype defaults) is probed in a sub-process: every configuration in single precision,
    forward and adjoint applied (twice) to conforming inputs, adjoint identity on random vectors."""
    import json
    import os
    import subprocess
    import sys
    from vf.common import VERIF, REPO
    env = dict(os.environ, PYTHONPATH=f"{REPO}:{VERIF}", VERIF_DEFAULT_MODE="1", JAX_PLATFORMS="cpu")
    env.pop("JAX_ENABLE_X64", None)
    cap = 3 if ctx.quick else 1000
    p = subprocess.run([sys.executable, "-W", "ignore", str(VERIF / "vf" / "default_mode_probe.py"), str(seed), str(level), str(cap)],
                       capture_output=True, text=True, env=env, timeout=3000)
    done = None
    for line in p.stdout.splitlines():
        try:
            r = json.loads(line)
        except Exception:   # noqa: BLE001
            continue
        if "done" in r:
            done = r["done"]
            continue
        ctx.violation(r["key"]["class"], r["what"], r["key"], expected="a value / <Ax,y> = <x,A^H y>", observed=r["obs"],
                      oracle="adjoint identity on random single-precision vectors (default numeric mode)")
    ctx.obligation(done is not None, "default-mode probe ran to completion", (p.stderr or "")[-600:])
    if done:
        for _ in range(done):
            pass
        ctx.count("default-mode", {"configurations": done, "seed": seed, "level": level})
        ctx.notes.append(f"default (32-bit) mode probe: {done} configurations")


def root_of(desc):
    return desc[0] if desc[0] != "leaf" else desc[1]


def replay(ctx: Ctx, rec):
    key = rec["input"]
    if str(key.get("mode", "")).startswith("default"):
        c2 = Ctx(ctx.pid, ctx.tier, key["catalogue_seed"])
        c2.known = []
        default_mode_stream(c2, key["catalogue_seed"], key["level"])
        return not any(v["input"].get("index") == key["index"] for v in c2.violations)
    if "tree" in key:
        dt = np.dtype(key["dtype"]).type
        pool = L.leaf_pool(random.Random(key["tseed"]), key["n"], dt)
        A = rebuild_tree(key["tree"], pool)
        mats = relations(A, want_views=False)
        items = [(key, A, mats, 2.0 ** -30)]
    else:
        cat = L.catalogue(random.Random(key["catalogue_seed"]), key["level"])
        e = cat[key["index"]]
        A = e.build()
        items = [(key, A, relations(A), tol_for(e, A))]
    c2 = Ctx(ctx.pid, ctx.tier, ctx.seed)
    c2.known = []
    check_entries(c2, items, lambda k: "x", "C01_replay")
    return not c2.violations


def rebuild_tree(desc, pool):
    op = desc[0]
    if op == "leaf":
        return pool[desc[1]]()
    if op in ("add", "sub", "comp", "matmul"):
        a, b = rebuild_tree(desc[1], pool), rebuild_tree(desc[2], pool)
        return {"add": lambda: a + b, "sub": lambda: a - b, "comp": lambda: a(b), "matmul": lambda: a @ b}[op]()
    if op in ("scale", "rscale", "div"):
        c = complex(desc[1])
        c = c.real if c.imag == 0 else c
        a = rebuild_tree(desc[2], pool)
        return {"scale": lambda: a * c, "rscale": lambda: c * a, "div": lambda: a / c}[op]()
    a = rebuild_tree(desc[1], pool)
    return {"neg": lambda: -a, "T": lambda: a.T, "H": lambda: a.H, "conj": lambda: a.conj(), "gram": lambda: a.gram_op}[op]()
