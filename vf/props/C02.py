"""C02 -- proximal operators return the minimiser of lam*f(x) + 0.5*||x - v||^2.

Theorems: coq/Properties/C02.v (models coq/theories/C02/*.v; findings coq/Findings/C02_*.v).
Per generated case (boundary-heavy, dyadic data, so floats and Qc see the same numbers):
 (i)  correspondence: f.prox(v, lam) of the real code vs the Coq model of the prox body
      (C02.Models at Qc, evaluated by vm_compute in build/cases/C02_*; exact where the formula
      is ring-only, 2^-30 relative where a sqrt/division is involved; norms computed by the
      implementation are passed in and checked through their square inside Coq).  For the unit
      whose faithful model is refuted (L0Norm) the output is compared with the faithful model
      AND with the proved minimiser.
 (ii) oracle independent of the model: objective at the returned point vs at candidate and
      perturbed points (a strictly better point is the replay), subgradient certificate and
      firm non-expansiveness on pairs for convex f, result in dom f.
"""
from __future__ import annotations

import math

import numpy as np

from vf.common import Ctx, Broken, coq_eval_shards, parse_eval_nat_list, qlit, coq_list, coq_make

HEADER = """From Coq Require Import QArith Qcanon Bool List.
From SV Require Import Base.Num C02.Models C02.Exec.
Import ListNotations.
"""

TOL = 1e-9


# ------------------------------------------------------------------ data helpers

def dy(rng, bits=2, lo=-4, hi=4):
    den = 1 << bits
    return rng.randint(lo * den, hi * den) / den


def dypos(rng, bits=2, hi=4):
    den = 1 << bits
    return rng.randint(1, hi * den) / den


PYTH = [(3, 4, 5), (4, 3, 5), (-3, 4, 5), (5, 12, 13), (-12, 5, 13), (8, 15, 17), (0, 1, 1), (1, 0, 1), (0, -1, 1)]


def enc(a):
    """JSON encoding of a (numpy) array or list of arrays (block array)."""
    if isinstance(a, list):
        return {"blocks": [enc(b) for b in a]}
    a = np.asarray(a)
    d = {"shape": list(a.shape), "re": [float(t) for t in np.real(a).ravel()]}
    if np.iscomplexobj(a):
        d["im"] = [float(t) for t in np.imag(a).ravel()]
    return d


def dec(d):
    if "blocks" in d:
        return [dec(b) for b in d["blocks"]]
    a = np.array(d["re"], dtype=np.float64)
    if "im" in d:
        a = a + 1j * np.array(d["im"], dtype=np.float64)
    return a.reshape(d["shape"])


def to_snp(a):
    import scico.numpy as snp
    if isinstance(a, list):
        return snp.blockarray([np.asarray(b) for b in a])
    return snp.array(np.asarray(a))


def to_np(x):
    from scico.numpy import BlockArray
    if isinstance(x, BlockArray):
        return [np.asarray(b) for b in x]
    return np.asarray(x)


def flat(a):
    if isinstance(a, list):
        return np.concatenate([np.asarray(b).ravel() for b in a]) if a else np.zeros(0)
    return np.asarray(a).ravel()


def like(a, vec):
    """reshape flat vector vec like a (array or list of arrays)"""
    if isinstance(a, list):
        out, k = [], 0
        for b in a:
            n = np.asarray(b).size
            out.append(np.asarray(vec[k:k + n]).reshape(np.asarray(b).shape))
            k += n
        return out
    return np.asarray(vec).reshape(np.asarray(a).shape)


def rdot(a, b):
    return float(np.real(np.vdot(flat(a), flat(b))))


def is_cplx(a):
    return np.iscomplexobj(flat(a))


def comps(z):
    """real components of one entry"""
    z = complex(z) if np.iscomplexobj(z) else float(z)
    return [z.real, z.imag] if isinstance(z, complex) else [z]


# ------------------------------------------------------------------ random arrays

def rand_array(rng, shape, cplx, special=None):
    n = int(np.prod(shape))
    vals = []
    for _ in range(n):
        r = rng.random()
        if r < 0.15:
            z = 0.0
        elif special is not None and r < 0.5:
            z = special(rng)
        elif cplx:
            z = complex(dy(rng), dy(rng))
        else:
            z = dy(rng)
        vals.append(z)
    a = np.array(vals, dtype=np.complex128 if cplx else np.float64).reshape(shape)
    return a


def mag_special(mags, cplx):
    """entries whose modulus is exactly one of mags (Pythagorean directions for complex)"""
    def f(rng):
        m = rng.choice(mags)
        if cplx:
            a, b, c = rng.choice(PYTH)
            return complex(a * m / c, b * m / c) if (a * m / c * c == a * m and True) else complex(m, 0)
        return rng.choice([-1, 1]) * m
    return f


def rand_shape(rng):
    return rng.choice([(1,), (2,), (3,), (5,), (2, 2), (2, 3), (3, 1)])


# ------------------------------------------------------------------ unit specifications
# Each unit: gen(rng) -> case dict (JSON-able), build(case) -> (functional, v, lam),
#            fnp(case) -> (f, dom) numpy objective pieces, convex flag, coq(case, v, out) -> texts

def _projectors():
    def nonneg(x):
        return np.maximum(np.real(x), 0) + (0j if np.iscomplexobj(x) else 0)

    def box(x, lo, hi):
        return np.clip(x, lo, hi)

    def ball(x, r):
        n = np.linalg.norm(np.ravel(x))
        return x if n <= r else x * (r / n)

    def coordsub(x, k):
        y = np.array(x, copy=True).ravel()
        y[k:] = 0
        return y.reshape(np.shape(x))

    def point(x, c):
        return np.full(np.shape(x), c, dtype=np.asarray(x).dtype)
    return {"nonneg": nonneg, "box": box, "ball": ball, "coordsub": coordsub, "point": point}


PROJ = _projectors()


def snp_proj(name):
    """the same projector on jax arrays (passed to SetDistance)"""
    import scico.numpy as snp

    def nonneg(x):
        return snp.maximum(x, 0)

    def box(x, lo, hi):
        return snp.clip(x, lo, hi)

    def ball(x, r):
        n = snp.linalg.norm(x)
        return snp.where(n <= r, x, x * (r / snp.where(n > 0, n, 1.0)))

    def coordsub(x, k):
        m = np.zeros(int(np.prod(x.shape)))
        m[:k] = 1
        return x * snp.array(m.reshape(x.shape))

    def point(x, c):
        return snp.full(x.shape, c, dtype=x.dtype)
    return {"nonneg": nonneg, "box": box, "ball": ball, "coordsub": coordsub, "point": point}[name]


UNITS = ["L1Norm", "L0Norm", "SquaredL2Norm", "L2Norm", "L21Norm", "HuberNorm", "NonNegativeIndicator",
         "L2BallIndicator", "ZeroFunctional", "SetDistance", "SquaredSetDistance", "Loss",
         "SquaredL2Loss", "SquaredL2AbsLoss", "SquaredL2SquaredAbsLoss", "NuclearNorm", "L1MinusL2Norm",
         "LossNonEven"]

# the generic loss.Loss(y, f, scale) over a functional f that is NOT even (f(-u) != f(u)): the code's
# f.prox(v - y, scale*lam) + y and the reflected y - f.prox(y - v, scale*lam) differ only there
VUNIT = {"LossNonEven": "Loss"}


def vunit(c):
    return VUNIT.get(c["unit"], c["unit"]) + ".prox"


def gen_case(rng, unit):
    lam = rng.choice([0.25, 0.5, 1.0, 1.0, 1.5, 2.0, 3.0, 8.0]) if unit == "L0Norm" else \
        rng.choice([0.125, 0.25, 0.5, 1.0, 1.0, 1.5, 2.0, 4.0])
    c = {"unit": unit, "lam": lam}
    cplx = rng.random() < 0.35
    block = rng.random() < 0.2
    shape = rand_shape(rng)

    def arr(special=None, cp=None, shp=None):
        cp = cplx if cp is None else cp
        if block and shp is None:
            return [rand_array(rng, rand_shape(rng), cp, special) for _ in range(rng.randint(1, 3))]
        return rand_array(rng, shp or shape, cp, special)

    if unit == "L1Norm":
        v = arr(mag_special([lam, lam / 2, 2 * lam], cplx))
    elif unit == "L0Norm":
        s2 = math.sqrt(2 * lam)
        mags = [lam, lam * 0.75, lam * 1.25, 1.0, 2.0, 1.5, 5.0]
        if float(int(s2 * 4)) == s2 * 4:
            mags.append(s2)
        v = arr(mag_special(mags, cplx))
    elif unit == "SquaredL2Norm":
        v = arr()
    elif unit == "L2Norm":
        v = arr()
        r = rng.random()
        if r < 0.15:
            v = like(v, flat(v) * 0)
        elif r < 0.45:
            # ||v|| exactly lam (or 2 lam, lam/2): one Pythagorean pair in two slots / one slot
            m = rng.choice([lam, 2 * lam, lam / 2])
            f = flat(v) * 0
            a, b, cc = rng.choice(PYTH)
            if f.size >= 2 and (a * m / cc) * cc == a * m and (b * m / cc) * cc == b * m:
                f[0], f[-1] = a * m / cc, b * m / cc
            else:
                f[0] = m
            v = like(v, f)
    elif unit == "L21Norm":
        if block:
            c["l2_axis"] = None
            v = arr(mag_special([lam], cplx))
        else:
            shp = rng.choice([(2, 2), (2, 3), (3, 2), (2, 1, 2), (2, 2, 2)])
            ax = rng.choice([0, 1, None, (0, 1), len(shp) - 1])
            c["l2_axis"] = list(ax) if isinstance(ax, tuple) else ax
            v = rand_array(rng, shp, cplx)
            if rng.random() < 0.5:
                # make one group have norm exactly lam / zero
                f = np.array(v)
                idx = [slice(None)] * len(shp)
                f[...] = f
                if ax == 0:
                    f[:, 0] = 0
                    f[0, 0] = lam
                v = f
    elif unit == "HuberNorm":
        c["delta"] = rng.choice([0.25, 0.5, 1.0, 2.0])
        c["separable"] = rng.random() < 0.5
        thr = c["delta"] * (1 + lam)
        v = arr(mag_special([thr, c["delta"], thr / 2, 2 * thr], cplx))
        if not c["separable"] and rng.random() < 0.3:
            f = flat(v) * 0
            f[0] = thr
            v = like(v, f)
    elif unit == "NonNegativeIndicator":
        v = arr(cp=False)
    elif unit == "L2BallIndicator":
        c["radius"] = rng.choice([0.5, 1.0, 2.0, 5.0])
        v = arr()
        r = rng.random()
        f = flat(v)
        if r < 0.12:
            f = f * 0
        elif r < 0.35:
            f = f * 0
            a, b, cc = rng.choice(PYTH)
            m = c["radius"]
            if f.size >= 2 and (a * m / cc) * cc == a * m and (b * m / cc) * cc == b * m:
                f[0], f[-1] = a * m / cc, b * m / cc
            else:
                f[0] = m
        elif r < 0.55:
            f = f / 16
        v = like(v, f)
    elif unit == "ZeroFunctional":
        v = arr()
    elif unit in ("SetDistance", "SquaredSetDistance"):
        block = False
        name = rng.choice(["nonneg", "box", "ball", "coordsub", "point"])
        cp = cplx and name in ("ball", "coordsub", "point")
        v = rand_array(rng, shape, cp)
        args = {"nonneg": [], "box": [rng.choice([-1.0, 0.0]), rng.choice([0.5, 1.0])],
                "ball": [rng.choice([0.5, 1.0, 2.0])], "coordsub": [rng.randint(0, int(np.prod(shape)))],
                "point": [dy(rng)]}[name]
        c["proj"], c["args"] = name, args
        r = rng.random()
        if r < 0.25:
            v = PROJ[name](v, *args)          # v in C: d = 0
        elif r < 0.45 and name in ("point", "coordsub", "box", "nonneg"):
            # distance exactly lam: move one coordinate of a point of C by lam along a normal
            y = np.array(PROJ[name](v, *args)).ravel()
            k = len(y) - 1
            if name == "point":
                y[k] = args[0] + lam
            elif name == "coordsub":
                y[:] = np.where(np.arange(len(y)) < args[0], y, 0)
                if args[0] <= k:
                    y[k] = lam
            elif name == "box":
                y[k] = args[1] + lam
            else:
                y[k] = -lam
            v = y.reshape(shape)
    elif unit == "Loss":
        c["f"] = rng.choice(["L1Norm", "SquaredL2Norm", "L2Norm", "HuberNorm", "L0Norm"])
        c["scale"] = rng.choice([0.25, 0.5, 1.0, 2.0])
        block = False
        cplx = cplx and c["f"] != "L0Norm"
        v = rand_array(rng, shape, cplx, mag_special([lam * c["scale"]], cplx))
        y = rand_array(rng, shape, cplx)
        if rng.random() < 0.3:
            y = np.array(v)           # v - y = 0
        c["y"] = enc(y)
    elif unit == "LossNonEven":
        block = False
        c["f"] = rng.choice(["NonNegativeIndicator", "SetDistance", "SquaredSetDistance", "SetDistance", "Loss"])
        c["scale"] = rng.choice([0.25, 0.5, 2.0, 3.0])
        cplx = False
        if c["f"] in ("SetDistance", "SquaredSetDistance"):
            c["proj"] = rng.choice(["nonneg", "box", "box", "point"])
            c["args"] = {"nonneg": [], "box": rng.choice([[0.5, 2.0], [-1.0, 0.25], [1.0, 1.5]]),
                         "point": [rng.choice([-1.5, 0.75, 2.0])]}[c["proj"]]
            cplx = c["proj"] == "point" and rng.random() < 0.5
        if c["f"] == "Loss":
            c["y2"] = enc(rand_array(rng, shape, False))
            c["scale2"] = rng.choice([0.5, 2.0])
        y = rand_array(rng, shape, cplx)
        # v has entries on both sides of y (and some equal to y, some at distance scale*lam)
        t = c["scale"] * lam
        d = rand_array(rng, shape, cplx, mag_special([t, 2 * t, t / 2], cplx))
        v = y + d
        c["y"] = enc(y)
    elif unit == "SquaredL2Loss":
        block = False
        c["scale"] = rng.choice([0.25, 0.5, 1.0, 2.0])
        c["A"] = rng.choice(["none", "identity", "diag", "diag"])
        v = rand_array(rng, shape, cplx)
        c["y"] = enc(rand_array(rng, shape, cplx))
        if c["A"] == "diag":
            c["a"] = enc(rand_array(rng, shape, cplx))
        if rng.random() < 0.6:
            c["w"] = enc(np.abs(rand_array(rng, shape, False)))
    elif unit in ("SquaredL2AbsLoss", "SquaredL2SquaredAbsLoss"):
        block = False
        c["scale"] = rng.choice([0.25, 0.5, 1.0, 2.0])
        v = rand_array(rng, shape, cplx, mag_special([1.0, 0.5], cplx))
        c["y"] = enc(np.abs(rand_array(rng, shape, False)))
        if rng.random() < 0.6:
            c["w"] = enc(np.abs(rand_array(rng, shape, False)))
    elif unit == "NuclearNorm":
        shp = rng.choice([(2, 2), (2, 3), (3, 2), (1, 2), (3, 3)])
        v = rand_array(rng, shp, cplx)
        if rng.random() < 0.3:
            d = np.zeros(shp)
            for i in range(min(shp)):
                d[i, i] = rng.choice([lam, 2 * lam, lam / 2, 0.0])
            v = d.astype(v.dtype)
    elif unit == "L1MinusL2Norm":
        c["beta"] = rng.choice([0.0, 0.25, 0.5, 0.75, 1.0])
        shp = rng.choice([(1,), (2,), (3,), (4,), (2, 2)])
        v = rand_array(rng, shp, False, mag_special([lam, (1 - c["beta"]) * lam, lam / 2, 2 * lam], False))
    c["v"] = enc(v)
    return c


def build(c):
    """-> (scico functional, v as scico array)"""
    from scico import functional as F, loss, linop
    import scico.numpy as snp
    u = c["unit"]
    v = to_snp(dec(c["v"]))
    if u in ("L1Norm", "L0Norm", "SquaredL2Norm", "L2Norm", "NonNegativeIndicator", "ZeroFunctional", "NuclearNorm"):
        f = getattr(F, u)()
    elif u == "L21Norm":
        ax = c["l2_axis"]
        f = F.L21Norm(l2_axis=tuple(ax) if isinstance(ax, list) else ax)
    elif u == "HuberNorm":
        f = F.HuberNorm(delta=c["delta"], separable=c["separable"])
    elif u == "L2BallIndicator":
        f = F.L2BallIndicator(radius=c["radius"])
    elif u in ("SetDistance", "SquaredSetDistance"):
        f = getattr(F, u)(snp_proj(c["proj"]), tuple(c["args"]))
    elif u == "Loss":
        inner = F.HuberNorm(delta=0.5, separable=True) if c["f"] == "HuberNorm" else getattr(F, c["f"])()
        f = loss.Loss(y=to_snp(dec(c["y"])), f=inner, scale=c["scale"])
    elif u == "LossNonEven":
        y = to_snp(dec(c["y"]))
        if c["f"] == "NonNegativeIndicator":
            inner = F.NonNegativeIndicator()
        elif c["f"] == "Loss":
            inner = loss.Loss(y=to_snp(dec(c["y2"])), f=F.NonNegativeIndicator(), scale=c["scale2"])
        else:
            inner = getattr(F, c["f"])(snp_proj(c["proj"]), tuple(c["args"]))
        f = loss.Loss(y=y, f=inner, scale=c["scale"])
    elif u == "SquaredL2Loss":
        y = to_snp(dec(c["y"]))
        A = None if c["A"] == "none" else (linop.Identity(y.shape, input_dtype=y.dtype) if c["A"] == "identity"
                                           else linop.Diagonal(to_snp(dec(c["a"]))))
        W = linop.Diagonal(to_snp(dec(c["w"]))) if "w" in c else None
        f = loss.SquaredL2Loss(y=y, A=A, scale=c["scale"], W=W)
    elif u in ("SquaredL2AbsLoss", "SquaredL2SquaredAbsLoss"):
        y = to_snp(dec(c["y"]))
        W = linop.Diagonal(to_snp(dec(c["w"]))) if "w" in c else None
        A = linop.Identity(y.shape, input_dtype=v.dtype)
        f = getattr(loss, u)(y=y, A=A, scale=c["scale"], W=W)
    elif u == "L1MinusL2Norm":
        f = F.L1MinusL2Norm(beta=c["beta"])
    else:
        raise Broken("unknown unit " + u)
    return f, v


def huber_np(x, delta, sep):
    if sep:
        a = np.abs(flat(x))
        return float(np.sum(np.where(a <= delta, 0.5 * a * a, delta * (a - delta / 2))))
    n = float(np.linalg.norm(flat(x)))
    return 0.5 * n * n if n <= delta else delta * (n - delta / 2)


def objective_parts(c):
    """numpy definition of f (independent of scico's __call__ and of the Coq model) -> (f, convex)"""
    u = c["unit"]
    inf = float("inf")
    if u == "L1Norm":
        return (lambda x: float(np.sum(np.abs(flat(x))))), True
    if u == "L0Norm":
        return (lambda x: float(np.count_nonzero(flat(x)))), False
    if u == "SquaredL2Norm":
        return (lambda x: float(np.sum(np.abs(flat(x)) ** 2))), True
    if u == "L2Norm":
        return (lambda x: float(np.linalg.norm(flat(x)))), True
    if u == "L21Norm":
        ax = c["l2_axis"]

        def f(x):
            if isinstance(x, list):
                return float(sum(np.linalg.norm(flat(b)) for b in x))
            a = np.abs(np.asarray(x)) ** 2
            return float(np.sum(np.sqrt(np.sum(a, axis=tuple(ax) if isinstance(ax, list) else ax))))
        return f, True
    if u == "HuberNorm":
        return (lambda x: huber_np(x, c["delta"], c["separable"])), True
    if u == "NonNegativeIndicator":
        return (lambda x: 0.0 if np.all(flat(x) >= 0) else inf), True
    if u == "L2BallIndicator":
        return (lambda x: 0.0 if np.linalg.norm(flat(x)) <= c["radius"] * (1 + 1e-12) else inf), True
    if u == "ZeroFunctional":
        return (lambda x: 0.0), True
    if u in ("SetDistance", "SquaredSetDistance"):
        P = PROJ[c["proj"]]

        def d(x):
            return float(np.linalg.norm(flat(np.asarray(x) - P(np.asarray(x), *c["args"]))))
        return ((lambda x: d(x)) if u == "SetDistance" else (lambda x: 0.5 * d(x) ** 2)), True
    if u == "Loss":
        y = dec(c["y"])
        g = {"L1Norm": lambda z: float(np.sum(np.abs(z))), "SquaredL2Norm": lambda z: float(np.sum(np.abs(z) ** 2)),
             "L2Norm": lambda z: float(np.linalg.norm(z)), "HuberNorm": lambda z: huber_np(z, 0.5, True),
             "L0Norm": lambda z: float(np.count_nonzero(z))}[c["f"]]
        return (lambda x: c["scale"] * g(flat(np.asarray(x) - y))), c["f"] != "L0Norm"
    if u == "LossNonEven":
        y = dec(c["y"])
        inf_ = float("inf")
        if c["f"] == "NonNegativeIndicator":
            g = lambda z: 0.0 if np.all(flat(z) >= 0) else inf_
        elif c["f"] == "Loss":
            y2 = dec(c["y2"])
            g = lambda z: 0.0 if np.all(flat(z - y2) >= 0) else inf_
        else:
            P = PROJ[c["proj"]]
            dd = lambda z: float(np.linalg.norm(flat(z - P(z, *c["args"]))))
            g = dd if c["f"] == "SetDistance" else (lambda z: 0.5 * dd(z) ** 2)
        return (lambda x: c["scale"] * g(np.asarray(x) - y)), True
    if u == "SquaredL2Loss":
        y = dec(c["y"])
        a = dec(c["a"]) if "a" in c else np.ones(y.shape)
        w = dec(c["w"]) if "w" in c else np.ones(y.shape)
        return (lambda x: c["scale"] * float(np.sum(w * np.abs(y - a * np.asarray(x)) ** 2))), True
    if u == "SquaredL2AbsLoss":
        y = dec(c["y"])
        w = dec(c["w"]) if "w" in c else np.ones(y.shape)
        return (lambda x: c["scale"] * float(np.sum(w * (y - np.abs(np.asarray(x))) ** 2))), False
    if u == "SquaredL2SquaredAbsLoss":
        y = dec(c["y"])
        w = dec(c["w"]) if "w" in c else np.ones(y.shape)
        return (lambda x: c["scale"] * float(np.sum(w * (y - np.abs(np.asarray(x)) ** 2) ** 2))), False
    if u == "NuclearNorm":
        return (lambda x: float(np.sum(np.linalg.svd(np.asarray(x), compute_uv=False)))), True
    if u == "L1MinusL2Norm":
        return (lambda x: float(np.sum(np.abs(flat(x))) - c["beta"] * np.linalg.norm(flat(x)))), False
    raise Broken("no objective for " + u)


def run_impl(c, v=None):
    f, v0 = build(c)
    v = v0 if v is None else v
    out = f.prox(v, c["lam"])
    return to_np(out)


# ------------------------------------------------------------------ oracle (ii)

def oracle(c, rng, out, second=None):
    """returns None if the property holds on this case, else (what, detail dict)"""
    f, convex = objective_parts(c)
    v = dec(c["v"])
    lam = c["lam"]
    fo = flat(out)
    if not np.all(np.isfinite(fo)):
        return ("prox returns a non-finite point (not in dom f)", {"output": [str(t) for t in fo]})
    fv = flat(v)

    def obj(x):
        fx = f(x)
        if fx == float("inf"):
            return fx
        return lam * fx + 0.5 * float(np.sum(np.abs(flat(x) - fv) ** 2))
    op = obj(out)
    if not math.isfinite(op):
        return ("prox result is outside dom f", {"f(p)": str(op)})
    # candidates: v, 0, entries toggled, segment p..v, small perturbations
    cands = [("v", fv), ("0", fv * 0)]
    for t in (0.25, 0.5, 0.75):
        cands.append((f"p+{t}(v-p)", fo + t * (fv - fo)))
    n = fo.size
    for i in range(min(n, 6)):
        a = fo.copy(); a[i] = fv[i]; cands.append((f"p[{i}]:=v[{i}]", a))
        a = fo.copy(); a[i] = 0; cands.append((f"p[{i}]:=0", a))
    for s in (1e-4, 1e-2, 0.3):
        for _ in range(3):
            dvec = np.array([rng.choice([-1, 0, 1]) for _ in range(n)], dtype=float)
            if is_cplx(v):
                dvec = dvec + 1j * np.array([rng.choice([-1, 0, 1]) for _ in range(n)], dtype=float)
            cands.append((f"p+{s}*d", fo + s * dvec))
        cands.append((f"{1 + s}*p", fo * (1 + s)))
        cands.append((f"{1 - s}*p", fo * (1 - s)))
    if not is_cplx(v):
        cands = [(nm, np.real(x)) for nm, x in cands]
    best = None
    for nm, x in cands:
        ox = obj(like(v, x))
        if ox < op - TOL * (1 + abs(op)) and (best is None or ox < best[1]):
            best = (nm, ox, x)
    if best is not None:
        return ("prox result is not the minimiser: a strictly better point exists",
                {"objective_at_result": op, "objective_at_better_point": best[1], "better_point": best[0],
                 "better": enc(like(v, best[2])), "result": enc(out)})
    if convex:
        # subgradient certificate lam f(z) >= lam f(p) + <v - p, z - p>
        fp = f(out)
        for nm, x in cands[:12]:
            z = like(v, x)
            fz = f(z)
            if fz == float("inf"):
                continue
            lhs = lam * fp + float(np.real(np.vdot(fv - fo, flat(z) - fo)))
            if lhs > lam * fz + 1e-8 * (1 + abs(lhs)):
                return ("subgradient inequality fails at the prox result",
                        {"z": nm, "lhs": lhs, "rhs": lam * fz, "result": enc(out)})
        if second is not None:
            v2, p2 = second
            d = fo - flat(p2)
            lhs = float(np.sum(np.abs(d) ** 2))
            rhs = float(np.real(np.vdot(d, fv - flat(v2))))
            if lhs > rhs + 1e-8 * (1 + abs(lhs)):
                return ("prox is not firmly non-expansive on a pair",
                        {"v2": enc(v2), "lhs": lhs, "rhs": rhs})
    return None


def second_point(c, rng):
    v = dec(c["v"])
    fv = flat(v)
    d = np.array([dy(rng, 2, -1, 1) for _ in range(fv.size)])
    if is_cplx(v):
        d = d + 1j * np.array([dy(rng, 2, -1, 1) for _ in range(fv.size)])
    return like(v, fv + d)


# ------------------------------------------------------------------ Coq case texts

def qc(x):
    return f"(qc {qlit(x)})"


def rows_txt(rows):
    return coq_list([f"({coq_list([qc(t) for t in i])}, {coq_list([qlit(t) for t in o])})" for i, o in rows])


def grouped(kind, ps, groups):
    g = coq_list([f"({qc(nv)}, {rows_txt(rows)})" for nv, rows in groups], ";\n   ")
    return f"Grouped {kind} {coq_list([qc(p) for p in ps])} {g}"


def per_entry_groups(v, out, cplx_pair=True, extra=None):
    """one group per entry, nv = |entry|"""
    fv, fo = flat(v), flat(out)
    gs = []
    for k in range(fv.size):
        ins = comps(fv[k]) + ([] if extra is None else extra(k))
        o = comps(fo[k]) if np.iscomplexobj(fv) else [float(np.real(fo[k]))]
        if np.iscomplexobj(fv) and not np.iscomplexobj(fo):
            o = [float(fo[k]), 0.0]
        gs.append((float(np.abs(fv[k])), [(ins, o)]))
    return gs


def one_group(v, out, nv):
    fv, fo = flat(v), flat(out)
    rows = []
    for k in range(fv.size):
        o = comps(fo[k]) if np.iscomplexobj(fv) else [float(np.real(fo[k]))]
        if np.iscomplexobj(fv) and not np.iscomplexobj(fo):
            o = [float(fo[k]), 0.0]
        rows.append((comps(fv[k]), o))
    return (nv, rows)


def l21_groups(c, v, out):
    if isinstance(v, list):
        return [one_group(b, o, float(np.sqrt(np.sum(np.abs(flat(b)) ** 2)))) for b, o in zip(v, out)]
    ax = c["l2_axis"]
    a, o = np.asarray(v), np.asarray(out)
    if ax is None:
        return [one_group(a, o, float(np.sqrt(np.sum(np.abs(a) ** 2))))]
    axes = tuple(ax) if isinstance(ax, list) else (ax,)
    axes = tuple(t % a.ndim for t in axes)
    rest = [t for t in range(a.ndim) if t not in axes]
    at = np.transpose(a, rest + list(axes)).reshape(int(np.prod([a.shape[t] for t in rest])) if rest else 1, -1)
    ot = np.transpose(o, rest + list(axes)).reshape(at.shape)
    return [one_group(at[i], ot[i], float(np.sqrt(np.sum(np.abs(at[i]) ** 2)))) for i in range(at.shape[0])]


def coq_cases(c, out):
    """-> list of (tag, text); tag 'model' = faithful model of the code (= proved minimiser unless
    a 'spec' entry is present), 'spec' = proved minimiser for the units whose code model is refuted"""
    u, lam = c["unit"], c["lam"]
    v = dec(c["v"])
    cp = is_cplx(v)
    fv, fo = flat(v), flat(out)
    if u == "L1Norm":
        if cp:
            return [("model", grouped(1, [lam], per_entry_groups(v, out)))]
        return [("model", grouped(0, [lam], [one_group(v, out, 0.0)]))]
    if u == "L0Norm":
        return [("model", grouped(2, [lam], per_entry_groups(v, out))),
                ("spec", grouped(3, [lam], per_entry_groups(v, out)))]
    if u == "SquaredL2Norm":
        return [("model", grouped(4, [lam], [one_group(v, out, 0.0)]))]
    if u == "L2Norm":
        return [("model", grouped(5, [lam], [one_group(v, out, float(np.linalg.norm(fv)))]))]
    if u == "L21Norm":
        return [("model", grouped(6, [lam], l21_groups(c, v, out)))]
    if u == "HuberNorm":
        if c["separable"]:
            return [("model", grouped(7, [c["delta"], lam], per_entry_groups(v, out)))]
        return [("model", grouped(7, [c["delta"], lam], [one_group(v, out, float(np.linalg.norm(fv)))]))]
    if u == "NonNegativeIndicator":
        return [("model", grouped(8, [], [one_group(v, out, 0.0)]))]
    if u == "L2BallIndicator":
        nv = float(np.linalg.norm(fv))
        return [("model", grouped(9, [c["radius"]], [one_group(v, out, nv)]))]
    if u == "ZeroFunctional":
        return [("model", grouped(11, [], [one_group(v, out, 0.0)]))]
    if u in ("SetDistance", "SquaredSetDistance"):
        y = np.asarray(PROJ[c["proj"]](np.asarray(v), *c["args"]))
        fy = flat(y)
        d = float(np.linalg.norm(fv - fy))
        rows = []
        for k in range(fv.size):
            cv, cy = comps(fv[k]), (comps(fy[k]) if cp else [float(np.real(fy[k]))])
            co = comps(fo[k]) if cp else [float(np.real(fo[k]))]
            if cp and len(cy) == 1:
                cy = [cy[0], 0.0]
            for a, b, o in zip(cv, cy, co):
                rows.append(([a, b], [o]))
        return [("model", grouped(12 if u == "SetDistance" else 13, [lam], [(d, rows)]))]
    if u == "Loss":
        fy = flat(dec(c["y"]))
        if c["f"] in ("L1Norm", "SquaredL2Norm") and not (cp and c["f"] == "L1Norm"):
            rows = []
            for k in range(fv.size):
                for a, b, o in zip(comps(fv[k]), comps(fy[k]) if cp else [float(fy[k])],
                                   comps(fo[k]) if cp else [float(np.real(fo[k]))]):
                    rows.append(([a, b], [o]))
            return [("model", grouped(14 if c["f"] == "L1Norm" else 15, [c["scale"], lam], [(0.0, rows)]))]
        return []
    if u == "LossNonEven":
        y = dec(c["y"])
        fy = flat(y)
        ps = [c["scale"], lam]
        if c["f"] == "NonNegativeIndicator":
            rows = [([float(fv[k]), float(fy[k])], [float(np.real(fo[k]))]) for k in range(fv.size)]
            return [("model", grouped(23, ps, [(0.0, rows)]))]
        if c["f"] == "Loss":
            y2 = flat(dec(c["y2"]))
            rows = [([float(fv[k]), float(fy[k]), float(y2[k])], [float(np.real(fo[k]))]) for k in range(fv.size)]
            return [("model", grouped(26, ps + [c["scale2"]], [(0.0, rows)]))]
        z = np.asarray(v) - y
        pz = flat(np.asarray(PROJ[c["proj"]](z, *c["args"])))
        d = float(np.linalg.norm(flat(z) - pz))
        rows = []
        for k in range(fv.size):
            cv, cy = comps(fv[k]), (comps(fy[k]) if cp else [float(np.real(fy[k]))])
            cz = comps(pz[k]) if cp else [float(np.real(pz[k]))]
            co = comps(fo[k]) if cp else [float(np.real(fo[k]))]
            if cp and len(cy) == 1:
                cy = [cy[0], 0.0]
            if cp and len(cz) == 1:
                cz = [cz[0], 0.0]
            for a, b, e_, o in zip(cv, cy, cz, co):
                rows.append(([a, b, e_], [o]))
        return [("model", grouped(24 if c["f"] == "SetDistance" else 25, ps, [(d, rows)]))]
    if u == "SquaredL2Loss":
        y = flat(dec(c["y"]))
        a = flat(dec(c["a"])) if "a" in c else np.ones(fv.size)
        w = flat(dec(c["w"])) if "w" in c else np.ones(fv.size)
        anyc = cp or np.iscomplexobj(y) or np.iscomplexobj(a)
        rows = []
        for k in range(fv.size):
            if anyc:
                z = lambda t: [float(np.real(t)), float(np.imag(t))]
                rows.append((z(fv[k]) + z(a[k]) + [float(w[k])] + z(y[k]), z(fo[k])))
            else:
                rows.append(([float(fv[k]), float(a[k]), float(w[k]), float(y[k])], [float(np.real(fo[k]))]))
        return [("model", grouped(17 if anyc else 16, [c["scale"], lam], [(0.0, rows)]))]
    if u == "SquaredL2AbsLoss":
        y = flat(dec(c["y"]))
        w = flat(dec(c["w"])) if "w" in c else np.ones(fv.size)
        gs = per_entry_groups(v, out, extra=lambda k: [float(w[k]), float(y[k])])
        return [("model", grouped(19 if cp else 18, [c["scale"], lam], gs))]
    if u == "SquaredL2SquaredAbsLoss":
        import scico.numpy as snp
        from scico.loss import _dep_cubic_root
        from scico.numpy.util import no_nan_divide
        y = flat(dec(c["y"]))
        w = flat(dec(c["w"])) if "w" in c else np.ones(fv.size)
        al = lam * 4.0 * c["scale"] * snp.array(w)
        be = snp.abs(snp.array(fv))
        import warnings
        with warnings.catch_warnings():
            warnings.simplefilter("ignore")
            r = np.asarray(_dep_cubic_root(no_nan_divide(1.0 - al * snp.array(y), al), no_nan_divide(-be, al)))
        gs = per_entry_groups(v, out, extra=lambda k: [float(w[k]), float(y[k]), float(r[k])])
        return [("model", grouped(21 if cp else 20, [c["scale"], lam], gs))]
    if u == "NuclearNorm":
        s = np.linalg.svd(np.asarray(v), compute_uv=False)
        so = np.linalg.svd(np.asarray(out), compute_uv=False)
        return [("model", grouped(22, [lam], [(0.0, [([float(a)], [float(b)]) for a, b in zip(s, so)])]))]
    if u == "L1MinusL2Norm":
        if cp:
            return []          # the Coq case analysis models the real dtype; complex is decided by the oracle
        uu = np.maximum(np.abs(fv) - lam, 0)
        l2u = float(np.linalg.norm(uu))
        return [("model", f"L1L2 {coq_list([qc(c['beta']), qc(lam)])} {qc(l2u)} "
                          f"{coq_list([qc(t) for t in fv])} {coq_list([qlit(float(t)) for t in fo])}")]
    return []


def annotate(c):
    """fields used by the known-findings predicates (functions of the input only)"""
    inp = dict(c)
    v = dec(c["v"])
    a = np.abs(flat(v))
    if c["unit"] == "L0Norm" or (c["unit"] == "Loss" and c.get("f") == "L0Norm"):
        lam = c["lam"] * c.get("scale", 1.0)
        if c["unit"] == "Loss":
            a = np.abs(flat(v) - flat(dec(c["y"])))
        inp["ratios"] = [[float(t / lam), float(t * t / (2 * lam))] for t in a]
    return inp


def check_case(ctx, c, rng, coq_items):
    """run the implementation, the oracle, and queue the Coq comparison"""
    unit = c["unit"]
    try:
        out = run_impl(c)
    except Exception as e:  # an advertised prox that raises
        ctx.violation(vunit(c), f"prox raises {type(e).__name__}", annotate(c), observed=str(e)[:300],
                      oracle="has_prox = True and documented argument range")
        return
    _, convex = objective_parts(c)
    second = None
    if convex:
        v2 = second_point(c, rng)
        try:
            p2 = run_impl(c, to_snp(v2))
            if np.all(np.isfinite(flat(p2))):
                second = (v2, p2)
        except Exception:
            second = None
    res = oracle(c, rng, out, second)
    if res is not None:
        inp = annotate(c)
        if "v2" in res[1]:
            inp["norm_v2"] = float(np.linalg.norm(flat(dec(res[1]["v2"]))))
        ctx.violation(vunit(c), res[0], inp, expected="minimiser of lam*f(x)+0.5||x-v||^2",
                      observed=res[1], oracle="objective comparison / subgradient certificate / firm non-expansiveness")
    if np.all(np.isfinite(flat(out))):
        for tag, txt in coq_cases(c, out):
            coq_items.append((c, tag, txt, res is not None))


def run_coq(ctx, items, name="C02_corr"):
    shard = 60
    bodies = []
    for s in range(0, len(items), shard):
        part = items[s:s + shard]
        bodies.append("Definition cases : list ccase := " + coq_list([t[2] for t in part], ";\n ") + ".\n"
                      "Eval vm_compute in (bad_idx case_ok cases 0%nat).")
    outs = coq_eval_shards(name, HEADER, bodies) if bodies else []
    bad = []
    for si, o in enumerate(outs):
        for idx in parse_eval_nat_list(o):
            bad.append(items[si * shard + idx])
    return bad


# ------------------------------------------------------------------ designed (always-run) set
# Independent of VERIF_SEED.  For every unit with a piecewise closed form: (v, lam, parameters)
# strictly inside each branch of the case analysis of the Coq model, on each branch boundary and
# just outside.  Every designed case carries "probes" (unit id, params, the quantity the model
# branches on); C02.Exec.branch_sig evaluates, from the model's own branch conditions, which
# branch / boundary each probe realises, and REQUIRED_SIGS lists the reachable signatures that
# the designed set must realise (an obligation of the run), so the set stays in sync with the model.

REQUIRED_SIGS = {
    0: {(0, 1), (0, 2), (1, 2), (2, 2)},                                   # soft / block soft threshold
    1: {(0, 0), (1, 0), (2, 0), (2, 1), (2, 2), (0, 1), (0, 2), (1, 2), (1, 1)},   # l0 (code and true thresholds)
    2: {(0, 1), (0, 2), (1, 2), (2, 2)},                                   # Huber
    3: {(0, 1), (0, 2), (1, 2), (2, 2)},                                   # l2 ball
    4: {(0, 1), (0, 2), (1, 2), (2, 2)},                                   # set distance
    5: {(0, 1), (0, 2), (1, 2), (2, 2)},                                   # singular value threshold
    6: {(1, 1), (1, 2), (2, 1), (2, 2)},                                   # |v| = 0 / > 0  x  weight = 0 / > 0
    7: {(1, 1, 0), (1, 2, 0)} | {(2, b, t) for b in (1, 2) for t in (0, 1, 2)},   # al, |v|, al*y vs 1
    8: {(0, 0, 0, 1), (3, 0, 0, 2), (2, 0, 1, 2), (2, 0, 2, 2), (2, 1, 2, 2), (1, 2, 2, 2), (0, 0, 1, 1)},
}
SIG_LEN = {0: 2, 1: 2, 2: 2, 3: 2, 4: 2, 5: 2, 6: 2, 7: 3, 8: 4}
UNIT_OF_SIG = {0: "L1Norm/L2Norm/L21Norm", 1: "L0Norm", 2: "HuberNorm", 3: "L2BallIndicator", 4: "SetDistance",
               5: "NuclearNorm", 6: "SquaredL2AbsLoss", 7: "SquaredL2SquaredAbsLoss", 8: "L1MinusL2Norm"}


def designed_cases():
    out = []
    ph = 0.6 + 0.8j          # unit phase with exactly representable products for multiples of 5/2^k

    def add(unit, lam, v, probes, **params):
        c = dict({"unit": unit, "lam": lam, "designed": True}, **params)
        c["v"] = enc(v)
        out.append((c, probes))

    def vec(m, kind):
        """vectors of norm exactly m (m a multiple of 5/2^k)"""
        if kind == "sparse":
            return np.array([0.0, -m, 0.0])
        if kind == "dense":
            return np.array([0.6 * m, -0.8 * m, 0.0])
        if kind == "cplx":
            return np.array([0.6j * m, 0.8 * m])
        return [np.array([0.6 * m]), np.array([0.0, -0.8 * m])]          # block array

    # ---- soft threshold family
    lam = 1.25
    ms = [0.0, 0.625, 1.25, 2.5]
    v = np.array([0.0, 0.625, -1.25, 2.5, -0.625, 1.25, -2.5])
    add("L1Norm", lam, v, [(0, [lam], [abs(t)]) for t in v])
    v = np.array([0.0] + [m * ph for m in ms[1:]] + [-1.25j, 1.25])
    add("L1Norm", lam, v, [(0, [lam], [float(abs(t))]) for t in v])
    for m in ms:
        for kind in ("sparse", "dense", "cplx", "block"):
            add("L2Norm", lam, vec(m, kind), [(0, [lam], [m])])
    cols = np.array([[0.6 * m for m in ms], [-0.8 * m for m in ms]])
    add("L21Norm", lam, cols, [(0, [lam], [m]) for m in ms], l2_axis=0)
    add("L21Norm", lam, cols.T.copy(), [(0, [lam], [m]) for m in ms], l2_axis=1)
    add("L21Norm", lam, cols * 1j, [(0, [lam], [m]) for m in ms], l2_axis=0)
    for m in ms:
        add("L21Norm", lam, np.array([[0.6 * m, 0.0], [0.0, -0.8 * m]]), [(0, [lam], [m])], l2_axis=None)
        add("L21Norm", lam, np.array([[0.6 * m, 0.0], [0.0, -0.8 * m]]), [(0, [lam], [m])], l2_axis=[0, 1])
    add("L21Norm", lam, [vec(m, "dense") for m in ms], [(0, [lam], [m]) for m in ms], l2_axis=None)
    # ---- l0: both the code's threshold (lam) and the true one (sqrt(2 lam))
    for lam0, mags in ((0.5, [0.25, 0.5, 0.75, 1.0, 2.0]), (8.0, [2.0, 4.0, 5.0, 8.0, 9.0]), (2.0, [1.0, 2.0, 3.0])):
        v = np.array([(-1) ** i * m for i, m in enumerate(mags)] + [0.0])
        add("L0Norm", lam0, v, [(1, [lam0], [abs(t)]) for t in v])
    mags = [0.625, 1.25, 1.5625, 2.5]
    add("L0Norm", 1.25, np.array([m * ph for m in mags]), [(1, [1.25], [m]) for m in mags])
    # ---- Huber
    for delta, lamh in ((0.5, 1.5), (2.5, 1.0)):
        thr = delta * (1 + lamh)
        aa = [0.0, thr / 2, thr, 2 * thr]
        v = np.array([0.0, thr / 2, -thr, 2 * thr, -thr / 2])
        add("HuberNorm", lamh, v, [(2, [delta, lamh], [abs(t)]) for t in v], delta=delta, separable=True)
        v = np.array([a * ph for a in aa])
        add("HuberNorm", lamh, v, [(2, [delta, lamh], [a]) for a in aa], delta=delta, separable=True)
        for a in aa:
            for kind in ("sparse", "dense", "cplx"):
                add("HuberNorm", lamh, vec(a, kind), [(2, [delta, lamh], [a])], delta=delta, separable=False)
    # ---- l2 ball, incl. BlockArray arguments
    for r in (1.25, 5.0):
        for m in (0.0, r / 2, r, 2 * r):
            for kind in ("sparse", "dense", "cplx", "block"):
                add("L2BallIndicator", 1.0, vec(m, kind), [(3, [r], [m])], radius=r)
    # ---- set distances: d = 0, < lam, = lam, > lam
    lam = 1.25
    for d in (0.0, 0.625, 1.25, 2.5):
        for unit in ("SetDistance", "SquaredSetDistance"):
            pr = [(4, [lam], [d])] if unit == "SetDistance" else []
            add(unit, lam, np.array([0.5, -d, 1.0]) if d else np.array([0.5, 0.0, 1.0]), pr, proj="nonneg", args=[])
            add(unit, lam, np.array([0.0, 0.5 + d]), pr, proj="box", args=[-1.0, 0.5])
            add(unit, lam, np.array([0.75 + 0.6 * d, 0.75 - 0.8 * d]), pr, proj="point", args=[0.75])
            add(unit, lam, np.array([0.75 + d * ph, 0.75 + 0j]), pr, proj="point", args=[0.75])
            add(unit, lam, np.array([1.0, 0.6 * d, -0.8 * d]), pr, proj="coordsub", args=[1])
    # ---- singular value thresholding
    lam = 1.0
    for S in ([2.0, 1.0, 0.5], [1.0, 0.0], [0.5, 0.5]):
        add("NuclearNorm", lam, np.diag(S), [(5, [lam], [t]) for t in S])
    add("NuclearNorm", lam, np.array([[2.0, 0.0, 0.0], [0.0, 0.5, 0.0]]), [(5, [lam], [2.0]), (5, [lam], [0.5])])
    add("NuclearNorm", lam, 1j * np.diag([2.0, 1.0]), [(5, [lam], [2.0]), (5, [lam], [1.0])])
    Q = np.array([[0.6, 0.8], [-0.8, 0.6]])
    add("NuclearNorm", lam, Q @ np.diag([2.5, 0.625]) @ Q.T, [])
    add("NuclearNorm", lam, np.zeros((2, 2)), [(5, [lam], [0.0])])
    # general-position complex matrices of every aspect (wide, tall, row, column): the minimiser is U (S - lam)_+ V^H with the
    # phases of v, so a result with conjugated / transposed phases is not optimal although its spectrum is
    Wc = np.array([[1.5 + 0.5j, -0.25 + 2.0j, 0.75 - 1.0j], [0.5 - 1.25j, 1.0 + 0.25j, -2.0 + 0.5j]])
    for lam_ in (0.5, 1.0):
        add("NuclearNorm", lam_, Wc, [])
        add("NuclearNorm", lam_, Wc.T.copy(), [])
        add("NuclearNorm", lam_, Wc[:1, :].copy(), [])
        add("NuclearNorm", lam_, Wc[:, :1].copy(), [])
        add("NuclearNorm", lam_, Wc[:, :2].copy(), [])
        add("NuclearNorm", lam_, np.real(Wc) + 0.0, [])
    # ---- phase-retrieval losses: zero entries, zero weights, al*y <, =, > 1
    sc, lam = 0.5, 1.0
    vr = np.array([0.0, 0.0, 1.5, -2.0])
    w = np.array([0.0, 0.5, 0.0, 0.5])
    y = np.array([1.0, 1.0, 0.5, 2.0])
    for vv in (vr, np.array([0.0, 0.0, 0.75 + 1.0j, -3.0 + 4.0j])):
        add("SquaredL2AbsLoss", lam, vv, [(6, [], [float(abs(t)), float(ww)]) for t, ww in zip(vv, w)],
            scale=sc, y=enc(y), w=enc(w))
    add("SquaredL2AbsLoss", lam, vr, [], scale=sc, y=enc(y))
    ws = [0.0, 0.0, 0.5, 0.5, 0.5, 0.5, 0.5, 0.5]
    ys = [1.0, 1.0, 0.5, 1.0, 4.0, 0.5, 1.0, 4.0]
    for bs in ([0.0, -1.25, 0.0, 0.0, 0.0, 1.25, -1.25, 1.25],
               [0.0, 0.75 + 1.0j, 0.0, 0.0, 0.0, 0.75 - 1.0j, 1.25j, -0.75 + 1.0j]):
        vv = np.array(bs)
        add("SquaredL2SquaredAbsLoss", lam, vv,
            [(7, [sc, lam], [ww, float(abs(t)), yy]) for t, ww, yy in zip(vv, ws, ys)],
            scale=sc, y=enc(np.array(ys)), w=enc(np.array(ws)))
    # ---- L1MinusL2Norm: max|v| in the three windows and on their boundaries, beta != 1 and beta = 1
    lam = 2.5
    for beta in (0.25, 0.5, 0.75, 1.0):
        lo = (1 - beta) * lam
        wins = sorted({0.0, lo / 2, lo, (lo + lam) / 2, lam, 2 * lam})
        for m in wins:
            pr = [(8, [beta, lam], [m])]
            if m == 0:
                add("L1MinusL2Norm", lam, np.zeros(3), pr, beta=beta)
                continue
            add("L1MinusL2Norm", lam, np.array([0.0, -m, 0.0]), pr, beta=beta)                 # one-sparse
            add("L1MinusL2Norm", lam, np.array([m, -m / 2, m / 4]), pr, beta=beta)             # dense
            add("L1MinusL2Norm", lam, np.array([[m / 2, m], [-m, 0.0]]), pr, beta=beta)        # tie in argmax
            if beta in (0.5, 0.25):
                add("L1MinusL2Norm", lam, np.array([m * ph, m / 2, 0.0]), pr, beta=beta)       # complex dense
                add("L1MinusL2Norm", lam, np.array([0.0, -m * ph]), pr, beta=beta)             # complex one-sparse
    return out


def run_probes(ctx, probes):
    """evaluate the branch signatures inside Coq and check that every reachable one is realised"""
    txt = coq_list([f"({u}%nat, {coq_list([qc(t) for t in ps])}, {coq_list([qc(t) for t in xs])})"
                    for u, ps, xs in probes], ";\n ")
    body = f"Definition probes : list probe := {txt}.\nEval vm_compute in (map probe_sig probes)."
    sigs = parse_eval_nat_list(coq_eval_shards("C02_probes", HEADER, [body])[0])
    if len(sigs) != len(probes):
        raise Broken("branch signatures: wrong number of results")
    seen = {}
    for (u, _, _), sg in zip(probes, sigs):
        ds = []
        for _ in range(SIG_LEN[u]):
            ds.append(sg % 4)
            sg //= 4
        seen.setdefault(u, set()).add(tuple(reversed(ds)))
    for u, req in REQUIRED_SIGS.items():
        missing = req - seen.get(u, set())
        ctx.obligation(not missing, f"designed set realises every branch / boundary of the {UNIT_OF_SIG[u]} model",
                       f"missing signatures {sorted(missing)}; seen {sorted(seen.get(u, set()))}")


def run(ctx: Ctx):
    if not getattr(ctx, "no_proofs", False):
        ctx.proofs()
        try:
            coq_make(["Findings/C02_L0Norm.vo"])
            ctx.notes.append("Findings/C02_L0Norm.v (refutation of the full statement for the faithful model) compiles")
        except Broken as b:
            ctx.notes.append("finding no longer reproduces in Coq: " + b.what)
    ctx.trusted += [
        "meaning given to jnp primitives in C02.Models (abs, sign, maximum, where, sqrt via its square, "
        "exp(1j*angle(v)) = v/|v| and 1 at 0, svd singular values via numpy.linalg.svd)",
        "Section hypotheses: metric projection (proj x in C, <x - proj x, c - proj x> <= 0) for the set distances; "
        "root of the depressed cubic (residual checked on the implementation's root to 2^-20) for SquaredL2SquaredAbsLoss",
    ]
    ctx.assumptions += ["exact arithmetic in the model; float64 rounding is covered by a 2^-30 relative tolerance "
                        "where a division or square root occurs, exact comparison otherwise",
                        "NuclearNorm: matrix-level optimality not proved (spectrum-level only); L1MinusL2Norm: proved "
                        "in one dimension only; both are covered by the objective oracle"]
    items = []
    # designed set first: independent of VERIF_SEED (its own fixed PRNG for the oracle's perturbations)
    import random as _random
    drng = _random.Random(20260930)
    probes = []
    for c, pr in designed_cases():
        ctx.count("designed-" + c["unit"], c, nontrivial=bool(np.any(flat(dec(c["v"])) != 0)))
        check_case(ctx, c, drng, items)
        probes += pr
    run_probes(ctx, probes)
    ctx.notes.append(f"{len(items)} comparisons from the designed (seed-independent) set, {len(probes)} branch probes")
    rng = ctx.rng
    per_unit = ctx.n(13, 400)
    for unit in UNITS:
        for _ in range(per_unit):
            c = gen_case(rng, unit)
            ctx.count(unit, c, nontrivial=bool(np.any(flat(dec(c["v"])) != 0)))
            check_case(ctx, c, rng, items)
    bad = run_coq(ctx, items)
    for c, tag, txt, already in bad:
        unit = c["unit"]
        if tag == "spec":
            # differs from the proved minimiser: a violation only if the oracle found a better point
            # (ties between two minimisers are legitimate for the non-convex l0 penalty)
            continue
        ctx.violation(vunit(c), "prox output differs from the Coq model of the prox body (proved minimiser)",
                      annotate(c), expected="C02.Models at Qc (vm_compute)", observed=enc(run_impl(c)),
                      oracle="correspondence with coq/theories/C02/Models.v")
    nspec = sum(1 for c, tag, _, _ in bad if tag == "spec")
    ctx.notes.append(f"{len(items)} Coq comparisons; {nspec} outputs differ from the proved minimiser of a unit whose "
                     f"code model is refuted (each confirmed or dismissed by the objective oracle)")


def replay(ctx: Ctx, rec):
    c = {k: v for k, v in rec["input"].items() if k not in ("ratios", "norm_v", "norm_v2", "designed")}
    import random
    rng = random.Random(0)
    try:
        out = run_impl(c)
    except Exception:
        return False
    if oracle(c, rng, out, None) is not None:
        return False
    items = [(c, tag, txt, False) for tag, txt in coq_cases(c, out) if tag == "model"]
    return not run_coq(ctx, items, "C02_replay")
