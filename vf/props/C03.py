"""C03 -- optimisers keep an optimal point fixed and converge to the true minimiser.

Theorems: coq/Properties/C03.v (fixed points of every optimiser's documented step, transported
to the generated steps with C11; PGM descent / contraction / linear rate for all k; ADMM
Lyapunov decrease and residual summability for one block).
Correspondence: manufactured problems with EXACTLY known minimisers.  A primal point xs, the
operators and subgradients s_i in dg_i(C_i xs) are chosen first (dyadic), then the data y of
f = a ||d.x - y||^2 is solved for so that  grad f(xs) = -sum_i C_i^H s_i  holds exactly (Python
Fractions).  The optimal state is cross-checked by the Coq model (C03/CheckFix.v: the documented
step evaluated at the executable instance leaves it unchanged, i.e. KKT in prox form, by
vm_compute); one REAL step() from it must stay there; along real runs the PGM objective and
distance (L >= Lipschitz constant) and the ADMM Lyapunov function (from iteration 1) must not
increase (1e-9 relative); solve() must approach xs on strongly convex problems.
"""
from __future__ import annotations

import random
from fractions import Fraction as Fr

import numpy as np

from vf.common import Ctx, Broken, coq_eval_shards, parse_eval_nat_list, coq_make
from vf.props.C11 import (Space, flat, qc, vlit, mlit, ball_class, pow2_at_least, fro2, run_py2coq, dy)

HEADER = """From Coq Require Import List Bool ZArith QArith Qcanon.
From SV Require Import Base.Num C11.Overload C11.Exec C03.CheckFix.
From SV Require C11.Spec_PGM.
From SVGen Require C11_Ladmm C11_Padmm C11_Nlpadmm C11_Pdhg C11_Pgm C11_Apgm C11_Admm.
Import ListNotations.
"""
CLASSES = ["LADMM", "PADMM", "NLPADMM", "PDHG", "PGM", "APGM", "ADMM"]
NAMES = {"LADMM": "LinearizedADMM", "PADMM": "ProximalADMM", "NLPADMM": "NonLinearPADMM", "PDHG": "PDHG",
         "PGM": "PGM", "APGM": "AcceleratedPGM", "ADMM": "ADMM"}
RTOL = 1e-9


def fr(x):
    return x if isinstance(x, Fr) else Fr(x)


def mv(rows, v):
    return [sum(fr(a) * b for a, b in zip(r, v)) for r in rows]


def mtv(rows, w):
    n = len(rows[0]) if rows else 0
    return [sum(fr(rows[i][j]) * w[i] for i in range(len(rows))) for j in range(n)]


def fl_list(v):
    return [float(t) for t in v]


def spec2(rows):
    """squared spectral norm (float) of a model matrix"""
    return float(np.linalg.norm(np.array([[float(t) for t in r] for r in rows]), 2) ** 2)


def dyf(rng, lo=-2, hi=2, bits=2):
    return Fr(rng.randint(lo * (1 << bits), hi * (1 << bits)), 1 << bits)


# ------------------------------------------------------------------ manufactured pieces

def make_C(rng, X: Space, dense):
    """operator on X: (scico op, output space, model rows, diagonal?)"""
    from scico import linop
    import scico.numpy as snp
    from vf.props.C11 import make_linop
    if dense and X.kind != "block":
        op, Zs, rows = make_linop(rng, X)
        return op, Zs, [[fr(t) for t in r] for r in rows], False
    d = [rng.choice([Fr(1), Fr(1), Fr(2), Fr(1, 2), Fr(-1)]) for _ in range(X.entries)]
    dd = X.real_dup(d)
    if all(t == 1 for t in d) and rng.random() < 0.5:
        op = linop.Identity(X.shape, input_dtype=X.dtype)
    else:
        arr = X.make(fl_list(dd)) if X.kind != "complex" else snp.array(np.array(fl_list(d), dtype=np.complex128))
        op = linop.Diagonal(arr)
    rows = [[dd[i] if i == j else Fr(0) for j in range(X.dim)] for i in range(X.dim)]
    return op, X, rows, True


def make_g(rng, S: Space, zstar, diag):
    """functional on S and a subgradient s at zstar (exact).  Returns (obj, fspec, kind, s) or None."""
    from scico import functional
    kinds = ["sql2", "ball"]
    groups = [zstar[i:i + 2] for i in range(0, len(zstar), 2)] if S.kind == "complex" else None
    if S.kind != "complex":
        if diag or all(t != 0 for t in zstar):
            kinds.append("l1")
        if all(t >= 0 for t in zstar):
            kinds += ["nonneg", "nonneg"]
    elif all(a == 0 or b == 0 for a, b in groups):
        kinds.append("l1")
    k = rng.choice(kinds)
    if k == "sql2":
        c = rng.choice([Fr(1, 4), Fr(1, 2), Fr(1)])
        return float(c) * functional.SquaredL2Norm(), f"(FSqL2 {qc(c)})", k, [2 * c * t for t in zstar]
    if k == "l1":
        c = rng.choice([Fr(1, 4), Fr(1, 2), Fr(1)])
        if S.kind == "complex":
            s = []
            for a, b in groups:
                if a == 0 and b == 0:
                    s += [c * dyf(rng, -1, 1, 1) / 2, Fr(0)]
                else:
                    s += [c * (1 if a > 0 else -1 if a < 0 else 0), c * (1 if b > 0 else -1 if b < 0 else 0)]
            return float(c) * functional.L1Norm(), f"(FL1C {qc(c)})", k, s
        s = [c * (1 if t > 0 else -1) if t != 0 else c * dyf(rng, -1, 1, 2) for t in zstar]
        return float(c) * functional.L1Norm(), f"(FL1 {qc(c)})", k, s
    if k == "nonneg":
        s = [Fr(0) if t > 0 else -abs(dyf(rng)) for t in zstar]
        return functional.NonNegativeIndicator(), "FNonNeg", k, s
    nz = [t for t in zstar if t != 0]
    if len(nz) == 1 and rng.random() < 0.6:        # on the boundary of the ball: s = tau * zs
        r = abs(nz[0])
        tau = abs(dyf(rng))
        return ball_class()(float(r)), f"(FBall {qc(r)})", "ball-boundary", [tau * t for t in zstar]
    r = Fr(pow2_at_least(float(sum(abs(t) for t in zstar)) + 0.5))
    return ball_class()(float(r)), f"(FBall {qc(r)})", "ball-interior", [Fr(0)] * len(zstar)


def make_f(rng, X: Space, xstar, q, as_matrix=False):
    """f = a || d.x - y ||^2 with grad f(xs) = -q  (y solved for)."""
    from scico import linop, loss
    import scico.numpy as snp
    a = rng.choice([Fr(1, 2), Fr(1), Fr(1, 4)])
    d = [rng.choice([Fr(1), Fr(2), Fr(1, 2), Fr(-1)]) for _ in range(X.entries)]
    dd = X.real_dup(d)
    y = [dd[i] * xstar[i] + q[i] / (2 * a * dd[i]) for i in range(X.dim)]
    arr = X.make(fl_list(dd)) if X.kind != "complex" else snp.array(np.array(fl_list(d), dtype=np.complex128))
    if as_matrix:    # MatrixSubproblemSolver cannot take a Diagonal f.A (jnp.array(Diagonal) fails in MatrixATADSolver)
        A = linop.MatrixOperator(snp.array(np.diag(np.array(fl_list(d))).astype(X.dtype)))
    else:
        A = linop.Diagonal(arr)
    f = loss.SquaredL2Loss(y=X.make(fl_list(y)), A=A, scale=float(a))
    lip = 2 * a * max(t * t for t in d)
    mu = 2 * a * min(t * t for t in d)
    return f, f"(FLossD {qc(a)} {vlit(dd)} {vlit(y)})", float(lip), float(mu)


def pick_space(rng):
    r = rng.random()
    if r < 0.5:
        return Space("real", rng.randint(1, 4))
    if r < 0.75:
        return Space("complex", rng.randint(1, 2))
    return Space("block", (rng.randint(1, 3), rng.randint(1, 2)))


def xstar_for(rng, X):
    if X.kind == "complex":
        v = []
        for _ in range(X.n):
            t = rng.random()
            a = dyf(rng)
            v += [Fr(0), Fr(0)] if t < 0.25 else ([a, Fr(0)] if t < 0.65 else [Fr(0), a])
        return v
    return [Fr(0) if rng.random() < 0.3 else dyf(rng) for _ in range(X.dim)]


# ------------------------------------------------------------------ one manufactured problem

class Prob:
    pass


def build(rng, kind, force=None):
    """Manufacture a problem for optimiser `kind` with known optimum; returns Prob with a factory
    for real optimiser objects, the optimal state, and Coq terms."""
    from scico.optimize import ADMM, LinearizedADMM, PDHG, PGM, AcceleratedPGM, ProximalADMM, NonLinearPADMM
    import scico.numpy as snp
    force = force or {}
    p = Prob()
    p.kind = kind
    X = pick_space(rng) if kind not in ("NLPADMM",) else Space("real", rng.randint(1, 3))
    nonlin = kind == "PDHG" and rng.random() < 0.3
    if nonlin:
        X = Space("real", rng.randint(1, 3))
    xs = xstar_for(rng, X)
    p.X, p.xs = X, xs
    p.rec = {"class": kind, "space": X.kind, "n": X.n}
    one = lambda v: [Fr(1) + 2 * a * b for a, b in v]

    if kind in ("PGM", "APGM"):
        g, gs, gk, s = make_g(rng, X, xs, True)
        f, fs, lip, mu = make_f(rng, X, xs, s)
        L0 = pow2_at_least(lip) * rng.choice([1, 2])
        p.rec.update(g=gk, L0=L0, lip=lip, mu=mu)
        cls = PGM if kind == "PGM" else AcceleratedPGM
        p.make = lambda x0: cls(f=f, g=g, L0=L0, x0=X.make(fl_list(x0)), maxiter=1)
        p.set_opt = lambda o: None
        p.f, p.g_list, p.L, p.mu = f, [g], L0, mu
        if kind == "PGM":
            st = lambda x: f"(C11_Pgm.mk_st {vlit(x)} {qc(L0)} {qc(0)} (mkF {fs}) (mkF {gs}) Spec_PGM.fixed_policy)"
            p.term = lambda i, post: f"PGF.check {i} {st(xs)} {st(post['x'])}"
        else:
            st = lambda x, v: f"(C11_Apgm.mk_st {vlit(x)} {vlit(v)} {qc(1)} {qc(L0)} {qc(0)} (mkF {fs}) (mkF {gs}) Spec_PGM.fixed_policy)"
            p.term = lambda i, post: f"APF.check {i} {st(xs, xs)} {st(post['x'], post['v'])}"
        p.state = lambda o: {"x": flat(o.x), **({"v": flat(o.v)} if kind == "APGM" else {})}
        return p

    if kind == "ADMM":
        from scico.optimize.admm import LinearSubproblemSolver, MatrixSubproblemSolver, GenericSubproblemSolver
        N = rng.randint(1, 3)
        solver = force.get("solver") or rng.choice(["linear", "matrix", "generic"])
        if X.kind == "block" and solver != "linear":
            solver = "linear"
        Cs, rowss, gobj, gss, gks, ss, zss = [], [], [], [], [], [], []
        for _ in range(N):
            # MatrixSubproblemSolver needs every C_i (and f.A) to be a MatrixOperator in practice
            C, Zs, rows, diag = make_C(rng, X, dense=(solver == "matrix" or rng.random() < 0.5))
            zst = mv(rows, xs)
            g, gs, gk, s = make_g(rng, Zs, zst, diag)
            Cs.append(C), rowss.append(rows), gobj.append(g), gss.append(gs), gks.append(gk), ss.append(s), zss.append(zst)
        q = [sum(t) for t in zip(*[mtv(r, s) for r, s in zip(rowss, ss)])]
        f, fs, lip, mu = make_f(rng, X, xs, q, as_matrix=(solver == "matrix"))
        rho = [rng.choice([Fr(1, 2), Fr(1), Fr(2)]) for _ in range(N)]
        us = [[t / r for t in s] for s, r in zip(ss, rho)]
        alpha = force.get("alpha", rng.choice([1.0, 1.0, 1.5, 0.5]))
        p.rec.update(g=gks, blocks=N, rho=[float(r) for r in rho], alpha=alpha, solver=solver, mu=mu)

        def mk(x0, alpha_=alpha):
            sp = {"linear": lambda: LinearSubproblemSolver(cg_kwargs={"tol": 1e-13, "maxiter": 500}),
                  "matrix": lambda: MatrixSubproblemSolver(),
                  "generic": lambda: GenericSubproblemSolver(minimize_kwargs={"options": {"maxiter": 500}})}[solver]()
            return ADMM(f=f, g_list=gobj, C_list=Cs, rho_list=[float(r) for r in rho], alpha=alpha_,
                        x0=X.make(fl_list(x0)), subproblem_solver=sp, maxiter=1)
        p.make = mk
        Zsp = [Space(X.kind if len(z) == X.dim and X.kind == "block" else ("complex" if X.kind == "complex" else "real"),
                     X.n if len(z) == X.dim and X.kind == "block" else (len(z) // 2 if X.kind == "complex" else len(z))) for z in zss]

        def set_opt(o):
            o.z_list = [S.make(fl_list(z)) for S, z in zip(Zsp, zss)]
            o.z_list_old = list(o.z_list)
            o.u_list = [S.make(fl_list(u)) for S, u in zip(Zsp, us)]
        p.set_opt = set_opt
        p.zs_list, p.us_list, p.rho, p.f, p.g_list, p.Cs, p.mu = zss, us, rho, f, gobj, Cs, mu
        ll = lambda vs: "[" + "; ".join(vlit(v) for v in vs) + "]"
        st = lambda x, zl, ul, xo: (f"(C11_Admm.mk_st {vlit(x)} {ll(zl)} {ll(zl)} {ll(ul)} (mkF {fs}) true "
                                    f"[{'; '.join('mkF ' + t for t in gss)}] [{'; '.join('op_mat ' + mlit(r) for r in rowss)}] "
                                    f"{vlit(rho)} {qc(alpha)} (fun _ _ _ => {xo}))")
        p.term = lambda i, post: f"ADF.check {i} {st(xs, zss, us, vlit(xs))} {st(post['x'], post['z_list'], post['u_list'], '[]')}"
        p.state = lambda o: {"x": flat(o.x), "z_list": [flat(t) for t in o.z_list], "u_list": [flat(t) for t in o.u_list]}
        return p

    if kind == "NLPADMM":
        from scico.function import Function
        m = rng.randint(1, 3)
        Zs = Space("real", m)
        M = [[dyf(rng, -1, 1, 1) for _ in range(X.n)] for _ in range(m)]
        lin = force.get("linear", rng.random() < 0.3)
        d = [Fr(0)] * X.n if lin else [rng.choice([Fr(0), Fr(1, 4), Fr(-1, 4), Fr(1, 8)]) for _ in range(X.n)]
        e = [Fr(0)] * m if lin else [rng.choice([Fr(0), Fr(1, 4), Fr(-1, 8)]) for _ in range(m)]
        zst = [Fr(0) if rng.random() < 0.3 else dyf(rng, -1, 1, 2) for _ in range(m)]
        h0 = [a - b for a, b in zip(mv(M, [x + dd * x * x for x, dd in zip(xs, d)]), [z + ee * z * z for z, ee in zip(zst, e)])]
        g, gs, gk, s = make_g(rng, Zs, zst, True)
        rho = rng.choice([Fr(1, 2), Fr(1), Fr(2)])
        w = one(zip(e, zst))
        us = [si / (rho * wi) for si, wi in zip(s, w)]
        q = [rho * a * b for a, b in zip(one(zip(d, xs)), mtv(M, us))]
        f, fs, lip, mu_f = make_f(rng, X, xs, q)
        mu = pow2_at_least(4 * max(float(fro2(M)), 0.5))
        nu = rng.choice([4.0, 8.0])
        Mj, dj, ej, hj = (snp.array(np.array([fl_list(r) for r in M])), snp.array(np.array(fl_list(d))),
                          snp.array(np.array(fl_list(e))), snp.array(np.array(fl_list(h0))))
        H = Function(((X.n,), (m,)), output_shape=(m,), eval_fn=lambda x, z: Mj @ (x + dj * x * x) - (z + ej * z * z) - hj,
                     input_dtypes=np.float64, output_dtype=np.float64)
        p.rec.update(g=gk, rho=float(rho), mu=mu, nu=nu, linear_H=lin)
        p.make = lambda x0: NonLinearPADMM(f, g, H, float(rho), mu, nu, x0=X.make(fl_list(x0)), z0=Zs.make(fl_list(zst)),
                                           u0=Zs.make(fl_list(us)), maxiter=1)

        def set_opt(o):
            o.z = Zs.make(fl_list(zst)); o.z_old = o.z
            o.u = Zs.make(fl_list(us)); o.u_old = o.u
        p.set_opt = set_opt
        st = lambda x, z, u: (f"(C11_Nlpadmm.mk_st {vlit(x)} {vlit(z)} {vlit(z)} {vlit(u)} {vlit(u)} (mkF {fs}) (mkF {gs}) "
                              f"(fun2_quad_off {mlit(M)} {vlit(d)} {vlit(e)} {vlit(h0)}) {qc(rho)} {qc(mu)} {qc(nu)} true)")
        p.term = lambda i, post: f"NLF.check {i} {st(xs, zst, us)} {st(post['x'], post['z'], post['u'])}"
        p.ref = {"z": zst, "u": us}
        p.state = lambda o: {"x": flat(o.x), "z": flat(o.z), "u": flat(o.u)}
        p.convex = lin
        return p

    # single operator C: LADMM, PADMM, PDHG
    if nonlin:
        from scico.operator import Operator
        m = rng.randint(1, 3)
        Zs = Space("real", m)
        rows = [[dyf(rng, -1, 1, 1) for _ in range(X.n)] for _ in range(m)]
        d = [rng.choice([Fr(0), Fr(1, 4), Fr(-1, 4), Fr(1, 8)]) for _ in range(X.n)]
        Mj, dj = snp.array(np.array([fl_list(r) for r in rows])), snp.array(np.array(fl_list(d)))
        C = Operator(input_shape=(X.n,), output_shape=(m,), eval_fn=lambda x: Mj @ (x + dj * x * x),
                     input_dtype=np.float64, output_dtype=np.float64)
        zst = mv(rows, [x + dd * x * x for x, dd in zip(xs, d)])
        cs, diag = f"(op_quad {mlit(rows)} {vlit(d)})", False
        CTs = lambda s: [a * b for a, b in zip(one(zip(d, xs)), mtv(rows, s))]
    else:
        C, Zs, rows, diag = make_C(rng, X, dense=rng.random() < 0.5)
        zst = mv(rows, xs)
        cs = f"(op_mat {mlit(rows)})"
        CTs = lambda s: mtv(rows, s)
    p.convex = not nonlin

    if kind == "LADMM":
        g, gs, gk, s = make_g(rng, Zs, zst, diag)
        f, fs, lip, mu_f = make_f(rng, X, xs, CTs(s))
        nu = rng.choice([Fr(1, 2), Fr(1), Fr(2)])
        mu = nu / Fr(pow2_at_least(max(1.01 * spec2(rows), 0.25))) / rng.choice([1, 2])
        us = [nu * t for t in s]
        p.rec.update(g=gk, mu=float(mu), nu=float(nu))
        p.make = lambda x0: LinearizedADMM(f, g, C, float(mu), float(nu), x0=X.make(fl_list(x0)), maxiter=1)

        def set_opt(o):
            o.z = Zs.make(fl_list(zst)); o.z_old = o.z
            o.u = Zs.make(fl_list(us))
        p.set_opt = set_opt
        st = lambda x, z, u: f"(C11_Ladmm.mk_st {vlit(x)} {vlit(z)} {vlit(z)} {vlit(u)} (mkF {fs}) (mkF {gs}) {cs} {qc(mu)} {qc(nu)})"
        p.term = lambda i, post: f"LAF.check {i} {st(xs, zst, us)} {st(post['x'], post['z'], post['u'])}"
        p.ref = {"z": zst, "u": us}
        p.state = lambda o: {"x": flat(o.x), "z": flat(o.z), "u": flat(o.u)}
        return p

    if kind == "PADMM":
        from scico import linop
        rho = rng.choice([Fr(1, 2), Fr(1), Fr(2)])
        customB = rng.random() < 0.5
        if customB:
            b = [rng.choice([Fr(1), Fr(-1), Fr(2), Fr(-1, 2)]) for _ in range(Zs.entries)]
            bb = Zs.real_dup(b)
            zst = [Fr(0) if rng.random() < 0.3 else dyf(rng) for _ in range(Zs.dim)] if Zs.kind != "complex" else xstar_for(rng, Zs)
            arr = Zs.make(fl_list(bb)) if Zs.kind != "complex" else snp.array(np.array(fl_list(b), dtype=np.complex128))
            B = linop.Diagonal(arr)
            c = [a + bi * z for a, bi, z in zip(mv(rows, xs), bb, zst)]
            diag = True
        else:
            bb, B, c = [Fr(-1)] * Zs.dim, None, None
        g, gs, gk, s = make_g(rng, Zs, zst, diag)
        us = [-si / (rho * bi) for si, bi in zip(s, bb)]
        f, fs, lip, mu_f = make_f(rng, X, xs, [rho * t for t in mtv(rows, us)])
        mu = pow2_at_least(max(1.01 * spec2(rows), 0.5)) * rng.choice([1, 2])
        nu = pow2_at_least(max(1.01 * float(max(t * t for t in bb)), 0.5)) * rng.choice([1, 2])
        Brows = [[bb[i] if i == j else Fr(0) for j in range(Zs.dim)] for i in range(Zs.dim)]
        cvec = c if c is not None else [Fr(0)] * Zs.dim
        p.rec.update(g=gk, rho=float(rho), mu=mu, nu=nu, custom_B_c=customB)
        p.make = lambda x0: ProximalADMM(f, g, C, float(rho), mu, nu, B=B, c=None if c is None else Zs.make(fl_list(c)),
                                         x0=X.make(fl_list(x0)), z0=Zs.make(fl_list(zst)), u0=Zs.make(fl_list(us)), maxiter=1)

        def set_opt(o):
            o.z = Zs.make(fl_list(zst)); o.z_old = o.z
            o.u = Zs.make(fl_list(us)); o.u_old = o.u
        p.set_opt = set_opt
        st = lambda x, z, u: (f"(C11_Padmm.mk_st {vlit(x)} {vlit(z)} {vlit(z)} {vlit(u)} {vlit(u)} (mkF {fs}) (mkF {gs}) {cs} "
                              f"(op_mat {mlit(Brows)}) {vlit(cvec)} {qc(rho)} {qc(mu)} {qc(nu)} true)")
        p.term = lambda i, post: f"PAF.check {i} {st(xs, zst, us)} {st(post['x'], post['z'], post['u'])}"
        p.ref = {"z": zst, "u": us}
        p.state = lambda o: {"x": flat(o.x), "z": flat(o.z), "u": flat(o.u)}
        return p

    if kind == "PDHG":
        g, gs, gk, s = make_g(rng, Zs, zst, diag)
        f, fs, lip, mu_f = make_f(rng, X, xs, CTs(s))
        bound = (4 if nonlin else 1) * max(1.01 * spec2(rows), 0.25)
        tau = rng.choice([0.25, 0.5, 1.0])
        sigma = 1.0 / pow2_at_least(bound * tau) / rng.choice([1, 2])
        alpha = rng.choice([0.0, 0.5, 1.0, 1.0])
        p.rec.update(g=gk, tau=tau, sigma=sigma, alpha=alpha, nonlinear_C=nonlin)
        p.make = lambda x0: PDHG(f, g, C, tau, sigma, alpha=alpha, x0=X.make(fl_list(x0)), z0=Zs.make(fl_list(s)), maxiter=1)

        def set_opt(o):
            o.z = Zs.make(fl_list(s)); o.z_old = o.z
            o.x_old = o.x
        p.set_opt = set_opt
        st = lambda x, z: (f"(C11_Pdhg.mk_st {vlit(x)} {vlit(x)} {vlit(z)} {vlit(z)} (mkF {fs}) (mkF {gs}) {cs} "
                           f"{qc(tau)} {qc(sigma)} {qc(alpha)})")
        p.term = lambda i, post: f"PDF.check {i} {st(xs, s)} {st(post['x'], post['z'])}"
        p.ref = {"z": s}
        p.state = lambda o: {"x": flat(o.x), "z": flat(o.z)}
        return p
    raise ValueError(kind)


# ------------------------------------------------------------------ checks

def dist(a, b):
    return float(np.sqrt(sum((float(x) - float(y)) ** 2 for x, y in zip(a, b))))


def monotone_pgm(p, rng, niter):
    """PGM from a random start: F(x_k) and ||x_k - xs|| never increase.  Returns first bad iteration or None."""
    x0 = [dy(rng) for _ in range(p.X.dim)]
    if p.rec["g"] == "nonneg":
        x0 = [abs(t) for t in x0]            # F(x0) must be finite for the objective test to say anything
    o = p.make(x0)
    Fv = lambda: float(o.f(o.x)) + float(p.g_list[0](o.x))
    F0, d0 = Fv(), dist(flat(o.x), p.xs)
    for k in range(niter):
        o.step()
        F1, d1 = Fv(), dist(flat(o.x), p.xs)
        if np.isfinite(F0) and F1 > F0 + RTOL * (1 + abs(F0)):
            return {"iteration": k + 1, "quantity": "objective", "before": F0, "after": F1, "x0": x0}
        if d1 > d0 + RTOL * (1 + d0):
            return {"iteration": k + 1, "quantity": "distance to the minimiser", "before": d0, "after": d1, "x0": x0}
        F0, d0 = F1, d1
    return None


def lyapunov_admm(p, rng, niter):
    """ADMM (alpha = 1) from a random start: V_k from iteration 1 on never increases."""
    x0 = [dy(rng) for _ in range(p.X.dim)]
    o = p.make(x0, 1.0)

    def V():
        return sum(float(r) * (dist(flat(u), us) ** 2 + dist(flat(z), zs) ** 2)
                   for r, u, us, z, zs in zip(p.rho, o.u_list, p.us_list, o.z_list, p.zs_list))
    o.step()
    V0 = V()
    for k in range(1, niter):
        o.step()
        V1 = V()
        if V1 > V0 + RTOL * (1 + V0):
            return {"iteration": k + 1, "quantity": "ADMM Lyapunov function", "before": V0, "after": V1, "x0": x0}
        V0 = V1
    return None


def converges(p, rng, niter, frac=0.25):
    """solve() from a random start approaches xs: the error after niter iterations is at most `frac` of
    the initial error (or below 1e-6), is not larger than after niter/2 iterations, and solve()
    returns minimizer()."""
    x0 = [dy(rng) for _ in range(p.X.dim)]
    if p.kind in ("PGM", "APGM") and p.rec["g"] == "nonneg":
        x0 = [abs(t) for t in x0]
    o = p.make(x0)
    o.maxiter = niter // 2
    o.solve()
    eh = dist(flat(o.minimizer()), p.xs)
    x = o.solve()            # resumes: niter iterations in total
    xm = o.minimizer()
    e0, e1 = dist(x0, p.xs), dist(flat(xm), p.xs)
    ok = (e1 <= max(frac * e0, 1e-6)) and (e1 <= eh * (1 + 1e-9) + 1e-12) and flat(x) == flat(xm)
    return None if ok else {"iterations": niter, "frac": frac, "initial_error": e0, "error_halfway": eh, "final_error": e1, "x0": x0,
                            "solve_returns_minimizer": flat(x) == flat(xm)}


CTOR_COMPLETE = ("PADMM", "NLPADMM", "PDHG")


def py_moved(p, post, tol=2.0 ** -30):
    """components of the state after one step that differ from the manufactured optimum (compared in Python; used only
    to SEARCH for a failing input when the Coq model no longer builds, and to replay such a record)"""
    ref = {"x": p.xs} | getattr(p, "ref", {})
    bad = []
    for k_, v_ in ref.items():
        if k_ in post and len(post[k_]) == len(v_) and max(abs(float(a) - float(b)) for a, b in zip(post[k_], v_)) > tol:
            bad.append(k_)
    return bad


def fallback_search(ctx: Ctx):
    """The proved model is unavailable (a generated definition or a theorem broke): look for a concrete failing input of
    the fixed-point clause on the implementation alone, against the exact optimum computed in Python Fractions."""
    per = ctx.n(9, 40)
    info = {"seed": ctx.seed, "tier": ctx.tier, "oracle": "python"}
    for kind in CLASSES:
        for i in range(per):
            sub = ctx.rng.randrange(1 << 30)
            force = {"solver": ["linear", "matrix", "generic"][i % 3]} if kind == "ADMM" else {}
            try:
                p = build(random.Random(sub), kind, force)
                p.rec.update(case_seed=sub, force=force)
                o = p.make(p.xs)
                ctor_only = kind in CTOR_COMPLETE and i % 2 == 1
                p.rec["start"] = "constructor" if ctor_only else "attributes"
                if not ctor_only:
                    p.set_opt(o)
                o.step()
                post = p.state(o)
            except Exception as ex:      # noqa: BLE001 -- the search must not mask the broken obligation
                ctx.notes.append(f"fallback search: {kind} case {sub} raised {type(ex).__name__}: {ex}")
                continue
            ctx.count(f"fallback-fixed-point-{kind}-{p.rec['start']}", p.rec)
            bad = py_moved(p, post)
            if bad:
                ctx.violation(f"{NAMES[kind]}.step", "one step() from a primal-dual optimal point moves away from it",
                              p.rec | info | {"components": bad}, expected={"x": [float(t) for t in p.xs]}, observed=post,
                              oracle="exact KKT point (Python Fractions); the Coq cross-check is unavailable because the model no longer builds")
                break


def run(ctx: Ctx):
    run_py2coq(ctx)
    ctx.trusted += ["C11 (generated steps = documented steps) and its trusted base",
                    "manufactured optima computed in Python Fractions; cross-checked in Coq (C03/CheckFix.v, vm_compute)",
                    "prox / grad / x-update oracles satisfy their contracts (IsProx of a convex functional, descent lemma, "
                    "sub-problem minimiser): Section hypotheses, exercised by the correspondence"]
    ctx.assumptions += ["convex problems in each solver's documented class, parameters within the documented ranges",
                        "ADMM Lyapunov theorem proved for one block (N blocks: fixed point only); no relaxation in the Lyapunov part",
                        "convergence is proved as the explicit PGM rate and ADMM residual summability, not as a limit statement; "
                        "FISTA's O(1/k^2) is not attempted",
                        "exact arithmetic in the model; real runs compared up to 2^-30 (state) / 1e-9 relative (monotone quantities)"]
    if not getattr(ctx, "no_proofs", False):
        ctx.proofs()
    try:
        coq_make(["theories/C03/CheckFix.vo"])
    except Broken as b:
        ctx.obligation(False, "executable model C03/CheckFix.v builds against the regenerated definitions", b.detail)
        fallback_search(ctx)
        return
    per = ctx.n(9, 100)
    info = {"seed": ctx.seed, "tier": ctx.tier}
    for kind in CLASSES:
        cases = []
        for i in range(per):
            sub = ctx.rng.randrange(1 << 30)
            force = {"solver": ["linear", "matrix", "generic"][i % 3]} if kind == "ADMM" else {}
            p = build(random.Random(sub), kind, force)
            p.rec.update(case_seed=sub, force=force)
            o = p.make(p.xs)
            # PADMM / NLPADMM / PDHG take the whole primal-dual point through the documented x0 / z0 / u0 arguments:
            # every other case starts from the constructor alone (no attribute is overwritten afterwards)
            ctor_only = kind in CTOR_COMPLETE and i % 2 == 1
            p.rec["start"] = "constructor" if ctor_only else "attributes"
            if not ctor_only:
                p.set_opt(o)
            o.step()
            post = p.state(o)
            cases.append((p, post))
            ctx.count(f"fixed-point-{kind}-{p.rec['space']}-{p.rec['start']}", p.rec)
        bodies, shard = [], 40
        for s in range(0, len(cases), shard):
            defs = [f"Definition c{j} := {p.term(j, post)}." for j, (p, post) in enumerate(cases[s:s + shard])]
            bodies.append("\n".join(defs) + "\nEval vm_compute in (" + " ++ ".join(f"c{j}" for j in range(len(defs))) + " ++ [] : list nat).")
        outs = coq_eval_shards("C03_" + kind, HEADER, bodies)
        for si, out in enumerate(outs):
            bad = {}
            for code in parse_eval_nat_list(out):
                bad.setdefault(si * shard + code // 100, []).append(code % 100)
            for idx, comps in sorted(bad.items()):
                p, post = cases[idx]
                if any(c < 10 for c in comps):
                    ctx.obligation(False, f"manufactured optimum of a {kind} problem fails the KKT cross-check in Coq",
                                   str({"rec": p.rec, "components": comps}))
                else:
                    ctx.violation(f"{NAMES[kind]}.step", "one step() from a primal-dual optimal point moves away from it",
                                  p.rec | info | {"components": comps}, expected={"x": [float(t) for t in p.xs]},
                                  observed=post, oracle="exact KKT point (Python Fractions, cross-checked by vm_compute)")
        # monotone quantities and convergence along real runs
        nrun = ctx.n(2, 10)
        niter = ctx.n(30, 80)
        for p, _ in cases[:nrun]:
            sub = p.rec["case_seed"]
            if kind == "PGM":
                r = monotone_pgm(p, random.Random(sub + 1), niter)
                ctx.count("monotone-PGM", {"seed": sub})
                if r:
                    ctx.violation("PGM.step", f"{r['quantity']} increases along a run with L >= Lipschitz constant",
                                  p.rec | info | r, expected="non-increasing", observed=r, oracle="first iteration where a monotone quantity rises")
            if kind == "ADMM" and p.rec["solver"] != "generic":
                r = lyapunov_admm(p, random.Random(sub + 2), niter)
                ctx.count("lyapunov-ADMM", {"seed": sub})
                if r:
                    ctx.violation("ADMM.step", "ADMM Lyapunov function increases after iteration 1",
                                  p.rec | info | r, expected="non-increasing", observed=r, oracle="first iteration where a monotone quantity rises")
            if getattr(p, "convex", True):
                slow = kind == "ADMM" and p.rec["solver"] == "generic"     # scipy minimize per x-update
                r = converges(p, random.Random(sub + 3), 120 if slow else ctx.n(200, 500), 0.25 if slow else ctx.n(0.25, 0.05))
                ctx.count(f"converges-{kind}", {"seed": sub})
                if r:
                    ctx.violation(f"{NAMES[kind]}.solve", "solve() does not approach the exact minimiser of a strongly convex problem",
                                  p.rec | info | r, expected={"x": [float(t) for t in p.xs]}, observed=r, oracle="exact minimiser")
    ctx.traces = ctx.evaluations


def replay(ctx: Ctx, rec):
    inp = rec["input"]
    kind = inp["class"]
    p = build(random.Random(inp["case_seed"]), kind, inp.get("force") or {})
    unit = rec["unit"]
    if unit.endswith(".solve"):
        return converges(p, random.Random(inp["case_seed"] + 3), inp.get("iterations", 200), inp.get("frac", 0.25)) is None
    if "quantity" in inp:
        if kind == "PGM":
            return monotone_pgm(p, random.Random(inp["case_seed"] + 1), inp["iteration"] + 1) is None
        return lyapunov_admm(p, random.Random(inp["case_seed"] + 2), inp["iteration"] + 1) is None
    o = p.make(p.xs)
    if inp.get("start") != "constructor":
        p.set_opt(o)
    o.step()
    if inp.get("oracle") == "python":
        return not py_moved(p, p.state(o))
    coq_make(["theories/C03/CheckFix.vo"])
    out = coq_eval_shards("C03_replay", HEADER, [f"Definition c0 := {p.term(0, p.state(o))}.\nEval vm_compute in (c0 ++ [] : list nat)."])
    return not [c for c in parse_eval_nat_list(out[0]) if c % 100 >= 10]
