"""C04 -- built-in operators compute exactly their documented mathematical maps.

Models (all sizes / axes / flags): coq/theories/C04/Models.v; theorems: C04/Theorems.v (finite
differences = documented banded matrices entry-wise; X-ray mass conservation), LinAlg/CQExpr.v
(stacks = block matrices).  Per configuration the implementation's dense matrix is compared
inside Coq with the model's matrix (exact for sums/products of dyadics, tolerance for FFT).
Classes without a Coq model (fractional filter centres, DFT lengths not dividing 4, polar /
cylindrical / spherical coordinate fields, optical transfer functions, X-ray bin weights, Abel)
are compared with independent NumPy references written here (labelled partial in the evidence).
"""
from __future__ import annotations

import math
import random

import numpy as np

from vf.common import Ctx, Broken, coq_eval_shards, parse_eval_nat_list, coq_list, qlit
from vf import linop_lib as L

HEADER = """From Coq Require Import List Bool ZArith QArith Qcanon.
From SV Require Import LinAlg.Mat LinAlg.CQ LinAlg.CQExpr C04.Arr C04.Models.
Import ListNotations.
Local Open Scope nat_scope.
"""


def nl(xs):
    return "[" + "; ".join(str(int(x)) for x in xs) + "]"


def opt(v):
    return "None" if v is None else f"(Some {int(v)})"


def filt(h):
    h = np.asarray(h)
    return f"({nl(h.shape)}, {L.coq_vec(h.ravel())})"


def mtol(A):
    """absolute tolerance of the Coq comparison for inexact (FFT / single precision) classes"""
    return 2.0 ** -30 if L.is_double(A.input_dtype) else 2.0 ** -14


def rtol(A):
    return 1e-9 if L.is_double(A.input_dtype) else 2e-5


def tol_lit(t):
    return "(@None Q)" if t is None else f"(Some {qlit(t)})"


def slice_sel(idx, shape):
    if not isinstance(idx, tuple):
        idx = (idx,)
    if any(i is Ellipsis for i in idx):
        k = [i is Ellipsis for i in idx].index(True)
        idx = idx[:k] + (slice(None),) * (len(shape) - (len(idx) - 1)) + idx[k + 1:]
    idx = idx + (slice(None),) * (len(shape) - len(idx))
    sel = []
    for i, n in zip(idx, shape):
        if isinstance(i, (int, np.integer)):
            sel.append(f"AInt {int(i) % n}")
        else:
            st, sp, stp = i.indices(n)
            cnt = len(range(st, sp, stp))
            sel.append(f"ARange ({st})%Z ({stp})%Z {cnt}")
    return "[" + "; ".join(sel) + "]"


def model_term(e, A):
    """Coq term of type (shape * cmat) for a modelled configuration, or None."""
    c = e.cfg
    cls = e.cls
    if cls == "SingleAxisFiniteDifference":
        return f"(fd_model {nl(c['shape'])} {c['axis']} {opt(c['prepend'])} {opt(c['append'])} {str(c['circular']).lower()})"
    if cls == "FiniteDifference":
        axes = c["axes"] if c["axes"] is not None else tuple(range(len(c["shape"])))
        return (f"(({nl([L.size_of(A.output_shape)])}), fdn_model {nl(c['shape'])} {nl(axes)} {opt(c['prepend'])} "
                f"{opt(c['append'])} {str(c['circular']).lower()})")
    if cls == "Pad":
        pw = c["pad_width"]
        if isinstance(pw, int):
            pw = tuple((pw, pw) for _ in c["shape"])
        return f"(pad_model {nl(c['shape'])} {nl([p[0] for p in pw])} {nl([p[1] for p in pw])})"
    if cls == "Crop":
        cw = c["crop_width"]
        return f"(crop_model {nl(c['shape'])} {nl([p[0] for p in cw])} {nl([p[1] for p in cw])})"
    if cls == "Slice":
        return f"(slice_model {nl(c['shape'])} {slice_sel(eval(c['idx'], {'slice': slice, 'Ellipsis': Ellipsis}), c['shape'])})"
    if cls == "Transpose":
        return f"(transpose_model {nl(c['shape'])} {nl(c['axes'])})"
    if cls == "Reshape":
        return f"({nl(c['newshape'])}, reshape_model {nl(c['shape'])} {nl(c['newshape'])})"
    if cls == "Sum":
        if c["axis"] is None:
            return f"(([] : shape), sum_all_model {nl(c['shape'])})"
        return f"(sum_axis_model {nl(c['shape'])} {c['axis']})"
    if cls == "Convolve":
        h = np.array(eval(c["h"]))
        mode = {"full": 0, "valid": 1, "same": 2}[c["mode"]]
        return f"(conv_model {mode} {nl(c['shape'])} {filt(h)})"
    if cls == "ConvolveByX":
        x = np.asarray(A.x)
        mode = {"full": 0, "valid": 1, "same": 3}[c["mode"]]
        return f"(conv_model {mode} {nl(c['shape'])} {filt(x)})"
    if cls == "CircularConvolve":
        h = np.array(eval(c["h"]))
        hc = c["h_center"]
        nd = c["ndims"] if c["ndims"] is not None else len(c["shape"])
        if h.ndim != nd:
            return None          # filter with its own batch axes: NumPy reference
        if hc is None:
            cen = [0] * nd
        else:
            cen = list(np.atleast_1d(hc))
        if any(float(t) != int(t) for t in cen):
            return None          # fractional centre: NumPy reference
        return f"({nl(c['shape'])}, circconv_model {nl(c['shape'])} {filt(h)} [{'; '.join('(%d)%%Z' % int(t) for t in cen)}])"
    if cls == "DFT":
        shp = c["shape"]
        axes = c["axes"] if c["axes"] is not None else tuple(range(len(shp)))
        axes = tuple(a % len(shp) for a in axes)        # negative indices count from the end (the model takes positions)
        axshape = c["axes_shape"] if c["axes_shape"] is not None else tuple(shp[a] for a in axes)
        lens = {a: m for a, m in zip(axes, axshape)}
        if any(4 % m for m in lens.values()):
            return None
        norm = c["norm"]
        N = int(np.prod(list(lens.values())))
        if norm is None:
            sc = 1.0
        elif norm == "forward":
            sc = 1.0 / N
        else:
            r = math.isqrt(N)
            if r * r != N:
                return None
            sc = 1.0 / r
        al = "[" + "; ".join(f"({'true' if i in lens else 'false'}, {lens.get(i, shp[i])})" for i in range(len(shp))) + "]"
        return f"(dft_model {nl(shp)} {al} {L.cq_entry(sc)})"
    if cls == "ProjectedGradient" and c.get("coord") is None and not c.get("cdiff"):
        axes = c.get("axes", tuple(range(len(c["shape"]))))
        return f"(({nl([L.size_of(A.output_shape)])}), diffstack_model {nl(c['shape'])} {nl(axes)})"
    return None


# ------------------------------------------------------------------ NumPy references (partial)

def numpy_reference(e, A):
    """independent dense reference matrix for classes without a Coq model, or None"""
    c, cls = e.cfg, e.cls
    shp = c.get("shape")

    def from_fn(fn, cplx):
        n = L.size_of(shp)
        cols = []
        for k in range(n):
            v = np.zeros(n, dtype=np.complex128 if cplx else np.float64)
            v[k] = 1.0
            cols.append(np.asarray(fn(v.reshape(shp))).ravel())
        return np.stack(cols, axis=1)
    if cls == "CircularConvolve":
        h = np.array(eval(c["h"]))
        nd = c["ndims"] if c["ndims"] is not None else len(shp)
        hc = c["h_center"]
        cen = np.zeros(nd) if hc is None else np.atleast_1d(np.array(hc, dtype=float))
        fshape = shp[-nd:]

        def ref(x):
            # direct circular convolution with (possibly fractional) centre via the Fourier shift
            # theorem evaluated with an explicit DFT matrix (independent of jnp.fft)
            H = np.fft.fftn(h, s=fshape, axes=list(range(h.ndim - nd, h.ndim)))
            for ax, (cc, s) in enumerate(zip(cen, fshape)):
                k = -cc
                f = np.arange(s)
                ph = np.where(f < s / 2, np.exp(-1j * k * 2 * np.pi * f / s),
                              np.where(f == s / 2, np.cos(k * np.pi), np.exp(1j * k * 2 * np.pi * (s - f) / s)))
                sh = [1] * nd
                sh[ax] = s
                H = H * ph.reshape(sh)
            X = np.fft.fftn(x, axes=list(range(x.ndim - nd, x.ndim)))
            y = np.fft.ifftn(H * X, axes=list(range(max(H.ndim, x.ndim) - nd, max(H.ndim, x.ndim))))
            return y if (np.iscomplexobj(h) or np.iscomplexobj(x)) else y.real
        return from_fn(ref, L.is_complex(A.input_dtype))
    if cls == "DFT":
        axes = c["axes"] if c["axes"] is not None else tuple(range(len(shp)))
        axshape = c["axes_shape"]

        def ref(x):
            y = x.astype(np.complex128)
            for a, m in zip(axes, axshape if axshape is not None else [shp[t] for t in axes]):
                n = y.shape[a]
                F = np.exp(-2j * np.pi * np.outer(np.arange(m), np.arange(min(n, m))) / m)   # direct DFT sum
                y = np.moveaxis(np.tensordot(F, np.moveaxis(y, a, 0)[: min(n, m)], axes=1), 0, a)
            N = np.prod([m for m in (axshape if axshape is not None else [shp[t] for t in axes])])
            if c["norm"] == "ortho":
                y = y / np.sqrt(N)
            elif c["norm"] == "forward":
                y = y / N
            return y
        return from_fn(ref, True)
    if cls == "ProjectedGradient" and c.get("coord") is None and c.get("cdiff"):
        axes = c.get("axes") or tuple(range(len(shp)))

        def ref(x):
            # documented: second-order central differences of numpy.gradient along each requested axis, stacked
            return np.concatenate([np.gradient(x, axis=a).ravel() for a in axes]) if len(shp) > 1 or True else None
        return from_fn(ref, L.is_complex(A.input_dtype))
    if cls == "ProjectedGradient" and c.get("coord") is not None:
        coord = np.array(eval(c["coord"]))

        def ref(x):
            g = []
            for ax in range(x.ndim):
                d = np.zeros_like(x)
                sl = [slice(None)] * x.ndim
                sl[ax] = slice(0, -1)
                d[tuple(sl)] = np.diff(x, axis=ax)
                g.append(d)
            return sum(coord[m] * g[m] for m in range(len(g)))
        return from_fn(ref, L.is_complex(A.input_dtype))
    return None


def extra_checks(ctx, e, A, M):
    """documented identities checked on the implementation's matrix for the non-modelled classes"""
    c, cls = e.cfg, e.cls
    key = e.key()
    if cls == "XRayTransform2D":
        shp, angles, ndet = c["shape"], c["angles"], c["det_count"]
        nview = len(angles)
        ny = M.shape[0] // nview
        # mass conservation: whenever the detector covers the shadow every column of each view sums to 1
        diag = math.sqrt(shp[0] ** 2 + shp[1] ** 2)
        if ndet is None or ndet >= diag + 2:
            for v in range(nview):
                cs = M[v * ny:(v + 1) * ny].sum(axis=0)
                if not (np.abs(cs - 1.0).max() <= 1e-9):
                    ctx.violation(cls, "total mass is not conserved in a view although the detector covers the shadow",
                                  {**key, "view": v}, expected="column sums 1", observed=cs.tolist(), oracle="xray_mass_conservation")
        if c.get("dx") == 1.0 and list(angles) == [0.0, np.pi / 2] and ndet is not None \
                and (ndet - shp[0]) % 2 == 0 and (ndet - shp[1]) % 2 == 0 and ndet >= max(shp):
            # documented special case: with unit pixels aligned to the (centred) detector bins the
            # view at angle 0 is the vector of sums over axis 1 and the view at pi/2 the sums over
            # axis 0, each zero-padded symmetrically to the detector length
            n = int(np.prod(shp))
            ref = np.zeros((2 * ndet, n))
            for k in range(n):
                i, j = divmod(k, shp[1])
                ref[(ndet - shp[0]) // 2 + i, k] = 1.0
                ref[ndet + (ndet - shp[1]) // 2 + j, k] = 1.0
            if not (np.abs(ref - M).max() <= 1e-9):
                r, k = np.unravel_index(np.argmax(np.abs(ref - M)), M.shape)
                ctx.violation(cls, "projection at angles 0 / pi/2 is not the (centred) row / column sums",
                              {**key, "entry": [int(r), int(k)]}, expected=float(ref[r, k]), observed=float(M[r, k]),
                              oracle="documented special case (unit pixels, aligned detector)")
        # model with the implementation's own bin indices / weights (scatter logic)
        return "xray"
    if cls == "XRayTransform3D" and c.get("covers"):
        # the detector covers the shadow of the volume in every view: every voxel's weights sum to 1 per view
        nview = A.output_shape[0]
        per = M.shape[0] // nview
        for v in range(nview):
            cs = M[v * per:(v + 1) * per].sum(axis=0)
            if not (np.abs(cs - 1.0).max() <= 1e-5):
                ctx.violation(cls, "total mass is not conserved in a view although the detector covers the shadow",
                              {**key, "view": v}, expected="column sums 1", observed=[float(t) for t in cs[:12]],
                              oracle="mass conservation (3-D)")
                break
    if cls == "AbelTransform":
        x = L.rand_dyadic_np(ctx.rng, c["shape"])
        x = (x + x[:, ::-1]) / 2          # left-right symmetric as documented
        import scico.numpy as snp
        y = A(snp.array(x.astype(np.float32)))
        xr = np.asarray(A.inverse(y))
        if not (np.abs(xr - x).max() <= 1e-3 * max(1.0, np.abs(x).max())):
            ctx.violation(cls, "inverse(A(x)) differs from x", {**key, "x": x.tolist()}, expected=x.tolist(),
                          observed=xr.tolist(), oracle="documented inverse")
    if cls in ("AngularSpectrumPropagator", "FresnelPropagator", "FraunhoferPropagator"):
        ref = optics_reference(e, A)
        if ref is not None and ref.shape != M.shape:
            ctx.violation(cls, "propagator output does not have the documented (cropped) size", {**key, "matrix_shape": list(M.shape)},
                          expected=list(ref.shape), observed=list(M.shape), oracle="NumPy reference (documented formula)")
        elif ref is not None and not (np.abs(ref - M).max() <= rtol(A) * max(1.0, np.abs(ref).max())):
            i, j = np.unravel_index(np.argmax(np.abs(ref - M)), M.shape)
            alt = optics_reference(e, A, truncated_spectrum=True)
            same_defect = bool(alt is not None and alt.shape == M.shape
                               and np.abs(alt - M).max() <= rtol(A) * max(1.0, np.abs(alt).max()))
            ctx.violation(cls, "propagator is not F^-1 D F with the documented transfer function on the documented axes",
                          {**key, "entry": [int(i), int(j)], "matches_truncated_spectrum": same_defect},
                          expected=str(ref[i, j]), observed=str(M[i, j]),
                          oracle="NumPy reference (documented formula)")
    if cls == "DFT":
        # "its inverse undoes it": whenever the transform does not crop the input
        shp = c["shape"]
        axes = c["axes"] if c["axes"] is not None else tuple(range(len(shp)))
        axshape = c["axes_shape"]
        if axshape is not None and c["axes"] is None:
            axes = tuple(range(len(shp) - len(axshape), len(shp)))
        if axshape is None or all(m >= shp[a] for a, m in zip(axes, axshape)):
            import scico.numpy as snp
            x = L.rand_dyadic(ctx.rng, shp, np.complex64)
            xr = np.asarray(A.inv(A(x)))
            if xr.shape != tuple(shp):
                ctx.violation("DFT.inv", "inv(F(x)) does not have the shape of x", {**key, "x": repr(L.flat(x).tolist())},
                              expected=list(shp), observed=list(xr.shape), oracle="documented inverse")
            elif not (np.abs(xr - np.asarray(x)).max() <= 1e-4 * max(1.0, np.abs(np.asarray(x)).max())):
                # the recorded defect: ifftn(z, s=input lengths) truncates the padded spectrum
                alt = np.fft.ifftn(np.asarray(A(x)), s=[shp[a] for a in axes], axes=list(axes),
                                   norm=(c["norm"] or "backward"))
                same_defect = bool(alt.shape == xr.shape and np.abs(alt - xr).max() <= 1e-4 * max(1.0, np.abs(alt).max()))
                ctx.violation("DFT.inv", "inv(F(x)) differs from x although the transform does not crop its input",
                              {**key, "x": repr(L.flat(x).tolist()), "matches_truncated_spectrum": same_defect,
                               "padded": bool(axshape is not None and any(m > shp[a] for a, m in zip(axes, axshape)))},
                              expected=repr(L.flat(x).tolist())[:300], observed=repr(xr.ravel().tolist())[:300],
                              oracle="documented inverse")
    if cls in ("PolarGradient", "CylindricalGradient", "SphericalGradient"):
        ref = coordgrad_reference(e, A)
        if ref is not None and not (np.abs(ref - M).max() <= 1e-9 * max(1.0, np.abs(ref).max())):
            i, j = np.unravel_index(np.argmax(np.abs(ref - M)), M.shape)
            ctx.violation(cls, "projected gradient differs from the projection of the Cartesian gradient on the documented local axes",
                          {**key, "entry": [int(i), int(j)]}, expected=str(ref[i, j]), observed=str(M[i, j]),
                          oracle="NumPy reference (documented formula)")
    return None


def optics_reference(e, A, truncated_spectrum=False):
    """documented propagator crop(F^-1 D F pad(u)); with truncated_spectrum=True the map of the RECORDED defect
    (the inverse transform is ifftn(., s=input lengths), which truncates the padded spectrum) -- used only to tell
    that recorded finding apart from any other deviation"""
    c, cls = e.cfg, e.cls
    shp = c["shape"]
    dx = c["dx"]
    dx = (dx,) * len(shp) if np.isscalar(dx) else tuple(dx)
    k0, z = 2.0, 1.0
    nd = len(shp)
    if cls in ("AngularSpectrumPropagator", "FresnelPropagator"):
        pf = c.get("pad_factor", 1)
        pshape = tuple(pf * s for s in shp)
        ks = [2 * np.pi * np.fft.fftfreq(n, d) for n, d in zip(pshape, dx)]
        kp2 = sum(np.reshape(k ** 2, [-1 if i == a else 1 for i in range(nd)]) for a, k in enumerate(ks))
        if cls == "AngularSpectrumPropagator":
            D = np.exp(1j * np.sqrt((k0 ** 2 - kp2).astype(np.complex128)) * z)
        else:
            D = np.exp(1j * z * (k0 - kp2 / (2 * k0)))     # documented Fresnel transfer function
        n = int(np.prod(shp))
        cols = []
        for t in range(n):
            v = np.zeros(n, dtype=np.complex128)
            v[t] = 1
            x = np.zeros(pshape, dtype=np.complex128)
            x[tuple(slice(0, s) for s in shp)] = v.reshape(shp)
            if truncated_spectrum:
                y = np.fft.ifftn(D * np.fft.fftn(x), s=shp)
            else:
                y = np.fft.ifftn(D * np.fft.fftn(x))
            cols.append(y[tuple(slice(0, s) for s in shp)].ravel())
        return np.stack(cols, axis=1)
    return None


def coordgrad_reference(e, A):
    """Dense matrix of the projection of the Cartesian gradient (forward differences with a zero last row, or
    np.gradient for cdiff) on the documented local axes, written with the position vector (no angles):
      polar / cylindrical   radial = (c0, c1)/r,  angular = (-c1, c0)/r,  axial = e_z
      spherical             radial = c/R,  azimuthal = (c1, -c0, 0)/rho,  polar = (c0 c2, c1 c2, -rho^2)/(R rho)
    where c = index - centre along (i_x, i_y, i_z) = axes.  On the axis of the coordinate system (r = 0, rho = 0,
    R = 0) the direction is undefined; the implementation's convention arctan2(0, 0) = 0 is followed there."""
    c, cls = e.cfg, e.cls
    shp = tuple(c["shape"])
    nd = len(shp)
    nax = 2 if cls == "PolarGradient" else 3
    axes = tuple(c.get("axes") or range(nax))
    asz = [shp[a] for a in axes]
    cen = c.get("center")
    if cen is None:
        cen = [(m - 1) / 2 for m in asz]
        if cls == "CylindricalGradient":
            cen[-1] = 0.0
    # coordinate of every array position along x, y(, z)
    idx = np.indices(shp).astype(np.float64)
    cc = [idx[axes[k]] - cen[k] for k in range(nax)]
    with np.errstate(divide="ignore", invalid="ignore"):
        if cls in ("PolarGradient", "CylindricalGradient"):
            r = np.hypot(cc[0], cc[1])
            s_, c_ = np.where(r > 0, cc[0] / r, 0.0), np.where(r > 0, cc[1] / r, 1.0)     # sin, cos of arctan2(c0, c1)
            z = np.zeros(shp)
            fields = {"angular": [-c_, s_] + ([z] if nax == 3 else []), "radial": [s_, c_] + ([z] if nax == 3 else []),
                      "axial": [z, z, np.ones(shp)]}
            order = [k for k in ("angular", "radial") + (("axial",) if nax == 3 else ()) if c.get(k, True)]
        else:
            rho = np.hypot(cc[0], cc[1])
            R = np.sqrt(rho ** 2 + cc[2] ** 2)
            ct, st = np.where(rho > 0, cc[0] / rho, 1.0), np.where(rho > 0, cc[1] / rho, 0.0)   # arctan2(c1, c0)
            sp, cp = np.where(R > 0, rho / R, 0.0), np.where(R > 0, cc[2] / R, 1.0)             # arctan2(rho, c2)
            fields = {"azimuthal": [st, -ct, np.zeros(shp)], "polar": [cp * ct, cp * st, -sp], "radial": [sp * ct, sp * st, cp]}
            order = [k for k in ("azimuthal", "polar", "radial") if c.get(k, True)]
    cdiff = bool(c.get("cdiff", False))
    n = L.size_of(shp)
    cols = []
    for t in range(n):
        v = np.zeros(n)
        v[t] = 1.0
        x = v.reshape(shp)
        g = []
        for a in axes:
            if cdiff:
                g.append(np.gradient(x, axis=a))
            else:
                d = np.zeros_like(x)
                sl = [slice(None)] * nd
                sl[a] = slice(0, -1)
                d[tuple(sl)] = np.diff(x, axis=a)
                g.append(d)
        cols.append(np.concatenate([sum(f[m] * g[m] for m in range(nax)).ravel() for f in (fields[k] for k in order)]))
    return np.stack(cols, axis=1)


def run(ctx: Ctx):
    if not getattr(ctx, "no_proofs", False):
        ctx.proofs()
    ctx.trusted += ["operators are linear (C06): compared through their matrices on the basis",
                    "Python slice.indices for the start/step/count of a Slice (modelled in C12)",
                    "NumPy references (this file) for: fractional filter centres, DFT lengths not dividing 4, "
                    "ProjectedGradient coordinate fields, optical transfer functions, Abel inverse",
                    "X-ray bin indices and weights are taken from the implementation's _calc_weights (only the "
                    "scatter logic and mass conservation are modelled)"]
    level = 0 if ctx.quick else 1
    cat = L.catalogue(random.Random(ctx.seed), level)
    per = {}
    cases, metas = [], []
    n_ref = 0
    for i, e in enumerate(cat):
        per[e.group] = per.get(e.group, 0) + 1
        if ctx.quick and per[e.group] > 10:
            continue
        key = {"catalogue_seed": ctx.seed, "level": level, "index": i, **e.key()}
        try:
            A = e.build()
            M = L.dense(A, A.input_shape, A.input_dtype)
        except Exception as ex:
            ctx.violation(e.cls, "constructing / evaluating the operator fails for a valid configuration", key,
                          observed=f"{type(ex).__name__}: {str(ex)[:200]}", oracle="evaluation")
            continue
        if M.shape != (L.size_of(A.output_shape), L.size_of(A.input_shape)):
            ctx.violation(e.cls, "evaluation returns an array whose size differs from the declared output shape", key,
                          expected=[L.size_of(A.output_shape), L.size_of(A.input_shape)], observed=list(M.shape), oracle="declared shapes")
            continue
        term = model_term(e, A)
        exact = e.kind == L.EXACT and L.is_double(A.input_dtype)
        if term is not None:
            oshape = [L.size_of(A.output_shape)] if (e.cls in ("FiniteDifference", "ProjectedGradient")) else list(
                A.output_shape if not L.is_nested(A.output_shape) else [L.size_of(A.output_shape)])
            cases.append(f"({tol_lit(None if exact else mtol(A))}, {term}, {nl(oshape)}, {L.coq_mat(M)})")
            metas.append(key)
            ctx.count("model:" + e.cls, key)
        else:
            ref = numpy_reference(e, A)
            if ref is not None:
                n_ref += 1
                ctx.count("numpy-ref:" + e.cls, key)
                if ref.shape != M.shape or not (np.abs(ref - M).max() <= rtol(A) * max(1.0, np.abs(ref).max())):
                    ctx.violation(e.cls, "operator differs from the documented map (NumPy reference)", key,
                                  expected="reference matrix", observed="implementation matrix differs",
                                  oracle="independent NumPy reference")
            else:
                ctx.count("identities:" + e.cls, key)
        try:
            tag = extra_checks(ctx, e, A, M)
        except Exception as ex:
            ctx.notes.append(f"extra check of {e.cls} failed to run: {type(ex).__name__}: {str(ex)[:100]}")
            tag = None
        if tag == "xray":
            xc = xray_case(e, A, M)
            if xc:
                cases.append(xc)
                metas.append(key)
    shard = 40
    bodies = ["Definition cases : list (option Q * (shape * cmat) * shape * cmat) := " + coq_list(cases[s:s + shard], ";\n ") + ".\n"
              "Eval vm_compute in (bad_idx model_case_ok cases 0%nat)." for s in range(0, len(cases), shard)]
    for si, o in enumerate(coq_eval_shards("C04_model", HEADER, bodies)):
        for idx in parse_eval_nat_list(o):
            key = metas[si * shard + idx]
            ctx.violation(key["class"], "operator differs from its documented map (Coq model)", key,
                          expected="matrix of the model in coq/theories/C04/Models.v", observed="implementation matrix differs",
                          oracle="model evaluated by vm_compute")
    ctx.traces = len(cases) + n_ref


def xray_case(e, A, M):
    """model built from the implementation's own bin indices and weights"""
    from scico.linop.xray import XRayTransform2D
    try:
        inds, w = XRayTransform2D._calc_weights(A.x0, A.dx, A.nx, A.angles, A.y0)
    except Exception:
        return None
    inds, w = np.asarray(inds), np.asarray(w, dtype=np.float64)
    views = []
    for v in range(inds.shape[0]):
        views.append("[" + "; ".join(f"(({int(i)})%Z, {L.cq_entry(float(t))})" for i, t in zip(inds[v].ravel(), w[v].ravel())) + "]")
    npix = int(np.prod(A.input_shape))
    ny = A.output_shape[1]
    return (f"({tol_lit(2.0 ** -30)}, ({nl(A.output_shape)}, xray2d_model {npix} {ny} [{'; '.join(views)}]), "
            f"{nl(A.output_shape)}, {L.coq_mat(M)})")


def replay(ctx: Ctx, rec):
    key = rec["input"]
    cat = L.catalogue(random.Random(key["catalogue_seed"]), key["level"])
    e = cat[key["index"]]
    A = e.build()
    M = L.dense(A, A.input_shape, A.input_dtype)
    term = model_term(e, A)
    if term is None:
        ref = numpy_reference(e, A)
        return ref is None or (ref.shape == M.shape and np.abs(ref - M).max() <= rtol(A) * max(1.0, np.abs(ref).max()))
    exact = e.kind == L.EXACT and L.is_double(A.input_dtype)
    oshape = [L.size_of(A.output_shape)] if (e.cls in ("FiniteDifference", "ProjectedGradient")) else list(
        A.output_shape if not L.is_nested(A.output_shape) else [L.size_of(A.output_shape)])
    body = ("Definition cases : list (option Q * (shape * cmat) * shape * cmat) := [" +
            f"({tol_lit(None if exact else mtol(A))}, {term}, {nl(oshape)}, {L.coq_mat(M)})" + "].\n"
            "Eval vm_compute in (bad_idx model_case_ok cases 0%nat).")
    return parse_eval_nat_list(coq_eval_shards("C04_replay", HEADER, [body])[0]) == []
