"""C05 -- operator calculus denotes the pointwise / matrix construction.

Theorems: LinAlg/MExpr.v (`fden_is_matrix`: every expression tree, every vector: closure =
matrix construction; closed-form shortcuts of Diagonal / ScaledIdentity), LinAlg/Mat.v
((A+B)x, (cA)x, (AB)x), LinAlg/CQExpr.v (stacks as block matrices).
Correspondence: random expression trees over all algebra-specialised classes in both operand
orders (implementation's result matrix vs the matrix construction evaluated in Coq on the leaf
matrices), stacks vs block matrices, generic Operator algebra / freeze / Function plumbing
pointwise, and a malformed stream that must be rejected.
"""
from __future__ import annotations

import random

import numpy as np

from vf.common import Ctx, Broken, coq_eval_shards, parse_eval_nat_list, coq_list, qlit
from vf import linop_lib as L

HEADER = """From Coq Require Import List Bool ZArith QArith Qcanon.
From SV Require Import LinAlg.Mat LinAlg.CQ LinAlg.MExpr LinAlg.CQExpr.
Import ListNotations.
"""

APPROX_LEAVES = {"CircularConvolve"}


def tree_to_coq(desc, pool, cache):
    op = desc[0]
    if op == "leaf":
        name = desc[1]
        if name not in cache:
            A = pool[name]()
            cache[name] = L.dense(A, A.input_shape, A.input_dtype)
        return f"(MLeaf {L.coq_mat(cache[name])})"
    if op in ("add", "sub", "comp", "matmul"):
        a, b = tree_to_coq(desc[1], pool, cache), tree_to_coq(desc[2], pool, cache)
        return {"add": "MAdd", "sub": "MSub", "comp": "MComp", "matmul": "MComp"}[op] + f" {wrap(a)} {wrap(b)}"
    if op in ("scale", "rscale", "div"):
        c = complex(desc[1])
        if op == "div":
            c = 1 / c
        return f"MScale {L.cq_entry(c)} {wrap(tree_to_coq(desc[2], pool, cache))}"
    a = tree_to_coq(desc[1], pool, cache)
    if op == "neg":
        return f"MScale {L.cq_entry(-1.0)} {wrap(a)}"
    return {"T": "MT", "H": "MH", "conj": "MConj", "gram": "MGram"}[op] + " " + wrap(a)


def wrap(s):
    return s if s.startswith("(") else "(" + s + ")"


def leaves_of(desc):
    if desc[0] == "leaf":
        return {desc[1]}
    out = set()
    for d in desc[1:]:
        if isinstance(d, list):
            out |= leaves_of(d)
    return out


def exact_div(desc):
    """1/c must be a dyadic for the exact comparison"""
    if desc[0] == "div":
        c = complex(desc[1])
        inv = 1 / c
        ok = (inv.real * 16).is_integer() and (inv.imag * 16).is_integer()
        return ok and exact_div(desc[2])
    return all(exact_div(d) for d in desc[1:] if isinstance(d, list))


def tol_lit(t):
    return "(@None Q)" if t is None else f"(Some {qlit(t)})"


def make_pool(key):
    dt = np.dtype(key["dtype"]).type
    if key.get("pool") == 2:
        return L.leaf_pool2(random.Random(key["tseed"]), dt)
    return L.leaf_pool(random.Random(key["tseed"]), key["n"], dt)


def gen_tree_case(ctx, depth):
    dt = ctx.rng.choice([np.float64, np.complex128])
    which = 2 if ctx.rng.random() < 0.35 else 1
    n = 6 if which == 2 else ctx.rng.choice([2, 3])
    tseed = ctx.rng.getrandbits(32)
    key = {"n": n, "dtype": np.dtype(dt).name, "tseed": tseed, "pool": which}
    pool = make_pool(key)
    desc, build = L.random_tree(random.Random(tseed + 1), depth, n, dt, pool)
    key["tree"] = desc
    return key, pool, build


def tree_case_coq(key, pool, A):
    """(n, tol, tree over the leaf matrices, matrix of the result, matrix of the result's adjoint)"""
    cache = {}
    R = L.dense(A, A.input_shape, A.input_dtype)
    Radj = L.dense(A.adj, A.output_shape, A.output_dtype)
    approx = any(l.startswith("CircularConvolve") for l in leaves_of(key["tree"])) or not exact_div(key["tree"])
    tol = 2.0 ** -30 if approx else None
    return (f"({key['n']}%nat, {tol_lit(tol)}, {tree_to_coq(key['tree'], pool, cache)}, {L.coq_mat(R)}, "
            f"{L.coq_mat(Radj)})")


def run(ctx: Ctx):
    if not getattr(ctx, "no_proofs", False):
        ctx.proofs()
    ctx.trusted += ["operators are linear (C06), so an operator is compared through its matrix on the basis",
                    "trees containing CircularConvolve (FFT) or a non-dyadic reciprocal are compared with tolerance 2^-30"]
    import scico.numpy as snp
    from scico import linop
    # ---- (a) expression trees
    ntree = ctx.n(90, 4000)
    cases, metas = [], []
    for t in range(ntree):
        key, pool, build = gen_tree_case(ctx, ctx.rng.choice([1, 2, 2, 3, 4] if not ctx.quick else [1, 2, 2, 3]))
        try:
            A = build()
        except (ValueError, TypeError) as ex:
            ctx.count("tree-rejected", key, nontrivial=False)
            continue
        try:
            cases.append(tree_case_coq(key, pool, A))
            metas.append(key)
            ctx.count("tree:" + root_of(key["tree"]), key)
        except Exception as ex:
            ctx.violation("expression:" + root_of(key["tree"]), "evaluating a valid operator expression fails", key,
                          observed=f"{type(ex).__name__}: {str(ex)[:200]}", oracle="evaluation")
    # class pairs in both orders, explicitly (dispatch of + and -), on vectors and on (K, N) arrays
    for which in (1, 2):
        for dt in (np.float64, np.complex128):
            k0 = {"n": 3 if which == 1 else 6, "dtype": np.dtype(dt).name, "tseed": 1, "pool": which}
            names = sorted(make_pool(k0))
            for a in names:
                for b in names:
                    # quick tier: composition (the class-specific __call__ / __matmul__ shortcuts) always, one of + / -
                    for op in (["add", "sub", "comp"] if not ctx.quick else ["comp", ctx.rng.choice(["add", "sub"])]):
                        tseed = ctx.rng.getrandbits(32)
                        key = {**k0, "tseed": tseed, "tree": [op, ["leaf", a], ["leaf", b]]}
                        pool = make_pool(key)
                        try:
                            A = {"add": lambda: pool[a]() + pool[b](), "sub": lambda: pool[a]() - pool[b](),
                                 "comp": lambda: pool[a]()(pool[b]())}[op]()
                            cases.append(tree_case_coq(key, pool, A))
                            metas.append(key)
                            ctx.count("pair:" + op, key)
                        except Exception as ex:
                            ctx.violation(f"expression:{op}", "a valid class pair is rejected or fails", key,
                                          observed=f"{type(ex).__name__}: {str(ex)[:200]}", oracle="evaluation")
            # every class x scalar operation x real / complex scalar (forward and adjoint closures)
            for a in names:
                for op in ("scale", "rscale", "div", "neg"):
                    for c in ([2.0, -0.5] + ([1.0 + 2.0j, -0.5j] if L.is_complex(dt) else [])):
                        if ctx.quick and ctx.rng.random() < 0.6:
                            continue
                        tseed = ctx.rng.getrandbits(32)
                        desc = ["neg", ["leaf", a]] if op == "neg" else [op, str(c), ["leaf", a]]
                        key = {**k0, "tseed": tseed, "tree": desc}
                        pool = make_pool(key)
                        try:
                            from vf.props.C01 import rebuild_tree
                            A = rebuild_tree(desc, pool)
                            cases.append(tree_case_coq(key, pool, A))
                            metas.append(key)
                            ctx.count("scalar:" + op, key)
                        except Exception as ex:
                            ctx.violation(f"expression:{op}", "a valid scalar operation is rejected or fails", key,
                                          observed=f"{type(ex).__name__}: {str(ex)[:200]}", oracle="evaluation")
    shard = 80
    bodies = ["Definition cases : list (nat * option Q * c_mexpr * cmat * cmat) := " + coq_list(cases[s:s + shard], ";\n ") + ".\n"
              "Eval vm_compute in (bad_idx expr_case_ok2 cases 0%nat)." for s in range(0, len(cases), shard)]
    for si, o in enumerate(coq_eval_shards("C05_tree", HEADER, bodies)):
        for idx in parse_eval_nat_list(o):
            key = metas[si * shard + idx]
            ctx.violation("expression:" + root_of(key["tree"]),
                          "the operator built by the expression is not the matrix construction on its operands", key,
                          expected="fst (mden2 e) evaluated in Coq on the leaf matrices (LinAlg/MExpr.v)",
                          observed="matrix of the implementation's result differs", oracle="fden_is_matrix")

    # ---- (b) stacks as block matrices
    scases, smetas = [], []
    for t in range(ctx.n(30, 300)):
        dt = ctx.rng.choice([np.float64, np.complex128])
        k = ctx.rng.choice([2, 3])
        n = ctx.rng.choice([2, 3])
        kind = ctx.rng.choice(["V", "D"])
        # diagonal stacks: operands with different input sizes too (inputs in blocks while the outputs may stack, and
        # the other way round), so that every combination of input / output collapse occurs
        ns = [n] * k if (kind == "V" or ctx.rng.random() < 0.4) else [ctx.rng.choice([2, 3, 4]) for _ in range(k)]
        msame = ctx.rng.random() < 0.5
        m0 = ctx.rng.choice([1, 2, 3])
        mats = [L.rand_dyadic_np(ctx.rng, (m0 if msame else ctx.rng.choice([1, 2, 3]), ni), cplx=L.is_complex(dt)).astype(dt) for ni in ns]
        co, ci = ctx.rng.random() < 0.5, ctx.rng.random() < 0.5
        key = {"stack": kind, "mats": [m.tolist().__repr__() for m in mats], "collapse_output": co, "collapse_input": ci,
               "dtype": np.dtype(dt).name}
        ops = [linop.MatrixOperator(snp.array(m)) for m in mats]
        try:
            if kind == "V":
                S = linop.VerticalStack(ops, collapse_output=co)
            else:
                S = linop.DiagonalStack(ops, collapse_input=ci, collapse_output=co)
            R = L.dense(S, S.input_shape, S.input_dtype)
            Radj = L.dense(S.adj, S.output_shape, S.output_dtype)
        except Exception as ex:
            ctx.violation("stack:" + kind, "building / evaluating a valid stack (or its adjoint) fails", key,
                          observed=f"{type(ex).__name__}: {str(ex)[:200]}", oracle="evaluation")
            continue
        blocks = coq_list([f"({ni}%nat, {L.coq_mat(m)})" for ni, m in zip(ns, mats)])
        total = n if kind == "V" else sum(ns)
        scases.append(f"({0 if kind == 'V' else 1}%nat, (@None Q), {blocks}, {total}%nat, {L.coq_mat(R)}, {L.coq_mat(Radj)})")
        smetas.append(key)
        ctx.count("stack:" + kind, key)
    if scases:
        body = ("Definition cases : list (nat * option Q * list (nat * cmat) * nat * cmat * cmat) := " + coq_list(scases, ";\n ") + ".\n"
                "Eval vm_compute in (bad_idx stack_case_ok2 cases 0%nat).")
        for idx in parse_eval_nat_list(coq_eval_shards("C05_stack", HEADER + "From SV Require Import LinAlg.RepStack.\n", [body])[0]):
            ctx.violation("stack:" + smetas[idx]["stack"], "the stacked operator (or its adjoint) is not the block matrix of its operands",
                          smetas[idx], expected="vstack / blockdiag (LinAlg/CQExpr.v)", observed="matrix differs",
                          oracle="mv_vstack / mv_blockdiag2")

    # ---- (b') replicated stacks: every (input_axis, output_axis) combination, forward and adjoint matrices
    rcases, rmetas = [], []
    for t in range(ctx.n(16, 120)):
        dt = ctx.rng.choice([np.float64, np.complex128])
        k, m, n = ctx.rng.choice([2, 3]), ctx.rng.choice([1, 2, 3]), ctx.rng.choice([2, 3])
        ia, oa = [(0, None), (1, None), (0, 1), (1, 0), (0, 0), (1, 1), (-1, 0), (0, -1)][t % 8]
        Am = L.rand_dyadic_np(ctx.rng, (m, n), cplx=L.is_complex(dt)).astype(dt)
        key = {"stack": "R", "A": repr(Am.tolist()), "replicates": k, "input_axis": ia, "output_axis": oa, "dtype": np.dtype(dt).name,
               "map_type": "vmap"}
        try:
            S = linop.DiagonalReplicated(linop.MatrixOperator(snp.array(Am)), replicates=k, input_axis=ia, output_axis=oa,
                                         map_type="vmap")
            R = L.dense(S, S.input_shape, S.input_dtype)
            Radj = L.dense(S.adj, S.output_shape, S.output_dtype)
        except Exception as ex:
            ctx.violation("stack:R", "building / evaluating a valid replicated stack (or its adjoint) fails", key,
                          observed=f"{type(ex).__name__}: {str(ex)[:200]}", oracle="evaluation")
            continue
        ia_n = ia % 2
        oa_n = ia_n if oa is None else oa % 2
        rcases.append(f"({k}%nat, {m}%nat, {n}%nat, {ia_n}%nat, {oa_n}%nat, (@None Q), {L.coq_mat(Am)}, {L.coq_mat(R)}, {L.coq_mat(Radj)})")
        rmetas.append(key)
        ctx.count("stack:R", key)
    if rcases:
        body = ("Definition cases : list (nat * nat * nat * nat * nat * option Q * cmat * cmat * cmat) := " + coq_list(rcases, ";\n ") + ".\n"
                "Eval vm_compute in (bad_idx rep_case_ok cases 0%nat).")
        for idx in parse_eval_nat_list(coq_eval_shards("C05_rep", HEADER + "From SV Require Import LinAlg.RepStack.\n", [body])[0]):
            ctx.violation("stack:R", "the replicated stack (or its adjoint) is not the block construction on its operand",
                          rmetas[idx], expected="rep_mat / its conjugate transpose (LinAlg/RepStack.v)", observed="matrix differs",
                          oracle="rep_mat_acts")

    # ---- (b'') replicated stacks over operands that CHANGE the rank (vector -> matrix, matrix -> vector) with the
    #      replicate axis first / in the middle / last (negative and non-negative), forward and adjoint matrices
    r3cases, r3metas = [], []
    for t in range(ctx.n(12, 90)):
        dt = ctx.rng.choice([np.float64, np.complex128])
        k = ctx.rng.choice([2, 3])
        in_shape, out_shape = [((4,), (2, 3)), ((2, 3), (4,)), ((2, 2), (3, 2)), ((3,), (2, 2))][t % 4]
        ri, ro = len(in_shape), len(out_shape)
        ia = ctx.rng.choice(list(range(-(ri + 1), ri + 1)))
        oa = ctx.rng.choice([None] + list(range(-(ro + 1), ro + 1)))
        ia_n = ia % (ri + 1)
        if oa is None and ia_n > ro:
            oa = 0         # the default output axis would be outside the output rank (rejected by the constructor)
        oa_n = ia_n if oa is None else oa % (ro + 1)
        m, n = int(np.prod(out_shape)), int(np.prod(in_shape))
        Am = L.rand_dyadic_np(ctx.rng, (m, n), cplx=L.is_complex(dt)).astype(dt)
        key = {"stack": "R3", "A": repr(Am.tolist()), "operand_in": list(in_shape), "operand_out": list(out_shape), "replicates": k,
               "input_axis": ia, "output_axis": oa, "dtype": np.dtype(dt).name}
        try:
            op = linop.LinearOperator(input_shape=in_shape, output_shape=out_shape, input_dtype=dt, output_dtype=dt,
                                      eval_fn=lambda x, Am=Am, out_shape=out_shape: (snp.array(Am) @ x.ravel()).reshape(out_shape),
                                      adj_fn=lambda y, Am=Am, in_shape=in_shape: (snp.array(Am).conj().T @ y.ravel()).reshape(in_shape))
            S = linop.DiagonalReplicated(op, replicates=k, input_axis=ia, output_axis=oa, map_type="vmap")
            R = L.dense(S, S.input_shape, S.input_dtype)
            Radj = L.dense(S.adj, S.output_shape, S.output_dtype)
        except Exception as ex:
            ctx.violation("stack:R3", "building / evaluating a valid replicated stack (or its adjoint) fails", key,
                          observed=f"{type(ex).__name__}: {str(ex)[:200]}", oracle="evaluation")
            continue
        bi = int(np.prod(in_shape[ia_n:])) if ia_n < ri else 1
        bo = int(np.prod(out_shape[oa_n:])) if oa_n < ro else 1
        if R.shape != (k * m, k * n):
            ctx.violation("stack:R3", "the replicated stack's size differs from replicates x operand size", key,
                          expected=[k * m, k * n], observed=list(R.shape), oracle="declared shapes")
            continue
        r3cases.append(f"({k}%nat, {m}%nat, {n}%nat, {bo}%nat, {bi}%nat, (@None Q), {L.coq_mat(Am)}, {L.coq_mat(R)}, {L.coq_mat(Radj)})")
        r3metas.append(key)
        ctx.count("stack:R3", key)
    if r3cases:
        body = ("Definition cases : list (nat * nat * nat * nat * nat * option Q * cmat * cmat * cmat) := " + coq_list(r3cases, ";\n ") + ".\n"
                "Eval vm_compute in (bad_idx rep3_case_ok cases 0%nat).")
        for idx in parse_eval_nat_list(coq_eval_shards("C05_rep3", HEADER + "From SV Require Import LinAlg.RepStack LinAlg.RepStack3.\n", [body])[0]):
            ctx.violation("stack:R3", "the replicated stack (or its adjoint) is not the block construction on its operand",
                          r3metas[idx], expected="rep_mat3 / its conjugate transpose (LinAlg/RepStack3.v)", observed="matrix differs",
                          oracle="rep_mat3_acts")

    # ---- (c) generic Operator algebra, freeze, Function plumbing (pointwise)
    pcases, pmetas = pointwise_cases(ctx)
    if pcases:
        body = ("Definition cases : list (nat * option Q * CQ * cvec * cvec * cvec) := " + coq_list(pcases, ";\n ") + ".\n"
                "Eval vm_compute in (bad_idx pt_case_ok cases 0%nat).")
        for idx in parse_eval_nat_list(coq_eval_shards("C05_pt", HEADER, [body])[0]):
            ctx.violation(pmetas[idx]["unit"], "result of the derived operator differs from the pointwise construction",
                          pmetas[idx], oracle="pointwise evaluation on exact dyadics")

    # ---- (d) malformed combinations must be rejected
    malformed(ctx)


def root_of(desc):
    return desc[0] if desc[0] != "leaf" else desc[1]


def pointwise_cases(ctx):
    import scico.numpy as snp
    from scico import linop
    from scico.operator import Operator
    cases, metas = [], []
    n = 3

    def nl_ops(dt):
        w = snp.array(L.rand_dyadic_np(ctx.rng, (n,), cplx=L.is_complex(dt)).astype(dt))
        return {
            "square": Operator(input_shape=(n,), eval_fn=lambda x: x * x, input_dtype=dt),
            "affine": Operator(input_shape=(n,), eval_fn=lambda x: w * x + 1.0, input_dtype=dt),
            "cumprod": Operator(input_shape=(n,), eval_fn=lambda x: x * snp.roll(x, 1), input_dtype=dt),
            "lin": linop.Diagonal(w),
        }
    for t in range(ctx.n(40, 400)):
        dt = ctx.rng.choice([np.float64, np.complex128])
        ops = nl_ops(dt)
        a, b = ctx.rng.choice(sorted(ops)), ctx.rng.choice(sorted(ops))
        if a == "lin" and b == "lin":
            b = "square"
        A, B = ops[a], ops[b]
        x = L.rand_dyadic(ctx.rng, (n,), dt, bits=1, lo=-2, hi=2)
        kind = ctx.rng.choice(["add", "sub", "mul", "rmul", "div", "neg", "comp"])
        c = ctx.rng.choice([2.0, -0.5, 4.0]) if not L.is_complex(dt) or ctx.rng.random() < 0.5 else ctx.rng.choice([1 + 1j, 2j, -0.5j])
        key = {"unit": "Operator." + kind, "a": a, "b": b, "c": str(c), "dtype": np.dtype(dt).name, "x": repr(L.flat(x).tolist())}
        try:
            u, v = A(x), B(x)
            if kind == "add":
                r, code, s = (A + B)(x), 0, 1.0
            elif kind == "sub":
                r, code, s = (A - B)(x), 1, 1.0
            elif kind == "mul":
                r, code, s = (A * c)(x), 2, c
            elif kind == "rmul":
                r, code, s = (c * A)(x), 2, c
            elif kind == "div":
                r, code, s = (A / c)(x), 3, 1 / c
            elif kind == "neg":
                r, code, s = (-A)(x), 5, 1.0
            else:
                u = A(B(x))
                r, code, s = A(B)(x), 4, 1.0
        except Exception as ex:
            ctx.violation(key["unit"], "a valid operator combination fails", key,
                          observed=f"{type(ex).__name__}: {str(ex)[:200]}", oracle="evaluation")
            continue
        exact = (s.real * 16).is_integer() and (complex(s).imag * 16).is_integer() if isinstance(s, complex) else float(s * 16).is_integer()
        cases.append(f"({code}%nat, {tol_lit(None if exact else 2.0 ** -30)}, {L.cq_entry(s)}, {L.coq_vec(L.flat(u))}, "
                     f"{L.coq_vec(L.flat(v))}, {L.coq_vec(L.flat(r))})")
        metas.append(key)
        ctx.count("pointwise:" + kind, key)
    # complex scalar on a REAL operand space (c * Identity(float64) is a ScaledIdentity whose scalar is complex although its
    # input dtype is real): the closed-form views must still denote conj(c) I (conjugate, Hermitian), c I (transpose), |c|^2 I
    for t in range(ctx.n(6, 40)):
        c = ctx.rng.choice([1.5 + 2j, -0.5j, 2 - 0.25j, -1 + 1j])
        x = L.rand_dyadic(ctx.rng, (n,), np.float64, bits=1, lo=-2, hi=2)
        how = ctx.rng.choice(["ctor", "lmul", "rmul-div"])
        view = ["conj", "H", "T", "gram_op", "self"][t % 5]
        key = {"unit": "ScaledIdentity." + view, "construction": how, "c": str(c), "dtype": "float64 operand, complex scalar",
               "x": repr(L.flat(x).tolist())}
        try:
            I3 = linop.Identity((n,), input_dtype=np.float64)
            A = {"ctor": lambda: linop.ScaledIdentity(c, (n,), input_dtype=np.float64), "lmul": lambda: c * I3,
                 "rmul-div": lambda: (I3 * (2 * c)) / 2.0}[how]()
            B = {"conj": lambda: A.conj(), "H": lambda: A.H, "T": lambda: A.T, "gram_op": lambda: A.gram_op, "self": lambda: A}[view]()
            sc = {"conj": np.conj(c), "H": np.conj(c), "T": c, "gram_op": complex(c.real * c.real + c.imag * c.imag), "self": c}[view]
            r = B(x)
        except Exception as ex:
            ctx.violation(key["unit"], "a valid operator combination fails", key,
                          observed=f"{type(ex).__name__}: {str(ex)[:200]}", oracle="evaluation")
            continue
        cases.append(f"(2%nat, {tol_lit(None)}, {L.cq_entry(complex(sc))}, {L.coq_vec(L.flat(x))}, {L.coq_vec(L.flat(x))}, "
                     f"{L.coq_vec(L.flat(r))})")
        metas.append(key)
        ctx.count("pointwise:complex-scalar-on-real-space:" + view, key)
    # freeze / Function.slice / join
    from scico.function import Function
    for t in range(ctx.n(20, 200)):
        dt = np.float64
        shapes = ((2,), (3,), (2,))
        F = Function(shapes, output_shape=(2,), eval_fn=lambda a, b, c: a * c + snp.sum(b), input_dtypes=dt)
        args = [L.rand_dyadic(ctx.rng, s, dt, bits=1, lo=-2, hi=2) for s in shapes]
        i = ctx.rng.randrange(3)
        key = {"unit": "Function.slice", "i": i, "args": [repr(L.flat(a).tolist()) for a in args]}
        try:
            full = F(*args)
            G = F.slice(i, *[a for k, a in enumerate(args) if k != i])
            r = G(args[i])
            cases.append(f"(4%nat, (@None Q), {L.cq_entry(1.0)}, {L.coq_vec(L.flat(full))}, {L.coq_vec(L.flat(full))}, {L.coq_vec(L.flat(r))})")
            metas.append(key)
            ctx.count("pointwise:Function.slice", key)
            J = F.join()
            r2 = J(snp.blockarray(args))
            cases.append(f"(4%nat, (@None Q), {L.cq_entry(1.0)}, {L.coq_vec(L.flat(full))}, {L.coq_vec(L.flat(full))}, {L.coq_vec(L.flat(r2))})")
            metas.append({**key, "unit": "Function.join"})
            ctx.count("pointwise:Function.join", key)
        except Exception as ex:
            ctx.violation(key["unit"], "Function.slice / join fails on valid arguments", key,
                          observed=f"{type(ex).__name__}: {str(ex)[:200]}", oracle="evaluation")
    # Operator.freeze on a block-input operator
    for t in range(ctx.n(15, 150)):
        dt = np.float64
        bs = ((2,), (2,))
        Op = Operator(input_shape=bs, output_shape=(2,), eval_fn=lambda z: z[0] * z[1] + z[0], input_dtype=dt)
        a, b = (L.rand_dyadic(ctx.rng, (2,), dt, bits=1, lo=-2, hi=2) for _ in range(2))
        i = ctx.rng.randrange(2)
        key = {"unit": "Operator.freeze", "i": i, "a": repr(L.flat(a).tolist()), "b": repr(L.flat(b).tolist())}
        try:
            full = Op(snp.blockarray([a, b]))
            Fz = Op.freeze(i, (a, b)[i])
            r = Fz((a, b)[1 - i])
            cases.append(f"(4%nat, (@None Q), {L.cq_entry(1.0)}, {L.coq_vec(L.flat(full))}, {L.coq_vec(L.flat(full))}, {L.coq_vec(L.flat(r))})")
            metas.append(key)
            ctx.count("pointwise:freeze", key)
        except Exception as ex:
            ctx.violation(key["unit"], "freeze fails on valid arguments", key,
                          observed=f"{type(ex).__name__}: {str(ex)[:200]}", oracle="evaluation")
    return cases, metas


def malformed(ctx):
    import scico.numpy as snp
    from scico import linop
    from scico.operator import Operator
    A3 = linop.Identity((3,), input_dtype=np.float64)
    A4 = linop.Diagonal(snp.ones((4,)))
    M = linop.MatrixOperator(snp.ones((2, 3)))
    nl = Operator(input_shape=(3,), eval_fn=lambda x: x * x, input_dtype=np.float64)
    tests = [
        ("shape mismatch in +", lambda: A3 + A4), ("shape mismatch in -", lambda: A4 - A3),
        ("shape mismatch in + (matrix)", lambda: M + A3), ("composition shape mismatch", lambda: A4(M)),
        ("non-scalar factor (array)", lambda: A3 * snp.ones((3,))), ("non-scalar factor (operator)", lambda: A3 * A3),
        ("non-scalar divisor", lambda: A3 / snp.ones((3,))), ("operator + number", lambda: A3 + 3.0),
        ("non-linear: shape mismatch", lambda: nl + A4), ("non-linear composition mismatch", lambda: nl(M.T) if False else nl(A4)),
        ("operator - array", lambda: A3 - snp.ones((3,))),
    ]
    for name, thunk in tests:
        ctx.count("malformed", {"case": name})
        try:
            r = thunk()
        except (ValueError, TypeError, NotImplementedError):
            continue
        except Exception as ex:
            continue
        ctx.violation("malformed:" + name, "an invalid operator combination is accepted instead of rejected",
                      {"case": name}, expected="ValueError / TypeError", observed=type(r).__name__, oracle="documented rejection")


def replay(ctx: Ctx, rec):
    key = rec["input"]
    if "tree" in key:
        from vf.props.C01 import rebuild_tree
        pool = make_pool(key)
        A = rebuild_tree(key["tree"], pool)
        body = ("Definition cases : list (nat * option Q * c_mexpr * cmat * cmat) := [" + tree_case_coq(key, pool, A) + "].\n"
                "Eval vm_compute in (bad_idx expr_case_ok2 cases 0%nat).")
        return parse_eval_nat_list(coq_eval_shards("C05_replay", HEADER, [body])[0]) == []
    raise SystemExit("replay of this unit: re-run ./check C05 (deterministic from VERIF_SEED)")
