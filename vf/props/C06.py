"""C06 -- everything presented as a linear operator is linear.

(J) per operator configuration the traced program (jaxpr) of the forward map and of the adjoint
is dumped into Coq and the linearity type system `lin_check` (LinAlg/Jaxpr.v, proved sound) is
evaluated by vm_compute: a kernel-checked certificate that THIS traced program is linear for ALL
inputs (complex-linear for complex operators).  (K) independent black-box cross-check on exact
dyadic vectors: A(0) = 0, A(a x + b y) = a A(x) + b A(y), complex scalars for complex operators.
Theorems about combinators / expression trees: LinAlg/AdjCalc.v (`expr_linear`).
"""
from __future__ import annotations

import random
import re

import numpy as np

from vf.common import Ctx, Broken, coq_eval_shards, coq_list
from vf import linop_lib as L
from vf import jaxpr2coq as J

HEADER = """From Coq Require Import List Bool String.
From SV Require Import LinAlg.Jaxpr.
Import ListNotations.
Open Scope string_scope.
"""


def blackbox(ctx, A, fn, in_shape, in_dtype, exact, key, unit, what_prefix, cplx=None):
    """returns True if a concrete non-linearity was found (and reported).
    cplx: scalars of the field the map is linear over -- complex for maps between complex spaces, real for maps between
    a real and a complex space (such a map, e.g. the adjoint y -> Re(A^H y) of an R -> C operator, is real-linear only)."""
    rng = ctx.rng
    if cplx is None:
        cplx = L.is_complex(in_dtype)
    tol = 0.0 if exact else (1e-4 if not L.is_double(in_dtype) else 1e-9)
    found = False
    try:
        z = fn(L.unflat(np.zeros(L.size_of(in_shape)), in_shape, in_dtype))
    except Exception as ex:
        # an evaluation that fails for a conforming input is C01's / C12's finding, not a
        # linearity statement
        ctx.notes.append(f"{unit} {what_prefix}: evaluation raises {type(ex).__name__} (reported by C01/C12)")
        return False
    if not (np.abs(L.flat(z)).max(initial=0.0) <= tol):      # NaN-safe: a NaN is a deviation
        ctx.violation(unit, what_prefix + " does not map zero to zero", {**key, "x": "0"},
                      expected="0", observed=float(np.abs(L.flat(z)).max()), oracle="A(0) = 0")
        found = True
    for _ in range(2):
        x = L.rand_dyadic(rng, in_shape, in_dtype)
        y = L.rand_dyadic(rng, in_shape, in_dtype)
        a = complex(rng.choice([2, -1, 0.5]), rng.choice([1, -2, 0.5])) if cplx else rng.choice([2.0, -0.5, 3.0])
        b = complex(rng.choice([1, -0.5]), rng.choice([0, 2])) if cplx else rng.choice([1.0, -2.0])
        lhs = L.flat(fn(a * x + b * y))
        rhs = a * L.flat(fn(x)) + b * L.flat(fn(y))
        scale = max(1.0, float(np.nan_to_num(np.abs(rhs)).max(initial=0.0)))
        if not (np.abs(lhs - rhs).max(initial=0.0) <= tol * scale):
            ctx.violation(unit, what_prefix + " is not linear: A(a x + b y) != a A(x) + b A(y)",
                          {**key, "x": L.flat(x).tolist().__repr__(), "y": repr(L.flat(y).tolist()), "a": str(a), "b": str(b)},
                          expected=repr(rhs.tolist())[:300], observed=repr(lhs.tolist())[:300],
                          oracle="exact evaluation on dyadic vectors")
            found = True
            break
    return found


def run(ctx: Ctx):
    if not getattr(ctx, "no_proofs", False):
        ctx.proofs()
    ctx.trusted += ["jax.make_jaxpr reflects the program XLA executes",
                    "per-primitive linearity table rule_tbl (LinAlg/Jaxpr.v): hypothesis sem_respects_rule of jaxpr_linear_if_accepted",
                    "vf/jaxpr2coq.py (dump, inlining of call primitives, single-output equations)"]
    level = 0 if ctx.quick else 1
    cat = L.catalogue(random.Random(ctx.seed), level)
    per, sel = {}, []
    for i, e in enumerate(cat):
        per[e.group] = per.get(e.group, 0) + 1
        if not ctx.quick or per[e.group] <= 8:
            sel.append((i, e))
    progs = []      # (key, which, cplx, eqs, out, A, fn, shapes)
    impls_of = {}
    nv = {}
    unsupported_all = {}
    for i, e in sel:
        key = {"catalogue_seed": ctx.seed, "level": level, "index": i, **e.key()}
        try:
            A = e.build()
        except Exception:
            continue
        ctx.count(e.cls, key)
        maps = [("forward", A, A.input_shape, A.input_dtype), ("adjoint", A.adj, A.output_shape, A.output_dtype)]
        # derived views of the first configurations of each class: the adjoint of the transpose,
        # the conjugate, and the Gram operator must be linear (complex-linear) too
        nv[e.group] = nv.get(e.group, 0) + 1
        if (not ctx.quick or nv[e.group] <= 2) and L.is_complex(A.input_dtype) == L.is_complex(A.output_dtype):
            try:
                T, Cj, G = A.T, A.conj(), A.gram_op
                maps += [("T.adj", T.adj, T.output_shape, T.output_dtype), ("conj()", Cj, Cj.input_shape, Cj.input_dtype),
                         ("gram_op", G, G.input_shape, G.input_dtype), ("T.T", T.T, A.input_shape, A.input_dtype)]
            except Exception as ex:
                ctx.notes.append(f"{e.cls}: derived views not available ({type(ex).__name__}); reported by C01/C12")
        for which, fn, shp, dt in maps:
            # complex-linearity is required of operators between complex spaces; maps between a
            # real and a complex space are real-linear (the Re<.,.> clause of C01)
            cplx = L.is_complex(A.input_dtype) and L.is_complex(A.output_dtype)
            try:
                eqs, out, unsup = J.dump(fn, shp, dt)
            except Exception as ex:
                ctx.notes.append(f"jaxpr of {e.cls} {which} not available ({type(ex).__name__}); black-box only")
                blackbox(ctx, A, fn, shp, dt, e.kind == L.EXACT and L.is_double(dt), key, e.cls, which, cplx=cplx and L.is_complex(dt))
                continue
            for u in unsup:
                unsupported_all[u] = unsupported_all.get(u, 0) + 1
            progs.append((key, which, cplx, eqs, out, e, fn, shp, dt, bool(unsup)))
            impls_of[len(progs) - 1] = J.dump.last_impls
    # Coq reflection
    shard = 40
    bodies = []
    for s in range(0, len(progs), shard):
        items = []
        for (key, which, cplx, eqs, out, e, fn, shp, dt, unsup) in progs[s:s + shard]:
            items.append(f"({'true' if cplx else 'false'}, ({J.coq_jaxpr(eqs)}, {out}%nat))")
        bodies.append("Definition progs : list (bool * (jaxpr * nat)) := " + coq_list(items, ";\n ") + ".\n"
                      "Eval vm_compute in (map (fun c => check_code (fst c) (snd c)) progs).")
    outs = coq_eval_shards("C06_jaxpr", HEADER, bodies)
    codes = []
    for o in outs:
        m = re.search(r"=\s*\[(.*?)\]\s*:\s*list nat", o, re.S)
        if not m:
            raise Broken("cannot parse lin_check output", o[-1500:])
        codes += [int(t.strip().replace("%nat", "")) for t in m.group(1).split(";") if t.strip()]
    n_acc = 0
    for (key, which, cplx, eqs, out, e, fn, shp, dt, unsup), code in zip(progs, codes):
        exact = e.kind == L.EXACT and L.is_double(dt)
        found = blackbox(ctx, None, fn, shp, dt, exact, key, e.cls, which + " map", cplx=cplx and L.is_complex(dt))
        if code == 0:
            n_acc += 1
            ctx.obligation(True, "lin_check")
            continue
        prim = eqs[code - 1][0] if code - 1 < len(eqs) else "(output is constant)"
        if unsup or prim == "UNSUPPORTED":
            ctx.notes.append(f"{e.cls} {which}: jaxpr contains control-flow primitives not covered by the "
                             f"type system ({prim}); decided by the black-box check only")
            continue
        # the certificate is missing: a genuine non-linearity, or a primitive pattern outside the table
        if not found:
            # targeted search: more random vectors
            for _ in range(6):
                if blackbox(ctx, None, fn, shp, dt, exact, key, e.cls, which + " map", cplx=cplx and L.is_complex(dt)):
                    found = True
                    break
        if not found:
            ctx.obligation(False, f"lin_check rejects the traced {which} map of {e.cls} at equation {code - 1} "
                                  f"(primitive {prim}, mode {'complex' if cplx else 'real'}-linear)",
                           repr({k: v for k, v in key.items() if k not in ('A', 'B', 'd', 'h', 'x', 'diagonal')}))
        else:
            ctx.obligation(False, f"lin_check rejects the traced {which} map of {e.cls} (primitive {prim}); failing input found")
    validate_rule_table(ctx, progs, codes, impls_of)
    presented_as_linear(ctx)
    derived_closures(ctx)
    ctx.traces = len(progs)
    ctx.notes.append(f"jaxprs certified linear by reflection: {n_acc}/{len(progs)}; "
                     f"programs with unsupported control flow: {unsupported_all}")
    if ctx.violations:
        # obligations that are explained by a concrete failing input are subsumed by the violation
        ctx.broken = [b for b in ctx.broken if "failing input found" not in b["what"]]


def validate_rule_table(ctx, progs, codes, impls_of):
    """The per-primitive table is the trusted hypothesis of the soundness theorem.  Exercise it: for a
    sample of accepted programs re-evaluate every intermediate variable on x, y and a x + b y and
    check that the kind lin_check assigned to the variable describes how its values relate."""
    import jax.numpy as jnp
    sample = [i for i, c in enumerate(codes) if c == 0 and i in impls_of]
    ctx.rng.shuffle(sample)
    sample = sample[: ctx.n(25, 400)]
    if not sample:
        return
    items = []
    for i in sample:
        key, which, cplx, eqs, out, e, fn, shp, dt, unsup = progs[i]
        items.append(f"({'true' if cplx else 'false'}, {J.coq_jaxpr(eqs)})")
    shard = 20
    bodies = ["Definition progs : list (bool * jaxpr) := " + coq_list(items[s:s + shard], ";\n ") + ".\n"
              "Eval vm_compute in (map (fun c => kinds_of (fst c) (snd c)) progs)." for s in range(0, len(items), shard)]
    kinds_all = []
    for o in coq_eval_shards("C06_kinds", HEADER, bodies):
        m = re.search(r"=\s*\[(.*)\]\s*:\s*list \(list nat\)", o, re.S)
        if not m:
            raise Broken("cannot parse kinds output", o[-800:])
        for grp in re.findall(r"\[([^\[\]]*)\]", m.group(1)):
            kinds_all.append([int(t.strip().replace("%nat", "")) for t in grp.split(";") if t.strip()])
    nvars = nbad = 0
    for i, kinds in zip(sample, kinds_all):
        key, which, cplx, eqs, out, e, fn, shp, dt, unsup = progs[i]
        n = L.size_of(shp)
        cdt = np.complex128 if L.is_complex(dt) else np.float64
        def vec():
            v = np.array([ctx.rng.randint(-8, 8) / 4 for _ in range(n)], dtype=np.float64)
            if L.is_complex(dt):
                v = v + 1j * np.array([ctx.rng.randint(-8, 8) / 4 for _ in range(n)])
            return jnp.asarray(v.astype(dt))
        a = complex(1.5, -0.5) if cplx else 1.5
        b = complex(-0.25, 2.0) if cplx else -2.0
        try:
            bad = J.validate_table(impls_of[i], kinds, vec(), vec(), a, b, 1e-9 if L.is_double(dt) else 2e-4)
        except Exception as ex:   # noqa: BLE001
            ctx.notes.append(f"table validation could not re-evaluate {e.cls} {which}: {type(ex).__name__}")
            continue
        if bad is None:
            continue
        nvars += len(kinds) - 1
        for (vi, k, dev) in bad[:1]:
            nbad += 1
            prim = eqs[vi - 1][0] if vi >= 1 else 'input'
            ctx.obligation(False, f"rule table: primitive {prim} typed {['constant','zero','linear','conjugate-linear'][k]} in the "
                                  f"jaxpr of {e.cls} {which} does not behave so on a sample (deviation {dev:.3g})",
                           repr({kk: vv for kk, vv in key.items() if kk not in ('A', 'B', 'd', 'h', 'x', 'diagonal')}))
    ctx.notes.append(f"rule table exercised on {nvars} intermediate variables of {len(sample)} accepted programs: "
                     f"{nbad} deviations")
    ctx.obligation(nbad == 0, "per-primitive table respected on all sampled primitive instances")


def presented_as_linear(ctx):
    """sums / differences / compositions involving a non-linear Operator: whatever comes back as a
    LinearOperator instance must be linear (the library's rule is LinearOperator +- Operator -> Operator)"""
    import scico.numpy as snp
    from scico import linop
    from scico.operator import Operator, Abs
    n = 3
    for dt in (np.float64, np.complex128):
        pool = L.leaf_pool(random.Random(ctx.seed + 5), n, dt)
        nls = {"square": Operator(input_shape=(n,), eval_fn=lambda x: x * x, input_dtype=dt),
               "abs": Operator(input_shape=(n,), eval_fn=lambda x: snp.abs(x) + 0 * x, input_dtype=dt)}
        for name in sorted(pool):
            for nl in sorted(nls):
                for op in ("add", "sub", "radd", "rsub", "comp", "rcomp", "comp2", "matmul2", "gramcomp"):
                    key = {"unit": "derived", "linear": name, "nonlinear": nl, "op": op, "dtype": np.dtype(dt).name}
                    A, F = pool[name](), nls[nl]
                    try:
                        R = {"add": lambda: A + F, "sub": lambda: A - F, "radd": lambda: F + A, "rsub": lambda: F - A,
                             "comp": lambda: A(F), "rcomp": lambda: F(A),
                             # an ALREADY composed linear operator applied to / matmul'ed with the non-linear one
                             "comp2": lambda: (A @ A)(F), "matmul2": lambda: (A @ A) @ F, "gramcomp": lambda: (A.T @ A) @ F}[op]()
                    except Exception:
                        continue
                    ctx.count("derived-with-nonlinear", key)
                    if isinstance(R, linop.LinearOperator):
                        blackbox(ctx, None, R, R.input_shape, R.input_dtype, False, key,
                                 "presented-as-linear:" + name, f"{op} with a non-linear operator returns a LinearOperator that")


def derived_closures(ctx):
    """scalar multiples / quotients, sums, differences and compositions of every algebra-specialised class carry their
    own forward AND adjoint closures: each must be linear (complex-linear on complex spaces), like the adjoint, the
    transposes and the Gram operator of the result"""
    n = 3
    for dt in (np.complex128, np.float64):
        pool = L.leaf_pool(random.Random(ctx.seed + 11), n, dt)
        if L.is_complex(dt):
            import scico.numpy as snp
            from scico import linop
            dre = L.rand_dyadic_np(random.Random(ctx.seed + 12), (n,))
            pool = dict(pool)
            pool["Diagonal(real diagonal, complex space)"] = lambda: linop.Diagonal(snp.array(dre), input_dtype=dt)
        names = sorted(pool)
        cs = [1.0 + 2.0j, -0.5j] if L.is_complex(dt) else [-0.5]
        for name in names:
            forms = [("mul", lambda A, c: A * c), ("rmul", lambda A, c: c * A), ("div", lambda A, c: A / c), ("neg", lambda A, c: -A)]
            other = pool[ctx.rng.choice(names)]
            forms += [("add", lambda A, c, o=other: A + o()), ("sub", lambda A, c, o=other: A - o()), ("comp", lambda A, c, o=other: A(o()))]
            forms += [("conj", lambda A, c: A.conj()), ("H", lambda A, c: A.H), ("gram", lambda A, c: A.gram_op)]
            for fname, mk in forms:
                if ctx.quick and fname in ("neg", "rmul", "conj") and ctx.rng.random() < 0.5:
                    continue
                c = ctx.rng.choice(cs)
                key = {"unit": "derived-closures", "class": name, "form": fname, "scalar": str(c), "dtype": np.dtype(dt).name,
                       "pool_seed": ctx.seed + 11}
                try:
                    B = mk(pool[name](), c)
                    views = [("forward", B, B.input_shape, B.input_dtype), ("adjoint", B.adj, B.output_shape, B.output_dtype),
                             ("H", B.H, B.output_shape, B.output_dtype)]
                    if fname in ("div", "mul", "sub"):
                        G = B.gram_op
                        views.append(("gram_op", G, G.input_shape, G.input_dtype))
                        views.append(("T.adj", B.T.adj, B.input_shape, B.input_dtype))
                except Exception:
                    continue            # rejected / failing combinations are C05's and C01's findings
                ctx.count("derived-closures", key)
                # the derived operator acts on the space of its operands: on the complex pass it is exercised with complex
                # vectors and complex scalars even if it DECLARES a real dtype (a declared-dtype defect is C12's matter;
                # dropping the imaginary part of its argument is a linearity defect)
                for vname, fn, shp, vdt in views:
                    use_dt = dt if L.is_complex(dt) else vdt
                    if blackbox(ctx, None, fn, shp, use_dt, False, key, "derived:" + name, f"{vname} of the {fname} form",
                                cplx=L.is_complex(dt)):
                        break


def replay(ctx: Ctx, rec):
    key = rec["input"]
    if key.get("unit") == "derived-closures":
        c2 = Ctx(ctx.pid, ctx.tier, key["pool_seed"] - 11)
        c2.known = []
        derived_closures(c2)
        return not c2.violations
    cat = L.catalogue(random.Random(key["catalogue_seed"]), key["level"])
    e = cat[key["index"]]
    A = e.build()
    c2 = Ctx(ctx.pid, ctx.tier, ctx.seed)
    c2.known = []
    bad = False
    for which, fn, shp, dt in (("forward", A, A.input_shape, A.input_dtype), ("adjoint", A.adj, A.output_shape, A.output_dtype)):
        both = L.is_complex(A.input_dtype) and L.is_complex(A.output_dtype)
        for _ in range(8):
            bad |= blackbox(c2, None, fn, shp, dt, e.kind == L.EXACT and L.is_double(dt), key, e.cls, which, cplx=both and L.is_complex(dt))
    return not bad
